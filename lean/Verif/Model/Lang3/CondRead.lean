import Verif.Model.Lang.SExpr
import Verif.Model.Lang3.Conditions
/-
Reader for the S-expression form of a program of the condition calculus, written by
`harness/internal/l3sx/cond.go` (`CProgram.SX`):

  prog  ::= (condprog iface* (comp (conforms N*) A0 B0 cfun*) (main call*))
  iface ::= (iface (conforms N*) ifun*)
  ifun  ::= (ifun NAME (pre cond*) (post cond*) [(default stmt)])
  cfun  ::= (cfun NAME (pre cond*) (post cond*) stmt)
  cond  ::= (emit iexp) | (test bexp)
  call  ::= (call NAME X Y)
  iexp  ::= (lit N) | (x) | (y) | (a) | (b) | (result) | (before iexp) | (add|sub|mul|div iexp iexp)
  bexp  ::= (tt) | (ff) | (lt|le|eq iexp iexp) | (and|or bexp bexp) | (not bexp)
  stmt  ::= (skip) | (seq stmt stmt) | (setA|setB|log|ret iexp) | (ite bexp stmt stmt) | (callA NAME iexp iexp)
-/
namespace Verif.Model.Lang3.Cond
open Verif.Model.Lang (SX)

partial def readI : SX → Option IExp
  | .list [.atom "lit", .atom n] => IExp.lit <$> n.toInt?
  | .list [.atom "x"] => some .x | .list [.atom "y"] => some .y
  | .list [.atom "a"] => some .a | .list [.atom "b"] => some .b
  | .list [.atom "result"] => some .result
  | .list [.atom "before", e] => IExp.before <$> readI e
  | .list [.atom "add", l, r] => IExp.add <$> readI l <*> readI r
  | .list [.atom "sub", l, r] => IExp.sub <$> readI l <*> readI r
  | .list [.atom "mul", l, r] => IExp.mul <$> readI l <*> readI r
  | .list [.atom "div", l, r] => IExp.div <$> readI l <*> readI r
  | _ => none

partial def readB : SX → Option BExp
  | .list [.atom "tt"] => some .tt | .list [.atom "ff"] => some .ff
  | .list [.atom "lt", l, r] => BExp.lt <$> readI l <*> readI r
  | .list [.atom "le", l, r] => BExp.le <$> readI l <*> readI r
  | .list [.atom "eq", l, r] => BExp.eq <$> readI l <*> readI r
  | .list [.atom "and", l, r] => BExp.and <$> readB l <*> readB r
  | .list [.atom "or", l, r] => BExp.or <$> readB l <*> readB r
  | .list [.atom "not", e] => BExp.not <$> readB e
  | _ => none

def readCond : SX → Option Cond
  | .list [.atom "emit", e] => Cond.emit <$> readI e
  | .list [.atom "test", t] => Cond.test <$> readB t
  | _ => none

def readCondList (head : String) : SX → Option (List Cond)
  | .list (.atom h :: cs) => if h == head then cs.mapM readCond else none
  | _ => none

partial def readStmt : SX → Option Stmt
  | .list [.atom "skip"] => some .skip
  | .list [.atom "seq", s, t] => Stmt.seq <$> readStmt s <*> readStmt t
  | .list [.atom "setA", e] => Stmt.setA <$> readI e
  | .list [.atom "setB", e] => Stmt.setB <$> readI e
  | .list [.atom "log", e] => Stmt.log <$> readI e
  | .list [.atom "ret", e] => Stmt.ret <$> readI e
  | .list [.atom "ite", c, t, e] => Stmt.ite <$> readB c <*> readStmt t <*> readStmt e
  | .list [.atom "callA", .atom m, e1, e2] => Stmt.callA m <$> readI e1 <*> readI e2
  | _ => none

def readNats : SX → Option (List Nat)
  | .list (.atom "conforms" :: xs) => xs.mapM fun | .atom n => n.toNat? | _ => none
  | _ => none

def readIFun : SX → Option IFun
  | .list [.atom "ifun", .atom n, pre, post] => do
    some ⟨n, ⟨← readCondList "pre" pre, ← readCondList "post" post⟩, none⟩
  | .list [.atom "ifun", .atom n, pre, post, .list [.atom "default", s]] => do
    some ⟨n, ⟨← readCondList "pre" pre, ← readCondList "post" post⟩, some (← readStmt s)⟩
  | _ => none

def readIface : SX → Option Iface
  | .list (.atom "iface" :: cs :: fs) => do some ⟨← readNats cs, ← fs.mapM readIFun⟩
  | _ => none

def readCFun : SX → Option CFun
  | .list [.atom "cfun", .atom n, pre, post, body] => do
    some ⟨n, ⟨← readCondList "pre" pre, ← readCondList "post" post⟩, ← readStmt body⟩
  | _ => none

def readCall : SX → Option Call
  | .list [.atom "call", .atom f, .atom x, .atom y] => do some ⟨f, ← x.toInt?, ← y.toInt?⟩
  | _ => none

def readProgramSX : SX → Option Program
  | .list (.atom "condprog" :: rest) => do
    let n := rest.length
    if n < 2 then none else
    let ifs ← (rest.take (n - 2)).mapM readIface
    match rest.drop (n - 2) with
    | [.list (.atom "comp" :: cs :: .atom a0 :: .atom b0 :: fs), .list (.atom "main" :: calls)] =>
      some ⟨ifs, ← readNats cs, ← a0.toInt?, ← b0.toInt?, ← fs.mapM readCFun, ← calls.mapM readCall⟩
    | _ => none
  | _ => none

def readProgram (s : String) : Option Program := SX.parse s >>= readProgramSX

end Verif.Model.Lang3.Cond
