import Verif.Model.Lang3.Conformance
/-
Core calculus for event emission (property C48).

What is modelled (code in /repo):
  * `interpreter/interpreter_statement.go` `VisitEmitStatement`: the arguments are evaluated left to right,
    each is converted/boxed to the declared parameter type *with validation*
    (`ConvertAndBoxWithValidation`), and the values are handed to `EmitEvent` together with the event type;
  * `runtime/events.go` `EmitEventFields` + `runtime/convertValues.go` `exportEvent`: the number of values
    must equal the number of constructor parameters; the payload's fields are the exported values in that
    order, typed by the exported event type (fields = constructor parameters in declaration order, type ID);
  * `interpreter/value_composite.go` `CompositeValue.Destroy`: the default destruction event
    (`ResourceDestroyed`) of a resource is *constructed first* — its default-argument expressions are
    evaluated with `self` bound to the resource being destroyed (`evaluateDefaultDestroyEvent`) — then the
    nested resources are destroyed (emitting their events), and only then the event is emitted (Go `defer`);
  * `emit` conditions of `pre`/`post` blocks emit like statements (`visitCondition`).

The calculus: top-level events with parameters of types Int / UInt8 / Int64 / Bool / String / Address /
optionals / arrays of those; resources `R0 … Rn` with value fields, an optional nested resource field
`inner: @Rj` (j < i), setters, and an optional `ResourceDestroyed` event whose default arguments are
literals, `self.f` or `self.inner.f`; resource interfaces `I0 … Im` (a DAG of conformances) with their own
`ResourceDestroyed` events (defaults: literals or `self.f0`), emitted for every effective conformance of
the destroyed resource in conformance order (`distinctConformances`) before the resource's own event;
global functions `fun fk(_ p: Int)` with `emit` conditions in `pre` and `post`;
`main` creates, updates and destroys resources, emits, calls.  Left out: events declared in contracts /
imported, attachments' destroy events (`base`), resource
arrays/dictionaries, dictionary / path / struct / enum-typed parameters, dictionary-index default arguments.
Core Lean only.
-/
namespace Verif.Model.Lang3.Events
open Verif.Model.Lang3 (effectiveConformances)

inductive Ty where
  | int (name : String)        -- Int, UInt8, Int64
  | bool | string | address
  | opt (t : Ty)
  | arr (t : Ty)
  deriving DecidableEq, Repr, Inhabited

inductive Val where
  | int (ty : String) (n : Int)
  | bool (b : Bool)
  | str (s : String)
  | addr (n : Nat)
  | nil
  | some (v : Val)
  | arr (vs : List Val)
  deriving Repr, Inhabited

def intInRange (ty : String) (n : Int) : Bool :=
  match ty with
  | "Int" => true
  | "UInt8" => 0 ≤ n && n ≤ 255
  | "Int64" => -9223372036854775808 ≤ n && n ≤ 9223372036854775807
  | _ => false

mutual
/-- dynamic conformance of a value to a type (what the validation of a transfer checks) -/
def hasTy : Val → Ty → Bool
  | .int ty n, .int ty' => ty == ty' && intInRange ty n
  | .bool _, .bool => true
  | .str _, .string => true
  | .addr _, .address => true
  | .nil, .opt _ => true
  | .some v, .opt t => hasTy v t
  | .arr vs, .arr t => allHaveTy vs t
  | _, _ => false
def allHaveTy : List Val → Ty → Bool
  | [], _ => true
  | v :: vs, t => hasTy v t && allHaveTy vs t
end

/-- boxing on transfer to an optional-typed target (`BoxOptional`); other conversions are identities
for the types of the calculus -/
def box : Ty → Val → Val
  | .opt _, .nil => .nil
  | .opt t, .some v => .some (box t v)
  | .opt t, v => .some (box t v)
  | _, v => v

structure Param where
  name : String
  ty : Ty
  deriving Repr, Inhabited

structure EventDecl where
  id : String              -- qualified identifier: `E0`, `R1.ResourceDestroyed`
  params : List Param
  deriving Repr, Inhabited

/-- host payload -/
structure Event where
  ty : String
  fields : List (String × Val)
  deriving Repr, Inhabited

inductive Err where
  | transferType            -- ValueTransferTypeError (validation failed)
  | argCount                -- "event emission value mismatch"
  | forceNil                -- ForceNilError: `e!` on nil
  | internal (what : String)
  deriving Repr, Inhabited, DecidableEq

/-- resource value: type index, value fields (declaration order), nested resource -/
inductive Res where
  | leaf (ty : Nat) (fields : List Val)
  | node (ty : Nat) (fields : List Val) (inner : Res)
  deriving Repr, Inhabited

def Res.ty : Res → Nat | .leaf t _ => t | .node t _ _ => t
def Res.fields : Res → List Val | .leaf _ f => f | .node _ f _ => f
def Res.inner : Res → Option Res | .leaf _ _ => none | .node _ _ i => some i
def Res.withFields : Res → List Val → Res
  | .leaf t _, f => .leaf t f
  | .node t _ i, f => .node t f i
def Res.mk (ty : Nat) (fields : List Val) : Option Res → Res
  | none => .leaf ty fields
  | some i => .node ty fields i

/-- default-argument expressions of a `ResourceDestroyed` event -/
inductive DExp where
  | lit (v : Val)
  | field (f : Nat)            -- self.f
  | innerField (f : Nat)       -- self.inner.f
  deriving Repr, Inhabited

structure DParam where
  name : String
  ty : Ty
  dflt : DExp
  deriving Repr, Inhabited

structure ResDecl where
  fields : List Param
  inner : Option Nat
  destroyEvent : Option (List DParam)
  conforms : List Nat := []
  deriving Repr, Inhabited

structure IfaceDecl where
  conforms : List Nat
  destroyEvent : Option (List DParam)
  deriving Repr, Inhabited

inductive Exp where
  | lit (v : Val)
  | param                       -- the enclosing function's parameter
  | rfield (x : Nat) (f : Nat)  -- field of a resource variable
  | tr (id : Nat) (e : Exp)     -- logging identity function: observes evaluation order
  | cond (t : Ty) (c a b : Exp) -- `c ? a : b` of static type `t` (the branch value is converted to `t`)
  | chain (present : Bool) (e : Exp)  -- `mk(present, e)?.n`: optional chaining on a struct value or nil
  | coalesce (a b : Exp)        -- `a ?? b`, `a` of optional type, `b` of its element type
  | force (e : Exp)             -- `e!`
  | cast (t : Ty) (e : Exp)     -- `e as t` (static cast: converts/boxes to `t`)
  | castq (t : Ty) (e : Exp)    -- `anyS(e) as? t` (`t` not optional): some value / nil by dynamic type
  deriving Repr, Inhabited

/-- `create Ri(args…, inner: <- create …)` -/
inductive RExp where
  | leaf (ty : Nat) (args : List Exp)
  | node (ty : Nat) (args : List Exp) (inner : RExp)
  deriving Repr, Inhabited

structure EmitSpec where
  ev : Nat
  args : List Exp
  deriving Repr, Inhabited

inductive Stmt where
  | emit (e : EmitSpec)
  | log (e : Exp)
  | create (x : Nat) (r : RExp)
  | setField (x : Nat) (f : Nat) (e : Exp)
  | setInnerField (x : Nat) (f : Nat) (e : Exp)
  | destroy (x : Nat)
  | call (f : Nat) (arg : Exp)
  deriving Repr, Inhabited

structure FunDecl where
  pre : List EmitSpec
  body : List EmitSpec       -- statements of the body: emits only
  post : List EmitSpec
  deriving Repr, Inhabited

structure Program where
  events : List EventDecl
  resources : List ResDecl
  funs : List FunDecl
  main : List Stmt
  ifaces : List IfaceDecl := []
  deriving Repr, Inhabited

inductive Obs where
  | log (s : String)
  | event (e : Event)
  deriving Repr, Inhabited

structure St where
  vars : List (Nat × Res)
  tr : List Obs
  deriving Repr, Inhabited

abbrev M (α : Type) := St → Except Err α × St
def M.pure (v : α) : M α := fun s => (.ok v, s)
def M.bind (m : M α) (f : α → M β) : M β := fun s =>
  match m s with | (.ok v, s') => f v s' | (.error e, s') => (.error e, s')
instance : Monad M where
  pure := M.pure
  bind := M.bind

def fail (e : Err) : M α := fun s => (.error e, s)
def trace (o : Obs) : M Unit := fun s => (.ok (), { s with tr := s.tr ++ [o] })
def getVar (x : Nat) : M Res := fun s =>
  match s.vars.find? (·.1 == x) with | some (_, r) => (.ok r, s) | none => (.error (.internal "var"), s)
def setVar (x : Nat) (r : Res) : M Unit := fun s =>
  (.ok (), { s with vars := (x, r) :: s.vars.filter (·.1 != x) })
def dropVar (x : Nat) : M Unit := fun s => (.ok (), { s with vars := s.vars.filter (·.1 != x) })

def evalExp (param : Option Val) : Exp → M Val
  | .lit v => pure v
  | .param => match param with | some v => pure v | none => fail (.internal "param")
  | .rfield x f => do
    let r ← getVar x
    match r.fields[f]? with | some v => pure v | none => fail (.internal "field")
  | .tr id e => do
    -- `tr(id, e)`: the argument is evaluated first, then the body logs `id`
    let v ← evalExp param e
    trace (.log (toString id))
    pure v
  | .cond t c a b => do
    -- only the taken branch is evaluated; its value is converted to the type of the conditional
    let vc ← evalExp param c
    match vc with
    | .bool true => do let v ← evalExp param a; pure (box t v)
    | .bool false => do let v ← evalExp param b; pure (box t v)
    | _ => fail (.internal "cond")
  | .chain present e => do
    let v ← evalExp param e
    pure (if present then .some v else .nil)
  | .coalesce a b => do
    -- the right operand is evaluated only when the left one is nil
    let va ← evalExp param a
    match va with
    | .nil => evalExp param b
    | .some v => pure v
    | _ => fail (.internal "coalesce")
  | .force e => do
    let v ← evalExp param e
    match v with
    | .nil => fail .forceNil
    | .some u => pure u
    | _ => fail (.internal "force")
  | .cast t e => do
    let v ← evalExp param e
    pure (box t v)
  | .castq t e => do
    let v ← evalExp param e
    pure (if hasTy v t then .some v else .nil)

/-- arguments left to right, each transferred to its parameter type with validation -/
def evalArgs (param : Option Val) : List Exp → List Param → M (List Val)
  | [], [] => pure []
  | e :: es, p :: ps => do
    let v ← evalExp param e
    let v' := box p.ty v
    if hasTy v' p.ty then
      let rest ← evalArgs param es ps
      pure (v' :: rest)
    else fail .transferType
  | _, _ => fail .argCount

/-- `EmitEventFields` / `exportEvent`: the payload -/
def mkEvent (d : EventDecl) (vals : List Val) : Event :=
  ⟨d.id, (d.params.map (·.name)).zip vals⟩

def emitEvent (p : Program) (param : Option Val) (e : EmitSpec) : M Unit := do
  match p.events[e.ev]? with
  | none => fail (.internal "event")
  | some d =>
    let vals ← evalArgs param e.args d.params
    trace (.event (mkEvent d vals))

def emitAll (p : Program) (param : Option Val) : List EmitSpec → M Unit
  | [] => pure ()
  | e :: es => do emitEvent p param e; emitAll p param es

def resEventId (i : Nat) : String := "R" ++ toString i ++ ".ResourceDestroyed"

def evalDExp (r : Res) : DExp → Except Err Val
  | .lit v => .ok v
  | .field f => match r.fields[f]? with | some v => .ok v | none => .error (.internal "dfield")
  | .innerField f => match r.inner with
    | some i => (match i.fields[f]? with | some v => .ok v | none => .error (.internal "dfield"))
    | none => .error (.internal "dinner")

/-- `evaluateDefaultDestroyEvent` + the constructor: values of the default arguments on `r`,
transferred to the parameter types -/
def evalDefaults (r : Res) : List DParam → Except Err (List Val)
  | [] => .ok []
  | dp :: dps =>
    match evalDExp r dp.dflt with
    | .error e => .error e
    | .ok v =>
      if hasTy (box dp.ty v) dp.ty then
        match evalDefaults r dps with
        | .ok rest => .ok (box dp.ty v :: rest)
        | .error e => .error e
      else .error .transferType

def destroyEventOf (p : Program) (r : Res) : Except Err (Option Event) :=
  match p.resources[r.ty]? with
  | none => .error (.internal "resource")
  | some d =>
    match d.destroyEvent with
    | none => .ok none
    | some ps =>
      match evalDefaults r ps with
      | .ok vals => .ok (some ⟨resEventId r.ty, (ps.map (·.name)).zip vals⟩)
      | .error e => .error e

def ifaceEventId (i : Nat) : String := "I" ++ toString i ++ ".ResourceDestroyed"

def Program.graph (p : Program) (i : Nat) : List Nat :=
  match p.ifaces[i]? with | some it => it.conforms | none => []

/-- the `ResourceDestroyed` events inherited from the interfaces `is` (in that order), constructed on `r` -/
def evalIfaceEvents (p : Program) (r : Res) : List Nat → Except Err (List Event)
  | [] => .ok []
  | i :: is =>
    match p.ifaces[i]? with
    | none => .error (.internal "iface")
    | some it =>
      match it.destroyEvent with
      | none => evalIfaceEvents p r is
      | some ps =>
        match evalDefaults r ps with
        | .error e => .error e
        | .ok vals =>
          match evalIfaceEvents p r is with
          | .ok rest => .ok (⟨ifaceEventId i, (ps.map (·.name)).zip vals⟩ :: rest)
          | .error e => .error e

/-- inherited default destruction events: one per effective conformance, in conformance order -/
def ifaceEventsOf (p : Program) (r : Res) : Except Err (List Event) :=
  match p.resources[r.ty]? with
  | none => .error (.internal "resource")
  | some d => evalIfaceEvents p r (effectiveConformances p.graph (p.ifaces.length + 1) d.conforms)

def emitList : List Event → M Unit
  | [] => pure ()
  | e :: es => do trace (.event e); emitList es

def emitOpt : Option Event → M Unit
  | some e => trace (.event e)
  | none => pure ()

/-- `CompositeValue.Destroy`: construct the event, destroy the nested resource, then emit -/
def destroyRes (p : Program) : Res → M Unit
  | .leaf ty fields => fun s =>
    match ifaceEventsOf p (.leaf ty fields) with
    | .error e => (.error e, s)
    | .ok ievs =>
      match destroyEventOf p (.leaf ty fields) with
      | .error e => (.error e, s)
      | .ok ev => (emitList ievs >>= fun _ => emitOpt ev) s
  | .node ty fields inner => fun s =>
    match ifaceEventsOf p (.node ty fields inner) with
    | .error e => (.error e, s)
    | .ok ievs =>
      match destroyEventOf p (.node ty fields inner) with
      | .error e => (.error e, s)
      | .ok ev => (destroyRes p inner >>= fun _ => emitList ievs >>= fun _ => emitOpt ev) s

/-- `create`: arguments left to right (value fields, then the nested resource), transferred to the
field types -/
def evalRExp (p : Program) : RExp → M Res
  | .leaf ty args =>
    match p.resources[ty]? with
    | none => fail (.internal "resource")
    | some d => do
      let vals ← evalArgs none args d.fields
      match d.inner with
      | none => pure (.leaf ty vals)
      | some _ => fail (.internal "inner")
  | .node ty args inner =>
    match p.resources[ty]? with
    | none => fail (.internal "resource")
    | some d => do
      let vals ← evalArgs none args d.fields
      match d.inner with
      | some _ => do let i ← evalRExp p inner; pure (.node ty vals i)
      | none => fail (.internal "inner")

def setNth (l : List Val) (i : Nat) (v : Val) : List Val := l.set i v

def execStmt (p : Program) : Stmt → M Unit
  | .emit e => emitEvent p none e
  | .log e => do
    let v ← evalExp none e
    trace (.log (match v with | .int _ n => toString n | _ => "?"))
  | .create x r => do let v ← evalRExp p r; setVar x v
  | .setField x f e => do
    let r ← getVar x
    let v ← evalExp none e
    match p.resources[r.ty]? with
    | some d => match d.fields[f]? with
      | some fp =>
        let v' := box fp.ty v
        if hasTy v' fp.ty then setVar x (r.withFields (setNth r.fields f v')) else fail .transferType
      | none => fail (.internal "field")
    | none => fail (.internal "resource")
  | .setInnerField x f e => do
    let r ← getVar x
    let v ← evalExp none e
    match r.inner with
    | some i =>
      match p.resources[i.ty]? with
      | some d => match d.fields[f]? with
        | some fp =>
          let v' := box fp.ty v
          if hasTy v' fp.ty then setVar x (.node r.ty r.fields (i.withFields (setNth i.fields f v')))
          else fail .transferType
        | none => fail (.internal "field")
      | none => fail (.internal "resource")
    | none => fail (.internal "inner")
  | .destroy x => do
    let r ← getVar x
    dropVar x
    destroyRes p r
  | .call f arg => do
    match p.funs[f]? with
    | none => fail (.internal "fun")
    | some fd =>
      let v ← evalExp none arg
      emitAll p (some v) fd.pre
      emitAll p (some v) fd.body
      emitAll p (some v) fd.post

def execAll (p : Program) : List Stmt → M Unit
  | [] => pure ()
  | s :: ss => do execStmt p s; execAll p ss

def Program.run (p : Program) : Except Err Unit × St := execAll p p.main ⟨[], []⟩

end Verif.Model.Lang3.Events
