import Verif.Model.Lang3.Conformance
/-
Core calculus for function pre- and post-conditions (property C10).

What is modelled (code in /repo):
  * `sema/before_extractor.go` + `sema/post_conditions_rewrite.go`: every `before(e)` of a
    post-condition block is replaced by a fresh variable; the extracted expressions become
    "before statements" (`extractI/extractB/rewriteConds`);
  * `interpreter/interpreter.go` `visitFunctionBody`: before statements, pre-conditions, body, `result`,
    post-conditions (`visitFunctionBody`); `visitCondition`: an `emit` condition emits, a test
    condition that evaluates to false raises `ConditionError` (`runConds`);
  * `declareNonEnumCompositeValue`: the functions of a composite are its own functions, then the default
    functions of its effective conformances applied in *reverse* order (the first one set wins, so the
    conformance latest in the list wins), then every function is wrapped by the condition wrappers of the
    conformances, again in reverse order, so the first conformance is outermost
    (`functionConditionsWrapper`, here `FnVal.wrapped`; `interpFn`);
  * `bbq/compiler/desugar.go` `desugarFunctionBlock` / `desugarPreConditions` / `desugarPostConditions` /
    `inheritedFunctionsWithConditionsAndEvents` / `inheritedDefaultFunctions`: the VM has no wrappers; every
    composite function is rewritten into one function whose statements are: own before statements,
    inherited before statements (conformances in reverse order), inherited pre-conditions (in order), own
    pre-conditions, body, `result`, own post-conditions, inherited post-conditions (reverse order); an
    inherited default function is the *first* one in conformance order (`desugarFn`).  The synthetic
    before-variables have program-wide unique names, modelled by index shifting (`shiftI`).

The calculus: every function is `fun f(_ x: Int, _ y: Int): Int` on one composite with two `Int` fields
`a`, `b`; bodies assign fields, log, branch, call other functions of `self`, return.  Conditions are
`emit E(id: e)` or boolean tests over `x y self.a self.b result before(..)` with `+ - * /` (division by
zero is the only run-time fault of an expression).  Left out: other value types, resources (`result` as a
reference), void functions, initializer conditions, conditions of global functions and transactions,
condition messages.  Where a declaration lives is not part of the calculus: the stream also renders a
program as two deployed contracts (interfaces in one, the composite in another at the same or another
address) and a script (`mprog`) — the before-variable names are program-wide unique in /repo
(prefix = location ID), which is what `shiftI` stands for.
Core Lean only.
-/
namespace Verif.Model.Lang3.Cond

inductive Err where
  | divZero
  | condFailed (post : Bool)
  | missingReturn          -- a body ended without `return` (interpreter: ValueTransferTypeError)
  | internal (what : String)
  | outOfFuel
  deriving DecidableEq, Repr, Inhabited

inductive Ev where
  | log (n : Int)
  | emit (n : Int)
  deriving DecidableEq, Repr, Inhabited

/-- integer expressions -/
inductive IExp where
  | lit (n : Int)
  | x | y | a | b
  | result
  | before (e : IExp)      -- source form, post-conditions only
  | bvar (k : Nat)         -- rewritten form: the k-th before variable of the enclosing function
  | add (l r : IExp) | sub (l r : IExp) | mul (l r : IExp) | div (l r : IExp)
  deriving DecidableEq, Repr, Inhabited

inductive BExp where
  | tt | ff
  | lt (l r : IExp) | le (l r : IExp) | eq (l r : IExp)
  | and (l r : BExp) | or (l r : BExp) | not (e : BExp)
  deriving DecidableEq, Repr, Inhabited

inductive Cond where
  | emit (e : IExp)
  | test (t : BExp)
  deriving DecidableEq, Repr, Inhabited

/-! ## Evaluation of (view) expressions: a pure function of the environment -/

structure Env where
  x : Int
  y : Int
  a : Int
  b : Int
  result : Option Int := none
  befores : List Int := []
  deriving Repr, Inhabited

def evalI (env : Env) : IExp → Except Err Int
  | .lit n => .ok n
  | .x => .ok env.x | .y => .ok env.y | .a => .ok env.a | .b => .ok env.b
  | .result => match env.result with | some r => .ok r | none => .error (.internal "result")
  | .before _ => .error (.internal "before")
  | .bvar k => match env.befores[k]? with | some v => .ok v | none => .error (.internal "bvar")
  | .add l r => do let u ← evalI env l; let v ← evalI env r; pure (u + v)
  | .sub l r => do let u ← evalI env l; let v ← evalI env r; pure (u - v)
  | .mul l r => do let u ← evalI env l; let v ← evalI env r; pure (u * v)
  | .div l r => do
    let u ← evalI env l; let v ← evalI env r
    if v = 0 then .error .divZero else pure (Int.tdiv u v)

def evalB (env : Env) : BExp → Except Err Bool
  | .tt => .ok true | .ff => .ok false
  | .lt l r => do let u ← evalI env l; let v ← evalI env r; pure (decide (u < v))
  | .le l r => do let u ← evalI env l; let v ← evalI env r; pure (decide (u ≤ v))
  | .eq l r => do let u ← evalI env l; let v ← evalI env r; pure (decide (u = v))
  | .and l r => do let u ← evalB env l; if u then evalB env r else pure false
  | .or l r => do let u ← evalB env l; if u then pure true else evalB env r
  | .not e => do let u ← evalB env e; pure (!u)

/-! ## `before` extraction (sema/before_extractor.go) -/

/-- returns the rewritten expression and the extended list of extracted expressions; the fresh
variable of `before(e)` is allocated after those of `e`'s own nested `before`s. -/
def extractI : IExp → List IExp → IExp × List IExp
  | .before e, acc =>
    let (e', acc') := extractI e acc
    (.bvar acc'.length, acc' ++ [e'])
  | .add l r, acc => let (l', a1) := extractI l acc; let (r', a2) := extractI r a1; (.add l' r', a2)
  | .sub l r, acc => let (l', a1) := extractI l acc; let (r', a2) := extractI r a1; (.sub l' r', a2)
  | .mul l r, acc => let (l', a1) := extractI l acc; let (r', a2) := extractI r a1; (.mul l' r', a2)
  | .div l r, acc => let (l', a1) := extractI l acc; let (r', a2) := extractI r a1; (.div l' r', a2)
  | e, acc => (e, acc)

def extractB : BExp → List IExp → BExp × List IExp
  | .lt l r, acc => let (l', a1) := extractI l acc; let (r', a2) := extractI r a1; (.lt l' r', a2)
  | .le l r, acc => let (l', a1) := extractI l acc; let (r', a2) := extractI r a1; (.le l' r', a2)
  | .eq l r, acc => let (l', a1) := extractI l acc; let (r', a2) := extractI r a1; (.eq l' r', a2)
  | .and l r, acc => let (l', a1) := extractB l acc; let (r', a2) := extractB r a1; (.and l' r', a2)
  | .or l r, acc => let (l', a1) := extractB l acc; let (r', a2) := extractB r a1; (.or l' r', a2)
  | .not e, acc => let (e', a1) := extractB e acc; (.not e', a1)
  | e, acc => (e, acc)

def extractConds : List Cond → List IExp → List Cond × List IExp
  | [], acc => ([], acc)
  | .emit e :: cs, acc =>
    let (e', a1) := extractI e acc; let (cs', a2) := extractConds cs a1; (.emit e' :: cs', a2)
  | .test t :: cs, acc =>
    let (t', a1) := extractB t acc; let (cs', a2) := extractConds cs a1; (.test t' :: cs', a2)

/-- the conditions of one function declaration (source form) -/
structure Conds where
  pre : List Cond
  post : List Cond
  deriving DecidableEq, Repr, Inhabited

def Conds.isEmpty (c : Conds) : Bool := c.pre.isEmpty && c.post.isEmpty

/-- `PostConditionsRewrite`: before statements + rewritten post-conditions, with the pre-conditions -/
structure Layer where
  befores : List IExp
  pre : List Cond
  post : List Cond
  deriving DecidableEq, Repr, Inhabited

def rewrite (c : Conds) : Layer :=
  let (post', bs) := extractConds c.post []
  ⟨bs, c.pre, post'⟩

/-! ## Statements and the execution monad -/

inductive Stmt where
  | skip
  | seq (s t : Stmt)
  | setA (e : IExp) | setB (e : IExp)
  | log (e : IExp)
  | ret (e : IExp)
  | ite (c : BExp) (t e : Stmt)
  /-- `self.a = self.m(e1, e2)` -/
  | callA (m : String) (e1 e2 : IExp)
  deriving DecidableEq, Repr, Inhabited

structure St where
  a : Int
  b : Int
  tr : List Ev
  deriving DecidableEq, Repr, Inhabited

abbrev M (α : Type) := St → Except Err α × St

@[inline] def M.pure (v : α) : M α := fun s => (.ok v, s)
@[inline] def M.bind (m : M α) (f : α → M β) : M β := fun s =>
  match m s with
  | (.ok v, s') => f v s'
  | (.error e, s') => (.error e, s')
instance : Monad M where pure := M.pure; bind := M.bind

def M.fail (e : Err) : M α := fun s => (.error e, s)
def M.trace (ev : Ev) : M Unit := fun s => (.ok (), { s with tr := s.tr ++ [ev] })
def M.get : M St := fun s => (.ok s, s)
def M.lift (r : Except Err α) : M α := fun s => (r, s)

def envOf (x y : Int) (s : St) : Env := ⟨x, y, s.a, s.b, none, []⟩

/-- body statements; `call m u v` invokes function `m` of `self`.  Result: `some v` = returned -/
def exec (call : String → Int → Int → M Int) (x y : Int) : Stmt → M (Option Int)
  | .skip => pure none
  | .seq s t => do
    match ← exec call x y s with
    | some v => pure (some v)
    | none => exec call x y t
  | .setA e => fun s => match evalI (envOf x y s) e with
    | .ok v => (.ok none, { s with a := v }) | .error er => (.error er, s)
  | .setB e => fun s => match evalI (envOf x y s) e with
    | .ok v => (.ok none, { s with b := v }) | .error er => (.error er, s)
  | .log e => fun s => match evalI (envOf x y s) e with
    | .ok v => (.ok none, { s with tr := s.tr ++ [.log v] }) | .error er => (.error er, s)
  | .ret e => fun s => match evalI (envOf x y s) e with
    | .ok v => (.ok (some v), s) | .error er => (.error er, s)
  | .ite c t e => fun s => match evalB (envOf x y s) c with
    | .ok true => exec call x y t s
    | .ok false => exec call x y e s
    | .error er => (.error er, s)
  | .callA m e1 e2 => fun s =>
    match evalI (envOf x y s) e1 with
    | .error er => (.error er, s)
    | .ok u => match evalI (envOf x y s) e2 with
      | .error er => (.error er, s)
      | .ok v => match call m u v s with
        | (.ok r, s') => (.ok none, { s' with a := r })
        | (.error er, s') => (.error er, s')

/-- a function body run to its return value (missing `return`: interpreter raises
`ValueTransferTypeError`, the VM's `opReturn` path the same) -/
def runBody (call : String → Int → Int → M Int) (x y : Int) (body : Stmt) : M Int := do
  match ← exec call x y body with
  | some v => pure v
  | none => M.fail .missingReturn

/-! ## visitFunctionBody -/

/-- before statements, in order; each may use the variables declared before it -/
def evalBefores (env : Env) : List IExp → List Int → Except Err (List Int)
  | [], acc => .ok acc
  | e :: es, acc => do
    let v ← evalI { env with befores := acc } e
    evalBefores env es (acc ++ [v])

/-- `visitConditions` -/
def runConds (post : Bool) (env : Env) : List Cond → M Unit
  | [] => pure ()
  | .emit e :: cs => do
    let v ← M.lift (evalI env e)
    M.trace (.emit v)
    runConds post env cs
  | .test t :: cs => do
    let v ← M.lift (evalB env t)
    if v then runConds post env cs else M.fail (.condFailed post)

/-- `visitFunctionBody(beforeStatements, preConditions, body, postConditions)` -/
def visitFunctionBody (L : Layer) (x y : Int) (body : M Int) : M Int := do
  let s0 ← M.get
  let bs ← M.lift (evalBefores (envOf x y s0) L.befores [])
  runConds false (envOf x y s0) L.pre
  let r ← body
  let s1 ← M.get
  runConds true { envOf x y s1 with result := some r, befores := bs } L.post
  pure r

/-! ## Function values: the interpreter's wrappers -/

inductive FnVal where
  | base (L : Layer) (body : Stmt)
  | wrapped (L : Layer) (inner : FnVal)
  deriving Repr, Inhabited

def FnVal.run (call : String → Int → Int → M Int) (x y : Int) : FnVal → M Int
  | .base L body => visitFunctionBody L x y (runBody call x y body)
  | .wrapped L inner => visitFunctionBody L x y (inner.run call x y)

/-- all condition layers in scope of a function value, outermost first (own conditions last) -/
def FnVal.layers : FnVal → List Layer
  | .base L _ => [L]
  | .wrapped L inner => L :: inner.layers

/-! ## Programs -/

structure IFun where
  name : String
  conds : Conds
  dflt : Option Stmt
  deriving Repr, Inhabited

structure Iface where
  conforms : List Nat
  funs : List IFun
  deriving Repr, Inhabited

structure CFun where
  name : String
  conds : Conds
  body : Stmt
  deriving Repr, Inhabited

structure Call where
  fn : String
  x : Int
  y : Int
  deriving Repr, Inhabited

structure Program where
  ifaces : List Iface
  conforms : List Nat
  a0 : Int
  b0 : Int
  funs : List CFun
  main : List Call
  deriving Repr, Inhabited

def Program.graph (p : Program) (i : Nat) : List Nat :=
  match p.ifaces[i]? with | some f => f.conforms | none => []

/-- effective conformances of the composite (`compositeType.EffectiveInterfaceConformances()`) -/
def Program.confs (p : Program) : List Nat :=
  effectiveConformances p.graph (p.ifaces.length + 1) p.conforms

def Program.ifun (p : Program) (i : Nat) (name : String) : Option IFun :=
  match p.ifaces[i]? with | some f => f.funs.find? (·.name == name) | none => none

/-- condition layers inherited for `name`, in conformance order (only declarations that have
conditions: `functionConditionsWrapper` returns nil / `addInheritedFunction` returns otherwise) -/
def Program.inherited (p : Program) (name : String) : List Layer :=
  p.confs.filterMap fun i =>
    match p.ifun i name with
    | some f => if f.conds.isEmpty then none else some (rewrite f.conds)
    | none => none

/-- default implementations available for `name`, in conformance order -/
def Program.defaults (p : Program) (name : String) : List Stmt :=
  p.confs.filterMap fun i => match p.ifun i name with | some f => f.dflt | none => none

def wrapAll (inh : List Layer) (fv : FnVal) : FnVal := inh.foldr FnVal.wrapped fv

/-- interpreter: own function, else the default applied by the *last* conformance in the list that
has one (defaults carry no conditions of their own); then wrapped, first conformance outermost. -/
def Program.interpFn (p : Program) (name : String) : Option FnVal :=
  let base : Option FnVal :=
    match p.funs.find? (·.name == name) with
    | some f => some (.base (rewrite f.conds) f.body)
    | none => (p.defaults name).getLast?.map (FnVal.base ⟨[], [], []⟩)
  base.map (wrapAll (p.inherited name))

/-! ## The VM's desugared form -/

def shiftI (n : Nat) : IExp → IExp
  | .bvar k => .bvar (k + n)
  | .before e => .before (shiftI n e)
  | .add l r => .add (shiftI n l) (shiftI n r)
  | .sub l r => .sub (shiftI n l) (shiftI n r)
  | .mul l r => .mul (shiftI n l) (shiftI n r)
  | .div l r => .div (shiftI n l) (shiftI n r)
  | e => e

def shiftB (n : Nat) : BExp → BExp
  | .lt l r => .lt (shiftI n l) (shiftI n r)
  | .le l r => .le (shiftI n l) (shiftI n r)
  | .eq l r => .eq (shiftI n l) (shiftI n r)
  | .and l r => .and (shiftB n l) (shiftB n r)
  | .or l r => .or (shiftB n l) (shiftB n r)
  | .not e => .not (shiftB n e)
  | e => e

def shiftC (n : Nat) : Cond → Cond
  | .emit e => .emit (shiftI n e)
  | .test t => .test (shiftB n t)

/-- inline the conditions of an enclosing (inherited) layer into a function's own layer:
before statements after the inner ones, pre-conditions in front, post-conditions behind; the outer
layer's before variables are renumbered behind the inner ones. -/
def merge (outer inner : Layer) : Layer :=
  let n := inner.befores.length
  ⟨inner.befores ++ outer.befores.map (shiftI n),
   outer.pre ++ inner.pre,
   inner.post ++ outer.post.map (shiftC n)⟩

/-- `desugarFunctionBlock`: all inherited layers inlined into the own layer -/
def desugarLayer (inh : List Layer) (own : Layer) : Layer := inh.foldr merge own

/-- VM: own function, else the *first* default in conformance order (`inheritedDefaultFunctions`:
"pick the closest"), with every inherited condition inlined. -/
def Program.desugarFn (p : Program) (name : String) : Option FnVal :=
  match p.funs.find? (·.name == name) with
  | some f => some (.base (desugarLayer (p.inherited name) (rewrite f.conds)) f.body)
  | none => (p.defaults name).head?.map (FnVal.base (desugarLayer (p.inherited name) ⟨[], [], []⟩))

/-! ## Whole-program runs -/

def invoke (table : String → Option FnVal) : Nat → String → Int → Int → M Int
  | 0, _, _, _ => M.fail .outOfFuel
  | fuel + 1, name, x, y =>
    match table name with
    | some fv => fv.run (invoke table fuel) x y
    | none => M.fail (.internal "no-function")

/-- `main`: the calls in order, each result logged; stops at the first error -/
def runMain (table : String → Option FnVal) (fuel : Nat) : List Call → M Unit
  | [] => pure ()
  | c :: cs => do
    let r ← invoke table fuel c.fn c.x c.y
    M.trace (.log r)
    runMain table fuel cs

def Program.init (p : Program) : St := ⟨p.a0, p.b0, []⟩

def Program.runInterp (p : Program) (fuel : Nat) : Except Err Unit × St :=
  runMain p.interpFn fuel p.main p.init

def Program.runVM (p : Program) (fuel : Nat) : Except Err Unit × St :=
  runMain p.desugarFn fuel p.main p.init

end Verif.Model.Lang3.Cond
