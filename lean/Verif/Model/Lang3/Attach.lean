/-
Core calculus for attachments (property C49).

What is modelled (code in /repo):
  * `interpreter/interpreter_expression.go` `VisitAttachExpression`: evaluate the base, run the attachment's
    initializer with `base` bound to (a reference to) the base value, transfer (move / copy) the base into
    the result, then `SetTypeKey`, which fails with `DuplicateAttachmentError` when the base already carries
    an attachment of that type (`interpreter/value_composite.go`);
  * `interpreter/interpreter_statement.go` `VisitRemoveStatement`: `RemoveTypeKey`; nothing happens when the
    attachment is absent; a resource attachment is destroyed (its `ResourceDestroyed` event sees `base`);
  * `CompositeValue.Destroy`: destroying a base destroys every attachment (each with `base` set) before the
    base's own event is emitted; `GetTypeKey` (`v[A]`): a reference to the attachment with `base` bound to the
    value it was read from; transfers (`<-`, array append/remove, struct copies) carry the hidden attachment
    fields along.

The calculus: two base types, a resource `R` and a struct `S`, each with fields `let id: Int`, `var n: Int`;
attachment types `A`, `B` for `R` (resources with a `ResourceDestroyed(id: Int = base.id, k: Int = self.k,
n: Int = base.n)` event) and `SA`, `SB` for `S`, each with `var k: Int`, `init(_ k: Int) { self.k = k + base.n }`,
`fun sum(): Int { return self.k + base.n }`, `fun setK(_ v: Int)`.  Statements work on variables: create,
attach, remove, move / copy, push to and pop from a resource array, `setN`, `v[A]?.sum()`, `v[A]?.setK(..)`,
access through a reference, `v[A] == nil`, destroy.
Left out: entitlement-mapped attachment access, `forEachAttachment`, attachments declared for interfaces,
account storage (moves go through variables and an array), attachments with resource fields,
attachment iteration mutation errors.
Core Lean only.
-/
namespace Verif.Model.Lang3.Attach

structure Comp where
  isRes : Bool
  id : Int
  n : Int
  /-- attachment table: (attachment type index, the attachment's field `k`), in insertion order -/
  atts : List (Nat × Int)
  deriving DecidableEq, Repr, Inhabited

inductive Obs where
  | log (s : String)
  | event (name : String) (fields : List (String × Int))
  deriving DecidableEq, Repr, Inhabited

inductive Err where
  | duplicateAttachment
  | internal (what : String)
  deriving DecidableEq, Repr, Inhabited

inductive Stmt where
  | create (x : Nat) (isRes : Bool) (id n : Int)
  /-- `let x' <- attach A(k) to <- x`  /  `var x' = attach SA(k) to x` -/
  | attach (x' : Nat) (a : Nat) (k : Int) (x : Nat)
  | remove (a : Nat) (x : Nat)
  /-- `let x' <- x`  /  `var x' = x` -/
  | move (x' x : Nat)
  | push (x : Nat)
  | pop (x' : Nat)
  | setN (x : Nat) (v : Int)
  | sum (x a : Nat)
  | setK (x a : Nat) (v : Int)
  | viaRef (x a : Nat)
  | has (x a : Nat)
  | destroy (x : Nat)
  deriving DecidableEq, Repr, Inhabited

structure St where
  vars : List (Nat × Comp)
  stash : List Comp
  tr : List Obs
  deriving DecidableEq, Repr, Inhabited

def St.get (s : St) (x : Nat) : Option Comp := (s.vars.find? (·.1 == x)).map (·.2)
def St.unbind (s : St) (x : Nat) : St := { s with vars := s.vars.filter (·.1 != x) }
def St.bind (s : St) (x : Nat) (c : Comp) : St := { s with vars := (x, c) :: s.vars.filter (·.1 != x) }
def St.emit (s : St) (o : Obs) : St := { s with tr := s.tr ++ [o] }

def attName (isRes : Bool) (a : Nat) : String :=
  (if isRes then "" else "S") ++ (if a == 0 then "A" else "B")

def Comp.getAtt (c : Comp) (a : Nat) : Option Int := (c.atts.find? (·.1 == a)).map (·.2)
def Comp.hasAtt (c : Comp) (a : Nat) : Bool := c.atts.any (·.1 == a)
def Comp.eraseAtt (c : Comp) (a : Nat) : Comp := { c with atts := c.atts.filter (·.1 != a) }
def Comp.setAtt (c : Comp) (a : Nat) (k : Int) : Comp :=
  { c with atts := c.atts.map fun p => if p.1 == a then (a, k) else p }

/-- `ResourceDestroyed` payload of an attachment of (resource) base `c` -/
def attEvent (c : Comp) (a : Nat) (k : Int) : Obs :=
  .event (attName true a ++ ".ResourceDestroyed") [("id", c.id), ("k", k), ("n", c.n)]

def baseEvent (c : Comp) : Obs := .event "R.ResourceDestroyed" [("id", c.id), ("n", c.n)]

/-- `x[A]?.sum()` rendered as `log` prints it -/
def sumLog (c : Comp) (a : Nat) : String :=
  match c.getAtt a with
  | some k => toString (k + c.n)
  | none => "nil"

def step (s : St) : Stmt → Except Err St
  | .create x isRes id n => .ok (s.bind x ⟨isRes, id, n, []⟩)
  | .attach x' a k x =>
    match s.get x with
    | none => .error (.internal "var")
    | some c =>
      -- the initializer runs with `base` = the base value: `self.k = k + base.n`
      let k' := k + c.n
      -- a resource base is moved out of its variable, a struct base is copied
      let s1 := if c.isRes then s.unbind x else s
      if c.hasAtt a then .error .duplicateAttachment
      else .ok (s1.bind x' { c with atts := c.atts ++ [(a, k')] })
  | .remove a x =>
    match s.get x with
    | none => .error (.internal "var")
    | some c =>
      match c.getAtt a with
      | none => .ok s
      | some k =>
        let c' := c.eraseAtt a
        let s1 := s.bind x c'
        .ok (if c.isRes then s1.emit (attEvent c' a k) else s1)
  | .move x' x =>
    match s.get x with
    | none => .error (.internal "var")
    | some c => .ok ((if c.isRes then s.unbind x else s).bind x' c)
  | .push x =>
    match s.get x with
    | none => .error (.internal "var")
    | some c => .ok { s.unbind x with stash := s.stash ++ [c] }
  | .pop x' =>
    match s.stash with
    | [] => .error (.internal "stash")
    | c :: rest => .ok ({ s with stash := rest }.bind x' c)
  | .setN x v =>
    match s.get x with
    | none => .error (.internal "var")
    | some c => .ok (s.bind x { c with n := v })
  | .sum x a =>
    match s.get x with
    | none => .error (.internal "var")
    | some c => .ok (s.emit (.log (sumLog c a)))
  | .setK x a v =>
    match s.get x with
    | none => .error (.internal "var")
    | some c => .ok (s.bind x (c.setAtt a v))
  | .viaRef x a =>
    match s.get x with
    | none => .error (.internal "var")
    | some c => .ok (s.emit (.log (sumLog c a)))
  | .has x a =>
    match s.get x with
    | none => .error (.internal "var")
    | some c => .ok (s.emit (.log (if c.hasAtt a then "true" else "false")))
  | .destroy x =>
    match s.get x with
    | none => .error (.internal "var")
    | some c =>
      -- every attachment is destroyed (with `base` = the base being destroyed), then the base's event
      let evs := c.atts.map fun p => attEvent c p.1 p.2
      .ok { s.unbind x with tr := s.tr ++ evs ++ [baseEvent c] }

def run : St → List Stmt → Except Err Unit × St
  | s, [] => (.ok (), s)
  | s, st :: rest =>
    match step s st with
    | .ok s' => run s' rest
    | .error e => (.error e, s)

def St.init : St := ⟨[], [], []⟩

end Verif.Model.Lang3.Attach
