import Verif.Model.Lang.SExpr
import Verif.Model.Lang3.Purity
/-
Reader for programs of the purity calculus (`harness/internal/l3sx/view.go`):
  (viewprog fun*),  fun ::= (fun view|impure DEPTH [init] stmt*)
  stmt ::= (declare) | (assign target) | (swap target target) | (callFn N) | (callBuiltin view|impure (eff*))
         | (destroy) | (emit)
  target ::= (target (var D)|(self)|(notvar) ROOTKIND step*),  step ::= (m KIND) | (i INDEXEDKIND ELEMKIND)
  kind ::= value | reference | resource
  eff ::= fresh | pre | storage | event | destroyed
-/
namespace Verif.Model.Lang3.Purity
open Verif.Model.Lang (SX)

def readPurity : String → Option Purity
  | "view" => some .view | "impure" => some .impure | _ => none

def readKind : SX → Option Kind
  | .atom "value" => some .value | .atom "reference" => some .reference | .atom "resource" => some .resource
  | _ => none

def readStep : SX → Option Step
  | .list [.atom "m", k] => Step.member <$> readKind k
  | .list [.atom "i", k, e] => Step.index <$> readKind k <*> readKind e
  | _ => none

def readTarget : SX → Option Target
  | .list (.atom "target" :: root :: rk :: steps) => do
    let r ← match root with
      | .list [.atom "var", .atom d] => Root.var <$> d.toNat?
      | .list [.atom "self"] => some .self_
      | .list [.atom "notvar"] => some .notVar
      | _ => none
    some ⟨r, ← readKind rk, ← steps.mapM readStep⟩
  | _ => none

def readEffect : SX → Option Effect
  | .atom "fresh" => some .freshWrite | .atom "pre" => some (.preWrite "builtin")
  | .atom "storage" => some .storageWrite | .atom "event" => some .event | .atom "destroyed" => some .destroyed
  | _ => none

def readStmt : SX → Option Stmt
  | .list [.atom "declare"] => some .declare
  | .list [.atom "assign", t] => Stmt.assign <$> readTarget t
  | .list [.atom "swap", l, r] => Stmt.swap <$> readTarget l <*> readTarget r
  | .list [.atom "callFn", .atom i] => Stmt.callFn <$> i.toNat?
  | .list [.atom "callBuiltin", .atom p, .list effs] => Stmt.callBuiltin <$> readPurity p <*> effs.mapM readEffect
  | .list [.atom "destroy"] => some .destroy
  | .list [.atom "emit"] => some .emit
  | _ => none

def readFun : SX → Option Fun
  | .list (.atom "fun" :: .atom p :: .atom d :: .atom "init" :: ss) => do
    some ⟨← readPurity p, ← d.toNat?, true, ← ss.mapM readStmt⟩
  | .list (.atom "fun" :: .atom p :: .atom d :: ss) => do
    some ⟨← readPurity p, ← d.toNat?, false, ← ss.mapM readStmt⟩
  | _ => none

def readProgram (s : String) : Option Program :=
  match SX.parse s with
  | some (.list (.atom "viewprog" :: fs)) => fs.mapM readFun
  | _ => none

end Verif.Model.Lang3.Purity
