import Verif.Model.Lang.SExpr
import Verif.Model.Lang3.Events
/-
Reader for the S-expression form of a program of the event calculus, written by
`harness/internal/l3sx/events.go` (`EProgram.SX`):

  prog ::= (evprog (events event*) (ifaces iface*) (resources res*) (funs fun*) (main stmt*))
  iface ::= (iface (conforms N*) (destroy (dp NAME ty dexp)*)|(nodestroy))
  event ::= (event ID (p NAME ty)*)
  res  ::= (res (fields (p NAME ty)*) (conforms N*) (inner N)|(noinner) (destroy (dp NAME ty dexp)*)|(nodestroy))
  dexp ::= (lit val) | (field N) | (innerField N)
  fun  ::= (fun (pre emit*) (body emit*) (post emit*))
  emit ::= (emit EV exp*)
  stmt ::= emit | (log exp) | (create X rexp) | (set X F exp) | (setinner X F exp) | (destroy X) | (call F exp)
  rexp ::= (new TY (args exp*) (inner rexp)|(noinner))
  exp  ::= (lit val) | (param) | (rfield X F) | (tr ID exp) | (cond ty exp exp exp) | (chain true|false exp)
         | (coalesce exp exp) | (force exp) | (cast ty exp) | (castq ty exp)
  ty   ::= Int | UInt8 | Int64 | Bool | String | Address | (opt ty) | (arr ty) | (ref ty)
         (`(ref ty)` reads as `ty`: the payload of a reference is the exported referenced value; an
          expression that evaluates to a reference is written as the literal of the referenced value)
  val  ::= (int TY N) | (bool true|false) | (str "…") | (addr N) | (nil) | (some val) | (arr val*)
-/
namespace Verif.Model.Lang3.Events
open Verif.Model.Lang (SX)

partial def readTy : SX → Option Ty
  | .atom "Bool" => some .bool | .atom "String" => some .string | .atom "Address" => some .address
  | .atom "Int" => some (.int "Int") | .atom "UInt8" => some (.int "UInt8") | .atom "Int64" => some (.int "Int64")
  | .list [.atom "opt", t] => Ty.opt <$> readTy t
  | .list [.atom "arr", t] => Ty.arr <$> readTy t
  -- a reference is exported as the value it refers to: in payloads `&T` is `T`
  | .list [.atom "ref", t] => readTy t
  | _ => none

partial def readVal : SX → Option Val
  | .list [.atom "int", .atom t, .atom n] => Val.int t <$> n.toInt?
  | .list [.atom "bool", .atom "true"] => some (.bool true)
  | .list [.atom "bool", .atom "false"] => some (.bool false)
  | .list [.atom "str", .str s] => some (.str s)
  | .list [.atom "addr", .atom n] => Val.addr <$> n.toNat?
  | .list [.atom "nil"] => some .nil
  | .list [.atom "some", v] => Val.some <$> readVal v
  | .list (.atom "arr" :: vs) => Val.arr <$> vs.mapM readVal
  | _ => none

partial def readExp : SX → Option Exp
  | .list [.atom "lit", v] => Exp.lit <$> readVal v
  | .list [.atom "param"] => some .param
  | .list [.atom "rfield", .atom x, .atom f] => Exp.rfield <$> x.toNat? <*> f.toNat?
  | .list [.atom "tr", .atom i, e] => Exp.tr <$> i.toNat? <*> readExp e
  | .list [.atom "cond", t, c, a, b] => Exp.cond <$> readTy t <*> readExp c <*> readExp a <*> readExp b
  | .list [.atom "chain", .atom "true", e] => Exp.chain true <$> readExp e
  | .list [.atom "chain", .atom "false", e] => Exp.chain false <$> readExp e
  | .list [.atom "coalesce", a, b] => Exp.coalesce <$> readExp a <*> readExp b
  | .list [.atom "force", e] => Exp.force <$> readExp e
  | .list [.atom "cast", t, e] => Exp.cast <$> readTy t <*> readExp e
  | .list [.atom "castq", t, e] => Exp.castq <$> readTy t <*> readExp e
  | _ => none

def readParam : SX → Option Param
  | .list [.atom "p", .atom n, t] => Param.mk n <$> readTy t
  | _ => none

def readEmit : SX → Option EmitSpec
  | .list (.atom "emit" :: .atom ev :: args) => do some ⟨← ev.toNat?, ← args.mapM readExp⟩
  | _ => none

partial def readRExp : SX → Option RExp
  | .list [.atom "new", .atom t, .list (.atom "args" :: args), inner] => do
    match inner with
    | .list [.atom "noinner"] => some (.leaf (← t.toNat?) (← args.mapM readExp))
    | .list [.atom "inner", r] => some (.node (← t.toNat?) (← args.mapM readExp) (← readRExp r))
    | _ => none
  | _ => none

def readStmt : SX → Option Stmt
  | .list [.atom "log", e] => Stmt.log <$> readExp e
  | .list [.atom "create", .atom x, r] => Stmt.create <$> x.toNat? <*> readRExp r
  | .list [.atom "set", .atom x, .atom f, e] => Stmt.setField <$> x.toNat? <*> f.toNat? <*> readExp e
  | .list [.atom "setinner", .atom x, .atom f, e] => Stmt.setInnerField <$> x.toNat? <*> f.toNat? <*> readExp e
  | .list [.atom "destroy", .atom x] => Stmt.destroy <$> x.toNat?
  | .list [.atom "call", .atom f, e] => Stmt.call <$> f.toNat? <*> readExp e
  | e => Stmt.emit <$> readEmit e

def readDExp : SX → Option DExp
  | .list [.atom "lit", v] => DExp.lit <$> readVal v
  | .list [.atom "field", .atom f] => DExp.field <$> f.toNat?
  | .list [.atom "innerField", .atom f] => DExp.innerField <$> f.toNat?
  | _ => none

def readDestroy : SX → Option (Option (List DParam))
  | .list [.atom "nodestroy"] => some none
  | .list (.atom "destroy" :: dps) => some <$> dps.mapM fun
    | .list [.atom "dp", .atom n, t, de] => do some ⟨n, ← readTy t, ← readDExp de⟩
    | _ => none
  | _ => none

def readConforms : SX → Option (List Nat)
  | .list (.atom "conforms" :: xs) => xs.mapM fun | .atom n => n.toNat? | _ => none
  | _ => none

def readIface : SX → Option IfaceDecl
  | .list [.atom "iface", cs, d] => do some ⟨← readConforms cs, ← readDestroy d⟩
  | _ => none

def readRes : SX → Option ResDecl
  | .list [.atom "res", .list (.atom "fields" :: fs), cs, inner, destroy] => do
    let i ← match inner with
      | .list [.atom "noinner"] => some none
      | .list [.atom "inner", .atom n] => some <$> n.toNat?
      | _ => none
    some ⟨← fs.mapM readParam, i, ← readDestroy destroy, ← readConforms cs⟩
  | _ => none

def readEmits (head : String) : SX → Option (List EmitSpec)
  | .list (.atom h :: es) => if h == head then es.mapM readEmit else none
  | _ => none

def readProgramSX : SX → Option Program
  | .list [.atom "evprog", .list (.atom "events" :: evs), .list (.atom "ifaces" :: ifs),
      .list (.atom "resources" :: rs), .list (.atom "funs" :: fs), .list (.atom "main" :: ss)] => do
    let events ← evs.mapM fun
      | .list (.atom "event" :: .atom id :: ps) => do some (EventDecl.mk id (← ps.mapM readParam))
      | _ => none
    let funs ← fs.mapM fun
      | .list [.atom "fun", pre, body, post] => do
        some (FunDecl.mk (← readEmits "pre" pre) (← readEmits "body" body) (← readEmits "post" post))
      | _ => none
    some ⟨events, ← rs.mapM readRes, funs, ← ss.mapM readStmt, ← ifs.mapM readIface⟩
  | _ => none

def readProgram (s : String) : Option Program := SX.parse s >>= readProgramSX

/-! Rendering, as `harness/internal/l3run` renders exported values and payloads -/

def hexDigits (n : Nat) : String := String.ofList (Nat.toDigits 16 n)

partial def Val.render : Val → String
  | .int ty n => ty ++ ":" ++ toString n
  | .bool b => if b then "true" else "false"
  | .str s => "\"" ++ s ++ "\""
  | .addr n => let h := hexDigits n; "addr:0x" ++ String.ofList (List.replicate (16 - h.length) '0') ++ h
  | .nil => "nil"
  | .some v => "some(" ++ v.render ++ ")"
  | .arr vs => "[" ++ ",".intercalate (vs.map Val.render) ++ "]"

def Event.render (e : Event) : String :=
  e.ty ++ "(" ++ ",".intercalate (e.fields.map fun (n, v) => n ++ "=" ++ v.render) ++ ")"

end Verif.Model.Lang3.Events
