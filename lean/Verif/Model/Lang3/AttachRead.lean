import Verif.Model.Lang.SExpr
import Verif.Model.Lang3.Attach
/-
Reader for programs of the attachment calculus (`harness/internal/l3sx/attach.go`, `AProgram.SX`):
  (attprog stmt*),  stmt ::= (create X res|struct ID N) | (attach X' A K X) | (remove A X) | (move X' X)
    | (push X) | (pop X') | (setN X V) | (sum X A) | (setK X A V) | (viaRef X A) | (has X A) | (destroy X)
-/
namespace Verif.Model.Lang3.Attach
open Verif.Model.Lang (SX)

def readStmt : SX → Option Stmt
  | .list [.atom "create", .atom x, .atom k, .atom id, .atom n] => do
    some (.create (← x.toNat?) (k == "res") (← id.toInt?) (← n.toInt?))
  | .list [.atom "attach", .atom x', .atom a, .atom k, .atom x] => do
    some (.attach (← x'.toNat?) (← a.toNat?) (← k.toInt?) (← x.toNat?))
  | .list [.atom "remove", .atom a, .atom x] => do some (.remove (← a.toNat?) (← x.toNat?))
  | .list [.atom "move", .atom x', .atom x] => do some (.move (← x'.toNat?) (← x.toNat?))
  | .list [.atom "push", .atom x] => Stmt.push <$> x.toNat?
  | .list [.atom "pop", .atom x] => Stmt.pop <$> x.toNat?
  | .list [.atom "setN", .atom x, .atom v] => do some (.setN (← x.toNat?) (← v.toInt?))
  | .list [.atom "sum", .atom x, .atom a] => do some (.sum (← x.toNat?) (← a.toNat?))
  | .list [.atom "setK", .atom x, .atom a, .atom v] => do some (.setK (← x.toNat?) (← a.toNat?) (← v.toInt?))
  | .list [.atom "viaRef", .atom x, .atom a] => do some (.viaRef (← x.toNat?) (← a.toNat?))
  | .list [.atom "has", .atom x, .atom a] => do some (.has (← x.toNat?) (← a.toNat?))
  | .list [.atom "destroy", .atom x] => Stmt.destroy <$> x.toNat?
  | _ => none

def readProgram (s : String) : Option (List Stmt) :=
  match SX.parse s with
  | some (.list (.atom "attprog" :: ss)) => ss.mapM readStmt
  | _ => none

end Verif.Model.Lang3.Attach
