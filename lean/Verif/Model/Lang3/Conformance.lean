/-
Port of `distinctConformances` (/repo/sema/type.go): the effective interface conformances of a
composite or interface type — a pre-order depth-first walk over the explicit conformances with a
`seen` set shared by the whole walk, recording for every collected interface the root of the
conformance chain through which it was first reached.

Interfaces are numbered; `g i` = explicit conformances of interface `i` in declaration order.
Go recursion is unbounded (the checker rejects cyclic conformances before the function is used);
the port is indexed by `fuel` = remaining recursion depth, sufficient when it exceeds the height of
the acyclic graph (theorem `conformance_closure` in `Properties/C10.lean`).  Core Lean only.
-/
namespace Verif.Model.Lang3

/-- `Conformance{InterfaceType, ConformanceChainRoot}` -/
structure Conformance where
  iface : Nat
  root : Nat
  deriving DecidableEq, Repr, Inhabited

/-- accumulator of the walk: collected conformances (in order) and the seen set -/
structure Walk where
  out : List Conformance
  seen : List Nat
  deriving Repr, Inhabited

/-- `if parent == nil { root = conformance } else { root = parent }` -/
def rootOf (parent : Option Nat) (c : Nat) : Nat := match parent with | none => c | some p => p

/-- the `for _, conformance := range conformances` loop; `visit c root w` is the recursive call on
`conformance.ExplicitInterfaceConformances` with `parent = root`. -/
def dcLoop (visit : Nat → Nat → Walk → Walk) (parent : Option Nat) : List Nat → Walk → Walk
  | [], w => w
  | c :: cs, w =>
    if c ∈ w.seen then dcLoop visit parent cs w
    else
      dcLoop visit parent cs (visit c (rootOf parent c) ⟨w.out ++ [⟨c, rootOf parent c⟩], w.seen ++ [c]⟩)

/-- `distinctConformances(conformances, parent, seen)` with the collected list threaded as an
accumulator (Go appends the nested result right after the conformance itself: same order). -/
def dcWalk (g : Nat → List Nat) : Nat → Option Nat → List Nat → Walk → Walk
  | 0, _, _, w => w
  | fuel + 1, parent, cs, w => dcLoop (fun c root w' => dcWalk g fuel (some root) (g c) w') parent cs w

/-- `t.EffectiveInterfaceConformances()` for explicit conformances `cs` -/
def distinctConformances (g : Nat → List Nat) (fuel : Nat) (cs : List Nat) : List Conformance :=
  (dcWalk g fuel none cs ⟨[], []⟩).out

def effectiveConformances (g : Nat → List Nat) (fuel : Nat) (cs : List Nat) : List Nat :=
  (distinctConformances g fuel cs).map (·.iface)

end Verif.Model.Lang3
