/-
Core calculus for view functions (property C07): port of the checker's purity analysis and a dynamic
side with an effect log.

Static side (code in /repo/sema):
  * `checker.go` purity scopes: `InNewPurityScope(enforce, f)` pushes `{EnforcePurity, ActivationDepth}`;
    `ObserveImpureOperation` reports a `PurityError` when the current scope enforces purity;
    `EnforcePurity(op, purity)` observes an impure operation when the invoked function type is impure
    (`check_invocation_expression.go`); function bodies open a scope that enforces iff the function is
    `view` (`check_function.go`), condition blocks always enforce;
  * `check_assignment.go` `rootOfAccessChain`: walking the target from the outside in, a member access
    contributes the type of the *accessed* expression, an index access contributes the element type and the
    type of the *indexed* expression, the identifier at the root contributes the variable's type
    (`accessChain`);  `enforceViewAssignment` (assignment, both sides of a swap, `remove`): the root must be
    a variable; `self` is writeable only inside an initializer, and there only when nothing reached through
    a field of `self` (the chain without its last two entries, both the type of `self`) is a reference or a
    resource; for other variables no type on the chain may be a reference or a resource
    (`isWriteableInViewContext`) and the variable must have been declared at an activation depth ≥ the depth
    at which the purity scope was opened.  (This is the code after the `fix:` commit of this property: before
    it the indexed type was not on the chain and every write rooted at `self` was accepted in an initializer,
    so `h.arrayRef[0] = 1` and, in an initializer, `self.ref.x = 1` were accepted as view.)
  * `check_destroy_expression.go`: `destroy` is impure;  `emit` is *not* observed (it is accepted in view
    context — recorded as known finding `view-function-emits-event`).

Dynamic side: running a function produces a log of effects.  An assignment writes
  * through a reference or into a resource when one occurs on the access chain: the target may have existed
    before the call (`Effect.preWrite`);
  * otherwise into the storage of the root variable — fresh when the variable belongs to the running
    function (parameters are copies, locals are new), pre-existing when it was declared outside (a captured
    or global variable), or when it is `self` outside an initializer.
Calls run the callee's body (user functions, methods, closures: entries of the function table) or have the
effect listed for the built-in.  Left out: the value level (what is written), optional chaining, casts,
attachments (`remove`), conditions as separate scopes, the depth arithmetic of nested blocks (variables
carry their declaration depth, as computed by the generator), built-in purity annotations (a trusted
table: `BuiltinsSound`).
Core Lean only.
-/
namespace Verif.Model.Lang3.Purity

inductive Purity where
  | view | impure
  deriving DecidableEq, Repr, Inhabited

/-- kind of a type on an access chain, as far as `isWriteableInViewContext` looks -/
inductive Kind where
  | value | reference | resource
  deriving DecidableEq, Repr, Inhabited

inductive Root where
  | var (declDepth : Nat)   -- `valueActivations.Find(name)`: a variable, with its activation depth
  | self_                   -- the variable has `DeclarationKindSelf`
  | notVar                  -- the chain does not end in an identifier
  deriving DecidableEq, Repr, Inhabited

/-- one access of the target expression, outermost first -/
inductive Step where
  | member (accessed : Kind)              -- `e.f`: kind of the type of `e`
  | index (indexed : Kind) (elem : Kind)  -- `e[i]`: kind of the type of `e`, kind of the element type
  deriving DecidableEq, Repr, Inhabited

structure Target where
  root : Root
  rootKind : Kind          -- kind of the root variable's type
  path : List Step
  deriving DecidableEq, Repr, Inhabited

/-- what one access puts on the chain -/
def stepChain1 : Step → List Kind
  | .member a => [a]
  | .index i e => [e, i]

/-- the container one access goes through -/
def stepKind : Step → Kind
  | .member a => a
  | .index i _ => i

def stepChain (path : List Step) : List Kind := path.flatMap stepChain1
def stepKinds (path : List Step) : List Kind := path.map stepKind

/-- `rootOfAccessChain` -/
def accessChain (t : Target) : List Kind :=
  stepChain t.path ++ (match t.root with | .notVar => [] | _ => [t.rootKind])

inductive Effect where
  | freshWrite                 -- a write into an object allocated during the call
  | preWrite (what : String)   -- a write into an object that may have existed before the call
  | storageWrite
  | event
  | destroyed
  deriving DecidableEq, Repr, Inhabited

inductive Stmt where
  | declare
  | assign (t : Target)
  | swap (l r : Target)
  | callFn (i : Nat)                                  -- user function / method / closure i of the table
  | callBuiltin (declared : Purity) (effects : List Effect)
  | destroy
  | emit
  deriving DecidableEq, Repr, Inhabited

structure Fun where
  purity : Purity
  depth : Nat        -- activation depth at which the body's purity scope is opened (parameters live there)
  isInit : Bool
  body : List Stmt
  deriving DecidableEq, Repr, Inhabited

abbrev Program := List Fun

def writeable : Kind → Bool
  | .value => true
  | _ => false

/-- `enforceViewAssignment` in an enforcing scope opened at `scopeDepth`: does it observe an impure
operation? -/
def viewAssignImpure (scopeDepth : Nat) (inInit : Bool) (t : Target) : Bool :=
  match t.root with
  | .notVar => true
  | .self_ => !inInit || !(((accessChain t).dropLast.dropLast).all writeable)
  | .var d => !((accessChain t).all writeable) || decide (scopeDepth > d)

/-- number of `PurityError`s the statement produces in an enforcing scope -/
def impureCount (p : Program) (f : Fun) : Stmt → Nat
  | .declare => 0
  | .assign t => if viewAssignImpure f.depth f.isInit t then 1 else 0
  | .swap l r => (if viewAssignImpure f.depth f.isInit l then 1 else 0) + (if viewAssignImpure f.depth f.isInit r then 1 else 0)
  | .callFn i => match p[i]? with | some g => if g.purity == .impure then 1 else 0 | none => 1
  | .callBuiltin declared _ => if declared == .impure then 1 else 0
  | .destroy => 1
  | .emit => 0

def funErrors (p : Program) (f : Fun) : Nat :=
  if f.purity == .view then (f.body.map (impureCount p f)).sum else 0

/-- total number of purity errors of the program -/
def purityErrors (p : Program) : Nat := (p.map (funErrors p)).sum

/-- the checker accepts -/
def purityCheck (p : Program) : Bool := p.all fun f => funErrors p f == 0

/-! ## dynamic side -/

/-- the kinds of the containers the write really goes through: the accessed / indexed expression of every
step and the root variable; for a target rooted at `self` the value under construction itself (the root
and the innermost access `self.f`) is not a container that is written *through* -/
def containers (t : Target) : List Kind :=
  match t.root with
  | .self_ => (stepKinds t.path).dropLast
  | .notVar => stepKinds t.path
  | .var _ => stepKinds t.path ++ [t.rootKind]

def writeEffect (f : Fun) (t : Target) : Effect :=
  if (containers t).any (· == .reference) then .preWrite "reference"
  else if (containers t).any (· == .resource) then .preWrite "resource"
  else match t.root with
    | .notVar => .preWrite "unknown"
    | .self_ => if f.isInit then .freshWrite else .preWrite "self"
    | .var d => if d ≥ f.depth then .freshWrite else .preWrite "outer-variable"

mutual
def execStmts (p : Program) (f : Fun) : Nat → List Stmt → List Effect
  | _, [] => []
  | fuel, s :: ss => execStmt p f fuel s ++ execStmts p f fuel ss
def execStmt (p : Program) (f : Fun) : Nat → Stmt → List Effect
  | _, .declare => []
  | _, .assign t => [writeEffect f t]
  | _, .swap l r => [writeEffect f l, writeEffect f r]
  | 0, .callFn _ => []
  | fuel + 1, .callFn i => match p[i]? with | some g => execStmts p g fuel g.body | none => []
  | _, .callBuiltin _ effs => effs
  | _, .destroy => [.destroyed]
  | _, .emit => [.event]
end

/-- effects of one call of function `i` -/
def run (p : Program) (fuel : Nat) (i : Nat) : List Effect :=
  match p[i]? with | some f => execStmts p f fuel f.body | none => []

end Verif.Model.Lang3.Purity
