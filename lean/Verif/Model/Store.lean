/-
M-STORE — account storage as a typed, path-indexed map across transactions (spec machine, C22).

Mirrors what `interpreter.AccountStorage{Save,Load,Copy,Borrow,Check,Type}`, `domainPaths` and
`AccountStorageIterate` (interpreter/interpreter.go) promise at the language level:

* the state is a finite map  (account, path) ↦ stored value; every stored value carries its dynamic
  type (`Val.ty`; in the runtime: `value.StaticType`), and all type tests are
  `subtype (dynamic type) T` (`IsSubTypeOfSemaType`); the universe has optional types of any depth
  (stored `Int?`, `@R?`, `nil`; type arguments `Int?`, `AnyStruct?`, `@{RI}?`, …);
* a transaction runs its operations on a working copy (the runtime: cached domain storage maps /
  atree slabs that are written to the ledger only by `Storage.Commit`); it commits the copy when every
  operation succeeds and discards it when one aborts (overwrite, type mismatch, panic);
* `load` removes *before* it type-checks, as the code does; the abort makes this unobservable.

Core Lean only (linked into `drv_store`).
-/
namespace Verif.Model.Store

/-- The base types of the `store` stream's universe (the contract `C` of the harness declares the
    composites); `never` is only there as the content of `nil`'s dynamic type `Never?`. -/
inductive Base where
  | int | string | bool | integer | arrInt | arrAny | s | s2 | i | anyStruct
  | r | r2 | ri | anyResource | never
  deriving DecidableEq, Repr, Inhabited

def Base.all : List Base :=
  [.int, .string, .bool, .integer, .arrInt, .arrAny, .s, .s2, .i, .anyStruct, .r, .r2, .ri, .anyResource, .never]

/-- resource-kinded base types (`Never` is of neither kind: it is below both top types) -/
def Base.isRes : Base → Bool
  | .r | .r2 | .ri | .anyResource => true
  | _ => false

/-- the two top types, one per kind -/
def Base.isTop : Base → Bool
  | .anyStruct | .anyResource => true
  | _ => false

/-- Subtyping on the base types, as a finite table: reflexivity, the two top types (per kind),
    `Int <: Integer`, `[Int] <: [AnyStruct]`, conformance `S2 <: {I}`, `R2 <: {RI}`, `Never` below all. -/
def baseSub (a b : Base) : Bool :=
  a == b
  || a == .never
  || (b == .anyStruct && !a.isRes)
  || (b == .anyResource && a.isRes)
  || (a == .int && b == .integer)
  || (a == .arrInt && b == .arrAny)
  || (a == .s2 && b == .i)
  || (a == .r2 && b == .ri)

/-- A type of the universe: a base type under `opt` optional layers (`⟨.int, 2⟩` is `Int??`). -/
structure Ty where
  base : Base
  opt : Nat := 0
  deriving DecidableEq, Repr, Inhabited

/-- `T?` -/
def Ty.some (t : Ty) : Ty := { t with opt := t.opt + 1 }

def Ty.isRes (t : Ty) : Bool := t.base.isRes

/-- Subtyping (`sema.IsSubType` / `interpreter.IsSubTypeOfSemaType` on this universe):
    optionals are covariant (`T? <: U?` iff `T <: U`), `T <: U?` if `T <: U`, an optional is below a
    non-optional type only when that is the top type of its kind (`T? <: AnyStruct` iff `T <: AnyStruct`).
    In closed form: the bases are related, and unless the supertype's base is a top type the subtype has
    no more optional layers than the supertype. -/
def subtype (a b : Ty) : Bool :=
  baseSub a.base b.base && (b.base.isTop || decide (a.opt ≤ b.opt))

/-- Stored values.  `arrAny` is an array whose static type is `[AnyStruct]` (holding `Int`s);
    `some v` is `v` wrapped in an optional, `nil` the empty optional. -/
inductive Val where
  | int (n : Int) | str (s : String) | bool (b : Bool)
  | arr (xs : List Int) | arrAny (xs : List Int)
  | s (x : Int) | s2 (x : Int) | r (x : Int) | r2 (x : Int)
  | some (v : Val) | nil
  deriving DecidableEq, Repr, Inhabited

/-- the dynamic type a value carries (`Value.StaticType`) -/
def Val.ty : Val → Ty
  | .int _ => ⟨.int, 0⟩ | .str _ => ⟨.string, 0⟩ | .bool _ => ⟨.bool, 0⟩
  | .arr _ => ⟨.arrInt, 0⟩ | .arrAny _ => ⟨.arrAny, 0⟩
  | .s _ => ⟨.s, 0⟩ | .s2 _ => ⟨.s2, 0⟩ | .r _ => ⟨.r, 0⟩ | .r2 _ => ⟨.r2, 0⟩
  | .some v => v.ty.some
  | .nil => ⟨.never, 1⟩

/-- (account, path identifier) -/
abbrev Key := Nat × Nat

/-- Finite map as an association list (most recent binding first; `putAt` is only used on free keys). -/
abbrev Store := List (Key × Val)

def getAt (s : Store) (k : Key) : Option Val := s.lookup k
def putAt (s : Store) (k : Key) (v : Val) : Store := (k, v) :: s
def delAt (s : Store) (k : Key) : Store := s.filter (fun e => !(e.1 == k))
/-- path identifiers bound in account `a`, in the store's order -/
def paths (s : Store) (a : Nat) : List Nat := (s.filter (fun e => e.1.1 == a)).map (fun e => e.1.2)
/-- what `forEachStored` presents: (path, dynamic type) -/
def entries (s : Store) (a : Nat) : List (Nat × Ty) :=
  (s.filter (fun e => e.1.1 == a)).map (fun e => (e.1.2, e.2.ty))

inductive Op where
  | save (a p : Nat) (v : Val)
  | load (a p : Nat) (t : Ty)
  | copy (a p : Nat) (t : Ty)
  | borrow (a p : Nat) (t : Ty)      -- `borrow<&t>` followed by a read through the reference
  | check (a p : Nat) (t : Ty)
  | type (a p : Nat)
  | paths (a : Nat)
  | forEach (a : Nat)
  | panic
  deriving DecidableEq, Repr

inductive Obs where
  | saved
  | none                              -- `nil`
  | val (v : Val)                     -- `load` / `copy` result
  | ref (v : Val)                     -- `borrow`: the value seen through the reference
  | bool (b : Bool)                   -- `check`
  | ty (t : Option Ty)                -- `type(at:)`
  | paths (ps : List Nat)
  | entries (es : List (Nat × Ty))
  deriving DecidableEq, Repr

inductive Abort where
  | overwrite | mismatch | panic
  deriving DecidableEq, Repr

/-- One storage operation on the transaction's working copy. -/
def step (s : Store) : Op → Except Abort (Store × Obs)
  | .save a p v =>
    match getAt s (a, p) with
    | some _ => .error .overwrite
    | none => .ok (putAt s (a, p) v, .saved)
  | .load a p t =>
    match getAt s (a, p) with
    | none => .ok (s, .none)
    | some v =>
      let s' := delAt s (a, p)           -- removed first …
      if subtype v.ty t then .ok (s', .val v) else .error .mismatch   -- … then type-checked
  | .copy a p t =>
    match getAt s (a, p) with
    | none => .ok (s, .none)
    | some v => if subtype v.ty t then .ok (s, .val v) else .error .mismatch
  | .borrow a p t =>
    match getAt s (a, p) with
    | none => .ok (s, .none)
    | some v => if subtype v.ty t then .ok (s, .ref v) else .error .mismatch
  | .check a p t =>
    match getAt s (a, p) with
    | none => .ok (s, .bool false)
    | some v => .ok (s, .bool (subtype v.ty t))
  | .type a p => .ok (s, .ty ((getAt s (a, p)).map Val.ty))
  | .paths a => .ok (s, .paths (paths s a))
  | .forEach a => .ok (s, .entries (entries s a))
  | .panic => .error .panic

/-- Run the operations of one transaction on the working copy: result state or abort, plus the
    observations (logs) made before the abort. -/
def exec (s : Store) : List Op → Except Abort Store × List Obs
  | [] => (.ok s, [])
  | op :: rest =>
    match step s op with
    | .error e => (.error e, [])
    | .ok (s', o) =>
      let r := exec s' rest
      (r.1, o :: r.2)

structure TxObs where
  outcome : Option Abort            -- `none` = committed
  logs : List Obs
  deriving DecidableEq, Repr

/-- A transaction against the committed state: commit the working copy, or discard it. -/
def runTx (s : Store) (tx : List Op) : Store × TxObs :=
  match exec s tx with
  | (.ok s', logs) => (s', ⟨none, logs⟩)
  | (.error e, logs) => (s, ⟨some e, logs⟩)

/-- A history of transactions from a committed state. -/
def runHist (s : Store) : List (List Op) → Store × List TxObs
  | [] => (s, [])
  | tx :: rest =>
    let r := runTx s tx
    let q := runHist r.1 rest
    (q.1, r.2 :: q.2)

end Verif.Model.Store
