/-
Abstract slab heap for property C23 (committed storage is always healthy).

This is a model of the *protocol* the interpreter follows on atree's slab storage, not of atree: a
slab is an identifier with a list of child pointers; an account has at most one root slab (its
storage map); the running transaction *holds* detached values (slabs removed from a container or
freshly created, not yet stored or destroyed).  Primitive pointer operations (`create`, `insert`,
`remove`, `dissolve`, `newRoot`) and the composite operations the interpreter performs (`destroy` =
deep removal, `overwrite` = remove old + deep-remove it + insert new, `move` = remove + insert, also
across accounts).  Slab identity abstracts from the address part of atree's slab IDs: a transfer to
another account (`Transfer(remove := true)`, which re-creates the slabs under the new address and
removes the old ones) is the identity on this pointer structure.

Health (what `atree.CheckStorageHealth` + `Storage.CheckHealth` test, except acyclicity): every
existing slab is referenced exactly once — by a parent slab, by an account root register, or (during
a transaction) by the running program — and nothing else is referenced; at commit nothing is held.

Core Lean only.
-/
namespace Verif.Model.Slabs

abbrev SlabID := Nat
abbrev Account := Nat

structure Heap where
  /-- existing slabs with their child pointers -/
  slabs : List (SlabID × List SlabID)
  /-- account → root slab (the account's storage map) -/
  roots : List (Account × SlabID)
  /-- detached values held by the running transaction -/
  held : List SlabID
  next : SlabID
  deriving Repr, DecidableEq, Inhabited

def Heap.empty : Heap := ⟨[], [], [], 1⟩

def Heap.ids (h : Heap) : List SlabID := h.slabs.map Prod.fst
def Heap.childRefs (h : Heap) : List SlabID := h.slabs.flatMap Prod.snd
def Heap.refs (h : Heap) : List SlabID := h.childRefs ++ h.roots.map Prod.snd ++ h.held

def Heap.children (h : Heap) (c : SlabID) : Option (List SlabID) := (h.slabs.find? (·.1 == c)).map (·.2)

def without (slabs : List (SlabID × List SlabID)) (c : SlabID) : List (SlabID × List SlabID) :=
  slabs.filter (·.1 != c)

/-- every existing slab is referenced exactly once and nothing else is referenced; identifiers are
    distinct and below the allocation counter; an account has at most one root -/
def RefInv (h : Heap) : Prop :=
  h.ids.Nodup ∧ h.refs.Perm h.ids ∧ (∀ i ∈ h.ids, i < h.next) ∧ (h.roots.map Prod.fst).Nodup

/-- what the health check after a commit requires -/
def Healthy (h : Heap) : Prop := RefInv h ∧ h.held = []

/-- executable health verdict (for the driver) -/
def Heap.healthy (h : Heap) : Bool :=
  decide h.ids.Nodup && decide (h.refs.Perm h.ids) && h.ids.all (· < h.next) && decide (h.roots.map Prod.fst).Nodup &&
  h.held.isEmpty

/-! ### primitive operations (each checks its precondition; otherwise the heap is unchanged) -/

/-- a new empty container, held by the program -/
def create (h : Heap) : Heap :=
  { h with slabs := (h.next, []) :: h.slabs, held := h.next :: h.held, next := h.next + 1 }

/-- the storage map of an account is created on first use -/
def newRoot (h : Heap) (a : Account) : Heap :=
  if a ∈ h.roots.map Prod.fst then h
  else { h with slabs := (h.next, []) :: h.slabs, roots := (a, h.next) :: h.roots, next := h.next + 1 }

/-- store the held value `c` into container `p` -/
def insertChild (h : Heap) (p c : SlabID) : Heap :=
  match h.children p with
  | some cs => if c ∈ h.held then { h with slabs := (p, c :: cs) :: without h.slabs p, held := h.held.erase c } else h
  | none => h

/-- take the element `c` out of container `p`; the program now holds it -/
def removeChild (h : Heap) (p c : SlabID) : Heap :=
  match h.children p with
  | some cs => if c ∈ cs then { h with slabs := (p, cs.erase c) :: without h.slabs p, held := c :: h.held } else h
  | none => h

/-- one step of a deep removal: free the held slab `c`; its children are now held -/
def dissolve (h : Heap) (c : SlabID) : Heap :=
  match h.children c with
  | some cs => if c ∈ h.held then { h with slabs := without h.slabs c, held := cs ++ h.held.erase c } else h
  | none => h

/-! ### what the interpreter does -/

/-- `DeepRemove`: free the listed held slabs and everything below them (work list, one `dissolve` per step) -/
def destroyAll : Nat → List SlabID → Heap → Heap
  | _, [], h => h
  | 0, _ :: _, h => h
  | f + 1, c :: w, h => destroyAll f ((h.children c).getD [] ++ w) (dissolve h c)

def destroy (h : Heap) (c : SlabID) : Heap := destroyAll (h.slabs.length + 1) [c] h

def rootOf (h : Heap) (a : Account) : Option SlabID := (h.roots.find? (·.1 == a)).map (·.2)

inductive Op where
  /-- create a container value (array / dictionary / composite) -/
  | create
  | newRoot (a : Account)
  | insert (p c : SlabID)
  | remove (p c : SlabID)
  /-- `destroy` statement, or a value dropped by an overwrite: deep removal -/
  | destroy (c : SlabID)
  /-- move = remove from `p`, insert into `q` (also across accounts: load + save) -/
  | move (p q c : SlabID)
  /-- overwrite = remove the old element, deep-remove it, insert the new held value -/
  | overwrite (p old new : SlabID)
  deriving Repr, DecidableEq, Inhabited

def step (h : Heap) : Op → Heap
  | .create => create h
  | .newRoot a => newRoot h a
  | .insert p c => insertChild h p c
  | .remove p c => removeChild h p c
  | .destroy c => destroy h c
  | .move p q c => insertChild (removeChild h p c) q c
  | .overwrite p old new => insertChild (destroy (removeChild h p old) old) p new

def run (h : Heap) (ops : List Op) : Heap := ops.foldl step h

/-! ### protocol violations (for the witnesses): forget a held value / copy a pointer -/

/-- a removal path that forgets the deep removal: the program drops the value -/
def forget (h : Heap) (c : SlabID) : Heap := { h with held := h.held.erase c }

/-- a transfer that forgets to remove: the element is referenced from `q` as well -/
def alias (h : Heap) (q c : SlabID) : Heap :=
  match h.children q with
  | some cs => { h with slabs := (q, c :: cs) :: without h.slabs q }
  | none => h

end Verif.Model.Slabs
