/-
Determinism (C33), the collect-then-sort pattern: Go code that must act on the entries of a map in a
deterministic order first collects them into a slice by ranging over the map (arbitrary order) and
then sorts the slice by key (`AccountStorage.commit`, `Storage.CheckHealth`, `SortContractUpdates`,
`PersistentSlabStorage.FastCommit`, the update validator, CCF sorting …).  Core Lean only.
-/
namespace Verif.Model.Determinism

/-- order on entries: by key only -/
def leKey {β : Type} (p q : Nat × β) : Bool := p.1 ≤ q.1

/-- `sort.Slice(entries, func(i, j) bool { return entries[i].key < entries[j].key })` -/
def sortByKey {β : Type} (l : List (Nat × β)) : List (Nat × β) := l.mergeSort leKey

/-- what the host sees: the entries emitted in sorted order -/
def emitSorted {β : Type} (enumeration : List (Nat × β)) : List (Nat × β) := sortByKey enumeration

/-- the unsorted variant (a mutation: the sort is dropped) -/
def emitUnsorted {β : Type} (enumeration : List (Nat × β)) : List (Nat × β) := enumeration

/-- Classification of a `range` over a map in the Go source. -/
inductive RangeClass where
  /-- the body only collects into a slice / set that is sorted before it is used -/
  | collectThenSort
  /-- the loop runs at most once (guarded single entry) or stops at the first hit of a unique key -/
  | singleEntry
  /-- the body is order-insensitive: builds a set / map / count / boolean, or copies a map -/
  | orderInsensitive
  /-- debugging / tooling / test support only, not on an execution path -/
  | notOnExecutionPath
  deriving DecidableEq, Repr

end Verif.Model.Determinism
