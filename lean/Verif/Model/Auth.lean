/-
M-AUTH — port of `/repo/sema/access.go` (core Lean only).

`Access ε` over an arbitrary entitlement type `ε` with decidable equality:
  * `prim p`      — `sema.PrimitiveAccess(p)`; `prim .all` is `sema.UnauthorizedAccess`,
                    `prim .none` is `sema.InaccessibleAccess`;
  * `set k es`    — `sema.EntitlementSetAccess{SetKind: k, Entitlements: es}`; the ordered set is the
                    list of its keys in insertion order (no duplicates when built by `mkSet`);
  * `map m`       — `*sema.EntitlementMapAccess` for the mapping type `m`.

Go's ordered-set vocabulary: `ForAllKeys p = es.all p`, `ForAnyKey p = es.any p`,
`Contains x = es.contains x`, `Set` = `insertKey` (append unless present), `SetAll` = fold of `Set`.
-/
namespace Verif.Model.Auth

/-- `ast.PrimitiveAccess`; the declaration order is the Go `iota` order ("from least to most
    permissive"). -/
inductive Prim where
  | notSpecified | none | self | contract | account | all | pubSettableLegacy
  deriving DecidableEq, Repr, Inhabited

def Prim.rank : Prim → Nat
  | .notSpecified => 0 | .none => 1 | .self => 2 | .contract => 3 | .account => 4 | .all => 5
  | .pubSettableLegacy => 6

inductive SetKind where
  | conj | disj
  deriving DecidableEq, Repr, Inhabited

/-- `sema.EntitlementMapType`: identity (the type's ID, here a number), relations in declaration
    order (after include-resolution: the checker flattens `include` chains into `Relations` and
    ors `IncludesIdentity`), identity flag. -/
structure Mapping (ε : Type) where
  id : Nat
  relations : List (ε × ε)
  includesIdentity : Bool
  deriving Repr, DecidableEq

inductive Access (ε : Type) where
  | prim (p : Prim)
  | set (k : SetKind) (es : List ε)
  | map (m : Mapping ε)
  deriving Repr, DecidableEq

variable {ε : Type} [DecidableEq ε]

/-- `sema.UnauthorizedAccess` -/
def unauthorized : Access ε := .prim .all
/-- `sema.InaccessibleAccess` -/
def inaccessible : Access ε := .prim .none

/-- `orderedmap.Set` on a key set -/
def insertKey (es : List ε) (x : ε) : List ε := if es.contains x then es else es ++ [x]
/-- `orderedmap.SetAll` -/
def insertAll (es xs : List ε) : List ε := xs.foldl insertKey es

/-- `sema.NewEntitlementSetAccess(entitlements, kind)` -/
def mkSet (k : SetKind) (xs : List ε) : Access ε := .set k (insertAll [] xs)

/-- `sema.NewAccessFromEntitlementOrderedSet` -/
def accessFromSet (k : SetKind) (es : List ε) : Access ε :=
  if es.isEmpty then unauthorized else .set k es

/-- `req.PermitsAccess(held)`: "receiver access permits argument access". -/
def permits : Access ε → Access ε → Bool
  -- EntitlementSetAccess.PermitsAccess
  | .set _ _, .prim p => p == .self
  | .set .conj es, .set .disj os => os.all (fun o => es.all (fun e => o == e))
  | .set .disj es, .set .disj os => os.all (fun o => es.contains o)
  | .set .conj es, .set .conj os => es.all (fun e => os.contains e)
  | .set .disj es, .set .conj os => es.any (fun e => os.contains e)
  | .set _ _, .map _ => false
  -- EntitlementMapAccess.PermitsAccess
  | .map _, .prim p => p == .self
  | .map _, .set _ _ => false
  | .map _, .map _ => false
  -- PrimitiveAccess.PermitsAccess
  | .prim a, .prim o => if a == .none then o == .none else a.rank ≥ o.rank
  | .prim a, _ => if a == .none then false else a != .self

/-- `a.Equal(b)` -/
def equal : Access ε → Access ε → Bool
  | .set k es, .set k' os => k == k' && permits (.set k es) (.set k' os) && permits (.set k' os) (.set k es)
  | .map m, .map m' => m.id == m'.id
  | .prim a, .prim b => a == b
  | _, _ => false

/-- `orderedmap.KeySetIntersection(a, b)` -/
def keyIntersection (a b : List ε) : List ε := a.filter (fun x => b.contains x)

/-- `sema.IntersectAccess(a, b)` -/
def intersect : Access ε → Access ε → Access ε
  | .set .conj as, .set .conj bs => accessFromSet .conj (keyIntersection as bs)
  | .set .conj as, .set .disj bs => if bs.all (fun b => as.contains b) then .set .disj bs else unauthorized
  | .set .disj as, .set .conj bs => if as.all (fun a => bs.contains a) then .set .disj as else unauthorized
  | .set .disj _, .set .disj _ => unauthorized
  | _, _ => unauthorized

/-- `(*EntitlementMapAccess).entitlementImage(e)` -/
def entitlementImage (m : Mapping ε) (e : ε) : List ε :=
  let outs := insertAll [] ((m.relations.filter (fun r => r.1 == e)).map (·.2))
  if m.includesIdentity then insertKey outs e else outs

/-- the error flag of `Image`: a disjunction one of whose members has an image with more than one
    element (`UnrepresentableEntitlementMapOutputError`) -/
def imageUnrepresentable (m : Mapping ε) (k : SetKind) (es : List ε) : Bool :=
  k == .disj && es.any (fun e => (entitlementImage m e).length > 1)

/-- the flag `disjunctionMemberWithEmptyImage` of `Image` (fix ecb3aaf): a holder of a disjunction
    may possess only a member whose image is empty -/
def imageDisjEmptyMember (m : Mapping ε) (k : SetKind) (es : List ε) : Bool :=
  k == .disj && es.any (fun e => (entitlementImage m e).isEmpty)

/-- the accumulated `output` set of `Image` -/
def imageOutput (m : Mapping ε) (es : List ε) : List ε :=
  es.foldl (fun out e => insertAll out (entitlementImage m e)) []

/-- `(*EntitlementMapAccess).Image(inputs)`; `none` is the `UnrepresentableEntitlementMapOutputError`. -/
def image (m : Mapping ε) : Access ε → Option (Access ε)
  | .prim p => some (.prim p)
  | .set k es =>
    if imageUnrepresentable m k es then none
    else
      let out := imageOutput m es
      if out.isEmpty || imageDisjEmptyMember m k es then some unauthorized else some (.set k out)
  | .map _ => some unauthorized

/-- `(*EntitlementMapAccess).Domain()` -/
def domain (m : Mapping ε) : Access ε := mkSet .conj (m.relations.map (·.1))

end Verif.Model.Auth
