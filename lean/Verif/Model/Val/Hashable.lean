import Verif.Gen.HashTags
/-!
# Equatable / comparable / hashable values (property C18)

Code-shaped model of the per-kind `Equal`, `Less`/`LessEqual`/`Greater`/`GreaterEqual` and `HashInput`
methods of `/repo/interpreter/value_*.go`, of `StaticType.Equal` / `StaticType.ID`
(`interpreter/statictype.go`) and of the ID formatters of `sema` they call.

* numbers of all 28 kinds are `(kind, Int)` (fixed-point: the raw scaled integer);
* strings / characters are their *normalised* UTF-8 bytes (NFC is `golang.org/x/text`, trusted: the
  harness supplies the normalised bytes);
* type values carry a static type of the algebra `STy` (primitive / composite / interface types are
  identified by their type ID; function types are outside the model);
* the tag bytes come from `Verif.Gen.HashTags` (regenerated from `hashablevalue.go` on every run).
Core Lean only.
-/
namespace Verif.Model.Val
open Verif.Gen

abbrev Bytes := List UInt8

/-! ## byte strings: Go's `==`, `<` on `string` is bytewise lexicographic -/

/-- three-way bytewise lexicographic comparison (Go `strings.Compare` / the `<` family on strings) -/
def bytesCmp : Bytes → Bytes → Ordering
  | [], [] => .eq
  | [], _ :: _ => .lt
  | _ :: _, [] => .gt
  | a :: as, b :: bs =>
    if a.toNat < b.toNat then .lt else if b.toNat < a.toNat then .gt else bytesCmp as bs

def bytesLt (a b : Bytes) : Bool := bytesCmp a b == .lt
def bytesLe (a b : Bytes) : Bool := bytesCmp a b != .gt

def ascii (s : String) : Bytes := s.toUTF8.toList

/-- decimal digits of a natural number (`fmt.Sprintf("%d")`), fuel = number itself is more than enough -/
def natDecAux : Nat → Nat → Bytes → Bytes
  | 0, _, acc => acc
  | f + 1, n, acc =>
    let acc := UInt8.ofNat (48 + n % 10) :: acc
    if n / 10 = 0 then acc else natDecAux f (n / 10) acc

def decimal (n : Int) : Bytes :=
  (if n < 0 then [0x2d] else []) ++ natDecAux (n.natAbs.log2 + 1) n.natAbs []

/-! ## static types -/

/-- `interpreter.Authorization` (without `Inaccessible`, whose `ID()` is unreachable code) -/
inductive Auth where
  | unauth
  /-- `EntitlementSetAuthorization`: kind (`disj = true` for `|`), member type IDs in insertion order -/
  | set (disj : Bool) (ids : List Bytes)
  | map (id : Bytes)
  deriving Repr, DecidableEq, Inhabited

/-- `interpreter.StaticType` -/
inductive STy where
  | prim (id : Bytes)
  | comp (id : Bytes)
  | iface (id : Bytes)
  | opt (t : STy)
  | varr (t : STy)
  | carr (n : Int) (t : STy)
  | dict (k v : STy)
  | inter (ids : List Bytes)
  | ref (a : Auth) (t : STy)
  | cap0
  | cap (t : STy)
  | range (t : STy)
  deriving Repr, DecidableEq, Inhabited

/-- `EntitlementSetAuthorization.Equal` &c. -/
def Auth.equal : Auth → Auth → Bool
  | .unauth, .unauth => true
  | .set k xs, .set k' ys =>
    if k != k' then false
    else if ys.length != xs.length then false
    else ys.all (fun e => xs.contains e)
  | .map a, .map b => a == b
  | _, _ => false

/-- `StaticType.Equal`, per kind -/
def STy.equal : STy → STy → Bool
  | .prim a, .prim b => a == b
  | .comp a, .comp b => b == a
  | .iface a, .iface b => b == a
  | .opt a, .opt b => equal a b
  | .varr a, .varr b => equal a b
  | .carr n a, .carr m b => n == m && equal a b
  | .dict k v, .dict k' v' => equal k k' && equal v v'
  | .inter xs, .inter ys =>
    if xs.length != ys.length then false
    else xs.all (fun x => ys.any (fun y => y == x))
  | .ref a t, .ref a' t' => a.equal a' && equal t t'
  | .cap0, .cap0 => true
  | .cap t, .cap t' => equal t t'
  | .range a, .range b => equal a b
  | _, _ => false

/-- `slices.Sort` on type IDs (strings): the sorted permutation w.r.t. bytewise order -/
def insertID (a : Bytes) : List Bytes → List Bytes
  | [] => [a]
  | b :: bs => if bytesLe a b then a :: b :: bs else b :: insertID a bs

def sortIDs (ids : List Bytes) : List Bytes := ids.foldr insertID []

def joinWith (sep : Bytes) : List Bytes → Bytes
  | [] => []
  | [x] => x
  | x :: y :: rest => x ++ sep ++ joinWith sep (y :: rest)

/-- `sema.FormatEntitlementSetTypeID` -/
def formatEntitlementSet (ids : List Bytes) (disj : Bool) : Bytes :=
  joinWith (if disj then [0x7c] else [0x2c]) (sortIDs ids)

/-- `Authorization.ID` (`Unauthorized.ID` is unreachable; `ReferenceStaticType.ID` does not call it) -/
def Auth.id : Auth → Bytes
  | .unauth => []
  | .set d ids => formatEntitlementSet ids d
  | .map i => i

/-- `IntersectionStaticType.ID` -/
def interID (ids : List Bytes) : Bytes :=
  match ids with
  | [x] => [0x7b] ++ x ++ [0x7d]
  | _ => [0x7b] ++ joinWith ([0x2c]) (sortIDs ids) ++ [0x7d]

/-- `sema.formatReferenceType("", authorization, id)` -/
def formatReference (authorization tid : Bytes) : Bytes :=
  (if authorization != [] then [0x61, 0x75, 0x74, 0x68, 0x28] ++ authorization ++ [0x29] else []) ++ [0x26] ++ tid

/-- `StaticType.ID`, per kind.  Byte literals (so that the kernel can evaluate IDs): `(`=28 `)`=29 `?`=3f
`[`=5b `]`=5d `;`=3b `{`=7b `}`=7d `:`=3a `,`=2c `|`=7c `&`=26 `<`=3c `>`=3e; 61 75 74 68 28 = `auth(`;
43 61 70 61 62 69 6c 69 74 79 = `Capability`; 49 6e 63 6c 75 73 69 76 65 52 61 6e 67 65 = `InclusiveRange`. -/
def STy.id : STy → Bytes
  | .prim a => a
  | .comp a => a
  | .iface a => a
  | .opt t => [0x28] ++ id t ++ [0x29, 0x3f]
  | .varr t => [0x5b] ++ id t ++ [0x5d]
  | .carr n t => [0x5b] ++ id t ++ [0x3b] ++ decimal n ++ [0x5d]
  | .dict k v => [0x7b] ++ id k ++ [0x3a] ++ id v ++ [0x7d]
  | .inter ids => interID ids
  | .ref a t => formatReference (match a with | .unauth => [] | a => a.id) (id t)
  | .cap0 => [0x43, 0x61, 0x70, 0x61, 0x62, 0x69, 0x6c, 0x69, 0x74, 0x79]
  | .cap t => let s := id t; if s == [] then [0x43, 0x61, 0x70, 0x61, 0x62, 0x69, 0x6c, 0x69, 0x74, 0x79] else [0x43, 0x61, 0x70, 0x61, 0x62, 0x69, 0x6c, 0x69, 0x74, 0x79, 0x3c] ++ s ++ [0x3e]
  | .range t => let s := id t; if s == [] then [0x49, 0x6e, 0x63, 0x6c, 0x75, 0x73, 0x69, 0x76, 0x65, 0x52, 0x61, 0x6e, 0x67, 0x65] else [0x49, 0x6e, 0x63, 0x6c, 0x75, 0x73, 0x69, 0x76, 0x65, 0x52, 0x61, 0x6e, 0x67, 0x65, 0x3c] ++ s ++ [0x3e]

/-! ## numbers -/

inductive NumKind where
  | int | int8 | int16 | int32 | int64 | int128 | int256
  | uint | uint8 | uint16 | uint32 | uint64 | uint128 | uint256
  | word8 | word16 | word32 | word64 | word128 | word256
  | fix64 | fix128 | ufix64 | ufix128
  deriving Repr, DecidableEq, Inhabited

/-- how `HashInput` serialises the number after the tag byte -/
inductive NumEnc where
  | signedMin      -- `values.SignedBigIntToBigEndianBytes`
  | unsignedMin    -- `values.UnsignedBigIntToBigEndianBytes`
  | fixed (len : Nat)  -- `byte(v)` / `binary.BigEndian.PutUintN` of the two's-complement pattern
  deriving Repr, DecidableEq

def NumKind.tag : NumKind → Nat
  | .int => HashTags.tagInt | .int8 => HashTags.tagInt8 | .int16 => HashTags.tagInt16
  | .int32 => HashTags.tagInt32 | .int64 => HashTags.tagInt64 | .int128 => HashTags.tagInt128
  | .int256 => HashTags.tagInt256
  | .uint => HashTags.tagUInt | .uint8 => HashTags.tagUInt8 | .uint16 => HashTags.tagUInt16
  | .uint32 => HashTags.tagUInt32 | .uint64 => HashTags.tagUInt64 | .uint128 => HashTags.tagUInt128
  | .uint256 => HashTags.tagUInt256
  | .word8 => HashTags.tagWord8 | .word16 => HashTags.tagWord16 | .word32 => HashTags.tagWord32
  | .word64 => HashTags.tagWord64 | .word128 => HashTags.tagWord128 | .word256 => HashTags.tagWord256
  | .fix64 => HashTags.tagFix64 | .fix128 => HashTags.tagFix128
  | .ufix64 => HashTags.tagUFix64 | .ufix128 => HashTags.tagUFix128

def NumKind.enc : NumKind → NumEnc
  | .int | .int128 | .int256 => .signedMin
  | .uint | .uint128 | .uint256 | .word128 | .word256 => .unsignedMin
  | .int8 | .uint8 | .word8 => .fixed 1
  | .int16 | .uint16 | .word16 => .fixed 2
  | .int32 | .uint32 | .word32 => .fixed 4
  | .int64 | .uint64 | .word64 | .fix64 | .ufix64 => .fixed 8
  | .fix128 | .ufix128 => .fixed 16

/-- value range `lo ≤ n < hi` of a kind (`none` = unbounded) -/
def NumKind.lo : NumKind → Option Int
  | .int => none
  | .int8 => some (-(2 ^ 7)) | .int16 => some (-(2 ^ 15)) | .int32 => some (-(2 ^ 31))
  | .int64 | .fix64 => some (-(2 ^ 63)) | .int128 | .fix128 => some (-(2 ^ 127)) | .int256 => some (-(2 ^ 255))
  | _ => some 0

def NumKind.hi : NumKind → Option Int
  | .int | .uint => none
  | .int8 => some (2 ^ 7) | .int16 => some (2 ^ 15) | .int32 => some (2 ^ 31)
  | .int64 | .fix64 => some (2 ^ 63) | .int128 | .fix128 => some (2 ^ 127) | .int256 => some (2 ^ 255)
  | .uint8 | .word8 => some (2 ^ 8) | .uint16 | .word16 => some (2 ^ 16) | .uint32 | .word32 => some (2 ^ 32)
  | .uint64 | .word64 | .ufix64 => some (2 ^ 64) | .uint128 | .word128 | .ufix128 => some (2 ^ 128)
  | .uint256 | .word256 => some (2 ^ 256)

def NumKind.inRange (k : NumKind) (n : Int) : Bool :=
  (match k.lo with | some l => decide (l ≤ n) | none => true) &&
  (match k.hi with | some h => decide (n < h) | none => true)

/-- is the kind an integer kind (allowed as enum raw type) -/
def NumKind.isInteger : NumKind → Bool
  | .fix64 | .fix128 | .ufix64 | .ufix128 => false
  | _ => true

/-- `big.Int.Bytes`: minimal big-endian magnitude (`0 ↦ []`); `fuel` ≥ bit length -/
def natBytesAux : Nat → Nat → Bytes
  | 0, _ => []
  | f + 1, n => if n = 0 then [] else natBytesAux f (n / 256) ++ [UInt8.ofNat (n % 256)]

def natBytesBE (n : Nat) : Bytes := natBytesAux (n.log2 + 1) n

/-- big-endian, exactly `len` bytes, of `n mod 256^len` (`FillBytes` / `PutUintN`) -/
def natBytesFixed : Nat → Nat → Bytes
  | 0, _ => []
  | len + 1, n => natBytesFixed len (n / 256) ++ [UInt8.ofNat (n % 256)]

/-- `values.SignedBigIntToBigEndianBytes` -/
def signedBytes (x : Int) : Bytes :=
  if x < 0 then
    let bs := (natBytesBE (-x - 1).toNat).map (fun b => b ^^^ 0xff)
    match bs with
    | [] => [0xff]
    | b :: _ => if b &&& 0x80 == 0 then 0xff :: bs else bs
  else if x = 0 then [0]
  else
    let bs := natBytesBE x.toNat
    match bs with
    | b :: _ => if b &&& 0x80 != 0 then 0 :: bs else bs
    | [] => bs

/-- `values.UnsignedBigIntToBigEndianBytes` (a negative argument is a Go panic; never reached for
in-range values) -/
def unsignedBytes (x : Int) : Bytes := if x = 0 then [0] else natBytesBE x.toNat

/-- the two's-complement pattern of `x` in `len` bytes -/
def fixedBytes (len : Nat) (x : Int) : Bytes := natBytesFixed len (x % (2 ^ (8 * len) : Nat)).toNat

def numBytes (k : NumKind) (n : Int) : Bytes :=
  match k.enc with
  | .signedMin => signedBytes n
  | .unsignedMin => unsignedBytes n
  | .fixed len => fixedBytes len n

/-! ## values -/

inductive Val where
  | bool (b : Bool)
  | str (s : Bytes)
  | char (s : Bytes)
  | addr (a : Bytes)
  | path (domain : Nat) (ident : Bytes)
  | num (k : NumKind) (n : Int)
  /-- enum case: composite type ID, raw value -/
  | enum (tid : Bytes) (k : NumKind) (n : Int)
  /-- type value; `none` = unknown type (`TypeValue{Type: nil}`) -/
  | type (t : Option STy)
  | nil
  | some (v : Val)
  | arr (ty : STy) (vs : List Val)
  | dict (ty : STy) (kvs : List (Val × Val))
  deriving Repr, Inhabited

mutual
/-- `EquatableValue.Equal`, per kind -/
def eq : Val → Val → Bool
  | .bool a, .bool b => a == b
  | .str a, .str b => a == b
  | .char a, .char b => a == b
  | .addr a, .addr b => a == b
  | .path d i, .path d' i' => if d' != d then false else i' == i
  | .num k n, .num k' n' => k == k' && n == n'
  | .enum t k n, .enum t' k' n' => t == t' && (k == k' && n == n')
  | .type (some s), .type (some t) => s.equal t
  | .type _, .type _ => false
  | .nil, .nil => true
  | .some a, .some b => eq a b
  | .arr t xs, .arr t' ys =>
    if xs.length != ys.length then false
    else if !t.equal t' then false
    else eqList xs ys
  | .dict t es, .dict t' fs =>
    if es.length != fs.length then false
    else if !t.equal t' then false
    else eqEntries es fs
  | _, _ => false
/-- the element loop of `ArrayValue.Equal` (counts are already known to be equal) -/
def eqList : List Val → List Val → Bool
  | [], _ => true
  | x :: xs, y :: ys => eq x y && eqList xs ys
  | _ :: _, [] => false
/-- the entry loop of `DictionaryValue.Equal`: every entry of the receiver is looked up in the other
dictionary (`Get`: the entry whose key the looked-up key equals) and the values are compared -/
def eqEntries : List (Val × Val) → List (Val × Val) → Bool
  | [], _ => true
  | (k, v) :: es, fs =>
    (match fs.find? (fun kv => eq k kv.1) with
     | some kv => eq v kv.2
     | none => false) && eqEntries es fs
end

/-- comparable kinds: `ComparableValue` is implemented by numbers, strings, characters, booleans -/
def comparable : Val → Val → Bool
  | .bool _, .bool _ => true
  | .str _, .str _ => true
  | .char _, .char _ => true
  | .num k _, .num k' _ => k == k'
  | _, _ => false

/-- `Less` (meaningful when `comparable a b`; otherwise Go panics and the model answers `false`) -/
def lt : Val → Val → Bool
  | .bool a, .bool b => !a && b
  | .str a, .str b => bytesCmp a b == .lt
  | .char a, .char b => bytesCmp a b == .lt
  | .num _ n, .num _ m => decide (n < m)
  | _, _ => false

/-- `LessEqual` -/
def le : Val → Val → Bool
  | .bool a, .bool b => !a || b
  | .str a, .str b => bytesCmp a b != .gt
  | .char a, .char b => bytesCmp a b != .gt
  | .num _ n, .num _ m => decide (n ≤ m)
  | _, _ => false

/-- `Greater` -/
def gt : Val → Val → Bool
  | .bool a, .bool b => a && !b
  | .str a, .str b => bytesCmp a b == .gt
  | .char a, .char b => bytesCmp a b == .gt
  | .num _ n, .num _ m => decide (n > m)
  | _, _ => false

/-- `GreaterEqual` -/
def ge : Val → Val → Bool
  | .bool a, .bool b => a || !b
  | .str a, .str b => bytesCmp a b != .lt
  | .char a, .char b => bytesCmp a b != .lt
  | .num _ n, .num _ m => decide (n ≥ m)
  | _, _ => false

def tagByte (n : Nat) : UInt8 := UInt8.ofNat n

/-- `HashableValue.HashInput`; `none` for kinds that are not hashable -/
def hashInput : Val → Option Bytes
  | .bool b => some [tagByte HashTags.tagBool, if b then 1 else 0]
  | .str s => some (tagByte HashTags.tagString :: s)
  | .char s => some (tagByte HashTags.tagCharacter :: s)
  | .addr a => some (tagByte HashTags.tagAddress :: a)
  | .path d i => some (tagByte HashTags.tagPath :: UInt8.ofNat d :: i)
  | .num k n => some (tagByte k.tag :: numBytes k n)
  | .enum tid k n => some (tagByte HashTags.tagEnum :: (tid ++ (tagByte k.tag :: numBytes k n)))
  | .type (some t) => some (tagByte HashTags.tagType :: t.id)
  | _ => none

/-! ## well-formedness (what the constructors of the real values guarantee) -/

def Auth.wf : Auth → Bool
  | .set _ ids => decide ids.Nodup      -- an ordered *set*
  | _ => true

/-- intersections list each interface once (`sema.CheckIntersectionType` rejects duplicates) -/
def STy.wf : STy → Bool
  | .opt t | .varr t | .carr _ t | .cap t | .range t => wf t
  | .dict k v => wf k && wf v
  | .inter ids => decide ids.Nodup
  | .ref a t => a.wf && wf t
  | _ => true

mutual
/-- what the constructors of the real values guarantee: numbers in the range of their kind, enum raw
values of an integer kind, 8-byte addresses, known and well-formed static types -/
def Val.wf : Val → Bool
  | .num k n => k.inRange n
  | .enum _ k n => k.isInteger && k.inRange n
  | .addr a => a.length == 8
  | .path d _ => decide (d < 256)
  | .type (some t) => t.wf
  | .type none => false
  | .some v => Val.wf v
  | .arr t vs => t.wf && wfList vs
  | .dict t es => t.wf && wfEntries es
  | _ => true
def wfList : List Val → Bool
  | [] => true
  | v :: vs => Val.wf v && wfList vs
def wfEntries : List (Val × Val) → Bool
  | [] => true
  | (k, v) :: es => Val.wf k && Val.wf v && wfEntries es
end

mutual
/-- no dictionary anywhere inside -/
def Val.dictFree : Val → Bool
  | .some v => Val.dictFree v
  | .arr _ vs => dictFreeList vs
  | .dict _ _ => false
  | _ => true
def dictFreeList : List Val → Bool
  | [] => true
  | v :: vs => Val.dictFree v && dictFreeList vs
end

/-! ## dictionary keys (what `DictionaryValue` guarantees about its entries) -/

/-- no two entries have equal keys (`Insert` / `SetKey` replace the entry of an equal key) -/
def distinctKeys : List (Val × Val) → Bool
  | [] => true
  | (k, _) :: es => es.all (fun e => !eq k e.1) && distinctKeys es

mutual
/-- every dictionary inside has hashable (`HashableValue`) and pairwise unequal keys -/
def Val.keysOK : Val → Bool
  | .some v => Val.keysOK v
  | .arr _ vs => keysOKList vs
  | .dict _ es => keysOKEntries es && distinctKeys es
  | _ => true
def keysOKList : List Val → Bool
  | [] => true
  | v :: vs => Val.keysOK v && keysOKList vs
def keysOKEntries : List (Val × Val) → Bool
  | [] => true
  | (k, v) :: es => (hashInput k).isSome && Val.keysOK v && keysOKEntries es
end

/-- the type ID of an enum is printable and contains no space (identifier characters and `.`): every
byte is above 0x20.  `CompositeValue.HashInput` concatenates tag, type ID and the raw value's hash
input *without a length prefix*; the boundary is recognisable because the raw value's tag byte
(an integer kind: 10 … 32) cannot occur inside the ID. -/
def Val.idPrintable : Val → Bool
  | .enum tid _ _ => tid.all (fun c => decide (0x20 < c.toNat))
  | _ => true

end Verif.Model.Val
