/-!
An abstract metered machine (property C30).  Core Lean only.

A machine is a step function on states.  A step either halts (normally or with a user error), or
continues *uncharged*, or continues *charged* with a cost that is reported to the computation gauge —
in /repo: every statement (`StatementComputationUsage`), every loop back-edge (`LoopComputationUsage`:
`reportLoopIteration`, VM `InstructionLoop`), every function invocation
(`FunctionInvocationComputationUsage`), every intensity-metered built-in.  The gauge has a finite
budget; a charge that exceeds what remains ends the run with the computation-limit error
(`ComputationMeteringError`, a user error).

`exec` runs the machine with an explicit number of machine steps `fuel`; `none` = fuel exhausted
(the run did not stop within that many steps).  The theorems derive a sufficient `fuel` from the
budget — termination is not assumed.
-/
namespace Verif.Model.Metered

inductive Outcome where
  | ok | userError | limitError
  deriving DecidableEq, Repr

inductive Step (σ : Type) where
  | halt (ok : Bool)
  | uncharged (next : σ)
  | charged (cost : Nat) (next : σ)

/-- `exec step fuel s remaining` = outcome and number of steps taken, or `none` when `fuel` steps were not enough -/
def exec {σ : Type} (step : σ → Step σ) : Nat → σ → Nat → Option (Outcome × Nat)
  | 0, _, _ => none
  | fuel + 1, s, remaining =>
    match step s with
    | .halt true => some (.ok, 1)
    | .halt false => some (.userError, 1)
    | .uncharged s' => (exec step fuel s' remaining).map (fun r => (r.1, r.2 + 1))
    | .charged cost s' =>
      if cost > remaining then some (.limitError, 1)
      else (exec step fuel s' (remaining - cost)).map (fun r => (r.1, r.2 + 1))

/-- The metering discipline: every charged step costs at least 1, and a ranking `μ ≤ c` strictly
decreases along uncharged steps — i.e. there are at most `c` consecutive uncharged steps (straight-line
code between two charges); every cycle of the control-flow graph (loop back-edge, call) is charged. -/
structure Disciplined {σ : Type} (step : σ → Step σ) (c : Nat) (μ : σ → Nat) : Prop where
  bounded : ∀ s, μ s ≤ c
  uncharged_decreases : ∀ s s', step s = .uncharged s' → μ s' < μ s
  charged_positive : ∀ s cost s', step s = .charged cost s' → 1 ≤ cost

/-! ### Call depth

The interpreter's `stackDepthLimiter` (`depth++; if depth > limit → CallStackLimitExceededError`,
`depth--` on return) and the VM's `pushCallFrame` (`len(callstack) == limit → error`, then push). -/

inductive Ev where
  | call | ret | other
  deriving DecidableEq, Repr

def interpCall (limit d : Nat) : Option Nat := if d + 1 > limit then none else some (d + 1)
def vmCall (limit d : Nat) : Option Nat := if d == limit then none else some (d + 1)

/-- run a trace of call / return events from depth `d`; `none` = call-depth error -/
def depthRun (call : Nat → Option Nat) : List Ev → Nat → Option Nat
  | [], d => some d
  | .call :: es, d => match call d with
    | none => none
    | some d' => depthRun call es d'
  | .ret :: es, d => depthRun call es (d - 1)
  | .other :: es, d => depthRun call es d

/-- the limit each engine actually enforces for a configured `runtime.Config.StackDepthLimit` (0 = unset):
the interpreter environment passes it to `newStackDepthLimiter` (0 → `defaultStackDepthLimit`); the VM
environment sets `conf.StackDepthLimit = vmStackDepthLimit(config.StackDepthLimit)`: the same limit plus
one for the call frame of the entry point (facts `limit runtime.newStackDepthLimiter`,
`limit runtime.vmStackDepthLimit`, `depth runtime.vmEnvironment.newVMConfig StackDepthLimit`).  (Go's
`uint64`: the increment is skipped at `math.MaxUint64`, a depth no execution reaches; the model is over ℕ.) -/
def defaultLimit : Nat := 2000
def interpEffectiveLimit (configured : Nat) : Nat := if configured = 0 then defaultLimit else configured
def vmEffectiveLimit (configured : Nat) : Nat := interpEffectiveLimit configured + 1

/-- the VM environment's limit before /repo bc0b586 / 4e6bf8c (kept for the witness theorems that say why
the two fixes are needed): the default, whatever is configured, and no allowance for the entry frame -/
def vmEffectiveLimitOld (_configured : Nat) : Nat := defaultLimit

/-- `n` nested calls of a function from the entry point, as each engine counts them: the interpreter's
limiter starts at 0 and does not count the entry point; the VM's call stack already holds the entry
point's frame. -/
def interpNested (configured n : Nat) : Option Nat :=
  depthRun (interpCall (interpEffectiveLimit configured)) (List.replicate n Ev.call) 0
def vmNested (configured n : Nat) : Option Nat :=
  depthRun (vmCall (vmEffectiveLimit configured)) (List.replicate n Ev.call) 1
def vmNestedOld (configured n : Nat) : Option Nat :=
  depthRun (vmCall (vmEffectiveLimitOld configured)) (List.replicate n Ev.call) 1

/-! ### Sequential invocations

A loop that makes `k` invocations one after the other, `base` Cadence invocations below the entry point.
`perIter` is what one iteration contributes to an engine's depth trace: `[call, ret]` for an invocation
that the engine counts (`seqCounted`), `[other]` for something it does not count (optional chaining on
`nil`: nothing is invoked; a native function in the VM: no call frame). -/

def seqCounted : List Ev := [.call, .ret]
def seqUncounted : List Ev := [.other]

def seqTrace (base k : Nat) (perIter : List Ev) : List Ev :=
  List.replicate base Ev.call ++ (List.replicate k perIter).flatten

def interpSeq (configured base k : Nat) (perIter : List Ev) : Option Nat :=
  depthRun (interpCall (interpEffectiveLimit configured)) (seqTrace base k perIter) 0
def vmSeq (configured base k : Nat) (perIter : List Ev) : Option Nat :=
  depthRun (vmCall (vmEffectiveLimit configured)) (seqTrace base k perIter) 1

/-- Destroying a resource whose type declares a `ResourceDestroyed` event.  The interpreter evaluates the
event's default arguments in place (no invocation is reported); the VM (`Context.DefaultDestroyEvents`)
invokes the generated method `$ResourceDestroyed`, which invokes the event's constructor: two nested call
frames of compiled functions (the finding `vm-destroy-event-counts-call-frames`). -/
def destroyEvInterp : List Ev := [.other]
def destroyEvVM : List Ev := [.call, .call, .ret, .ret]

end Verif.Model.Metered
