/-
C27 — code-shaped model of the contract update validator.

Port of `/repo/stdlib/contract_update_validation.go` (`ContractUpdateValidator.Validate`,
`collectImports`, `checkDeclarationUpdatability`, `checkFields`, `checkField`,
`checkDeclarationKindChange`, `checkNestedDeclarations`, `collectRemovedTypePragmas`,
`checkTypeNotRemoved`, `checkNestedDeclarationRemoval`, `getNestedNominalTypeDecls`, `checkEnumCases`,
`checkConformance`) and of `/repo/stdlib/type-comparator.go` (`TypeComparator`, the
`ast.TypeEqualityChecker` the validator uses).  Core Lean only.

What is kept of an `ast.Program`: the import declarations and the root declaration (selected on the Go
side by `ast.Program.SoleContractDeclaration` / `SoleContractInterfaceDeclaration`); of a declaration:
its Go type (`Shape`), `DeclarationKind`, identifier, fields (name, type AST), conformances, enum
cases, pragmas (abstracted to what `collectRemovedTypePragmas` distinguishes), attachment base type and
the three lists `Members.Composites()`, `Members.Attachments()`, `Members.Interfaces()` in source order.
Errors are kept as kinds (Go type names), in the order the validator reports them.
-/
namespace Verif.Model.Update

/-- `ast.NominalType`: `Identifier` and `NestedIdentifiers`. -/
structure Nominal where
  id : String
  nested : List String
  deriving DecidableEq, Repr, Inhabited

/-- `ast.Authorization` of a reference type, over leaves `α` (`α = Nominal` for the AST). -/
inductive Auth (α : Type) where
  | conj (es : List α)
  | disj (es : List α)
  | mapped (m : α)
  deriving Repr

/-- `ast.Type`, parameterised over the representation of nominal types
(`Nominal` for the parsed AST; a canonical name for the spec's semantic types). -/
inductive Ty (α : Type) where
  | nominal (n : α)
  | optional (t : Ty α)
  | varSized (t : Ty α)
  | constSized (t : Ty α) (size : Int) (base : Nat)
  | dict (k v : Ty α)
  | func (purity : Nat) (params : List (Ty α)) (ret : Ty α)
  | ref (auth : Option (Auth α)) (t : Ty α)
  | inter (ts : List α)
  | inst (t : Ty α) (args : List (Ty α))
  deriving Repr

abbrev TypeAst := Ty Nominal

/-- `common.AddressLocation` (address in hex, contract name). -/
structure Loc where
  address : String
  name : String
  deriving DecidableEq, Repr

/-- error returned by `CheckEqual`: `TypeMismatchError` or `AuthorizationMismatchError` -/
inductive Mis where
  | type | auth
  deriving DecidableEq, Repr

/-- the `TypeComparator` fields -/
structure Cmp where
  root : Option String
  expImports : List (String × Loc)
  foundImports : List (String × Loc)

/-- Go map lookup: later insertions overwrite earlier ones, so the last pair with the key counts. -/
def lookupLast {β : Type} (k : String) : List (String × β) → Option β
  | [] => none
  | (k', v) :: rest =>
    match lookupLast k rest with
    | some w => some w
    | none => if k' == k then some v else none

/-- `identifiersEqual` -/
def identifiersEqual (e f : List String) : Bool := e == f

/-- `checkIdentifierEquality(qualified, simple)`; `q.nested` is non-empty at every call site. -/
def checkIdentifierEquality (c : Cmp) (q s : Nominal) : Bool :=
  if (match c.root with | some r => q.id != r | none => false) then false else
  match q.nested with
  | [] => false   -- unreachable in Go (index out of range); callers pass a qualified name
  | n0 :: rest => if n0 != s.id then false else identifiersEqual s.nested rest

/-- `checkNameEquality(expected, found)` -/
def checkNameEquality (c : Cmp) (e f : Nominal) : Bool :=
  let eq := !e.nested.isEmpty
  let fq := !f.nested.isEmpty
  if eq && !fq then checkIdentifierEquality c e f
  else if fq && !eq then checkIdentifierEquality c f e
  else if e.id != f.id then false
  else if lookupLast e.id c.expImports != lookupLast f.id c.foundImports then false
  else identifiersEqual e.nested f.nested

/-- pairwise nominal comparison of two lists of the same length (Go indexes the found list) -/
def nominalsEq (c : Cmp) : List Nominal → List Nominal → Option Mis
  | e :: es, f :: fs => if checkNameEquality c e f then nominalsEq c es fs else some .type
  | _, _ => none

/-- `Authorization.CheckEqual` (Check{Conjunctive,Disjunctive}EntitlementSetEquality, CheckMappedAccessEquality) -/
def authEq (c : Cmp) : Auth Nominal → Auth Nominal → Option Mis
  | .conj es, .conj fs => if es.length != fs.length then some .auth else nominalsEq c es fs
  | .conj _, _ => some .auth
  | .disj es, .disj fs => if es.length != fs.length then some .auth else nominalsEq c es fs
  | .disj _, _ => some .auth
  | .mapped e, .mapped f => if checkNameEquality c e f then none else some .type
  | .mapped _, _ => some .auth

mutual
/-- `expected.CheckEqual(found, comparator)`; `none` = equal -/
def typeEq (c : Cmp) : TypeAst → TypeAst → Option Mis
  | .nominal e, .nominal f => if checkNameEquality c e f then none else some .type
  | .nominal _, _ => some .type
  | .optional e, .optional f => typeEq c e f
  | .optional _, _ => some .type
  | .varSized e, .varSized f => typeEq c e f
  | .varSized _, _ => some .type
  | .constSized e n b, .constSized f m b' =>
    if m != n || b' != b then some .type else typeEq c e f
  | .constSized .., _ => some .type
  | .dict ek ev, .dict fk fv =>
    match typeEq c ek fk with
    | some m => some m
    | none => typeEq c ev fv
  | .dict .., _ => some .type
  | .func p ps r, .func p' ps' r' =>
    if ps.length != ps'.length then some .type
    else if p != p' then some .type
    else match typeEqList c ps ps' with
      | some m => some m
      | none => typeEq c r r'
  | .func .., _ => some .type
  | .ref a e, .ref a' f =>
    match a, a' with
    | none, none => typeEq c e f
    | some x, some y =>
      match authEq c x y with
      | some m => some m
      | none => typeEq c e f
    | _, _ => some .auth
  | .ref .., _ => some .type
  | .inter es, .inter fs => if es.length != fs.length then some .type else nominalsEq c es fs
  | .inter _, _ => some .type
  | .inst e eargs, .inst f fargs =>
    match typeEq c e f with
    | some m => some m
    | none => if eargs.length != fargs.length then some .type else typeEqList c eargs fargs
  | .inst .., _ => some .type
def typeEqList (c : Cmp) : List TypeAst → List TypeAst → Option Mis
  | e :: es, f :: fs =>
    match typeEq c e f with
    | some m => some m
    | none => typeEqList c es fs
  | _, _ => none
end

/-! ## declarations -/

/-- Go type of the declaration node -/
inductive Shape where
  | composite | interface | attachment
  deriving DecidableEq, Repr

/-- `common.DeclarationKind` as far as nominal type declarations go -/
inductive Kind where
  | contract | contractInterface | structure | structureInterface | resource | resourceInterface
  | enum | event | attachment | other (n : String)
  deriving DecidableEq, Repr

/-- `DeclarationKind.IsInterfaceDeclaration` -/
def Kind.isInterface : Kind → Bool
  | .contractInterface | .structureInterface | .resourceInterface => true
  | _ => false

/-- what `collectRemovedTypePragmas` looks at in a `PragmaDeclaration`: whether the expression is an
invocation, the invoked identifier (if it is an identifier expression), the number of arguments and
the first argument (if it is an identifier expression) -/
inductive Pragma where
  | notInvocation
  | invocation (invoked : Option String) (nargs : Nat) (arg0 : Option String)
  deriving DecidableEq, Repr

/-- `typeRemovalPragmaName` -/
def typeRemovalPragmaName : String := "removedType"

inductive PragmaClass where
  | other | bad | removed (name : String)

/-- the case analysis of the loop body of `collectRemovedTypePragmas` -/
def Pragma.classify : Pragma → PragmaClass
  | .notInvocation => .other
  | .invocation inv nargs arg0 =>
    if inv != some typeRemovalPragmaName then .other
    else if nargs != 1 then .bad
    else match arg0 with
      | none => .bad
      | some n => .removed n

structure Field where
  name : String
  ty : TypeAst

/-- The Go type of a declaration node is a function of its `DeclarationKind`
(`CompositeDeclaration.DeclarationKind() = CompositeKind.DeclarationKind(false)`,
`InterfaceDeclaration.DeclarationKind() = CompositeKind.DeclarationKind(true)`,
`AttachmentDeclaration.DeclarationKind() = DeclarationKindAttachment`; the parser builds an
`AttachmentDeclaration` for every attachment).  The reader checks this on every line. -/
def shapeOf : Kind → Shape
  | .contractInterface | .structureInterface | .resourceInterface => .interface
  | .attachment => .attachment
  | _ => .composite

inductive Decl where
  | mk (kind : Kind) (name : String) (fields : List Field) (confs : List Nominal)
      (cases : List String) (pragmas : List Pragma) (base : Option Nominal)
      (composites attachments interfaces : List Decl)

namespace Decl
def kind : Decl → Kind | .mk k .. => k
def shape (d : Decl) : Shape := shapeOf d.kind
def name : Decl → String | .mk _ n .. => n
def fields : Decl → List Field | .mk _ _ f .. => f
def confs : Decl → List Nominal | .mk _ _ _ c .. => c
def cases : Decl → List String | .mk _ _ _ _ c .. => c
def pragmas : Decl → List Pragma | .mk _ _ _ _ _ p .. => p
def base : Decl → Option Nominal | .mk _ _ _ _ _ _ b .. => b
def composites : Decl → List Decl | .mk _ _ _ _ _ _ _ c _ _ => c
def attachments : Decl → List Decl | .mk _ _ _ _ _ _ _ _ a _ => a
def interfaces : Decl → List Decl | .mk _ _ _ _ _ _ _ _ _ i => i
end Decl

/-- error kinds (Go type names) reported by the validator -/
inductive Err where
  | nameMismatch | extraneousField | fieldMismatch (inner : Mis) | kindChange | missingDeclaration
  | useOfRemovedType | pragmaRemoval | invalidPragma | missingEnumCases | enumCaseMismatch
  | conformanceMismatch | typeMismatch | authMismatch | contractNotFound | oldProgramError
  deriving DecidableEq, Repr

def Mis.toErr : Mis → Err
  | .type => .typeMismatch
  | .auth => .authMismatch

/-- `checkFields` + `checkField`: fields of the old declaration by identifier (last wins) -/
def checkFields (c : Cmp) (oldFields newFields : List Field) : List Err :=
  newFields.flatMap fun nf =>
    match lookupLast nf.name (oldFields.map fun f => (f.name, f.ty)) with
    | none => [.extraneousField]
    | some oty =>
      match typeEq c oty nf.ty with
      | some m => [.fieldMismatch m]
      | none => []

/-- `collectRemovedTypePragmas`: the ordered set of removed type names (first insertion keeps its place) -/
def removedNames : List Pragma → List String
  | [] => []
  | p :: rest =>
    match p.classify with
    | .removed n => n :: (removedNames rest).filter (· != n)
    | _ => removedNames rest

/-- the `InvalidTypeRemovalPragmaError`s reported while collecting (new declaration only) -/
def badPragmaErrs (ps : List Pragma) : List Err :=
  ps.flatMap fun p => match p.classify with | .bad => [.invalidPragma] | _ => []

/-- `checkEnumCases` -/
def checkEnumCases (oldCases newCases : List String) : List Err :=
  if newCases.length < oldCases.length then [.missingEnumCases]
  else (oldCases.zip newCases).flatMap fun (o, n) => if o != n then [.enumCaseMismatch] else []

/-- the inner loop of `checkConformance`: index of the first new conformance equal to the old one, removed -/
def removeFirstMatch (c : Cmp) (o : Nominal) : List Nominal → Option (List Nominal)
  | [] => none
  | n :: ns =>
    if checkNameEquality c o n then some ns
    else (removeFirstMatch c o ns).map (n :: ·)

/-- `checkConformance` -/
def checkConformance (c : Cmp) : List Nominal → List Nominal → List Err
  | [], _ => []
  | o :: os, news =>
    match removeFirstMatch c o news with
    | none => [.conformanceMismatch]
    | some rest => checkConformance c os rest

/-- the Go map `oldNominalTypeDecls`: keys unique -/
abbrev OldMap := List (String × Decl)

def OldMap.insert (m : OldMap) (k : String) (d : Decl) : OldMap :=
  if m.any (·.1 == k) then m.map fun (k', d') => if k' == k then (k', d) else (k', d')
  else m ++ [(k, d)]

def OldMap.find (m : OldMap) (k : String) : Option Decl :=
  match m with
  | [] => none
  | (k', d) :: rest => if k' == k then some d else OldMap.find rest k

def OldMap.erase (m : OldMap) (k : String) : OldMap := m.filter (·.1 != k)

/-- `getNestedNominalTypeDecls`: composites, then attachments, then interfaces; by-identifier maps
(later declarations with the same name overwrite earlier ones) -/
def nestedNominalTypeDecls (d : Decl) : OldMap :=
  (d.composites ++ d.attachments ++ d.interfaces).foldl (fun m x => m.insert x.name x) []

/-- `sort.Slice(missingDeclarations, by identifier)` (insertion sort; the keys are unique) -/
def insertByName (d : Decl) : List Decl → List Decl
  | [] => [d]
  | x :: xs => if d.name ≤ x.name then d :: x :: xs else x :: insertByName d xs

def sortByName (ds : List Decl) : List Decl := ds.foldr insertByName []

/-- `checkNestedDeclarationRemoval` -/
def checkRemoval (removed : List String) (d : Decl) : List Err :=
  if removed.contains d.name && !d.kind.isInterface then [] else [.missingDeclaration]

mutual
/-- `checkDeclarationUpdatability` -/
def checkDecl (c : Cmp) (old : Decl) : Decl → List Err
  | .mk nkind nname nfields nconfs ncases npragmas nbase ncomps natts nifaces =>
    if old.kind != nkind then [.kindChange] else
    let e0 : List Err := if old.name != nname then [.nameMismatch] else []
    let e1 := checkFields c old.fields nfields
    -- checkNestedDeclarations
    let oldRemoved := removedNames old.pragmas
    let removed := removedNames npragmas
    let e2 := badPragmaErrs npragmas
    let e3 : List Err := oldRemoved.flatMap fun r => if removed.contains r then [] else [.pragmaRemoval]
    let m0 := nestedNominalTypeDecls old
    let (e4, m1) := checkNews c removed ncomps m0
    let (e5, m2) := checkNews c removed natts m1
    let (e6, m3) := checkNews c removed nifaces m2
    let missing := sortByName (m3.map (·.2))
    let e7 := missing.flatMap (checkRemoval removed)
    let e8 := checkEnumCases old.cases ncases
    -- back in checkDeclarationUpdatability
    -- `checkConformance` is called for a pair of composite declarations and for a pair of interface
    -- declarations (the conformances of an interface are inherited by every type conforming to it)
    let e9 := if (old.shape == .composite && shapeOf nkind == .composite) ||
                 (old.shape == .interface && shapeOf nkind == .interface)
              then checkConformance c old.confs nconfs else []
    let e10 : List Err :=
      if old.shape == .attachment && old.kind == .attachment && shapeOf nkind == .attachment then
        match old.base, nbase with
        | some ob, some nb => if checkNameEquality c ob nb then [] else [.typeMismatch]
        | _, _ => []
      else []
    e0 ++ e1 ++ e2 ++ e3 ++ e4 ++ e5 ++ e6 ++ e7 ++ e8 ++ e9 ++ e10
/-- one of the three loops over the new nested declarations, threading the map of old declarations
that have not been matched yet -/
def checkNews (c : Cmp) (removed : List String) : List Decl → OldMap → List Err × OldMap
  | [], m => ([], m)
  | n :: ns, m =>
    let e1 : List Err := if removed.contains n.name then [.useOfRemovedType] else []
    match m.find n.name with
    | none =>
      let (es, m') := checkNews c removed ns m
      (e1 ++ es, m')
    | some o =>
      let e2 := checkDecl c o n
      let (es, m') := checkNews c removed ns (m.erase n.name)
      (e1 ++ e2 ++ es, m')
end

/-! ## programs -/

structure ImportDecl where
  address : Option String            -- `some hex` for a `common.AddressLocation`
  names : List (String × String)     -- (identifier, alias or "")

structure Program where
  imports : List ImportDecl
  root : Option Decl

/-- `AccountContractNamesProvider.GetAccountContractNames` -/
abbrev AccountNames := List (String × List String)

def accountNames (an : AccountNames) (addr : String) : List String :=
  match an.find? (·.1 == addr) with
  | some (_, ns) => ns
  | none => []

/-- `collectImports` (insertion order; `lookupLast` gives Go's map semantics) -/
def collectImports (an : AccountNames) (p : Program) : List (String × Loc) :=
  p.imports.flatMap fun imp =>
    match imp.address with
    | none => []
    | some addr =>
      if imp.names.isEmpty then (accountNames an addr).map fun n => (n, { address := addr, name := n })
      else imp.names.map fun (ident, alias) =>
        (if alias != "" then alias else ident, { address := addr, name := ident })

/-- `ContractUpdateValidator.Validate`: the reported errors, `[]` = update accepted -/
def validate (an : AccountNames) (old new : Program) : List Err :=
  match old.root with
  | none => [.oldProgramError]
  | some o =>
    match new.root with
    | none => [.contractNotFound]
    | some n =>
      checkDecl { root := some n.name, expImports := collectImports an old, foundImports := collectImports an new } o n

def Err.name : Err → String
  | .nameMismatch => "NameMismatchError"
  | .extraneousField => "ExtraneousFieldError"
  | .fieldMismatch .type => "FieldMismatchError(TypeMismatchError)"
  | .fieldMismatch .auth => "FieldMismatchError(AuthorizationMismatchError)"
  | .kindChange => "InvalidDeclarationKindChangeError"
  | .missingDeclaration => "MissingDeclarationError"
  | .useOfRemovedType => "UseOfRemovedTypeError"
  | .pragmaRemoval => "TypeRemovalPragmaRemovalError"
  | .invalidPragma => "InvalidTypeRemovalPragmaError"
  | .missingEnumCases => "MissingEnumCasesError"
  | .enumCaseMismatch => "EnumCaseMismatchError"
  | .conformanceMismatch => "ConformanceMismatchError"
  | .typeMismatch => "TypeMismatchError"
  | .authMismatch => "AuthorizationMismatchError"
  | .contractNotFound => "ContractNotFoundError"
  | .oldProgramError => "OldProgramError"

end Verif.Model.Update
