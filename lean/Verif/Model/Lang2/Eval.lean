import Verif.Model.Lang2.Heap
/-
μCadence L2: fuel-indexed big-step evaluator over the object heap (resources, moves, references,
copy semantics, account storage as a path map).

`M α = State → Res α` as in `Verif.Model.Lang.Eval` (outcome, final state, log trace).  The state holds
the environment of the current activation, the saved environments of the callers (so that every
variable of the program is visible in the state), the heap, the storage map (path ↦ value; the values
live in the same heap), the uuid counter and the list of emitted destruction events.

The run-time *defensive checks* of the Go interpreter are explicit `internalErr` outcomes here:
  * `invalidatedResource` — a read of a variable whose resource was moved out
    (`checkInvalidatedResourceUse`), a transfer of an already moved resource;
  * `memberType` — member access on a value of the wrong shape (`MemberAccessTypeError`; the known
    finding `conditional-result-not-boxed` reaches it);
  * `transferType` — a transferred value that does not have the shape of the target type
    (`ValueTransferTypeError`): arity / kind mismatches at calls.
User errors of L2: `invalidatedRef` (`InvalidatedResourceReferenceError`), `resourceLoss`,
`destroyedResource`, `forceAssignNonNil`, `overwrite` (save to an occupied path), `loadType`
(force-cast mismatch of `load` / `borrow`), `dereference`.
Core Lean only.
-/
namespace Verif.Model.Lang2
open Verif.Model.Lang (IntKind UnOp BinOp arith compareOp)

inductive ErrKind where
  | base (k : Verif.Model.Lang.ErrKind)
  | invalidatedRef | resourceLoss | destroyedResource | forceAssignNonNil | overwrite | loadType
  | dereference
  -- defensive checks (internal errors of the Go interpreter)
  | invalidatedResource | memberType | transferType
  -- model-internal
  | unbound | typeMismatch | unsupported | copyFuel
  deriving Repr, Inhabited

def ErrKind.name : ErrKind → String
  | .base k => k.name
  | .invalidatedRef => "invalidated-reference" | .resourceLoss => "resource-loss"
  | .destroyedResource => "destroyed-resource" | .forceAssignNonNil => "force-assign-non-nil"
  | .overwrite => "overwrite" | .loadType => "load-type" | .dereference => "dereference"
  | .invalidatedResource => "invalidated-resource" | .memberType => "member-type"
  | .transferType => "transfer-type" | .unbound => "unbound" | .typeMismatch => "type-mismatch"
  | .unsupported => "unsupported" | .copyFuel => "copy-fuel"

inductive Outcome (α : Type) where
  | ok (a : α)
  | userErr (k : ErrKind)
  | internalErr (k : ErrKind)
  | outOfFuel
  deriving Repr, Inhabited

abbrev Env := List (String × Val)

structure State where
  env : Env
  stack : List Env
  heap : Heap
  storage : List (String × Val)
  nextUuid : Nat
  events : List String
  deriving Repr, Inhabited

def State.init : State := ⟨[], [], [], [], 1, []⟩

structure Res (α : Type) where
  out : Outcome α
  st : State
  tr : List String
  deriving Inhabited

def M (α : Type) := State → Res α

namespace M
def pure {α} (a : α) : M α := fun s => ⟨.ok a, s, []⟩
def bind {α β} (m : M α) (f : α → M β) : M β := fun s =>
  let r := m s
  match r.out with
  | .ok a => let r' := f a r.st; ⟨r'.out, r'.st, r.tr ++ r'.tr⟩
  | .userErr k => ⟨.userErr k, r.st, r.tr⟩
  | .internalErr k => ⟨.internalErr k, r.st, r.tr⟩
  | .outOfFuel => ⟨.outOfFuel, r.st, r.tr⟩
instance : Monad M where
  pure := M.pure
  bind := M.bind
def userErr {α} (k : ErrKind) : M α := fun s => ⟨.userErr k, s, []⟩
def internalErr {α} (k : ErrKind) : M α := fun s => ⟨.internalErr k, s, []⟩
def outOfFuel {α} : M α := fun s => ⟨.outOfFuel, s, []⟩
def emit (line : String) : M Unit := fun s => ⟨.ok (), s, [line]⟩
def get : M State := fun s => ⟨.ok s, s, []⟩
def modify (f : State → State) : M Unit := fun s => ⟨.ok (), f s, []⟩
def ofBase {α} : Except Verif.Model.Lang.ErrKind α → M α
  | .ok a => pure a
  | .error k =>
    if k == .typeMismatch || k == .unbound || k == .unsupported then internalErr .typeMismatch else userErr (.base k)
def ofOpt {α} (k : ErrKind) : Option α → M α
  | some a => pure a
  | none => internalErr k
end M

/-! ### environment -/

def Env.lookup (env : Env) (x : String) : Option Val := (env.find? (·.1 == x)).map (·.2)

def Env.update : Env → String → Val → Option Env
  | [], _, _ => none
  | (y, w) :: rest, x, v => if y == x then some ((x, v) :: rest) else (Env.update rest x v).map ((y, w) :: ·)

def Env.restore (env : Env) (depth : Nat) : Env := env.drop (env.length - depth)

/-- read a variable; a variable whose resource was moved out is unusable (`checkInvalidatedResourceUse`) -/
def getVar (x : String) : M Val := fun s =>
  match s.env.lookup x with
  | some .invalid => ⟨.internalErr .invalidatedResource, s, []⟩
  | some v => ⟨.ok v, s, []⟩
  | none => ⟨.internalErr .unbound, s, []⟩

def setVarRaw (x : String) (v : Val) : M Unit := fun s =>
  match s.env.update x v with
  | some env => ⟨.ok (), { s with env := env }, []⟩
  | none => ⟨.internalErr .unbound, s, []⟩

def declVar (x : String) (v : Val) : M Unit := M.modify fun s => { s with env := (x, v) :: s.env }

/-! ### heap access -/

def getCell (id : Nat) : M Cell := fun s =>
  match s.heap[id]? with
  | some c => ⟨.ok c, s, []⟩
  | none => ⟨.internalErr .unbound, s, []⟩

def setObj (id : Nat) (o : Obj) : M Unit := M.modify fun s =>
  match s.heap[id]? with
  | some c => { s with heap := s.heap.set id { c with obj := o } }
  | none => s

def alloc (c : Cell) : M Val := fun s => ⟨.ok (.ptr s.heap.length), { s with heap := s.heap ++ [c] }, []⟩

def heapFuel (s : State) : Nat := s.heap.length + 16

/-- `Value.Transfer`: a resource keeps its identity and all references into it are invalidated; any
    other value is deep-copied into fresh cells. -/
def transfer (v : Val) : M Val := fun s =>
  match v with
  | .invalid => ⟨.internalErr .invalidatedResource, s, []⟩
  | _ =>
    if isResVal s.heap v then ⟨.ok v, { s with heap := bumpVal (heapFuel s) s.heap v }, []⟩
    else
      match copyVal (heapFuel s) s.heap v with
      | some (h', v') => ⟨.ok v', { s with heap := h' }, []⟩
      | none => ⟨.internalErr .copyFuel, s, []⟩

/-- transfer into a target of type `ty` (`TransferAndConvert` / `BoxOptional`) -/
def transferTo (ty : Ty) (v : Val) : M Val := do
  let v' ← transfer v
  pure (box ty v')

/-- the loss guard (`CheckResourceLoss`): a slot still holding a live resource must not be overwritten -/
def checkLoss (old : Val) : M Unit := fun s =>
  if isResVal s.heap old then ⟨.userErr .resourceLoss, s, []⟩ else ⟨.ok (), s, []⟩

/-- dynamic type test used by `load` / `copy` / `borrow` / `check` (`IsSubTypeOfSemaType` on the
    cell's static type; scalars by kind) -/
def conforms (h : Heap) : Val → Ty → Bool
  | _, .anyStruct => true
  | .int k _, .int k' => k == k'
  | .bool _, .bool => true
  | .str _, .string => true
  | .nil, .opt _ => true
  | .some v, .opt t => conforms h v t
  | .some _, _ => false
  | v, .opt t => conforms h v t
  | .ptr id, t =>
    match h[id]? with
    | some c => (c.ty == t) || (t == .anyRes && c.res)
    | none => false
  | _, _ => false

/-- dereference: a reference is checked for validity on every use -/
def deref (v : Val) : M Val := fun s =>
  match v with
  | .ref t g => if refValid s.heap t g then ⟨.ok t, s, []⟩ else ⟨.userErr .invalidatedRef, s, []⟩
  | .sref path ty =>
    -- `StorageReferenceValue.dereference`: the value currently at the path, if it has the borrow type
    match (s.storage.find? (·.1 == path)).map (·.2) with
    | some sv => if conforms s.heap sv ty then ⟨.ok sv, s, []⟩ else ⟨.userErr .dereference, s, []⟩
    | none => ⟨.userErr .dereference, s, []⟩
  | other => ⟨.ok other, s, []⟩

/-! ### operators (scalars) -/

def applyUnary : UnOp → Val → M Val
  | .not, .bool b => pure (.bool !b)
  | .neg, .int k n => do
    let r ← M.ofBase (k.check (-n))
    pure (.int k r)
  | _, _ => M.internalErr .typeMismatch

def applyBinary (op : BinOp) (a b : Val) : M Val :=
  match op with
  | .eq => pure (.bool (Val.beq a b))
  | .ne => pure (.bool (!Val.beq a b))
  | .lt | .le | .gt | .ge =>
    match a, b with
    | .int k x, .int k' y =>
      if k == k' then (match compareOp op x y with | some r => pure (.bool r) | none => M.internalErr .typeMismatch)
      else M.internalErr .typeMismatch
    | _, _ => M.internalErr .typeMismatch
  | _ =>
    match a, b with
    | .int k x, .int k' y =>
      if k == k' then do
        let r ← M.ofBase (arith k op x y)
        pure (.int k r)
      else M.internalErr .typeMismatch
    | _, _ => M.internalErr .typeMismatch

/-! ### locations (assignment / swap / second-value targets) -/

inductive Loc where
  | var (x : String)
  | field (id : Nat) (f : String)
  | elem (id : Nat) (i : Int)
  | key (id : Nat) (k : Val)
  | temp (v : Val)
  deriving Repr, Inhabited

def fieldGet? (fs : List (String × Val)) (f : String) : Option Val := (fs.find? (·.1 == f)).map (·.2)

/-- set field `f` (the first entry of that name — names are unique — or a new last entry) -/
def fieldSet : List (String × Val) → String → Val → List (String × Val)
  | [], f, v => [(f, v)]
  | (g, w) :: rest, f, v => if g == f then (f, v) :: rest else (g, w) :: fieldSet rest f v

def dictGet? (kvs : List (Val × Val)) (k : Val) : Option Val := (kvs.find? (fun kv => Val.beq kv.1 k)).map (·.2)

def dictRemove (kvs : List (Val × Val)) (k : Val) : List (Val × Val) := kvs.filter (fun kv => !Val.beq kv.1 k)

/-- set the entry of key `k` (the first entry with that key — keys are unique — or a new last entry) -/
def dictInsert : List (Val × Val) → Val → Val → List (Val × Val)
  | [], k, v => [(k, v)]
  | (k', w) :: rest, k, v => if Val.beq k' k then (k', v) :: rest else (k', w) :: dictInsert rest k v

/-- read a member of a composite object -/
def memberOf (id : Nat) (f : String) : M Val := do
  let c ← getCell id
  if !c.alive then M.userErr .destroyedResource else
  match c.obj with
  | .comp _ fs =>
    match fieldGet? fs f with
    | some v => pure v
    | none => M.userErr (.base .useBeforeInit)
  | _ => M.internalErr .memberType

def elemOf (id : Nat) (i : Int) : M Val := do
  let c ← getCell id
  match c.obj with
  | .arr es =>
    if i < 0 then M.userErr (.base .indexOob) else
    match es[i.toNat]? with
    | some v => pure v
    | none => M.userErr (.base .indexOob)
  | _ => M.internalErr .typeMismatch

def keyOf (id : Nat) (k : Val) : M Val := do
  let c ← getCell id
  match c.obj with
  | .dict kvs => pure (match dictGet? kvs k with | some v => .some v | none => .nil)
  | _ => M.internalErr .typeMismatch

def readLoc : Loc → M Val
  | .var x => getVar x
  | .field id f => memberOf id f
  | .elem id i => elemOf id i
  | .key id k => keyOf id k
  | .temp v => pure v

/-- raw write of a slot (no guard) -/
def writeLocRaw : Loc → Val → M Unit
  | .var x, v => setVarRaw x v
  | .field id f, v => do
    let c ← getCell id
    match c.obj with
    | .comp n fs => setObj id (.comp n (fieldSet fs f v))
    | _ => M.internalErr .memberType
  | .elem id i, v => do
    let c ← getCell id
    match c.obj with
    | .arr es =>
      if i < 0 || i.toNat ≥ es.length then M.userErr (.base .indexOob)
      else setObj id (.arr (es.set i.toNat v))
    | _ => M.internalErr .typeMismatch
  | .key id k, v => do
    let c ← getCell id
    match c.obj with
    | .dict kvs =>
      (match v with
       | .nil => setObj id (.dict (dictRemove kvs k))
       | .some w => setObj id (.dict (dictInsert kvs k w))
       | .invalid => setObj id (.dict (dictRemove kvs k))
       | _ => M.internalErr .typeMismatch)
    | _ => M.internalErr .typeMismatch
  | .temp _, _ => pure ()

/-- the current content of a slot for the loss guard (absent field / key: nothing there) -/
def peekLoc (l : Loc) : M Val := fun s =>
  let none' : Res Val := ⟨.ok .nil, s, []⟩
  match l with
  | .var x => ⟨.ok ((s.env.lookup x).getD .nil), s, []⟩
  | .field id f =>
    match s.heap[id]? with
    | some ⟨.comp _ fs, _, _, _, _⟩ => ⟨.ok ((fieldGet? fs f).getD .nil), s, []⟩
    | _ => none'
  | .elem id i =>
    match s.heap[id]? with
    | some ⟨.arr es, _, _, _, _⟩ => ⟨.ok (if i < 0 then .nil else (es[i.toNat]?).getD .nil), s, []⟩
    | _ => none'
  | .key id k =>
    match s.heap[id]? with
    | some ⟨.dict kvs, _, _, _, _⟩ => ⟨.ok ((dictGet? kvs k).getD .nil), s, []⟩
    | _ => none'
  | .temp _ => none'

/-- guarded write (`SetMember` / `ArrayValue.Set` / `SetKey` / `Variable.SetValue`) -/
def writeLoc (l : Loc) (v : Val) : M Unit := do
  let old ← peekLoc l
  checkLoss old
  writeLocRaw l v

/-- after a resource has been read out of a slot for a move, the slot no longer owns it -/
def vacate (l : Loc) (v : Val) : M Unit := fun s =>
  if isResVal s.heap v then
    (match l with
     | .key .. => writeLocRaw l .invalid s
     | .temp _ => ⟨.ok (), s, []⟩
     | _ => writeLocRaw l .invalid s)
  else ⟨.ok (), s, []⟩

inductive Flow where
  | normal | brk | cont
  | ret (v : Val)
  deriving Repr, Inhabited

def bindParams : List Param → List Val → Option Env
  | [], [] => some []
  | p :: ps, v :: vs => (bindParams ps vs).map ((p.name, box p.ty v) :: ·)
  | _, _ => none

def storageGet (path : String) : M (Option Val) := fun s =>
  ⟨.ok ((s.storage.find? (·.1 == path)).map (·.2)), s, []⟩

def storageRemove (path : String) : M Unit := M.modify fun s =>
  { s with storage := s.storage.filter (·.1 != path) }

def storagePut (path : String) (v : Val) : M Unit := M.modify fun s =>
  { s with storage := s.storage.filter (·.1 != path) ++ [(path, v)] }

def unRefTy : Ty → Ty
  | .ref t => t
  | .opt t => unRefTy t
  | t => t

variable (p : Program)

mutual

def eval : Nat → Expr → M Val
  | 0, _ => M.outOfFuel
  | n + 1, e =>
    match e with
    | .intLit k v => pure (.int k v)
    | .boolLit b => pure (.bool b)
    | .strLit s => pure (.str s)
    | .voidLit => pure .void
    | .nilLit => pure .nil
    | .account => pure .account
    | .var x => getVar x
    | .unary op a => do
      let v ← eval n a
      applyUnary op v
    | .binary op a b => do
      let va ← eval n a
      let vb ← eval n b
      applyBinary op va vb
    | .and a b => do
      let va ← eval n a
      match va with
      | .bool false => pure (.bool false)
      | .bool true => do
        let vb ← eval n b
        match vb with
        | .bool r => pure (.bool r)
        | _ => M.internalErr .typeMismatch
      | _ => M.internalErr .typeMismatch
    | .or a b => do
      let va ← eval n a
      match va with
      | .bool true => pure (.bool true)
      | .bool false => do
        let vb ← eval n b
        match vb with
        | .bool r => pure (.bool r)
        | _ => M.internalErr .typeMismatch
      | _ => M.internalErr .typeMismatch
    | .coalesce ty a b => do
      let va ← eval n a
      match va with
      | .some v => pure (box ty v)
      | _ => do
        let vb ← eval n b
        pure (box ty vb)
    | .cond c t e => do
      let vc ← eval n c
      match vc with
      | .bool true => eval n t
      | .bool false => eval n e
      | _ => M.internalErr .typeMismatch
    | .call f args => do
      let vs ← evalArgs n args
      callNamed n f vs
    | .create f args => do
      let vs ← evalArgs n args
      callNamed n f vs
    -- `<- e`: the operand's value; a variable that held the resource no longer owns it (`<- x`, and
    -- `<- x!` on an optional variable: the interpreter invalidates the moved composite, which the
    -- variable's `SomeValue` still wraps — a later read of `x` is the same defensive check)
    | .move a => do
      let v ← eval n a
      (match a with
       | .var x => vacate (.var x) v
       | .force (.var x) => vacate (.var x) v
       | _ => pure ())
      pure v
    | .destroy a => do
      let v ← eval n a
      destroyVal n v
      (match a with
       | .var x => vacate (.var x) v
       | _ => pure ())
      pure .void
    -- array literal: elements left to right, each transferred into the new array
    | .array ty es => do
      let vs ← evalArgs n es
      let vs' ← transferAll n ty vs
      alloc ⟨.arr vs', .arr ty, ty.isRes, 0, true⟩
    | .dict kt vt entries => do
      let kvs ← evalEntries n entries
      let ks := kvs.map (·.1)
      let vs' ← transferAll n vt (kvs.map (·.2))
      alloc ⟨.dict ((ks.zip vs').foldl (fun acc kv => dictInsert acc (box kt kv.1) kv.2) []), .dict kt vt, vt.isRes, 0, true⟩
    | .index asRef a i => do
      let va0 ← eval n a
      let vi ← eval n i
      let va ← deref va0
      let viaRef := match va0 with | .ref .. | .sref .. => true | _ => false
      match va with
      | .ptr id => do
        let c ← getCell id
        let r ← (match c.obj with
          | .arr _ => (match vi with | .int _ k => elemOf id k | _ => M.internalErr .typeMismatch)
          | .dict _ => keyOf id vi
          | _ => M.internalErr .typeMismatch)
        let s ← M.get
        pure (if asRef || (viaRef && false) then mkRef s.heap r else r)
      | _ => M.internalErr .typeMismatch
    | .member opt asRef a f => do
      let va0 ← eval n a
      if opt then
        match va0 with
        | .nil => pure .nil
        | .some v0 => do
          let v ← deref v0
          match v with
          | .ptr id => do
            let r ← memberOf id f
            let s ← M.get
            let r' := if asRef then mkRef s.heap r else r
            match r' with
            | .some _ => pure r'
            | .nil => pure r'
            | _ => pure (.some r')
          | _ => M.internalErr .memberType
        | _ => M.internalErr .memberType
      else do
        let v ← deref va0
        match v with
        | .ptr id => do
          let r ← memberOf id f
          let s ← M.get
          pure (if asRef then mkRef s.heap r else r)
        | _ => M.internalErr .memberType
    | .mcall opt recv m args => do
      let rv ← eval n recv
      let isNil := match rv with | .nil => true | _ => false
      if opt && isNil then pure .nil else do
        let vs ← evalArgs n args
        let self0 := if opt then (match rv with | .some v => v | v => v) else rv
        let self1 ← deref self0
        let res ← callMethod n self1 m vs
        pure (if opt then (match res with | .some _ => res | .nil => res | _ => .some res) else res)
    | .bcall recv m args => do
      let rv0 ← eval n recv
      let vs ← evalArgs n args
      let rv ← deref rv0
      match rv with
      | .ptr id => builtin n id m vs
      | _ => M.internalErr .typeMismatch
    | .force a => do
      let va ← eval n a
      match va with
      | .some v => pure v
      | .nil => M.userErr (.base .forceNil)
      | v => pure v
    | .ref _ a => do
      let va ← eval n a
      let s ← M.get
      pure (mkRef s.heap va)
    | .cast ty a => do
      let va ← eval n a
      pure (box ty va)
    -- storage primitives (semantics of the account-storage machine, `Model/Store.lean`)
    | .save path a => do
      let v ← eval n a
      let old ← storageGet path
      match old with
      | some _ => M.userErr .overwrite
      | none => do
        let v' ← transfer v
        storagePut path v'
        pure .void
    | .sto .load ty path => do
      let old ← storageGet path
      match old with
      | none => pure .nil
      | some sv => do
        let s ← M.get
        if !conforms s.heap sv (unRefTy ty) then M.userErr .loadType else do
          storageRemove path
          let v' ← transfer sv
          pure (.some v')
    | .sto .copy ty path => do
      let old ← storageGet path
      match old with
      | none => pure .nil
      | some sv => do
        let s ← M.get
        if !conforms s.heap sv (unRefTy ty) then M.userErr .loadType else do
          let v' ← transfer sv
          pure (.some v')
    | .sto .borrow ty path => do
      let old ← storageGet path
      match old with
      | none => pure .nil
      | some sv => do
        let s ← M.get
        if !conforms s.heap sv (unRefTy ty) then M.userErr .loadType
        else pure (.some (.sref path (unRefTy ty)))
    | .sto .check ty path => do
      let old ← storageGet path
      match old with
      | none => pure (.bool false)
      | some sv => do
        let s ← M.get
        pure (.bool (conforms s.heap sv (unRefTy ty)))

def evalArgs : Nat → List Expr → M (List Val)
  | 0, _ => M.outOfFuel
  | _ + 1, [] => pure []
  | n + 1, e :: es => do
    let v ← eval n e
    let vs ← evalArgs n es
    pure (v :: vs)

def evalEntries : Nat → List (Expr × Expr) → M (List (Val × Val))
  | 0, _ => M.outOfFuel
  | _ + 1, [] => pure []
  | n + 1, (k, v) :: rest => do
    let vk ← eval n k
    let vv ← eval n v
    let kvs ← evalEntries n rest
    pure ((vk, vv) :: kvs)

def transferAll : Nat → Ty → List Val → M (List Val)
  | 0, _, _ => M.outOfFuel
  | _ + 1, _, [] => pure []
  | n + 1, ty, v :: vs => do
    let v' ← transferTo ty v
    let vs' ← transferAll n ty vs
    pure (v' :: vs')

/-- `destroy v`: nested resources first (their events first), then the default destruction event of
    the resource itself; the cell is marked dead and all references to it are invalidated.  A second
    destroy of the same cell is the `DestroyedResourceError` of `WithResourceDestruction`. -/
def destroyVal : Nat → Val → M Unit
  | 0, _ => M.outOfFuel
  | n + 1, v =>
    match v with
    | .some w => destroyVal n w
    | .nil => pure ()
    | .ptr id => do
      let c ← getCell id
      if !c.alive then M.userErr .destroyedResource else
      if !c.res then pure () else do
        -- default event arguments are computed before the fields are destroyed
        let ev ← (match c.obj with
          | .comp name _ =>
            (match (p.findComp name).bind (·.destroyEvent) with
             | some params => do
               let args ← evalEventArgs n id params
               pure (some (name ++ ".ResourceDestroyed(" ++ ", ".intercalate args ++ ")"))
             | none => pure none)
          | _ => pure none)
        destroyAll n c.obj.vals
        M.modify fun s =>
          match s.heap[id]? with
          | some c' => { s with heap := s.heap.set id { c' with alive := false, gen := c'.gen + 1 } }
          | none => s
        (match ev with
         | some line => M.modify fun s => { s with events := s.events ++ [line] }
         | none => pure ())
    | _ => pure ()

def destroyAll : Nat → List Val → M Unit
  | 0, _ => M.outOfFuel
  | _ + 1, [] => pure ()
  | n + 1, v :: vs => do
    destroyVal n v
    destroyAll n vs

def evalEventArgs : Nat → Nat → List (String × Expr) → M (List String)
  | 0, _, _ => M.outOfFuel
  | _ + 1, _, [] => pure []
  | n + 1, id, (name, e) :: rest => fun s =>
    let r := eval n e { s with env := [("self", .ptr id)], stack := s.env :: s.stack }
    match r.out with
    | .ok v =>
      let s' := { r.st with env := s.env, stack := s.stack }
      let r2 := evalEventArgs n id rest s'
      (match r2.out with
       | .ok args => ⟨.ok ((name ++ ": " ++ dumpVal (heapFuel s') s'.heap v) :: args), r2.st, r.tr ++ r2.tr⟩
       | .userErr k => ⟨.userErr k, r2.st, r.tr ++ r2.tr⟩
       | .internalErr k => ⟨.internalErr k, r2.st, r.tr ++ r2.tr⟩
       | .outOfFuel => ⟨.outOfFuel, r2.st, r.tr ++ r2.tr⟩)
    | .userErr k => ⟨.userErr k, { r.st with env := s.env, stack := s.stack }, r.tr⟩
    | .internalErr k => ⟨.internalErr k, { r.st with env := s.env, stack := s.stack }, r.tr⟩
    | .outOfFuel => ⟨.outOfFuel, { r.st with env := s.env, stack := s.stack }, r.tr⟩

/-- container built-ins on the object `id` -/
def builtin : Nat → Nat → String → List Val → M Val
  | 0, _, _, _ => M.outOfFuel
  | _ + 1, id, m, vs => do
    let c ← getCell id
    let elemTy := match c.ty with | .arr t => t | .dict _ v => v | _ => .anyStruct
    match c.obj, m, vs with
    | .arr es, "length", [] => pure (.int .int es.length)
    | .arr es, "append", [v] => do
      let v' ← transferTo elemTy v
      setObj id (.arr (es ++ [v']))
      pure .void
    | .arr es, "insert", [.int _ i, v] =>
      if i < 0 || i.toNat > es.length then M.userErr (.base .indexOob) else do
        let v' ← transferTo elemTy v
        setObj id (.arr (es.take i.toNat ++ [v'] ++ es.drop i.toNat))
        pure .void
    | .arr es, "remove", [.int _ i] =>
      if i < 0 then M.userErr (.base .indexOob) else
      (match es[i.toNat]? with
       | some v => do
         setObj id (.arr (es.eraseIdx i.toNat))
         transfer v
       | none => M.userErr (.base .indexOob))
    | .arr es, "removeFirst", [] =>
      (match es with
       | v :: rest => do
         setObj id (.arr rest)
         transfer v
       | [] => M.userErr (.base .indexOob))
    | .arr es, "removeLast", [] =>
      (match es.getLast? with
       | some v => do
         setObj id (.arr es.dropLast)
         transfer v
       | none => M.userErr (.base .indexOob))
    | .dict kvs, "length", [] => pure (.int .int kvs.length)
    | .dict kvs, "containsKey", [k] => pure (.bool ((dictGet? kvs k).isSome))
    | .dict kvs, "insert", [k, v] => do
      let v' ← transferTo elemTy v
      let old := dictGet? kvs k
      setObj id (.dict (dictInsert kvs k v'))
      (match old with
       | some o => do
         let o' ← transfer o
         pure (.some o')
       | none => pure .nil)
    | .dict kvs, "remove", [k] =>
      (match dictGet? kvs k with
       | some o => do
         setObj id (.dict (dictRemove kvs k))
         let o' ← transfer o
         pure (.some o')
       | none => pure .nil)
    | _, _, _ => M.internalErr .unsupported

def callNamed : Nat → String → List Val → M Val
  | 0, _, _ => M.outOfFuel
  | n + 1, f, vs =>
    match f, vs with
    | "log", [v] => do
      let s ← M.get
      M.emit (dumpVal (heapFuel s) s.heap v)
      pure .void
    | "panic", [_] => M.userErr (.base .panic)
    | "assert", [.bool true] => pure .void
    | "assert", [.bool true, _] => pure .void
    | "assert", [.bool false] => M.userErr (.base .assertion)
    | "assert", [.bool false, _] => M.userErr (.base .assertion)
    | _, _ =>
      match p.findFun f with
      | some fd => callBody n fd.params fd.ret fd.body vs none
      | none =>
        match p.findComp f with
        | some cd => do
          let s ← M.get
          let uuidField : List (String × Val) :=
            if cd.isRes then [("uuid", .int ⟨false, 64, false⟩ s.nextUuid)] else []
          if cd.isRes then M.modify fun s => { s with nextUuid := s.nextUuid + 1 }
          let self ← alloc ⟨.comp cd.name uuidField, if cd.isRes then .res cd.name else .nom cd.name, cd.isRes, 0, true⟩
          match cd.init with
          | some (params, body) => do
            let _ ← callBody n params .void body vs (some self)
            pure self
          | none => pure self
        | none => M.internalErr .unbound

def callMethod : Nat → Val → String → List Val → M Val
  | 0, _, _, _ => M.outOfFuel
  | n + 1, self, m, vs =>
    match self with
    | .ptr id => do
      let c ← getCell id
      if !c.alive then M.userErr .destroyedResource else
      match c.obj with
      | .comp name _ =>
        (match (p.findComp name).bind (·.findMethod m) with
         | some fd => callBody n fd.params fd.ret fd.body vs (some self)
         | none => M.internalErr .unbound)
      | _ => M.internalErr .memberType
    | _ => M.internalErr .memberType

/-- run a function body in a fresh activation: the arguments are transferred to the parameters
    (copied / moved, boxed to the parameter types), the caller's environment is saved on the stack and
    restored afterwards, the result is transferred to the return type. -/
def callBody : Nat → List Param → Ty → List Stmt → List Val → Option Val → M Val
  | 0, _, _, _, _, _ => M.outOfFuel
  | n + 1, params, retTy, body, vs, self =>
    if params.length != vs.length then M.internalErr .transferType else do
      let vs' ← transferArgs n params vs
      fun s =>
        let env0 := (params.map (·.name)).zip vs'
        let env' := match self with | some sv => ("self", sv) :: env0 | none => env0
        let r := execBlock n retTy body { s with env := env', stack := s.env :: s.stack }
        let st' := { r.st with env := s.env, stack := s.stack }
        match r.out with
        | .ok (.ret v) => ⟨.ok v, st', r.tr⟩
        | .ok _ => ⟨.ok .void, st', r.tr⟩
        | .userErr k => ⟨.userErr k, st', r.tr⟩
        | .internalErr k => ⟨.internalErr k, st', r.tr⟩
        | .outOfFuel => ⟨.outOfFuel, st', r.tr⟩

def transferArgs : Nat → List Param → List Val → M (List Val)
  | 0, _, _ => M.outOfFuel
  | _ + 1, [], _ => pure []
  | _ + 1, _, [] => pure []
  | n + 1, q :: ps, v :: vs => do
    let v' ← transferTo q.ty v
    let vs' ← transferArgs n ps vs
    pure (v' :: vs')

/-- evaluate a target expression down to a location -/
def evalTarget : Nat → Expr → M Loc
  | 0, _ => M.outOfFuel
  | n + 1, e =>
    match e with
    | .var x => pure (.var x)
    | .member false _ a f => do
      let va0 ← eval n a
      let va ← deref va0
      match va with
      | .ptr id => pure (.field id f)
      | _ => M.internalErr .memberType
    | .index _ a i => do
      let va0 ← eval n a
      let vi ← eval n i
      let va ← deref va0
      match va with
      | .ptr id => do
        let c ← getCell id
        match c.obj, vi with
        | .arr _, .int _ k => pure (.elem id k)
        | .dict _, k => pure (.key id k)
        | _, _ => M.internalErr .typeMismatch
      | _ => M.internalErr .typeMismatch
    | other => do
      let v ← eval n other
      pure (.temp v)

def exec : Nat → Ty → Stmt → M Flow
  | 0, _, _ => M.outOfFuel
  | n + 1, retTy, st =>
    match st with
    | .decl _ x ty e => do
      let v ← eval n e
      let v' ← transferTo ty v
      declVar x v'
      pure .normal
    -- `let x <- target <- e`: the old content of the target goes to `x`, then `e` is assigned to the target
    | .decl2 x ty ty2 target e => do
      let l ← evalTarget n target
      let old ← readLoc l
      vacate l old
      let old' ← transferTo ty old
      let v ← eval n e
      let v' ← transferTo ty2 v
      writeLoc l v'
      declVar x old'
      pure .normal
    -- `<-!` is evaluated like `<-` / `=` (`visitAssignment` ignores the transfer operation): a non-nil
    -- resource in the target is caught by the setter's loss guard
    | .assign _ target ty e => do
      let l ← evalTarget n target
      let v ← eval n e
      let v' ← transferTo ty v
      writeLoc l v'
      pure .normal
    | .swap l lty r rty => do
      let ll ← evalTarget n l
      let lr ← evalTarget n r
      let vl ← readLoc ll
      let vr ← readLoc lr
      vacate ll vl
      vacate lr vr
      let vr' ← transferTo lty vr
      writeLoc ll vr'
      let vl' ← transferTo rty vl
      writeLoc lr vl'
      pure .normal
    | .ite c t e => do
      let vc ← eval n c
      match vc with
      | .bool true => execBlock n retTy t
      | .bool false =>
        (match e with
         | some eb => execBlock n retTy eb
         | none => pure .normal)
      | _ => M.internalErr .typeMismatch
    | .iflet x ty e t els => do
      let v ← eval n e
      match v with
      | .some w => do
        let w' ← transferTo ty w
        fun s =>
          let r := execBlock n retTy t { s with env := (x, w') :: s.env }
          ⟨r.out, { r.st with env := r.st.env.restore s.env.length }, r.tr⟩
      | .nil =>
        (match els with
         | some eb => execBlock n retTy eb
         | none => pure .normal)
      | _ => M.internalErr .typeMismatch
    | .while c body => do
      let vc ← eval n c
      match vc with
      | .bool false => pure .normal
      | .bool true => do
        let f ← execBlock n retTy body
        match f with
        | .brk => pure .normal
        | .ret v => pure (.ret v)
        | _ => exec n retTy (.while c body)
      | _ => M.internalErr .typeMismatch
    | .break_ => pure .brk
    | .continue_ => pure .cont
    | .ret none => pure (.ret .void)
    | .ret (some e) => do
      let v ← eval n e
      let v' ← transferTo retTy v
      pure (.ret v')
    | .expr e => do
      let _ ← eval n e
      pure .normal

def execBlock : Nat → Ty → List Stmt → M Flow
  | 0, _, _ => M.outOfFuel
  | n + 1, retTy, ss => fun s =>
    let r := execStmts n retTy ss s
    ⟨r.out, { r.st with env := r.st.env.restore s.env.length }, r.tr⟩

def execStmts : Nat → Ty → List Stmt → M Flow
  | 0, _, _ => M.outOfFuel
  | _ + 1, _, [] => pure .normal
  | n + 1, retTy, st :: rest => do
    let f ← exec n retTy st
    match f with
    | .normal => execStmts n retTy rest
    | other => pure other

end

/-- run `main()` of a program from a given state (storage persists across runs of a history) -/
def runFrom (fuel : Nat) (s : State) : Res Val :=
  (callNamed p fuel "main" []) s

def run (fuel : Nat) : Res Val := runFrom p fuel State.init

end Verif.Model.Lang2
