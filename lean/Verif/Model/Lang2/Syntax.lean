import Verif.Model.Lang.SExpr
/-
μCadence layer L2 (DESIGN §4, §4.1): abstract syntax and S-expression reader.

Layer L2 adds to the L0/L1 fragment of `Verif.Model.Lang`: resource composites, `create`, `destroy`,
the move operator, move / force-move transfers in declarations and assignments, second-value
declarations (`let a <- b <- c`), swap, optional binding, references (`&e as &T`, member / index
access that yields a reference), static casts, the array / dictionary built-ins that move elements in
and out, default destruction events, and the account-storage primitives `save`, `load`, `copy`,
`borrow`, `check` on storage paths.

The syntax is a separate inductive family (the L0/L1 one is consumed by the proofs of C52 / C34 and
by the VM compiler model and stays as it is); integer kinds, operators and the S-expression
tokenizer / tree reader are shared with `Verif.Model.Lang`.

S-expression format (produced from the *real* `ast.Program` + `sema.Elaboration` by
`harness/internal/sx2/sx2.go`); everything of `Lang/SExpr.lean` plus:

  decl    ::= … | (resource NAME (fields field*) member*)
  member  ::= … | (destroyevent (evparam NAME expr)*)          -- default ResourceDestroyed event
  stmt    ::= … | (let2 NAME ty ty target expr)                 -- let x <- target <- expr ; types: x, target
            | (fassign target ty expr)                          -- target <-! expr
            | (iflet NAME ty expr block) | (iflet NAME ty expr block block)
  expr    ::= … | (create NAME expr*) | (destroy expr) | (move expr)
            | (ref ty expr)                                     -- &expr as ty   (ty: the borrow type)
            | (cast ty expr)                                    -- expr as ty (static)
            | (rindex expr expr) | (rmember expr NAME) | (romember expr NAME)   -- result is a reference
            | (bcall expr NAME expr*)                           -- container built-in on a receiver
            | (account)                                         -- getAuthAccount<…>(0x1)
            | (save PATH expr) | (load ty PATH) | (copy ty PATH) | (borrow ty PATH) | (check ty PATH)
  ty      ::= … | (res NAME) | (ref ty) | AnyResource | Account
-/
namespace Verif.Model.Lang2
open Verif.Model.Lang (IntKind UnOp BinOp SX readBinOp)

inductive Ty where
  | int (k : IntKind)
  | bool | string | void | never | anyStruct | anyRes | account
  | opt (t : Ty)
  | arr (t : Ty)
  | dict (k v : Ty)
  | nom (name : String)       -- struct
  | res (name : String)       -- resource
  | ref (t : Ty)
  deriving Repr, Inhabited, BEq

/-- resource-kinded types (`sema.Type.IsResourceType`) -/
def Ty.isRes : Ty → Bool
  | .res _ | .anyRes => true
  | .opt t | .arr t => t.isRes
  | .dict _ v => v.isRes
  | _ => false

inductive StoOp where
  | load | copy | borrow | check
  deriving DecidableEq, Repr, Inhabited

inductive Expr where
  | intLit (k : IntKind) (n : Int)
  | boolLit (b : Bool)
  | strLit (s : String)
  | voidLit
  | nilLit
  | var (x : String)
  | unary (op : UnOp) (e : Expr)
  | binary (op : BinOp) (a b : Expr)
  | and (a b : Expr)
  | or (a b : Expr)
  | coalesce (resTy : Ty) (a b : Expr)
  | cond (c t e : Expr)
  | call (f : String) (args : List Expr)
  | create (f : String) (args : List Expr)
  | destroy (e : Expr)
  | move (e : Expr)
  | array (elemTy : Ty) (es : List Expr)
  | dict (keyTy valTy : Ty) (entries : List (Expr × Expr))
  /-- `asRef`: the checker decided that the access yields a reference (`ReturnReference`) -/
  | index (asRef : Bool) (a i : Expr)
  | member (opt : Bool) (asRef : Bool) (e : Expr) (f : String)
  | mcall (opt : Bool) (recv : Expr) (m : String) (args : List Expr)
  | bcall (recv : Expr) (m : String) (args : List Expr)
  | force (e : Expr)
  | ref (ty : Ty) (e : Expr)
  | cast (ty : Ty) (e : Expr)
  | account
  | save (path : String) (e : Expr)
  | sto (op : StoOp) (ty : Ty) (path : String)
  deriving Repr, Inhabited

inductive Stmt where
  | decl (isLet : Bool) (x : String) (ty : Ty) (e : Expr)
  | decl2 (x : String) (ty : Ty) (ty2 : Ty) (target : Expr) (e : Expr)
  | assign (force : Bool) (target : Expr) (ty : Ty) (e : Expr)
  | swap (l : Expr) (lty : Ty) (r : Expr) (rty : Ty)
  | ite (c : Expr) (t : List Stmt) (e : Option (List Stmt))
  | iflet (x : String) (ty : Ty) (e : Expr) (t : List Stmt) (els : Option (List Stmt))
  | while (c : Expr) (body : List Stmt)
  | break_ | continue_
  | ret (e : Option Expr)
  | expr (e : Expr)
  deriving Repr, Inhabited

structure Param where
  name : String
  ty : Ty
  deriving Repr, Inhabited

structure FunDecl where
  name : String
  params : List Param
  ret : Ty
  body : List Stmt
  deriving Repr, Inhabited

structure FieldDecl where
  isLet : Bool
  name : String
  ty : Ty
  deriving Repr, Inhabited

structure CompDecl where
  name : String
  isRes : Bool
  fields : List FieldDecl
  init : Option (List Param × List Stmt)
  methods : List FunDecl
  /-- parameters of the default `ResourceDestroyed` event with their default-argument expressions -/
  destroyEvent : Option (List (String × Expr))
  deriving Repr, Inhabited

structure Program where
  funs : List FunDecl
  comps : List CompDecl
  deriving Repr, Inhabited

def Program.findFun (p : Program) (f : String) : Option FunDecl := p.funs.find? (·.name == f)
def Program.findComp (p : Program) (s : String) : Option CompDecl := p.comps.find? (·.name == s)
def CompDecl.findMethod (s : CompDecl) (m : String) : Option FunDecl := s.methods.find? (·.name == m)

/-! ### reader -/

open Verif.Model.Lang.SX in
partial def readTy : SX → Option Ty
  | .atom "Bool" => some .bool | .atom "String" => some .string | .atom "Void" => some .void
  | .atom "Never" => some .never | .atom "AnyStruct" => some .anyStruct
  | .atom "AnyResource" => some .anyRes | .atom "Account" => some .account
  | .atom s => (IntKind.ofName? s).map Ty.int
  | .list [.atom "opt", t] => Ty.opt <$> readTy t
  | .list [.atom "arr", t] => Ty.arr <$> readTy t
  | .list [.atom "dict", k, v] => Ty.dict <$> readTy k <*> readTy v
  | .list [.atom "nom", .atom n] => some (.nom n)
  | .list [.atom "res", .atom n] => some (.res n)
  | .list [.atom "ref", t] => Ty.ref <$> readTy t
  | _ => none

def readStoOp : String → Option StoOp
  | "load" => some .load | "copy" => some .copy | "borrow" => some .borrow | "check" => some .check
  | _ => none

open Verif.Model.Lang.SX in
partial def readExpr : SX → Option Expr
  | .list [.atom "int", .atom k, .atom n] => do
    let kind ← IntKind.ofName? k
    let v ← n.toInt?
    some (.intLit kind v)
  | .list [.atom "bool", .atom "true"] => some (.boolLit true)
  | .list [.atom "bool", .atom "false"] => some (.boolLit false)
  | .list [.atom "str", .str s] => some (.strLit s)
  | .list [.atom "void"] => some .voidLit
  | .list [.atom "nil"] => some .nilLit
  | .list [.atom "account"] => some .account
  | .list [.atom "var", .atom x] => some (.var x)
  | .list [.atom "un", .atom "-", e] => Expr.unary .neg <$> readExpr e
  | .list [.atom "un", .atom "!", e] => Expr.unary .not <$> readExpr e
  | .list [.atom "bin", .atom "&&", a, b] => Expr.and <$> readExpr a <*> readExpr b
  | .list [.atom "bin", .atom "||", a, b] => Expr.or <$> readExpr a <*> readExpr b
  | .list [.atom "bin", .atom op, a, b] => do
    let o ← readBinOp op
    Expr.binary o <$> readExpr a <*> readExpr b
  | .list [.atom "coalesce", t, a, b] => Expr.coalesce <$> readTy t <*> readExpr a <*> readExpr b
  | .list [.atom "cond", c, t, e] => Expr.cond <$> readExpr c <*> readExpr t <*> readExpr e
  | .list (.atom "call" :: .atom f :: args) => Expr.call f <$> args.mapM readExpr
  | .list (.atom "create" :: .atom f :: args) => Expr.create f <$> args.mapM readExpr
  | .list [.atom "destroy", e] => Expr.destroy <$> readExpr e
  | .list [.atom "move", e] => Expr.move <$> readExpr e
  | .list (.atom "array" :: t :: es) => Expr.array <$> readTy t <*> es.mapM readExpr
  | .list (.atom "dict" :: k :: v :: es) => do
    let entries ← es.mapM fun
      | .list [.atom "entry", a, b] => do some ((← readExpr a), (← readExpr b))
      | _ => none
    Expr.dict <$> readTy k <*> readTy v <*> pure entries
  | .list [.atom "index", a, i] => Expr.index false <$> readExpr a <*> readExpr i
  | .list [.atom "rindex", a, i] => Expr.index true <$> readExpr a <*> readExpr i
  | .list [.atom "member", e, .atom f] => (Expr.member false false · f) <$> readExpr e
  | .list [.atom "omember", e, .atom f] => (Expr.member true false · f) <$> readExpr e
  | .list [.atom "rmember", e, .atom f] => (Expr.member false true · f) <$> readExpr e
  | .list [.atom "romember", e, .atom f] => (Expr.member true true · f) <$> readExpr e
  | .list (.atom "mcall" :: r :: .atom m :: args) => do
    some (.mcall false (← readExpr r) m (← args.mapM readExpr))
  | .list (.atom "omcall" :: r :: .atom m :: args) => do
    some (.mcall true (← readExpr r) m (← args.mapM readExpr))
  | .list (.atom "bcall" :: r :: .atom m :: args) => do
    some (.bcall (← readExpr r) m (← args.mapM readExpr))
  | .list [.atom "force", e] => Expr.force <$> readExpr e
  | .list [.atom "ref", t, e] => Expr.ref <$> readTy t <*> readExpr e
  | .list [.atom "cast", t, e] => Expr.cast <$> readTy t <*> readExpr e
  | .list [.atom "save", .atom p, e] => Expr.save p <$> readExpr e
  | .list [.atom op, t, .atom p] => do
    let o ← readStoOp op
    some (.sto o (← readTy t) p)
  | _ => none

open Verif.Model.Lang.SX in
mutual
partial def readStmt : SX → Option Stmt
  | .list [.atom "let", .atom x, t, e] => Stmt.decl true x <$> readTy t <*> readExpr e
  | .list [.atom "var", .atom x, t, e] => Stmt.decl false x <$> readTy t <*> readExpr e
  | .list [.atom "let2", .atom x, t, t2, tg, e] =>
    Stmt.decl2 x <$> readTy t <*> readTy t2 <*> readExpr tg <*> readExpr e
  | .list [.atom "assign", tg, t, e] => Stmt.assign false <$> readExpr tg <*> readTy t <*> readExpr e
  | .list [.atom "fassign", tg, t, e] => Stmt.assign true <$> readExpr tg <*> readTy t <*> readExpr e
  | .list [.atom "swap", l, lt, r, rt] => Stmt.swap <$> readExpr l <*> readTy lt <*> readExpr r <*> readTy rt
  | .list [.atom "if", c, t] => do some (.ite (← readExpr c) (← readBlock t) none)
  | .list [.atom "if", c, t, e] => do some (.ite (← readExpr c) (← readBlock t) (some (← readBlock e)))
  | .list [.atom "iflet", .atom x, ty, e, t] => do
    some (.iflet x (← readTy ty) (← readExpr e) (← readBlock t) none)
  | .list [.atom "iflet", .atom x, ty, e, t, els] => do
    some (.iflet x (← readTy ty) (← readExpr e) (← readBlock t) (some (← readBlock els)))
  | .list [.atom "while", c, b] => do some (.while (← readExpr c) (← readBlock b))
  | .list [.atom "break"] => some .break_
  | .list [.atom "continue"] => some .continue_
  | .list [.atom "return"] => some (.ret none)
  | .list [.atom "return", e] => do some (.ret (some (← readExpr e)))
  | .list [.atom "expr", e] => Stmt.expr <$> readExpr e
  | _ => none
partial def readBlock : SX → Option (List Stmt)
  | .list (.atom "block" :: ss) => ss.mapM readStmt
  | _ => none
end

open Verif.Model.Lang.SX in
def readParams : SX → Option (List Param)
  | .list (.atom "params" :: ps) => ps.mapM fun
    | .list [.atom "param", .atom n, t] => Param.mk n <$> readTy t
    | _ => none
  | _ => none

open Verif.Model.Lang.SX in
def readFun (head : String) : SX → Option FunDecl
  | .list [.atom h, .atom name, ps, ret, body] =>
    if h == head then do some ⟨name, (← readParams ps), (← readTy ret), (← readBlock body)⟩ else none
  | _ => none

def memberHead : SX → String
  | .list (.atom h :: _) => h
  | _ => ""

open Verif.Model.Lang.SX in
def readComp : SX → Option CompDecl
  | .list (.atom kind :: .atom name :: .list (.atom "fields" :: fs) :: members) => do
    let fields ← fs.mapM fun
      | .list [.atom "field", .atom k, .atom n, t] => do some (FieldDecl.mk (k == "let") n (← readTy t))
      | _ => none
    let inits ← (members.filter (memberHead · == "init")).mapM fun
      | .list [.atom "init", ps, body] => do some ((← readParams ps), (← readBlock body))
      | _ => none
    let evs ← (members.filter (memberHead · == "destroyevent")).mapM fun
      | .list (.atom "destroyevent" :: ps) => ps.mapM fun
        | .list [.atom "evparam", .atom n, e] => do some (n, (← readExpr e))
        | _ => none
      | _ => none
    let methods ← (members.filter (memberHead · == "method")).mapM (readFun "method")
    if kind != "struct" && kind != "resource" then none
    else if inits.length + evs.length + methods.length != members.length then none
    else some ⟨name, kind == "resource", fields, inits.head?, methods, evs.head?⟩
  | _ => none

open Verif.Model.Lang.SX in
def readProgramSX : SX → Option Program
  | .list (.atom "program" :: ds) => do
    let funs ← (ds.filter (memberHead · == "fun")).mapM (readFun "fun")
    let comps ← (ds.filter (fun d => memberHead d == "struct" || memberHead d == "resource")).mapM readComp
    if funs.length + comps.length == ds.length then some ⟨funs, comps⟩ else none
  | _ => none

def readProgram (s : String) : Option Program := SX.parse s >>= readProgramSX

end Verif.Model.Lang2
