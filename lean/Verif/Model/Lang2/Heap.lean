import Verif.Model.Lang2.Syntax
import Verif.Model.Lang.Value
/-
μCadence L2: run-time values and the object heap.

Composite values (structs, resources), arrays and dictionaries are *objects with identity* in a heap
(`List Cell`, the identity is the index; cells are never removed, a destroyed resource's cell is
marked dead).  A value of such a kind is a pointer `ptr id`.  This mirrors the interpreter, where
`*CompositeValue`, `*ArrayValue`, `*DictionaryValue` are Go pointers to atree-backed containers with a
`ValueID`:
  * reading a variable / field / element yields the pointer (no copy);
  * a **transfer** (`Value.Transfer`: declaration, assignment, argument, return, field write, container
    insert, storage save / load / copy) of a *non-resource* value deep-copies the reachable object
    graph into fresh cells (`copyVal`); of a *resource* it keeps the identity, and every ephemeral
    reference to the resource or to a resource nested in it is invalidated
    (`InvalidateReferencedResources`): each cell carries a generation counter `gen`, a reference
    remembers the generation at which it was taken, a move or destroy bumps the counters of the
    resource and of all resource-kinded cells nested in it (`bumpVal`);
  * `destroy` marks the cell dead (children first).
Core Lean only.
-/
namespace Verif.Model.Lang2
open Verif.Model.Lang (IntKind UnOp BinOp)

inductive Val where
  | int (k : IntKind) (n : Int)
  | bool (b : Bool)
  | str (s : String)
  | void
  | nil
  | some (v : Val)
  | ptr (id : Nat)
  /-- ephemeral reference: the referenced value (a pointer, or a copied scalar) and the generation of
      the referenced cell when the reference was created -/
  | ref (target : Val) (gen : Nat)
  /-- storage reference: path and borrow type -/
  | sref (path : String) (ty : Ty)
  /-- content of a slot whose resource has been moved out / destroyed -/
  | invalid
  | account
  deriving Repr, Inhabited

inductive Obj where
  | comp (name : String) (fields : List (String × Val))
  | arr (elems : List Val)
  | dict (entries : List (Val × Val))
  deriving Repr, Inhabited

structure Cell where
  obj : Obj
  /-- static type of the container (`nom`/`res` for composites; the literal's type for arrays and
      dictionaries): what `load<T>` / `borrow<&T>` test -/
  ty : Ty
  /-- resource-kinded -/
  res : Bool
  gen : Nat
  alive : Bool
  deriving Repr, Inhabited

abbrev Heap := List Cell

/-! ### structure of values and objects -/

/-- the values held by an object, in slot order -/
def Obj.vals : Obj → List Val
  | .comp _ fs => fs.map (·.2)
  | .arr es => es
  | .dict kvs => kvs.map (·.2)

/-- replace the held values positionally (same shape) -/
def Obj.withVals : Obj → List Val → Obj
  | .comp n fs, vs => .comp n ((fs.zip vs).map fun p => (p.1.1, p.2))
  | .arr _, vs => .arr vs
  | .dict kvs, vs => .dict ((kvs.zip vs).map fun p => (p.1.1, p.2))

/-- pointers *owned* by a value (references do not own) -/
def Val.ptrs : Val → List Nat
  | .some v => v.ptrs
  | .ptr id => [id]
  | _ => []

def Obj.ptrs (o : Obj) : List Nat := o.vals.flatMap Val.ptrs

def isResVal (h : Heap) : Val → Bool
  | .some v => isResVal h v
  | .ptr id => match h[id]? with | some c => c.res | none => false
  | _ => false

/-! ### deep copy (`Transfer` of a non-resource value) -/

mutual
def copyVal : Nat → Heap → Val → Option (Heap × Val)
  | 0, _, _ => none
  | n + 1, h, .some v => do
    let (h', v') ← copyVal n h v
    pure (h', .some v')
  | n + 1, h, .ptr id => do
    let c ← h[id]?
    let (h1, vs') ← copyVals n h c.obj.vals
    pure (h1 ++ [{ c with obj := c.obj.withVals vs', gen := 0 }], .ptr h1.length)
  | _ + 1, h, v => pure (h, v)
def copyVals : Nat → Heap → List Val → Option (Heap × List Val)
  | 0, _, _ => none
  | _ + 1, h, [] => pure (h, [])
  | n + 1, h, v :: vs => do
    let (h1, v') ← copyVal n h v
    let (h2, vs') ← copyVals n h1 vs
    pure (h2, v' :: vs')
end

/-! ### reference invalidation on move / destroy (`InvalidateReferencedResources`) -/

def bumpCell (h : Heap) (id : Nat) : Heap :=
  match h[id]? with
  | some c => h.set id { c with gen := c.gen + 1 }
  | none => h

mutual
/-- bump the generation of every resource-kinded cell reachable from `v` through resource-kinded
    cells (non-resource values are skipped, as in the Go function) -/
def bumpVal : Nat → Heap → Val → Heap
  | 0, h, _ => h
  | n + 1, h, .some v => bumpVal n h v
  | n + 1, h, .ptr id =>
    match h[id]? with
    | some c => if c.res then bumpCell (bumpVals n h c.obj.vals) id else h
    | none => h
  | _ + 1, h, _ => h
def bumpVals : Nat → Heap → List Val → Heap
  | 0, h, _ => h
  | _ + 1, h, [] => h
  | n + 1, h, v :: vs => bumpVals n (bumpVal n h v) vs
end

/-- a reference is usable iff its target cell still has the generation the reference recorded -/
def refValid (h : Heap) : Val → Nat → Bool
  | .ptr id, g => match h[id]? with | some c => c.alive && c.gen == g | none => false
  | _, _ => true

def cellGen (h : Heap) (id : Nat) : Nat := match h[id]? with | some c => c.gen | none => 0

/-- `&v`: references to optionals are optionals of references; scalars are referenced by value -/
def mkRef (h : Heap) : Val → Val
  | .some v => .some (mkRef h v)
  | .nil => .nil
  | .ptr id => .ref (.ptr id) (cellGen h id)
  | .ref t g => .ref t g
  | v => v

/-! ### structural dump (the observation of C05: the whole reachable tree of a value) -/

mutual
def dumpVal : Nat → Heap → Val → String
  | 0, _, _ => "…"
  | _ + 1, _, .int _ n => toString n
  | _ + 1, _, .bool b => if b then "true" else "false"
  | _ + 1, _, .str s => "\"" ++ s ++ "\""
  | _ + 1, _, .void => "()"
  | _ + 1, _, .nil => "nil"
  | n + 1, h, .some v => dumpVal n h v
  | n + 1, h, .ptr id =>
    match h[id]? with
    | some c =>
      (match c.obj with
       | .comp name fs => name ++ "(" ++ dumpFields n h fs ++ ")"
       | .arr es => "[" ++ dumpVals n h es ++ "]"
       | .dict kvs => "{" ++ dumpEntries n h kvs ++ "}")
    | none => "<dangling>"
  | _ + 1, _, .ref _ _ => "<ref>"
  | _ + 1, _, .sref _ _ => "<sref>"
  | _ + 1, _, .invalid => "<invalid>"
  | _ + 1, _, .account => "<account>"
def dumpVals : Nat → Heap → List Val → String
  | 0, _, _ => "…"
  | _ + 1, _, [] => ""
  | n + 1, h, [v] => dumpVal n h v
  | n + 1, h, v :: vs => dumpVal n h v ++ ", " ++ dumpVals n h vs
def dumpFields : Nat → Heap → List (String × Val) → String
  | 0, _, _ => "…"
  | _ + 1, _, [] => ""
  | n + 1, h, [(f, v)] => f ++ ": " ++ dumpVal n h v
  | n + 1, h, (f, v) :: fs => f ++ ": " ++ dumpVal n h v ++ ", " ++ dumpFields n h fs
def dumpEntries : Nat → Heap → List (Val × Val) → String
  | 0, _, _ => "…"
  | _ + 1, _, [] => ""
  -- keys are scalars: rendered without consulting the heap
  | n + 1, h, [(k, v)] => dumpVal n [] k ++ ": " ++ dumpVal n h v
  | n + 1, h, (k, v) :: kvs => dumpVal n [] k ++ ": " ++ dumpVal n h v ++ ", " ++ dumpEntries n h kvs
end

/-! ### scalar equality (`==` of the fragment: scalars and optionals of scalars) -/

def Val.beq : Val → Val → Bool
  | .int k a, .int k' b => k == k' && a == b
  | .bool a, .bool b => a == b
  | .str a, .str b => a == b
  | .void, .void => true
  | .nil, .nil => true
  | .some a, .some b => Val.beq a b
  | _, _ => false

/-- boxing into optionals (`BoxOptional`) -/
def box : Ty → Val → Val
  | .opt t, .some v => .some (box t v)
  | .opt _, .nil => .nil
  | .opt t, v => .some (box t v)
  | _, v => v

end Verif.Model.Lang2
