/-
The container machine of the `cont` stream (C20): one array or dictionary over a small element
universe, driven by the operations of `Verif.Spec.Containers`, grouped into transactions by the generic
machine of that module.  The machine is mode-independent: whether a transaction works on the container
in memory (load / save back) or in place through a reference into storage is not visible in it — that
is exactly the claim tested against the runtime.  Core Lean only.
-/
import Verif.Spec.Containers
namespace Verif.Model.Cont
open Verif.Spec.Containers

/-- Elements: `Int`; strings that are one letter repeated (`str c n`, canonical: `n = 0 → c = 'a'`) or a
    literal (`lit`, only produced by `map`); `[Int]`; the struct `K.P(a: Int, b: String)`. -/
inductive Elem where
  | int (n : Int)
  | str (c : Char) (n : Nat)
  | lit (s : String)
  | arr (xs : List Int)
  | p (a : Int) (c : Char) (n : Nat)
  deriving DecidableEq, Repr, Inhabited

/-- body of a repeated-letter string as the harness canonicalises it (runs of ≥ 4 are written `c*n`) -/
def strBody (c : Char) (n : Nat) : String :=
  if n ≥ 4 then s!"{c}*{n}" else String.ofList (List.replicate n c)

/-- the two filter predicates per element type (`contPred` in the harness) -/
def pred (k : Nat) : Elem → Bool
  | .int n => if k = 0 then n % 2 == 0 else n > 10
  | .str _ n => if k = 0 then n > 3 else n % 2 == 0
  | .arr xs => if k = 0 then xs.length > 0 else xs.length % 2 == 1
  | .p a _ n => if k = 0 then a > 0 else n > 2
  | .lit _ => false

/-- the two map functions per element type (`contMapFn` in the harness) -/
def mapFn (k : Nat) : Elem → Elem
  | .int n => if k = 0 then .int (n * 2 + 1) else .lit (toString n)
  | .str c n => if k = 0 then .int n else .lit (strBody c n ++ "z")
  | .arr xs => if k = 0 then .int xs.length else .arr (xs ++ [7])
  | .p a c n => if k = 0 then .int a else .str c n
  | .lit s => .lit s

/-- where, relative to the iteration, the mutation of an `Op.iter` sits -/
inductive When where
  | at (j : Nat)          -- inside the loop body, at step `j` (never reached when `j ≥ size`)
  | after                 -- after the loop has ended
  | breakAt (j : Nat)     -- the loop `break`s at step `j`; the mutation follows the loop
  deriving DecidableEq, Repr

inductive Op where
  -- arrays
  | append (x : Elem) | appendAll (xs : List Elem) | insert (i : Int) (x : Elem) | remove (i : Int)
  | removeFirst | removeLast | read (i : Int) | write (i : Int) (x : Elem)
  | slice (a b : Int) (assign : Bool) | reverse (assign : Bool) | concat (xs : List Elem) (assign : Bool)
  | filter (k : Nat) (assign : Bool) | map (k : Nat) | contains (x : Elem) | firstIndex (x : Elem)
  | length | toConst (n : Nat) | toVar
  -- dictionaries
  | dInsert (k v : Elem) | dRemove (k : Elem) | dRead (k : Elem) | dWrite (k : Elem) (v : Option Elem)
  | dKeys | dValues | dHas (k : Elem) | dForEach | dForEachStop (j : Nat) | dIterate
  -- both: an iteration over the container (`outer`: 0 `for … in c`, 1 `c.map` / `c.forEachKey`) whose body
  -- first runs a nested iteration over the same container (`nest`: 0 none, 1 a `for` loop that ends, 2 a
  -- `filter` / `forEachKey` that ends, 3 a `for` loop with the mutation inside it) and then, as `w` says,
  -- the mutation `m` (one of append / insert / remove / removeFirst / removeLast / write / dInsert / dRemove / dWrite)
  | iter (outer nest : Nat) (w : When) (m : Op)
  deriving DecidableEq, Repr

inductive Obs where
  | nat (n : Nat) | elem (e : Elem) | optElem (o : Option Elem) | list (xs : List Elem)
  | optList (o : Option (List Elem)) | bool (b : Bool) | optNat (o : Option Nat)
  | bag (xs : List Elem)               -- enumeration of a dictionary: compared as a multiset
  | steps (n len : Nat)                -- `Op.iter`: completed steps of the outer iteration, length afterwards
  deriving DecidableEq, Repr

inductive Cont where
  | arr (xs : List Elem)
  | dict (d : Dict Elem Elem)
  deriving DecidableEq, Repr

def size : Cont → Nat
  | .arr xs => xs.length
  | .dict d => d.length

/-- One array operation (`none`: not an array operation). -/
def arrStep (xs : List Elem) : Op → Option (Except Err (List Elem × Obs))
  | .append x => some (.ok (append xs x, .nat (xs.length + 1)))
  | .appendAll ys => some (.ok (appendAll xs ys, .nat (xs.length + ys.length)))
  | .insert i x => some ((insertAt xs i x).map fun ys => (ys, .nat ys.length))
  | .remove i => some ((removeAt xs i).map fun r => (r.2, .elem r.1))
  | .removeFirst => some ((removeFirst xs).map fun r => (r.2, .elem r.1))
  | .removeLast => some ((removeLast xs).map fun r => (r.2, .elem r.1))
  | .read i => some ((readAt xs i).map fun x => (xs, .elem x))
  | .write i x => some ((writeAt xs i x).map fun ys => (ys, .nat ys.length))
  | .slice a b asg =>
    some ((slice xs a b).map fun ys => if asg then (ys, .nat ys.length) else (xs, .list ys))
  | .reverse asg => some (.ok (if asg then (reverse xs, .nat xs.length) else (xs, .list (reverse xs))))
  | .concat ys asg =>
    some (.ok (if asg then (concat xs ys, .nat (xs.length + ys.length)) else (xs, .list (concat xs ys))))
  | .filter k asg =>
    some (.ok (if asg then (filter (pred k) xs, .nat (filter (pred k) xs).length)
               else (xs, .list (filter (pred k) xs))))
  | .map k => some (.ok (xs, .list (map (mapFn k) xs)))
  | .contains x => some (.ok (xs, .bool (contains xs x)))
  | .firstIndex x => some (.ok (xs, .optNat (firstIndex xs x)))
  | .length => some (.ok (xs, .nat xs.length))
  | .toConst n => some (.ok (xs, .optList (toConstantSized xs n)))
  | .toVar => some (.ok (xs, .list (toVariableSized xs)))
  | _ => none

/-- One dictionary operation (never fails). -/
def dictStep (d : Dict Elem Elem) : Op → Option (Dict Elem Elem × Obs)
  | .dInsert k v => some ((dInsert d k v).2, .optElem (dInsert d k v).1)
  | .dRemove k => some ((dRemove d k).2, .optElem (dRemove d k).1)
  | .dRead k => some (d, .optElem (dGet d k))
  | .dWrite k v => some (dSet d k v, .nat (dSet d k v).length)
  | .dKeys => some (d, .bag (dKeys d))
  | .dValues => some (d, .bag (dValues d))
  | .dHas k => some (d, .bool (dHas d k))
  | .dForEach => some (d, .bag (dKeys d))
  | .dForEachStop j => some (d, .nat (dVisitCount d j))
  | .dIterate => some (d, .bag (dKeys d))
  | .length => some (d, .nat d.length)
  | _ => none

/-- the operations that mutate the container in place (the ones `Op.iter` may carry) -/
def isMutation : Op → Bool
  | .append _ | .insert .. | .remove _ | .removeFirst | .removeLast | .write .. => true
  | .dInsert .. | .dRemove _ | .dWrite .. => true
  | _ => false

/-- the unguarded mutation, as a function on the container (`none`: wrong kind / not a mutation) -/
def applyMut (c : Cont) (m : Op) : Option (Except Err Cont) :=
  if !isMutation m then none else
  match c with
  | .arr xs => (arrStep xs m).map fun r => r.map fun p => .arr p.1
  | .dict d => (dictStep d m).map fun p => .ok (.dict p.1)

/-- total version for `runProg` (only used on well-kinded mutations) -/
def applyMutT (c : Cont) (m : Op) : Except Err Cont := (applyMut c m).getD (.ok c)

/-- the program of an `Op.iter` (see `Verif.Spec.Containers.Prog`) -/
def iterProg (nest : Nat) (w : When) (m : Op) : Prog Op :=
  let inner : Prog Op := if nest = 1 ∨ nest = 2 then .iter 0 .skip else .skip
  match w with
  | .at j => if nest = 3 then .iter j (.iter 0 (.mutate m)) else .iter j (.seq inner (.mutate m))
  | .after => .seq (.iter 0 inner) (.mutate m)
  | .breakAt j => .seq (.iter j inner) (.mutate m)

/-- outer steps completed when the operation ends normally -/
def iterSteps (n : Nat) : When → Nat
  | .at _ | .after => n
  | .breakAt j => min j n

def iterStep (c : Cont) (nest : Nat) (w : When) (m : Op) : Option (Except Err (Cont × Obs)) :=
  match applyMut c m with
  | none => none
  | some _ =>
    some ((runProg applyMutT size 0 c (iterProg nest w m)).map fun c' => (c', .steps (iterSteps (size c) w) (size c')))

/-- One operation.  An operation of the wrong container kind is outside the machine (`none`). -/
def step (c : Cont) (op : Op) : Option (Except Err (Cont × Obs)) :=
  match c, op with
  | c, .iter _ nest w m => iterStep c nest w m
  | .arr xs, op => (arrStep xs op).map fun r => r.map fun p => (.arr p.1, p.2)
  | .dict d, op => (dictStep d op).map fun p => .ok (.dict p.1, p.2)

/-- total step for the transaction machine: an operation outside the machine leaves everything as it is
    (the driver rejects such lines before running the machine) -/
def stepT (c : Cont) (op : Op) : Except Err (Cont × Obs) :=
  match step c op with
  | some r => r
  | none => .ok (c, .nat 0)

def wellKinded (c : Cont) (op : Op) : Bool := (step c op).isSome

end Verif.Model.Cont
