/-
C09 — dynamic casts and run-time type tests (core Lean only), over the subtype relation of
Verif.Model.Types.Subtype.

Ports: `Interpreter.VisitCastingExpression` / `castValueAndValueType` (VM: `opFailableCast`,
`opForceCast`, `vm.castValueAndValueType`), `Unbox`, `BoxOptional`, the `AnyStruct` arm of `convert`
(casting to `AnyStruct` strips entitlements from references), `IsInstance` (the *run-time* relation
`interpreter.IsSubType` on static types), `ValueGetType` + `MetaTypeIsSubType` (the checker's relation on
the converted types), and member access on a reference, which *forwards to the referenced value*
(`isInstance` / `getType` called on a reference are answered by the referent).

Values carry what casting looks at: their dynamic (static) type.  Arrays, dictionaries, composites,
capabilities, paths, numbers, … are `atom ty repr` (`repr` stands for the contents, which no cast reads).
Resources are values like the others — `atom ty repr` with a resource-kinded `ty` (`Ty.isResource`: the
kind sits in the composite / interface type); that a cast *moves* them is not modelled (the stream's
scripts move the value into the cast and destroy the result).
-/
import Verif.Model.Types.Subtype
namespace Verif.Model.Cast
open Verif.Model.Types Verif.Model.Auth

inductive DVal where
  | atom (ty : Ty) (repr : String)                 -- any value whose `StaticType()` is stored / fixed
  | nilV                                           -- `NilValue`
  | some (v : DVal)                                 -- `*SomeValue`
  | ref (a : Access String) (v : DVal)              -- `*EphemeralReferenceValue` to `v`
  | storageRef (a : Access String) (borrow : Ty)   -- `*StorageReferenceValue` (outside the property)
  deriving DecidableEq, Repr, Inhabited

/-- `Value.StaticType()`.  (For an ephemeral reference the Go code additionally rewrites the
    authorizations of references *nested in the referent's type* to those of the borrow type; the
    referents of the model's generators contain no references.) -/
def dynType : DVal → Ty
  | .atom ty _ => ty
  | .nilV => .opt never
  | .some v => .opt (dynType v)
  | .ref a v => .ref a (dynType v)
  | .storageRef a b => .ref a b

def DVal.isOptional : DVal → Bool
  | .nilV => true | .some _ => true | _ => false

def DVal.isEphemeralRef : DVal → Bool
  | .ref _ _ => true | _ => false

def DVal.isStorageRef : DVal → Bool
  | .storageRef _ _ => true | _ => false

/-- `sema.UnwrapOptionalType` -/
def unwrapOptionalType : Ty → Ty
  | .opt t => unwrapOptionalType t
  | t => t

/-- `Unbox` -/
def unbox : DVal → DVal
  | .some v => unbox v
  | v => v

def isAnyStructOrResource (t : Ty) : Bool := t == .prim "AnyStruct" || t == .prim "AnyResource"

/-- the first step of `castValueAndValueType`: unwrap optionals unless the target, after unwrapping
    optionals, is `AnyStruct` / `AnyResource` -/
def unboxForCast (target : Ty) (v : DVal) : DVal :=
  if isAnyStructOrResource (unwrapOptionalType target) then v else unbox v

/-- `BoxOptional(value, targetType)` (`value` is what is returned, `inner` walks its optional layers) -/
def boxOptional : DVal → DVal → Ty → DVal
  | value, inner, .opt t =>
    match inner with
    | .some x => boxOptional value x t
    | .nilV => .nilV                       -- "nested nil will be unboxed"
    | _ => boxOptional (.some value) inner t
  | value, _, _ => value

/-- `semaTypeWithStrippedEntitlements` -/
def stripEntitlements : Ty → Ty
  | .ref _ t => .ref unauthorized (stripEntitlements t)
  | .opt t => .opt (stripEntitlements t)
  | .varArr t => .varArr (stripEntitlements t)
  | .constArr t n => .constArr (stripEntitlements t) n
  | .dict k v => .dict (stripEntitlements k) (stripEntitlements v)
  | .fn v p r => .fn v p (stripEntitlements r)
  | t => t

/-- `applyTargetTypeAuthorization(actual, target)`: the actual type's structure with the
    authorizations of the target type's references (`AnyStruct` as target: unauthorized) -/
def applyTargetAuth : Ty → Ty → Ty
  | .varArr a, t =>
    if t == .prim "AnyStruct" then .varArr (applyTargetAuth a (.prim "AnyStruct")) else
    match t with | .varArr te => .varArr (applyTargetAuth a te) | _ => .varArr a
  | .constArr a n, t =>
    if t == .prim "AnyStruct" then .constArr (applyTargetAuth a (.prim "AnyStruct")) n else
    match t with | .constArr te _ => .constArr (applyTargetAuth a te) n | _ => .constArr a n
  | .dict k v, t =>
    if t == .prim "AnyStruct" then .dict (applyTargetAuth k (.prim "AnyStruct")) (applyTargetAuth v (.prim "AnyStruct")) else
    match t with | .dict tk tv => .dict (applyTargetAuth k tk) (applyTargetAuth v tv) | _ => .dict k v
  | .opt a, t =>
    if t == .prim "AnyStruct" then .opt (applyTargetAuth a (.prim "AnyStruct")) else
    match t with | .opt ti => .opt (applyTargetAuth a ti) | _ => .opt a
  | .ref au a, t =>
    if t == .prim "AnyStruct" then .ref unauthorized (applyTargetAuth a (.prim "AnyStruct")) else
    match t with | .ref ta tt => .ref ta (applyTargetAuth a tt) | _ => .ref au a
  | .cap a, t => match t with | .cap tb => .cap (applyTargetAuth a tb) | _ => .cap a
  | .fn v p r, t =>
    if t == .prim "AnyStruct" then .fn v p (applyTargetAuth r (.prim "AnyStruct")) else
    match t with | .fn _ _ tr => .fn v p (applyTargetAuth r tr) | _ => .fn v p r
  | a, _ => a

/-- the container kinds `convert` rebuilds with the target's authorizations -/
def convertsContainer : Ty → Ty → Bool
  | .varArr _, .varArr _ => true | .varArr _, .constArr _ _ => true
  | .constArr _ _, .varArr _ => true | .constArr _ _, .constArr _ _ => true
  | .dict _ _, .dict _ _ => true
  | .cap _, .cap _ => true
  | _, _ => false

/-- `convert(value, targetType)`, the arms a successful cast can reach (`u` = the target with its
    optionals unwrapped): to `AnyStruct` — references lose their authorization, containers and
    functions get the entitlement-stripped type; to an array / dictionary / capability type — the
    value's static type takes the target's nested authorizations; to a reference type — the reference
    takes the target's authorization.  (The numeric arms need a value that is not yet of the target
    type, which a successful cast excludes.) -/
def convertForTarget (target : Ty) : DVal → DVal
  | .some v => .some (convertForTarget target v)
  | .ref a v =>
    match unwrapOptionalType target with
    | .prim n => if n == "AnyStruct" then .ref unauthorized v else .ref a v
    | .ref ta _ => .ref ta v
    | _ => .ref a v
  | .storageRef a b =>
    match unwrapOptionalType target with
    | .prim n => if n == "AnyStruct" then .storageRef unauthorized (stripEntitlements b) else .storageRef a b
    | .ref ta _ => .storageRef ta b
    | _ => .storageRef a b
  | .atom ty r =>
    let u := unwrapOptionalType target
    if u == .prim "AnyStruct" then .atom (stripEntitlements ty) r
    else if convertsContainer ty u then .atom (applyTargetAuth ty u) r
    else .atom ty r
  | .nilV => .nilV

/-- the value a successful cast produces: `ConvertAndBox(castedValue, targetType)` -/
def castResult (target : Ty) (v : DVal) : DVal :=
  let c := convertForTarget target v
  boxOptional c c target

/-- `v as? T` (without the outer `SomeValue` of the result): `none` = `nil` -/
def castFailable (rules : List Rule) (fuel : Nat) (v : DVal) (target : Ty) : Option DVal :=
  let v' := unboxForCast target v
  if isSub rules fuel (dynType v') target then some (castResult target v') else none

/-- `v as! T`: `none` = `ForceCastTypeMismatchError` -/
def castForce (rules : List Rule) (fuel : Nat) (v : DVal) (target : Ty) : Except Unit DVal :=
  let v' := unboxForCast target v
  if isSub rules fuel (dynType v') target then .ok (castResult target v') else .error ()

/-- the VM's `v as? T` (`opFailableCast`): the same steps, but the test is the *run-time* relation on
    static types (`context.IsSubType` = `interpreter.IsSubType`), where the interpreter asks the
    checker's relation on the converted types -/
def castFailableVM (rules : List Rule) (fuel : Nat) (v : DVal) (target : Ty) : Option DVal :=
  let v' := unboxForCast target v
  if isSubRuntime rules fuel (dynType v') target then some (castResult target v') else none

/-- the VM's `v as! T` (`opForceCast`) -/
def castForceVM (rules : List Rule) (fuel : Nat) (v : DVal) (target : Ty) : Except Unit DVal :=
  let v' := unboxForCast target v
  if isSubRuntime rules fuel (dynType v') target then .ok (castResult target v') else .error ()

/-- `v.isInstance(T)`: member access on a reference forwards to the referenced value; otherwise
    `IsInstance`: the run-time relation between the value's static type and `T` -/
def isInstance (rules : List Rule) (fuel : Nat) : DVal → Ty → Bool
  | .ref _ v, t => isInstance rules fuel v t
  | v, t => isSubRuntime rules fuel (dynType v) t

/-- `v.getType()` (forwarded through references like every member access) -/
def getType : DVal → Ty
  | .ref _ v => getType v
  | v => dynType v

/-- `v.getType().isSubtype(of: T)`: `MetaTypeIsSubType`, the checker's relation -/
def getTypeIsSubtype (rules : List Rule) (fuel : Nat) (v : DVal) (t : Ty) : Bool :=
  isSub rules fuel (getType v) t

/-- `n` optional layers around a type -/
def optN : Nat → Ty → Ty
  | 0, t => t
  | n + 1, t => .opt (optN n t)

/-- number of optional layers of a type -/
def optDepth : Ty → Nat
  | .opt t => optDepth t + 1
  | _ => 0

/-- `n` `SomeValue` layers around a value -/
def someN : Nat → DVal → DVal
  | 0, v => v
  | n + 1, v => .some (someN n v)

/-- number of `SomeValue` layers of a value -/
def DVal.depth : DVal → Nat
  | .some v => v.depth + 1
  | _ => 0

/-- The property's optional rule as a statement about the *run-time type of a successful cast's result*
    (independent of `castResult` / `boxOptional`): the cast looks at the value with all its optional
    layers removed — unless the target is `AnyStruct` / `AnyResource` or an optional of them, then the
    value keeps its layers — and the result is that value with as many layers added as the target type
    has more.  (For values whose type mentions no reference: no conversion applies.) -/
def specResultType (v : DVal) (target : Ty) : Ty :=
  let keep := if isAnyStructOrResource (unwrapOptionalType target) then v.depth else 0
  optN (max keep (optDepth target)) (dynType (unbox v))

/-- no reference type anywhere inside (then no conversion of a cast touches the value) -/
def noRef : Ty → Bool
  | .ref _ _ => false
  | .opt t => noRef t
  | .varArr t => noRef t
  | .constArr t _ => noRef t
  | .dict k v => noRef k && noRef v
  | .fn _ p r => noRef p && noRef r
  | .consT t r => noRef t && noRef r
  | .cap _ => false
  | .range t => noRef t
  | _ => true

/-- does the type mention an authorized reference (then a cast to `AnyStruct` changes the value) -/
def hasAuthRef : Ty → Bool
  | .ref a t => a != unauthorized || hasAuthRef t
  | .opt t => hasAuthRef t
  | .varArr t => hasAuthRef t
  | .constArr t _ => hasAuthRef t
  | .dict k v => hasAuthRef k || hasAuthRef v
  | _ => false

end Verif.Model.Cast
