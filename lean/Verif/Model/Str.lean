/-!
# Strings as byte strings with a grapheme-cluster segmentation (property C19)

A `Str` is the list of the extended grapheme clusters of a *normalised* string; its bytes are the
concatenation.  NFC (`golang.org/x/text/unicode/norm`) and UAX #29 segmentation (`rivo/uniseg`) are
parameters: the harness supplies each string's clusters as computed by those libraries.  The functions
below are ports of `/repo/interpreter/value_string.go` at the byte level — byte offsets, the cluster
iterator (`graphemes.Next` / `Positions`), `strings.Index` and the boundary tests
`seekGraphemeBoundaryStartPrepared` / `isGraphemeBoundaryEndPrepared`.
Assumption (validated by stream `str`): the segmentation of a substring cut at cluster boundaries
is the corresponding sub-list of clusters (`slice` re-segments `v.Str[start:end]`).
Core Lean only.
-/
namespace Verif.Model.Str

abbrev Bytes := List UInt8

structure Str where
  clusters : List Bytes
  deriving Repr, Inhabited, DecidableEq

def Str.bytes (s : Str) : Bytes := s.clusters.flatten

/-- every cluster is non-empty (`Graphemes.Positions()` never returns a zero-length grapheme) -/
def Str.wf (s : Str) : Prop := ∀ c ∈ s.clusters, c ≠ []

def Str.wfb (s : Str) : Bool := s.clusters.all (fun c => !c.isEmpty)

inductive Err where
  | sliceIndices      -- StringSliceIndicesError
  | invalidSliceIndex -- InvalidSliceIndexError
  | indexOutOfBounds  -- StringIndexOutOfBoundsError
  | invalidHexByte (b : UInt8)
  | invalidHexLength
  deriving Repr, DecidableEq

deriving instance DecidableEq for Except

/-- `Length`: count the `Next()` calls that succeed -/
def Str.length (s : Str) : Nat := s.clusters.length

/-- byte offset at which cluster `i` starts -/
def startOf (cs : List Bytes) (i : Nat) : Nat := (cs.take i).flatten.length

/-- `GetKey`: `checkBounds`, then `Next()` `index+1` times, `graphemes.Str()` -/
def Str.getKey (s : Str) (index : Int) : Except Err Bytes :=
  if index < 0 ∨ index ≥ s.length then .error .indexOutOfBounds
  else match s.clusters[index.toNat]? with
    | some c => .ok c
    | none => .error .indexOutOfBounds

/-- `slice` at the byte level: the bytes `v.Str[start:end]` where `start` is the start position after
`from+1` calls of `Next()` and `end` the end position after `to` calls -/
def Str.sliceBytes (s : Str) (fromIndex toIndex : Int) : Except Err Bytes :=
  let length : Int := s.length
  if fromIndex < 0 ∨ fromIndex > length ∨ toIndex < 0 ∨ toIndex > length then .error .sliceIndices
  else if fromIndex > toIndex then .error .invalidSliceIndex
  else if s.bytes.length = 0 ∨ fromIndex = toIndex then .ok []
  else
    let start := startOf s.clusters fromIndex.toNat
    let stop := startOf s.clusters toIndex.toNat      -- end of cluster `to-1` = start of cluster `to`
    .ok ((s.bytes.drop start).take (stop - start))

/-- `slice` with the result re-segmented (assumption: the sub-list of clusters) -/
def Str.slice (s : Str) (fromIndex toIndex : Int) : Except Err Str :=
  let length : Int := s.length
  if fromIndex < 0 ∨ fromIndex > length ∨ toIndex < 0 ∨ toIndex > length then .error .sliceIndices
  else if fromIndex > toIndex then .error .invalidSliceIndex
  else .ok ⟨(s.clusters.drop fromIndex.toNat).take (toIndex.toNat - fromIndex.toNat)⟩

/-- does `needle` occur in `bytes` at byte offset `off` -/
def occursAt (bytes needle : Bytes) (off : Nat) : Bool := needle.isPrefixOf (bytes.drop off)

/-- `strings.Index(bytes[s:], needle) + s`: the least offset `≥ s` at which `needle` occurs
(`fuel` ≥ number of candidate offsets) -/
def indexFrom (bytes needle : Bytes) : Nat → Nat → Option Nat
  | 0, _ => none
  | fuel + 1, s =>
    if s + needle.length > bytes.length then none
    else if occursAt bytes needle s then some s else indexFrom bytes needle fuel (s + 1)

/-- `seekGraphemeBoundaryStartPrepared`: advance the cluster iterator until a cluster starts at
`off` (found: its index and the clusters from it on) or starts beyond `off` (not a boundary).
`cur` = start offset of the next cluster, `ci` = its index. -/
def seekStart : List Bytes → Nat → Nat → Nat → Option (Nat × List Bytes)
  | [], _, _, _ => none
  | c :: cs, cur, off, ci =>
    if off = cur then some (ci, c :: cs)
    else if cur > off then none
    else seekStart cs (cur + c.length) off (ci + 1)

/-- `isGraphemeBoundaryEndPrepared`: from the current cluster on, does a cluster end at `e` -/
def isEnd : List Bytes → Nat → Nat → Bool
  | [], _, _ => false
  | c :: cs, cur, e =>
    let be := cur + c.length
    if e = be then true else if be > e then false else isEnd cs be e

/-- the loop of `indexOf`: `s` = `searchStartByteOffset`; the iterator state is restored after every
failed candidate, so each candidate is checked from the start of the string -/
def indexOfLoop (cs : List Bytes) (bytes needle : Bytes) : Nat → Nat → Option (Nat × Nat)
  | 0, _ => none
  | fuel + 1, s =>
    if s ≥ bytes.length then none
    else match indexFrom bytes needle (bytes.length + 1) s with
      | none => none
      | some abs =>
        match seekStart cs 0 abs 0 with
        | some (ci, rest) =>
          if isEnd rest abs (abs + needle.length) then some (ci, abs)
          else indexOfLoop cs bytes needle fuel (s + 1)
        | none => indexOfLoop cs bytes needle fuel (s + 1)

/-- `indexOf`: (character index, byte offset), `none` = (-1, -1) -/
def Str.indexOf (s : Str) (needle : Bytes) : Option (Nat × Nat) :=
  if needle.length = 0 then some (0, 0)
  else if s.bytes.length = 0 then none
  else indexOfLoop s.clusters s.bytes needle s.bytes.length 0

def Str.contains (s : Str) (needle : Bytes) : Bool := (s.indexOf needle).isSome

/-- clusters after skipping `n` of them (`remaining.slice(n, remaining.Length())`) -/
def Str.dropClusters (s : Str) (n : Nat) : Str := ⟨s.clusters.drop n⟩

/-- `count` (needle given with its own cluster count `nlen`); `fuel` ≥ number of clusters + 1 -/
def countLoop (needle : Bytes) (nlen : Nat) : Nat → Str → Nat
  | 0, _ => 0
  | fuel + 1, remaining =>
    match remaining.indexOf needle with
    | none => 0
    | some (i, _) => 1 + countLoop needle nlen fuel (remaining.dropClusters (i + nlen))

def Str.count (s : Str) (needle : Str) : Nat :=
  if needle.length = 0 then 1 + s.length
  else countLoop needle.bytes needle.length (s.length + 1) s

/-- `Split` with a non-empty separator: the parts (as cluster lists) -/
def splitLoop (sep : Bytes) (seplen : Nat) : Nat → Str → List Str
  | 0, remaining => [remaining]
  | fuel + 1, remaining =>
    match remaining.indexOf sep with
    | none => [remaining]
    | some (i, _) => ⟨remaining.clusters.take i⟩ :: splitLoop sep seplen fuel (remaining.dropClusters (i + seplen))

/-- `Split` (`Explode` for the empty separator: one string per cluster) -/
def Str.split (s : Str) (sep : Str) : List Str :=
  if sep.bytes.length = 0 then s.clusters.map (fun c => ⟨[c]⟩)
  else splitLoop sep.bytes sep.length (s.length + 1) s

/-- `ReplaceAll`: the resulting bytes (before re-normalisation) -/
def replaceLoop (orig : Bytes) (olen : Nat) (repl : Bytes) : Nat → Str → Bytes
  | 0, remaining => remaining.bytes
  | fuel + 1, remaining =>
    match remaining.indexOf orig with
    | none => remaining.bytes
    | some (i, off) =>
      remaining.bytes.take off ++ repl ++ replaceLoop orig olen repl fuel (remaining.dropClusters (i + olen))

/-- the empty-`original` branch of `ReplaceAll`: the replacement before every cluster and at the end -/
def replaceEmpty (repl : Bytes) : List Bytes → Bytes
  | [] => repl
  | c :: cs => repl ++ c ++ replaceEmpty repl cs

def Str.replaceAll (s : Str) (orig : Str) (repl : Bytes) : Bytes :=
  if orig.length = 0 then replaceEmpty repl s.clusters
  else if s.count orig = 0 then s.bytes
  else replaceLoop orig.bytes orig.length repl (s.length + 1) s

/-- `String.join`: the bytes (before re-normalisation) -/
def joinBytes (sep : Bytes) : List Bytes → Bytes
  | [] => []
  | [x] => x
  | x :: y :: rest => x ++ sep ++ joinBytes sep (y :: rest)

/-- `concat`: the bytes (before re-normalisation) -/
def Str.concatBytes (a b : Str) : Bytes := a.bytes ++ b.bytes

def Str.utf8 (s : Str) : Bytes := s.bytes

/-! ## hex -/

def hexDigitChar (n : Nat) : UInt8 := if n < 10 then UInt8.ofNat (48 + n) else UInt8.ofNat (87 + n)

/-- `hex.EncodeToString` (lower case) -/
def encodeHex : Bytes → Bytes
  | [] => []
  | b :: bs => hexDigitChar (b.toNat / 16) :: hexDigitChar (b.toNat % 16) :: encodeHex bs

/-- `reverseHexTable`: value of a hex digit character, `none` for any other byte -/
def hexVal (c : UInt8) : Option Nat :=
  let n := c.toNat
  if 48 ≤ n ∧ n ≤ 57 then some (n - 48)
  else if 97 ≤ n ∧ n ≤ 102 then some (n - 87)
  else if 65 ≤ n ∧ n ≤ 70 then some (n - 55)
  else none

/-- `hex.DecodeString` -/
def decodeHex : Bytes → Except Err Bytes
  | [] => .ok []
  | [p] => match hexVal p with
    | none => .error (.invalidHexByte p)
    | some _ => .error .invalidHexLength
  | p :: q :: rest =>
    match hexVal p with
    | none => .error (.invalidHexByte p)
    | some a => match hexVal q with
      | none => .error (.invalidHexByte q)
      | some b => match decodeHex rest with
        | .ok bs => .ok (UInt8.ofNat (a * 16 + b) :: bs)
        | .error e => .error e

/-- `strings.ToLower` restricted to ASCII input (the Unicode tables are a trusted library) -/
def toLowerAscii (bs : Bytes) : Bytes := bs.map (fun b => if 65 ≤ b.toNat ∧ b.toNat ≤ 90 then b + 32 else b)

end Verif.Model.Str
