/-
μCadence (M-LANG): abstract syntax of the fragment (DESIGN §4, §4.1), layer L0 and the start of L1.

The syntax mirrors `ast.Program` of /repo node by node (same nesting, same operator set); the few
type facts that the *run-time* semantics of Cadence depends on are taken from the checker's
Elaboration by the bridge (`harness/internal/sx`) and stored in the tree:
  * the type of every integer literal (`IntegerExpressionType`),
  * the target type of every variable declaration / assignment / swap side (values are boxed into
    optionals when transferred to an optional-typed target),
  * the element / key / value types of array and dictionary literals, the result type of `??`.
Core Lean only.  Later layers extend the inductive types by new constructors.
-/
namespace Verif.Model.Lang

/-- Integer types of the fragment: `bits = 0` means unbounded (`Int`, `UInt`). -/
structure IntKind where
  signed : Bool
  bits : Nat
  wrap : Bool      -- Word types: arithmetic modulo 2^bits
  deriving DecidableEq, Repr, Inhabited

namespace IntKind
def int : IntKind := ⟨true, 0, false⟩
def uint : IntKind := ⟨false, 0, false⟩
def name (k : IntKind) : String :=
  (if k.wrap then "Word" else if k.signed then "Int" else "UInt") ++ (if k.bits == 0 then "" else toString k.bits)
def ofName? (s : String) : Option IntKind :=
  match s with
  | "Int" => some int | "UInt" => some uint
  | "Int8" => some ⟨true, 8, false⟩ | "Int16" => some ⟨true, 16, false⟩
  | "Int32" => some ⟨true, 32, false⟩ | "Int64" => some ⟨true, 64, false⟩
  | "UInt8" => some ⟨false, 8, false⟩ | "UInt16" => some ⟨false, 16, false⟩
  | "UInt32" => some ⟨false, 32, false⟩ | "UInt64" => some ⟨false, 64, false⟩
  | "Word8" => some ⟨false, 8, true⟩ | "Word16" => some ⟨false, 16, true⟩
  | "Word32" => some ⟨false, 32, true⟩ | "Word64" => some ⟨false, 64, true⟩
  | _ => none
end IntKind

inductive Ty where
  | int (k : IntKind)
  | bool | string | void | never | any
  | opt (t : Ty)
  | arr (t : Ty)
  | dict (k v : Ty)
  | nom (name : String)
  deriving Repr, Inhabited, BEq

inductive UnOp where
  | neg | not
  deriving DecidableEq, Repr, Inhabited

/-- Strict binary operators (both operands always evaluated, left then right). -/
inductive BinOp where
  | add | sub | mul | div | mod
  | band | bor | bxor | shl | shr
  | eq | ne | lt | le | gt | ge
  deriving DecidableEq, Repr, Inhabited

inductive Expr where
  | intLit (k : IntKind) (n : Int)
  | boolLit (b : Bool)
  | strLit (s : String)
  | voidLit
  | nilLit
  | var (x : String)
  | unary (op : UnOp) (e : Expr)
  | binary (op : BinOp) (a b : Expr)
  | and (a b : Expr)
  | or (a b : Expr)
  | coalesce (resTy : Ty) (a b : Expr)
  | cond (c t e : Expr)
  /-- call of a global function, a struct constructor, or the built-ins `log`, `panic`, `assert` -/
  | call (f : String) (args : List Expr)
  | array (elemTy : Ty) (es : List Expr)
  | dict (keyTy valTy : Ty) (entries : List (Expr × Expr))
  | index (a i : Expr)
  /-- field access; `opt = true` is optional chaining `e?.f` -/
  | member (opt : Bool) (e : Expr) (f : String)
  /-- method call; `opt = true` is optional chaining `e?.m(args)` -/
  | mcall (opt : Bool) (recv : Expr) (m : String) (args : List Expr)
  | force (e : Expr)
  deriving Repr, Inhabited

inductive Stmt where
  | decl (isLet : Bool) (x : String) (ty : Ty) (e : Expr)
  | assign (target : Expr) (ty : Ty) (e : Expr)
  | swap (l : Expr) (lty : Ty) (r : Expr) (rty : Ty)
  | ite (c : Expr) (t : List Stmt) (e : Option (List Stmt))
  | while (c : Expr) (body : List Stmt)
  | break_ | continue_
  | ret (e : Option Expr)
  | expr (e : Expr)
  deriving Repr, Inhabited

structure Param where
  name : String
  ty : Ty
  deriving Repr, Inhabited

structure FunDecl where
  name : String
  params : List Param
  ret : Ty
  body : List Stmt
  deriving Repr, Inhabited

structure FieldDecl where
  isLet : Bool
  name : String
  ty : Ty
  deriving Repr, Inhabited

structure StructDecl where
  name : String
  fields : List FieldDecl
  init : Option (List Param × List Stmt)
  methods : List FunDecl
  deriving Repr, Inhabited

structure Program where
  funs : List FunDecl
  structs : List StructDecl
  deriving Repr, Inhabited

def Program.findFun (p : Program) (f : String) : Option FunDecl := p.funs.find? (·.name == f)
def Program.findStruct (p : Program) (s : String) : Option StructDecl := p.structs.find? (·.name == s)
def StructDecl.findMethod (s : StructDecl) (m : String) : Option FunDecl := s.methods.find? (·.name == m)

end Verif.Model.Lang
