import Verif.Model.Lang.Syntax
/-
μCadence run-time values, error kinds, checked integer arithmetic, optional boxing, rendering.
Core Lean only.  (The numeric builder's `Gen/NumGo.lean` is not used yet; `arith` below is the small
checked-arithmetic helper for the integer kinds of the fragment — exact result, then range check —
which is what `interpreter/value_int8.go` … `value_uint64.go`, `values/value_int.go` compute.)
-/
namespace Verif.Model.Lang

/-- Closed enumeration of error kinds.  The harness maps Go error types into it (`lang.Kind`). -/
inductive ErrKind where
  | overflow | underflow | divZero | negativeShift | indexOob | forceNil | panic | assertion
  | useBeforeInit | callDepth
  -- model-internal kinds (a program that reaches them is ill-typed or outside the model)
  | unbound | typeMismatch | unsupported
  deriving DecidableEq, Repr, Inhabited

def ErrKind.name : ErrKind → String
  | .overflow => "overflow" | .underflow => "underflow" | .divZero => "div-zero"
  | .negativeShift => "negative-shift" | .indexOob => "index-oob" | .forceNil => "force-nil"
  | .panic => "panic" | .assertion => "assertion" | .useBeforeInit => "use-before-init"
  | .callDepth => "call-depth" | .unbound => "unbound" | .typeMismatch => "type-mismatch"
  | .unsupported => "unsupported"

inductive Value where
  | int (k : IntKind) (n : Int)
  | bool (b : Bool)
  | str (s : String)
  | void
  | nil
  | some (v : Value)
  | array (vs : List Value)
  | dict (kvs : List (Value × Value))          -- association list, keys distinct
  | struct (name : String) (fields : List (String × Value))
  deriving Repr, Inhabited

/-! ### checked integer arithmetic -/

def IntKind.minVal (k : IntKind) : Option Int :=
  if k.bits == 0 then (if k.signed then none else some 0)
  else if k.signed then some (-(2 ^ (k.bits - 1) : Int)) else some 0

def IntKind.maxVal (k : IntKind) : Option Int :=
  if k.bits == 0 then none
  else if k.signed then some ((2 ^ (k.bits - 1) : Int) - 1) else some ((2 ^ k.bits : Int) - 1)

/-- range check of an exact result: above the maximum is `overflow`, below the minimum `underflow`;
    Word kinds wrap modulo `2^bits` instead. -/
def IntKind.check (k : IntKind) (n : Int) : Except ErrKind Int :=
  if k.wrap then .ok (n % (2 ^ k.bits : Int))
  else
    match k.maxVal, k.minVal with
    | some hi, _ => if n > hi then .error .overflow else
        (match k.minVal with | some lo => if n < lo then .error .underflow else .ok n | none => .ok n)
    | none, some lo => if n < lo then .error .underflow else .ok n
    | none, none => .ok n

/-- reinterpret `n` in the two's-complement range of a sized kind (Go's `int8(x)`, `uint8(x)`) -/
def IntKind.truncate (k : IntKind) (n : Int) : Int :=
  if k.bits == 0 then n else
  let m : Int := 2 ^ k.bits
  let r := n % m
  if k.signed && r ≥ m / 2 then r - m else r

/-- bit length of |n| plus a sign bit: enough two's-complement width for `n` -/
def twosWidth (n : Int) : Nat := (Nat.log2 (n.natAbs + 1)) + 2

/-- bitwise operation on integers through two's complement at a sufficient width
    (what `big.Int.And/Or/Xor` and Go's fixed-width operators compute) -/
def bitop (f : Nat → Nat → Nat) (a b : Int) : Int :=
  let w := max (twosWidth a) (twosWidth b)
  let m : Int := 2 ^ w
  let r : Int := (f (a % m).toNat (b % m).toNat : Nat)
  if r ≥ m / 2 then r - m else r

def arith (k : IntKind) (op : BinOp) (a b : Int) : Except ErrKind Int :=
  match op with
  | .add => k.check (a + b)
  | .sub => k.check (a - b)
  | .mul => k.check (a * b)
  | .div => if b == 0 then .error .divZero else k.check (Int.tdiv a b)
  | .mod => if b == 0 then .error .divZero else .ok (Int.tmod a b)
  | .band => .ok (bitop Nat.land a b)
  | .bor => .ok (bitop Nat.lor a b)
  | .bxor => .ok (bitop Nat.xor a b)
  | .shl =>
    if b < 0 then .error .negativeShift
    else if k.bits == 0 then
      (if b ≥ 2 ^ 64 then .error .overflow
       else if !k.signed && a < 0 then .error .underflow else .ok (a * 2 ^ b.toNat))
    else .ok (k.truncate (a * 2 ^ b.toNat))
  | .shr =>
    if b < 0 then .error .negativeShift
    else if k.bits == 0 && b ≥ 2 ^ 64 then .error .overflow
    else .ok (a / 2 ^ b.toNat)          -- floor division: arithmetic shift
  | _ => .error .typeMismatch

def compareOp (op : BinOp) (a b : Int) : Option Bool :=
  match op with
  | .lt => some (decide (a < b)) | .le => some (decide (a ≤ b))
  | .gt => some (decide (a > b)) | .ge => some (decide (a ≥ b))
  | _ => none

/-! ### equality (`TestValueEqual`: optionals are unboxed on both sides) -/

mutual
def Value.beq : Value → Value → Bool
  | .int k a, .int k' b => k == k' && a == b
  | .bool a, .bool b => a == b
  | .str a, .str b => a == b
  | .void, .void => true
  | .nil, .nil => true
  | .some a, .some b => Value.beq a b
  | .array as, .array bs => Value.beqList as bs
  | _, _ => false
def Value.beqList : List Value → List Value → Bool
  | [], [] => true
  | a :: as, b :: bs => Value.beq a b && Value.beqList as bs
  | _, _ => false
end

/-! ### boxing into optionals (`BoxOptional`: dynamic on the value, depth given by the target type) -/

def box : Ty → Value → Value
  | .opt t, .some v => .some (box t v)
  | .opt _, .nil => .nil
  | .opt t, v => .some (box t v)
  | _, v => v

/-! ### rendering (what `log` hands to the host, and the canonical result rendering) -/

def quoteStr (s : String) : String := "\"" ++ s ++ "\""

mutual
/-- the string `log(v)` produces (`Value.String()` of the interpreter) for the value kinds the
    generators log: integers, booleans, strings, optionals, arrays, void -/
def Value.logStr : Value → String
  | .int _ n => toString n
  | .bool b => if b then "true" else "false"
  | .str s => quoteStr s
  | .void => "()"
  | .nil => "nil"
  | .some v => Value.logStr v
  | .array vs => "[" ++ Value.logStrList vs ++ "]"
  | .dict _ => "{…}"
  | .struct n _ => n ++ "(…)"
def Value.logStrList : List Value → String
  | [] => ""
  | [v] => Value.logStr v
  | v :: vs => Value.logStr v ++ ", " ++ Value.logStrList vs
end

mutual
/-- canonical rendering of a script result, same format as `lang.RenderValue` in the harness -/
def Value.render : Value → String
  | .int k n => k.name ++ ":" ++ toString n
  | .bool b => if b then "true" else "false"
  | .str s => quoteStr s
  | .void => "void"
  | .nil => "nil"
  | .some v => "some(" ++ Value.render v ++ ")"
  | .array vs => "[" ++ Value.renderList vs ++ "]"
  | .dict _ => "{…}"
  | .struct n fs => n ++ "{" ++ Value.renderFields fs ++ "}"
def Value.renderList : List Value → String
  | [] => ""
  | [v] => Value.render v
  | v :: vs => Value.render v ++ "," ++ Value.renderList vs
def Value.renderFields : List (String × Value) → String
  | [] => ""
  | [(f, v)] => f ++ "=" ++ Value.render v
  | (f, v) :: fs => f ++ "=" ++ Value.render v ++ "," ++ Value.renderFields fs
end

end Verif.Model.Lang
