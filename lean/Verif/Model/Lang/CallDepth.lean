/-
Call-depth accounting of the two engines (property C34, known finding
`call-depth-counts-argument-nesting`).  Core Lean only.

What is modelled (read from /repo, not regenerated):
  * interpreter: `visitInvocationExpressionWithImplicitArgument` (interpreter/interpreter_expression.go)
    calls `reportFunctionInvocation` — `stackDepthLimiter.OnFunctionInvocation` (runtime/stackdepth.go:
    `depth++; if depth > limit panic CallStackLimitExceededError`) — *before* `invokeFunctionValueWithEval`
    evaluates the arguments, for every invocation expression (native and host functions included), and
    `reportInvokedFunctionReturn` (`depth--`) after the invoked function returned;
  * VM: `pushCallFrame` (bbq/vm/vm.go) panics when `len(callstack) == StackDepthLimit`; frames exist only
    for compiled functions; arguments are evaluated in the caller's frame before the push; the limit is
    `vmStackDepthLimit(limit) = limit + 1` (the entry point's frame).

A run is abstracted to the forest of its invocations: each invocation records whether the callee is
native, the invocations made while its arguments are evaluated, and the invocations made by its body.
-/
namespace Verif.Model.Lang.CallDepth

inductive Call where
  | mk (native : Bool) (args : List Call) (body : List Call)

mutual
/-- largest value of the interpreter's `stackDepthLimiter.depth` during the invocation, relative to
the depth at which it starts -/
def iDepth : Call → Nat
  | .mk _ args body => 1 + max (iDepthL args) (iDepthL body)
def iDepthL : List Call → Nat
  | [] => 0
  | c :: cs => max (iDepth c) (iDepthL cs)
end

mutual
/-- largest number of call frames the VM pushes on top of the current one during the invocation -/
def vDepth : Call → Nat
  | .mk native args body => max (vDepthL args) ((if native then 0 else 1) + vDepthL body)
def vDepthL : List Call → Nat
  | [] => 0
  | c :: cs => max (vDepth c) (vDepthL cs)
end

/-- the interpreter raises CallStackLimitExceededError in a run whose entry point makes the
invocations `main` (`depth > limit` after an increment) -/
def interpFails (limit : Nat) (main : List Call) : Bool := iDepthL main > limit

/-- the VM raises it: a push is attempted with `len(callstack) = limit + 1`, the entry point's frame
included, i.e. more than `limit` frames above the entry point would be needed -/
def vmFails (limit : Nat) (main : List Call) : Bool := vDepthL main > limit

mutual
/-- no native callee, no invocation inside an argument -/
def plain : Call → Bool
  | .mk native args body => !native && args.isEmpty && plainL body
def plainL : List Call → Bool
  | [] => true
  | c :: cs => plain c && plainL cs
end

/-- the run of `f(n)` for `fun f(_ n: Int): Int { if n == 0 { return 0 }; return id(f(n - 1)) }`:
the body of `f(n+1)` invokes `id`, whose argument evaluation invokes `f(n)` -/
def nested : Nat → Call
  | 0 => .mk false [] []
  | n + 1 => .mk false [] [.mk false [nested n] []]

/-- the run of `f(n)` for plain recursion `return f(n - 1) + 1` -/
def chain : Nat → Call
  | 0 => .mk false [] []
  | n + 1 => .mk false [] [chain n]

end Verif.Model.Lang.CallDepth
