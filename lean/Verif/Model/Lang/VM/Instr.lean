import Verif.Model.Lang.Value
/-
μCadence stack VM: instruction set (the subset of `bbq/opcode/instructions.yml` that the compiler
emits for layer L0).  Jump operands are *relative* (`jump d` continues at `pc + 1 + d`, `jumpBack d` at
`pc - d`); the real compiler patches absolute targets `pc + 1 + d` / `pc - d` into the same places
(`emitUndefinedJump*` + `patchJump`), so code shapes and jump structure are the same and the model's
code is position independent.  Locals are numbered slots resolved at compile time, as in
`bbq/compiler/local.go`.  Core Lean only.
-/
namespace Verif.Model.Lang.VM
open Verif.Model.Lang

inductive Instr where
  | push (v : Value)                    -- GetConstant / True / False / Nil / Void
  | getLocal (i : Nat)
  | setLocal (i : Nat)
  | unop (op : UnOp)                    -- Negate / Not
  | binop (op : BinOp)                  -- Add Subtract … Equal Less …: pops right, then left
  | jump (d : Nat)
  | jumpBack (d : Nat)
  | jumpIfFalse (d : Nat)
  | jumpIfTrue (d : Nat)
  | jumpIfNil (d : Nat)
  | dup
  | drop
  | unwrap                              -- Unwrap: `some v ↦ v`, `nil ↦ force-nil`, other values unchanged
  | box (ty : Ty)                       -- TransferAndConvert / Convert to a target type
  | invoke (f : String) (argc : Nat)    -- GetGlobal f … Invoke
  | ret                                 -- Return (void)
  | retValue                            -- ReturnValue
  -- placeholders used only inside the compiler, patched by the enclosing loop
  | brkMark | contMark
  deriving Repr, Inhabited

end Verif.Model.Lang.VM
