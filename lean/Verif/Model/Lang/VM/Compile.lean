import Verif.Model.Lang.VM.Instr
import Verif.Model.Lang.VM.Machine
/-
μCadence compiler for layer L0, following the code generation of `bbq/compiler/compiler.go` for these
constructs (same evaluation order, same short-circuit jump structure, same loop shape):

  VisitBinaryExpression    left; right; op            |  `&&`: left; JumpIfFalse F; right; JumpIfFalse F; True; Jump E; F: False; E:
                                                       |  `||`: left; JumpIfTrue T; right; JumpIfFalse F; T: True; Jump E; F: False; E:
                                                       |  `??`: left; Dup; JumpIfNil N; Unwrap; Convert; Jump E; N: Drop; right; Convert; E:
  VisitConditionalExpression  test; JumpIfFalse L; then; Jump E; L: else; E:
  VisitInvocationExpression   arguments left to right; Invoke
  VisitVariableDeclaration    value; TransferAndConvert; SetLocal (new slot)
  compileAssignment (identifier target)   value; TransferAndConvert; SetLocal
  VisitIfStatement   test; JumpIfFalse L; then; [Jump E; L: else; E:]
  VisitWhileStatement   T: test; JumpIfFalse E; body; Jump T; E:     (break = Jump E, continue = Jump T)
  VisitReturnStatement  value; TransferAndConvert; ReturnValue  |  Return
  VisitExpressionStatement  expression; Drop

`none` = construct outside L0 (arrays, dictionaries, structs, member / index access, swap).
Core Lean only.
-/
namespace Verif.Model.Lang.VM
open Verif.Model.Lang

/-- compile-time scope: name ↦ slot, innermost first -/
abbrev Scope := List (String × Nat)

def Scope.slot (sc : Scope) (x : String) : Option Nat := (sc.find? (·.1 == x)).map (·.2)

def compileExpr (sc : Scope) : Expr → Option (List Instr)
  | .intLit k n => some [.push (.int k n)]
  | .boolLit b => some [.push (.bool b)]
  | .strLit s => some [.push (.str s)]
  | .voidLit => some [.push .void]
  | .nilLit => some [.push .nil]
  | .var x => (sc.slot x).map fun i => [.getLocal i]
  | .unary op a => do
    let ca ← compileExpr sc a
    some (ca ++ [.unop op])
  | .binary op a b => do
    let ca ← compileExpr sc a
    let cb ← compileExpr sc b
    some (ca ++ cb ++ [.binop op])
  | .and a b => do
    let ca ← compileExpr sc a
    let cb ← compileExpr sc b
    -- left; JumpIfFalse F; right; JumpIfFalse F; True; Jump E; F: False; E:
    some (ca ++ [.jumpIfFalse (cb.length + 3)] ++ cb ++ [.jumpIfFalse 2, .push (.bool true), .jump 1, .push (.bool false)])
  | .or a b => do
    let ca ← compileExpr sc a
    let cb ← compileExpr sc b
    -- left; JumpIfTrue T; right; JumpIfFalse F; T: True; Jump E; F: False; E:
    some (ca ++ [.jumpIfTrue (cb.length + 1)] ++ cb ++ [.jumpIfFalse 2, .push (.bool true), .jump 1, .push (.bool false)])
  | .coalesce ty a b => do
    let ca ← compileExpr sc a
    let cb ← compileExpr sc b
    -- left; Dup; JumpIfNil N; Unwrap; Convert; Jump E; N: Drop; right; Convert; E:
    some (ca ++ [.dup, .jumpIfNil 3, .unwrap, .box ty, .jump (cb.length + 2), .drop] ++ cb ++ [.box ty])
  | .cond c t e => do
    let cc ← compileExpr sc c
    let ct ← compileExpr sc t
    let ce ← compileExpr sc e
    some (cc ++ [.jumpIfFalse (ct.length + 1)] ++ ct ++ [.jump ce.length] ++ ce)
  | .force a => do
    let ca ← compileExpr sc a
    some (ca ++ [.unwrap])
  | .call f args => do
    let cas ← compileArgs sc args
    some (cas ++ [.invoke f args.length])
  | _ => none
where
  compileArgs (sc : Scope) : List Expr → Option (List Instr)
    | [] => some []
    | e :: es => do
      let c ← compileExpr sc e
      let cs ← compileArgs sc es
      some (c ++ cs)

/-- replace the loop placeholders of a compiled body: `brkMark` at index `i` jumps to `endOff`,
`contMark` jumps back to `startOff` (offsets relative to the start of the loop code; the body starts
at `bodyOff`) -/
def patchLoop (bodyOff endOff : Nat) (body : List Instr) : List Instr :=
  (List.range body.length).zip body |>.map fun (i, ins) =>
    match ins with
    | .brkMark => .jump (endOff - (bodyOff + i) - 1)
    | .contMark => .jumpBack (bodyOff + i)
    | other => other

structure CState where
  sc : Scope
  next : Nat        -- next free slot (`localCount`)

mutual
def compileStmt (retTy : Ty) (cs : CState) : Stmt → Option (List Instr × CState)
  | .decl _ x ty e => do
    let c ← compileExpr cs.sc e
    some (c ++ [.box ty, .setLocal cs.next], ⟨(x, cs.next) :: cs.sc, cs.next + 1⟩)
  | .assign (.var x) ty e => do
    let c ← compileExpr cs.sc e
    let i ← cs.sc.slot x
    some (c ++ [.box ty, .setLocal i], cs)
  | .ite c t e => do
    let cc ← compileExpr cs.sc c
    let (ct, cs1) ← compileBlock retTy cs t
    match e with
    | none => some (cc ++ [.jumpIfFalse ct.length] ++ ct, ⟨cs.sc, cs1.next⟩)
    | some eb => do
      let (ce, cs2) ← compileBlock retTy ⟨cs.sc, cs1.next⟩ eb
      some (cc ++ [.jumpIfFalse (ct.length + 1)] ++ ct ++ [.jump ce.length] ++ ce, ⟨cs.sc, cs2.next⟩)
  | .while c body => do
    let cc ← compileExpr cs.sc c
    let (cb, cs1) ← compileBlock retTy cs body
    -- T: test; JumpIfFalse E; body; Jump T; E:
    let bodyOff := cc.length + 1
    let endOff := cc.length + 1 + cb.length + 1
    some (cc ++ [.jumpIfFalse (cb.length + 1)] ++ patchLoop bodyOff endOff cb ++ [.jumpBack (cc.length + 1 + cb.length)],
          ⟨cs.sc, cs1.next⟩)
  | .break_ => some ([.brkMark], cs)
  | .continue_ => some ([.contMark], cs)
  | .ret none => some ([.ret], cs)
  | .ret (some e) => do
    let c ← compileExpr cs.sc e
    some (c ++ [.box retTy, .retValue], cs)
  | .expr e => do
    let c ← compileExpr cs.sc e
    some (c ++ [.drop], cs)
  | _ => none
def compileBlock (retTy : Ty) (cs : CState) : List Stmt → Option (List Instr × CState)
  | [] => some ([], cs)
  | st :: rest => do
    let (c1, cs1) ← compileStmt retTy cs st
    let (c2, cs2) ← compileBlock retTy cs1 rest
    some (c1 ++ c2, cs2)
end

def paramScope : List Param → Nat → Scope
  | [], _ => []
  | p :: ps, i => paramScope ps (i + 1) ++ [(p.name, i)]

def compileFun (fd : FunDecl) : Option CompiledFun := do
  let (code, _) ← compileBlock fd.ret ⟨paramScope fd.params 0, fd.params.length⟩ fd.body
  some ⟨fd.name, fd.params.map (·.ty), code⟩

/-- compile a program of layer L0 (no struct declarations) -/
def compile (p : Program) : Option Table :=
  if p.structs.isEmpty then p.funs.mapM compileFun else none

end Verif.Model.Lang.VM
