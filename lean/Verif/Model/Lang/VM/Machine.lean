import Verif.Model.Lang.VM.Instr
import Verif.Model.Lang.Eval
/-
μCadence stack VM: machine.  One activation = code, pc, operand stack, local slots; `invoke` pushes an
activation for a compiled function (arguments boxed to the parameter types, as `Invoke` converts
them), `ret`/`retValue` pop it.  Outcomes and the log trace use the types of the evaluator so that the
two can be compared by equality.  Core Lean only.
-/
namespace Verif.Model.Lang.VM
open Verif.Model.Lang

abbrev Locals := List (Nat × Value)

def Locals.get (l : Locals) (i : Nat) : Option Value := (l.find? (·.1 == i)).map (·.2)
def Locals.set (l : Locals) (i : Nat) (v : Value) : Locals := (i, v) :: l

structure CompiledFun where
  name : String
  paramTys : List Ty
  code : List Instr
  deriving Repr, Inhabited

abbrev Table := List CompiledFun

def Table.find (t : Table) (f : String) : Option CompiledFun := List.find? (·.name == f) t

structure Frame where
  code : List Instr
  pc : Nat
  stk : List Value
  locals : Locals
  deriving Repr, Inhabited

/-- result of one step of the top activation -/
inductive Step where
  | next (f : Frame) (out : List String)
  | call (f : Frame) (callee : CompiledFun) (args : List Value)   -- `f` is the caller, already advanced
  | return_ (v : Value)
  | userErr (k : ErrKind)
  | internalErr (k : ErrKind)
  deriving Repr, Inhabited

def stepExcept (f : Frame) (stk : List Value) : Except ErrKind Value → Step
  | .ok v => .next { f with pc := f.pc + 1, stk := v :: stk } []
  | .error k => if k == .typeMismatch || k == .unbound || k == .unsupported then .internalErr k else .userErr k

def bindSlots : List Ty → List Value → Nat → Option Locals
  | [], [], _ => some []
  | t :: ts, v :: vs, i => (bindSlots ts vs (i + 1)).map ((i, box t v) :: ·)
  | _, _, _ => none

/-- one instruction of the activation `f` -/
def step (tbl : Table) (f : Frame) : Step :=
  match f.code[f.pc]? with
  | none => .return_ .void                       -- fell off the end: implicit `Return`
  | some ins =>
    let adv (stk : List Value) : Step := .next { f with pc := f.pc + 1, stk := stk } []
    match ins, f.stk with
    | .push v, stk => adv (v :: stk)
    | .getLocal i, stk =>
      (match f.locals.get i with
       | some v => adv (v :: stk)
       | none => .internalErr .unbound)
    | .setLocal i, v :: stk => .next { f with pc := f.pc + 1, stk := stk, locals := f.locals.set i v } []
    | .unop op, v :: stk => stepExcept f stk (applyUnary op v)
    | .binop op, b :: a :: stk => stepExcept f stk (applyBinary op a b)
    | .jump d, stk => .next { f with pc := f.pc + 1 + d, stk := stk } []
    | .jumpBack d, stk => .next { f with pc := f.pc - d, stk := stk } []
    | .jumpIfFalse d, .bool b :: stk => .next { f with pc := if b then f.pc + 1 else f.pc + 1 + d, stk := stk } []
    | .jumpIfTrue d, .bool b :: stk => .next { f with pc := if b then f.pc + 1 + d else f.pc + 1, stk := stk } []
    | .jumpIfNil d, v :: stk =>
      .next { f with pc := (match v with | .nil => f.pc + 1 + d | _ => f.pc + 1), stk := stk } []
    | .dup, v :: stk => adv (v :: v :: stk)
    | .drop, _ :: stk => adv stk
    | .unwrap, v :: stk =>
      (match v with
       | .some w => adv (w :: stk)
       | .nil => .userErr .forceNil
       | w => adv (w :: stk))
    | .box ty, v :: stk => adv (box ty v :: stk)
    | .invoke g argc, stk =>
      if stk.length < argc then .internalErr .typeMismatch else
      let args := (stk.take argc).reverse
      let rest := stk.drop argc
      let caller := { f with pc := f.pc + 1, stk := rest }
      (match g, args with
       | "log", [v] => .next { caller with stk := .void :: rest } [v.logStr]
       | "panic", [_] => .userErr .panic
       | "assert", [.bool true] => .next { caller with stk := .void :: rest } []
       | "assert", [.bool true, _] => .next { caller with stk := .void :: rest } []
       | "assert", [.bool false] => .userErr .assertion
       | "assert", [.bool false, _] => .userErr .assertion
       | _, _ =>
         match tbl.find g with
         | some cf => .call caller cf args
         | none => .internalErr .unbound)
    | .ret, _ => .return_ .void
    | .retValue, v :: _ => .return_ v
    | _, _ => .internalErr .typeMismatch

/-- run with a stack of activations; `fuel` bounds the number of steps -/
def runFrames (tbl : Table) : Nat → Frame → List Frame → List String → Res Value
  | 0, _, _, tr => ⟨.outOfFuel, ⟨[]⟩, tr⟩
  | n + 1, f, callers, tr =>
    match step tbl f with
    | .next f' out => runFrames tbl n f' callers (tr ++ out)
    | .call caller cf args =>
      (match bindSlots cf.paramTys args 0 with
       | some locals => runFrames tbl n ⟨cf.code, 0, [], locals⟩ (caller :: callers) tr
       | none => ⟨.internalErr .typeMismatch, ⟨[]⟩, tr⟩)
    | .return_ v =>
      (match callers with
       | [] => ⟨.ok v, ⟨[]⟩, tr⟩
       | c :: cs => runFrames tbl n { c with stk := v :: c.stk } cs tr)
    | .userErr k => ⟨.userErr k, ⟨[]⟩, tr⟩
    | .internalErr k => ⟨.internalErr k, ⟨[]⟩, tr⟩

/-- run `main()` of a compiled program -/
def runVM (tbl : Table) (fuel : Nat) : Res Value :=
  match tbl.find "main" with
  | some cf => runFrames tbl fuel ⟨cf.code, 0, [], []⟩ [] []
  | none => ⟨.internalErr .unbound, ⟨[]⟩, []⟩

end Verif.Model.Lang.VM
