/-
Line-by-line port of the bytecode peephole pass of /repo (property C34, peephole part):

  bbq/compiler/peephole_pass.go      OptimizeInstructions, patchJumps, Optimize, PatternsByOpcode
  bbq/compiler/peephole_patterns.go  AllPatterns, PeepholePattern.Match, the four Replacement functions
  bbq/opcode/instruction_jump.go     IsJump, JumpTarget;  bbq/opcode/instruction.go PatchJumpInstruction

Core Lean only; depends on no other model file.  Instructions are abstract (`PInstr`): the opcode
name as printed by Go's `opcode.Opcode.String()`, the jump target (meaningful only when `isJump`),
the two pieces of compiler-table information the Replacement functions look at (`kind`, `path`) and
the remaining operands as an opaque string (`payload`).

What the harness (stream `peep`) puts into the fields:
  * `kind`   GetConstant: `compiler.constants[i].kind` (name of the `constant.Kind`);
             TransferAndConvert: `constant.FromSemaType(compiler.types[targetType])`; otherwise "".
  * `path`   NewPath: the path domain (`storage` | `private` | `public` | anything else = unknown domain);
             TransferAndConvert: `storage`/`private`/`public` when the target type is
             `StoragePathType`/`PrivatePathType`/`PublicPathType`, otherwise "".
  * `payload` Go's `OperandsString` of the instruction (for jumps: without the target).

Go `int` is modelled by `Nat`/`Int` (indices are bounded by slice lengths); `uint16(x)` is `x mod 2^16`.
-/
namespace Verif.Model.Lang.VM.Peephole

structure PInstr where
  op : String
  /-- `opcode.JumpTarget`; only meaningful when `isJump` (0 otherwise) -/
  target : Nat := 0
  kind : String := ""
  path : String := ""
  payload : String := ""
deriving DecidableEq, Repr, Inhabited

/-- the four instruction types of `opcode.IsJump` -/
def jumpOps : List String := ["Jump", "JumpIfFalse", "JumpIfTrue", "JumpIfNil"]

/-- `opcode.IsJump` -/
def isJump (i : PInstr) : Bool := jumpOps.contains i.op

/-- Go panics of the pass. -/
inductive Panic where
  /-- `patchJumps`: "peephole shifted jump target past max uint16" -/
  | overflow
  /-- `errors.NewUnreachableError()` in a Replacement (unknown path domain) -/
  | unreachable
  /-- a Go slice index out of range / failed type assertion (shown unreachable in Proofs/Peephole) -/
  | index
deriving DecidableEq, Repr

/-- `PeepholePattern`.  The Replacement may panic. -/
structure Pattern where
  name : String
  opcodes : List String
  replace : List PInstr → Except Panic (List PInstr)

/-! ### peephole_patterns.go -/

/-- `GetFieldLocalPattern`: GetLocal, GetField ⇒ GetFieldLocal{FieldName, AccessedType, Local}.
The fused payload is the operand string Go prints for `InstructionGetFieldLocal`:
`fieldName:_ accessedType:_ local:_` = operands of GetField, then those of GetLocal. -/
def getFieldLocalPattern : Pattern where
  name := "GetFieldLocal"
  opcodes := ["GetLocal", "GetField"]
  replace
    | [getLocal, getField] =>
      .ok [{ op := "GetFieldLocal", payload := getField.payload ++ " " ++ getLocal.payload }]
    | _ => .error .index

/-- `ConstantTransferAndConvertPattern`: keep only the constant when
`constantKind == constant.FromSemaType(targetType)`. -/
def constantTransferAndConvertPattern : Pattern where
  name := "ConstantTransferAndConvert"
  opcodes := ["GetConstant", "TransferAndConvert"]
  replace
    | [getConstant, transferAndConvert] =>
      if getConstant.kind == transferAndConvert.kind then .ok [getConstant]
      else .ok [getConstant, transferAndConvert]
    | _ => .error .index

/-- `PathTransferAndConvertPattern`. -/
def pathTransferAndConvertPattern : Pattern where
  name := "PathTransferAndConvert"
  opcodes := ["NewPath", "TransferAndConvert"]
  replace
    | [getPath, transferAndConvert] =>
      if getPath.path == "public" then
        if transferAndConvert.path == "public" then .ok [getPath] else .ok [getPath, transferAndConvert]
      else if getPath.path == "private" then
        if transferAndConvert.path == "private" then .ok [getPath] else .ok [getPath, transferAndConvert]
      else if getPath.path == "storage" then
        if transferAndConvert.path == "storage" then .ok [getPath] else .ok [getPath, transferAndConvert]
      else .error .unreachable
    | _ => .error .index

/-- `NilTransferAndConvertPattern`. -/
def nilTransferAndConvertPattern : Pattern where
  name := "NilTransferAndConvert"
  opcodes := ["Nil", "TransferAndConvert"]
  replace
    | [nilInstruction, _] => .ok [nilInstruction]
    | _ => .error .index

/-- `AllPatterns` (order matters: first match wins). -/
def allPatterns : List Pattern :=
  [getFieldLocalPattern, constantTransferAndConvertPattern, pathTransferAndConvertPattern,
   nilTransferAndConvertPattern]

/-- `PeepholePattern.Match(instructions, bytecodeOffset, jumpTargets)`: for each pattern opcode, in
order: opcode differs ⇒ false; `bytecodeOffset+i` is a jump target ⇒ false.  (`instructions[i]` out
of range cannot happen: the caller passes a window of exactly `len(Opcodes)` instructions.) -/
def matchAt (jumpTargets : List Nat) : List String → List PInstr → Nat → Bool
  | [], _, _ => true
  | _ :: _, [], _ => false
  | o :: os, w :: ws, off =>
    if w.op != o then false
    else if jumpTargets.contains off then false
    else matchAt jumpTargets os ws (off + 1)

/-! ### peephole_pass.go -/

/-- `PatternsByOpcode[op]`: the patterns whose first opcode is `op`, in table order.
(A pattern with no opcodes would panic in Go's `init`; it is never a candidate here.) -/
def patternsByOpcode (pats : List Pattern) (op : String) : List Pattern :=
  pats.filter (fun p => p.opcodes.head? == some op)

/-- The `for _, candidate := range candidates` loop at index `i`, with `rest = instructions[i:]`.
`candidateEndIndex > len(instructions)` is `i + n > i + len(rest)`.
Returns the first matching candidate and its window. -/
def firstMatch (jumpTargets : List Nat) (i : Nat) (rest : List PInstr) :
    List Pattern → Option (Pattern × List PInstr)
  | [] => none
  | candidate :: cs =>
    let n := candidate.opcodes.length
    if n > rest.length then firstMatch jumpTargets i rest cs
    else
      let window := rest.take n
      if matchAt jumpTargets candidate.opcodes window i then some (candidate, window)
      else firstMatch jumpTargets i rest cs

/-- `BytecodeShiftPair` is `(Offset, Shift)`. The optimizer's mutable state. -/
structure St where
  optimized : List PInstr := []
  bytecodeShifts : List (Nat × Int) := []
  jumps : List Nat := []
deriving Repr

/-- The main `for i := 0; i < len(instructions); i++` loop.  `rest = instructions[i:]`; `fuel` bounds
the number of iterations (each iteration consumes at least one instruction, so `len(instructions)`
is enough; `Panic.index` on exhaustion is proved unreachable). -/
def mainLoop (pats : List Pattern) (jumpTargets : List Nat) :
    Nat → Nat → List PInstr → St → Except Panic St
  | _, _, [], st => .ok st
  | 0, _, _ :: _, _ => .error .index
  | fuel + 1, i, cur :: tl, st =>
    match firstMatch jumpTargets i (cur :: tl) (patternsByOpcode pats cur.op) with
    | some (candidate, window) =>
      match candidate.replace window with
      | .error e => .error e
      | .ok replacement =>
        let n := candidate.opcodes.length
        -- `i += len(candidateOpcodes) - 1` and the loop's `i++`
        mainLoop pats jumpTargets fuel (i + n) ((cur :: tl).drop n)
          { optimized := st.optimized ++ replacement
            bytecodeShifts := st.bytecodeShifts ++ [(i, (replacement.length : Int) - (n : Int))]
            jumps := st.jumps }
    | none =>
      mainLoop pats jumpTargets fuel (i + 1) tl
        { optimized := st.optimized ++ [cur]
          bytecodeShifts := st.bytecodeShifts
          -- position in the *optimized* list: `len(optimized)-1` after the append
          jumps := if isJump cur then st.jumps ++ [st.optimized.length] else st.jumps }

/-- the inner `for currentShiftIndex < len && shifts[currentShiftIndex].Offset < jumpTarget` loop:
returns the new `cumShift` and the shifts not yet consumed. -/
def applyShifts (jumpTarget : Nat) : List (Nat × Int) → Int → Int × List (Nat × Int)
  | [], cum => (cum, [])
  | (off, sh) :: rest, cum =>
    if off < jumpTarget then applyShifts jumpTarget rest (cum + sh) else (cum, (off, sh) :: rest)

/-- `uint16(x)` of a Go `int`. -/
def toUint16 (x : Int) : Nat := (x % 65536).toNat

/-- `patchJumps`: `jumps` in the order given, `shifts` = the not yet consumed `bytecodeShifts`. -/
def patchJumps : List PInstr → List Nat → List (Nat × Int) → Int → Except Panic (List PInstr)
  | optimized, [], _, _ => .ok optimized
  | optimized, jump :: js, shifts, cumShift =>
    match optimized[jump]? with
    | none => .error .index
    | some ins =>
      let jumpTarget := ins.target
      let (cumShift', shifts') := applyShifts jumpTarget shifts cumShift
      let newJumpTarget : Int := (jumpTarget : Int) + cumShift'
      if newJumpTarget > 65535 then .error .overflow
      else patchJumps (optimized.set jump { ins with target := toUint16 newJumpTarget }) js shifts' cumShift'

/-- Insertion of `x` into a list sorted by `key`. -/
def insertBy (key : Nat → Nat) (x : Nat) : List Nat → List Nat
  | [] => [x]
  | y :: ys => if key x ≤ key y then x :: y :: ys else y :: insertBy key x ys

/-- `sort.Slice(o.jumps, target ascending)`.  Go's `sort.Slice` is not stable; the order of jumps
with equal targets does not influence `patchJumps` (each is patched with the same cumulative shift):
`Proofs/Peephole.patchJumps_eq_direct` + `patchDirect_ok`: a successful result is the list with
exactly the listed positions retargeted by the direct formula, whatever their order. -/
def sortBy (key : Nat → Nat) : List Nat → List Nat
  | [] => []
  | x :: xs => insertBy key x (sortBy key xs)

/-- collection of `jumpTargets` (a set in Go; membership is all that is used) -/
def collectJumpTargets (instructions : List PInstr) : List Nat :=
  instructions.filterMap (fun ins => if isJump ins then some ins.target else none)

/-- `OptimizeInstructions` on fresh state (= `Optimize`, which clears the state first). -/
def optimizeWith (pats : List Pattern) (instructions : List PInstr) : Except Panic (List PInstr) :=
  let jumpTargets := collectJumpTargets instructions
  match mainLoop pats jumpTargets instructions.length 0 instructions {} with
  | .error e => .error e
  | .ok st =>
    let key := fun j => (st.optimized[j]?.map (·.target)).getD 0
    patchJumps st.optimized (sortBy key st.jumps) st.bytecodeShifts 0

/-- The pass with the real pattern table. -/
def optimize (instructions : List PInstr) : Except Panic (List PInstr) :=
  optimizeWith allPatterns instructions

/-- names of the patterns that fire, in order (driver tags) -/
def firedLoop (pats : List Pattern) (jumpTargets : List Nat) : Nat → Nat → List PInstr → List String
  | _, _, [] => []
  | 0, _, _ :: _ => []
  | fuel + 1, i, cur :: tl =>
    match firstMatch jumpTargets i (cur :: tl) (patternsByOpcode pats cur.op) with
    | some (candidate, window) =>
      let n := candidate.opcodes.length
      let out := match candidate.replace window with
        | .ok r => if r.length == n then "kept" else "rewritten"
        | .error _ => "panic"
      (candidate.name ++ "-" ++ out) :: firedLoop pats jumpTargets fuel (i + n) ((cur :: tl).drop n)
    | none => firedLoop pats jumpTargets fuel (i + 1) tl

def fired (instructions : List PInstr) : List String :=
  firedLoop allPatterns (collectJumpTargets instructions) instructions.length 0 instructions

end Verif.Model.Lang.VM.Peephole
