import Verif.Model.Lang.Value
/-
μCadence: fuel-indexed big-step evaluator (layer L0 + start of L1) with environment and a log trace.

`M α = State → Res α`: a state (the local environment of the current function activation), an
outcome `ok a | userErr k | internalErr k | outOfFuel`, and the *trace emitted by this computation*
(the strings handed to the host's `ProgramLog`, in order).  `bind` threads the state and appends the
traces; after an error nothing more is evaluated.  Every recursive call decreases the fuel, so all
definitions are structurally recursive on it; a result other than `outOfFuel` is independent of the
amount of fuel.

The definitions follow `interpreter/interpreter_expression.go` / `interpreter_statement.go`
(the anchors of C52): see the comments at each constructor.
Core Lean only.
-/
namespace Verif.Model.Lang

inductive Outcome (α : Type) where
  | ok (a : α)
  | userErr (k : ErrKind)
  | internalErr (k : ErrKind)
  | outOfFuel
  deriving Repr, Inhabited

abbrev Env := List (String × Value)

structure State where
  env : Env
  deriving Repr, Inhabited

structure Res (α : Type) where
  out : Outcome α
  st : State
  tr : List String
  deriving Repr, Inhabited

def M (α : Type) := State → Res α

namespace M
def pure {α} (a : α) : M α := fun s => ⟨.ok a, s, []⟩
def bind {α β} (m : M α) (f : α → M β) : M β := fun s =>
  let r := m s
  match r.out with
  | .ok a => let r' := f a r.st; ⟨r'.out, r'.st, r.tr ++ r'.tr⟩
  | .userErr k => ⟨.userErr k, r.st, r.tr⟩
  | .internalErr k => ⟨.internalErr k, r.st, r.tr⟩
  | .outOfFuel => ⟨.outOfFuel, r.st, r.tr⟩
instance : Monad M where
  pure := M.pure
  bind := M.bind
def userErr {α} (k : ErrKind) : M α := fun s => ⟨.userErr k, s, []⟩
def internalErr {α} (k : ErrKind) : M α := fun s => ⟨.internalErr k, s, []⟩
def outOfFuel {α} : M α := fun s => ⟨.outOfFuel, s, []⟩
/-- emit one log line -/
def emit (line : String) : M Unit := fun s => ⟨.ok (), s, [line]⟩
def get : M State := fun s => ⟨.ok s, s, []⟩
def set (s : State) : M Unit := fun _ => ⟨.ok (), s, []⟩
def ofExcept {α} : Except ErrKind α → M α
  | .ok a => pure a
  | .error k => if k == .typeMismatch || k == .unbound || k == .unsupported then internalErr k else userErr k
end M

/-! ### environment -/

def Env.lookup (env : Env) (x : String) : Option Value := (env.find? (·.1 == x)).map (·.2)

def Env.update : Env → String → Value → Option Env
  | [], _, _ => none
  | (y, w) :: rest, x, v => if y == x then some ((x, v) :: rest) else (Env.update rest x v).map ((y, w) :: ·)

/-- leave a block: drop the bindings declared since the block was entered -/
def Env.restore (env : Env) (depth : Nat) : Env := env.drop (env.length - depth)

def getVar (x : String) : M Value := fun s =>
  match s.env.lookup x with
  | some v => ⟨.ok v, s, []⟩
  | none => ⟨.internalErr .unbound, s, []⟩

def setVar (x : String) (v : Value) : M Unit := fun s =>
  match s.env.update x v with
  | some env => ⟨.ok (), ⟨env⟩, []⟩
  | none => ⟨.internalErr .unbound, s, []⟩

def declVar (x : String) (v : Value) : M Unit := fun s => ⟨.ok (), ⟨(x, v) :: s.env⟩, []⟩

/-! ### operators -/

def applyUnary : UnOp → Value → Except ErrKind Value
  | .not, .bool b => .ok (.bool !b)
  | .neg, .int k n => (k.check (-n)).map (Value.int k)
  | _, _ => .error .typeMismatch

/-- strict binary operators on evaluated operands (`VisitBinaryExpression`, non-short-circuit cases) -/
def applyBinary (op : BinOp) (a b : Value) : Except ErrKind Value :=
  match op with
  | .eq => .ok (.bool (Value.beq a b))
  | .ne => .ok (.bool (!Value.beq a b))
  | .lt | .le | .gt | .ge =>
    match a, b with
    | .int k x, .int k' y =>
      if k == k' then (match compareOp op x y with | some r => .ok (.bool r) | none => .error .typeMismatch)
      else .error .typeMismatch
    | _, _ => .error .typeMismatch
  | _ =>
    match a, b with
    | .int k x, .int k' y => if k == k' then (arith k op x y).map (Value.int k) else .error .typeMismatch
    | _, _ => .error .typeMismatch

/-! ### containers -/

def arrayGet (vs : List Value) (i : Int) : Except ErrKind Value :=
  if i < 0 then .error .indexOob else
  match vs[i.toNat]? with
  | some v => .ok v
  | none => .error .indexOob

def arraySet (vs : List Value) (i : Int) (v : Value) : Except ErrKind (List Value) :=
  if i < 0 then .error .indexOob else
  if i.toNat < vs.length then .ok (vs.set i.toNat v) else .error .indexOob

def dictGet (kvs : List (Value × Value)) (k : Value) : Value :=
  match kvs.find? (fun kv => Value.beq kv.1 k) with
  | some kv => .some kv.2
  | none => .nil

def dictRemove (kvs : List (Value × Value)) (k : Value) : List (Value × Value) :=
  kvs.filter (fun kv => !Value.beq kv.1 k)

def dictInsert (kvs : List (Value × Value)) (k v : Value) : List (Value × Value) :=
  if kvs.any (fun kv => Value.beq kv.1 k)
  then kvs.map (fun kv => if Value.beq kv.1 k then (kv.1, v) else kv)
  else kvs ++ [(k, v)]

/-- assignment through a dictionary index: the transferred value is an optional; `nil` removes the key -/
def dictSet (kvs : List (Value × Value)) (k v : Value) : Except ErrKind (List (Value × Value)) :=
  match v with
  | .nil => .ok (dictRemove kvs k)
  | .some w => .ok (dictInsert kvs k w)
  | _ => .error .typeMismatch

def fieldGet (fs : List (String × Value)) (f : String) : Except ErrKind Value :=
  match fs.find? (·.1 == f) with
  | some p => .ok p.2
  | none => .error .useBeforeInit

def fieldSet (fs : List (String × Value)) (f : String) (v : Value) : List (String × Value) :=
  if fs.any (·.1 == f) then fs.map (fun p => if p.1 == f then (f, v) else p) else fs ++ [(f, v)]

/-- read `container[key]` (`valueIndexExpressionGetterSetter.get`) -/
def indexGet (c k : Value) : Except ErrKind Value :=
  match c, k with
  | .array vs, .int _ i => arrayGet vs i
  | .dict kvs, k => .ok (dictGet kvs k)
  | _, _ => .error .typeMismatch

def indexSet (c k v : Value) : Except ErrKind Value :=
  match c, k with
  | .array vs, .int _ i => (arraySet vs i v).map Value.array
  | .dict kvs, k => (dictSet kvs k v).map Value.dict
  | _, _ => .error .typeMismatch

def memberGet (c : Value) (f : String) : Except ErrKind Value :=
  match c with
  | .struct _ fs => fieldGet fs f
  | _ => .error .typeMismatch

def memberSet (c : Value) (f : String) (v : Value) : Except ErrKind Value :=
  match c with
  | .struct n fs => .ok (.struct n (fieldSet fs f v))
  | _ => .error .typeMismatch

/-! ### assignment targets

An evaluated target is a root (a variable of the current activation, or a temporary value) and a
path of already evaluated selectors.  Structs, arrays and dictionaries have value semantics and are
copied on every transfer, and the fragment has no references, so a location inside a variable is
exactly such a path. -/

inductive Sel where
  | field (f : String)
  | idx (k : Value)
  deriving Repr, Inhabited

inductive Root where
  | var (x : String)
  | temp (v : Value)
  deriving Repr, Inhabited

structure LVal where
  root : Root
  path : List Sel
  deriving Repr, Inhabited

def selGet (c : Value) : Sel → Except ErrKind Value
  | .field f => memberGet c f
  | .idx k => indexGet c k

def selSet (c : Value) (s : Sel) (v : Value) : Except ErrKind Value :=
  match s with
  | .field f => memberSet c f v
  | .idx k => indexSet c k v

def pathGet : Value → List Sel → Except ErrKind Value
  | c, [] => .ok c
  | c, s :: rest => do pathGet (← selGet c s) rest

def pathSet : Value → List Sel → Value → Except ErrKind Value
  | _, [], v => .ok v
  | c, [s], v => selSet c s v          -- the last selector is written without reading the old entry
  | c, s :: rest, v => do
    let inner ← selGet c s
    let inner' ← pathSet inner rest v
    selSet c s inner'

def lvRead (lv : LVal) : M Value :=
  match lv.root with
  | .var x => do M.ofExcept (pathGet (← getVar x) lv.path)
  | .temp v => M.ofExcept (pathGet v lv.path)

def lvWrite (lv : LVal) (v : Value) : M Unit :=
  match lv.root with
  | .var x => do
    let c ← getVar x
    let c' ← M.ofExcept (pathSet c lv.path v)
    setVar x c'
  | .temp c => do
    -- writing into a temporary: only the checks (index bounds) are observable
    let _ ← M.ofExcept (pathSet c lv.path v)
    pure ()

def LVal.extend (lv : LVal) (s : Sel) : LVal := ⟨lv.root, lv.path ++ [s]⟩

/-! ### control flow of statements -/

inductive Flow where
  | normal | brk | cont
  | ret (v : Value)
  deriving Repr, Inhabited

def bindParams : List Param → List Value → Option Env
  | [], [] => some []
  | p :: ps, v :: vs => (bindParams ps vs).map ((p.name, box p.ty v) :: ·)
  | _, _ => none

variable (p : Program)

mutual

/-- expressions (`interpreter_expression.go`) -/
def eval : Nat → Expr → M Value
  | 0, _ => M.outOfFuel
  | n + 1, e =>
    match e with
    | .intLit k v => pure (.int k v)
    | .boolLit b => pure (.bool b)
    | .strLit s => pure (.str s)
    | .voidLit => pure .void
    | .nilLit => pure .nil
    | .var x => getVar x
    | .unary op a => do
      let v ← eval n a
      M.ofExcept (applyUnary op v)
    -- VisitBinaryExpression, strict operators: left, then right, then the operation
    | .binary op a b => do
      let va ← eval n a
      let vb ← eval n b
      M.ofExcept (applyBinary op va vb)
    -- `&&`: right operand only if the left one is true
    | .and a b => do
      let va ← eval n a
      match va with
      | .bool false => pure (.bool false)
      | .bool true => do
        let vb ← eval n b
        match vb with
        | .bool r => pure (.bool r)
        | _ => M.internalErr .typeMismatch
      | _ => M.internalErr .typeMismatch
    -- `||`: right operand only if the left one is false
    | .or a b => do
      let va ← eval n a
      match va with
      | .bool true => pure (.bool true)
      | .bool false => do
        let vb ← eval n b
        match vb with
        | .bool r => pure (.bool r)
        | _ => M.internalErr .typeMismatch
      | _ => M.internalErr .typeMismatch
    -- `??` as the interpreter implements it (VisitBinaryExpression, OperationNilCoalesce):
    -- `if some, ok := leftValue.(*SomeValue); ok { inner } else { rightValue() }` — the right operand is
    -- evaluated whenever the left value is not a `SomeValue`.  For `nil` that is the definition; a left
    -- value that is neither `nil` nor boxed (the interpreter does not box the result of a conditional
    -- expression, e.g. `(c ? 1 : nil) ?? 5`) is treated like `nil` (known finding
    -- `conditional-result-not-boxed`; the VM returns the left value there).
    | .coalesce ty a b => do
      let va ← eval n a
      match va with
      | .some v => pure (box ty v)
      | _ => do
        let vb ← eval n b
        pure (box ty vb)
    | .cond c t e => do
      let vc ← eval n c
      match vc with
      | .bool true => eval n t
      | .bool false => eval n e
      | _ => M.internalErr .typeMismatch
    | .call f args => do
      let vs ← evalArgs n args
      callNamed n f vs
    -- VisitArrayExpression: elements left to right, each boxed to the element type
    | .array ty es => do
      let vs ← evalArgs n es
      pure (.array (vs.map (box ty)))
    -- VisitDictionaryExpression: per entry the key, then the value
    | .dict kt vt entries => do
      let kvs ← evalEntries n entries
      pure (.dict (kvs.foldl (fun acc kv => dictInsert acc (box kt kv.1) (box vt kv.2)) []))
    -- VisitIndexExpression: target, then index, then the read
    | .index a i => do
      let va ← eval n a
      let vi ← eval n i
      M.ofExcept (indexGet va vi)
    -- memberExpressionGetterSetter.get: target first; with optional chaining the member is read only
    -- for a non-nil target, and the result is wrapped unless it already is an optional
    | .member false a f => do
      let va ← eval n a
      M.ofExcept (memberGet va f)
    | .member true a f => do
      let va ← eval n a
      match va with
      | .nil => pure .nil
      | .some v => do
        let r ← M.ofExcept (memberGet v f)
        match r with
        | .some _ => pure r
        | .nil => pure r
        | _ => pure (.some r)
      | _ => M.internalErr .typeMismatch
    -- method call: receiver, (nil check for `?.`), arguments left to right, the call, then the
    -- possibly mutated receiver is stored back when it is a variable
    | .mcall opt recv m args => do
      let rv ← eval n recv
      let isNil := match rv with | .nil => true | _ => false
      if opt && isNil then pure .nil else do
        let vs ← evalArgs n args
        -- the receiver is re-read after the arguments (a variable receiver is shared, not copied)
        let self0 ← (match recv with
          | .var x => getVar x
          | _ => pure rv)
        let self1 := if opt then (match self0 with | .some v => v | v => v) else self0
        let (res, self2) ← callMethod n self1 m vs
        (match recv with
          | .var x => setVar x (if opt then .some self2 else self2)
          | _ => pure ())
        pure (if opt then .some res else res)
    | .force a => do
      let va ← eval n a
      match va with
      | .some v => pure v
      | .nil => M.userErr .forceNil
      | v => pure v

/-- argument lists, array elements: left to right -/
def evalArgs : Nat → List Expr → M (List Value)
  | 0, _ => M.outOfFuel
  | _ + 1, [] => pure []
  | n + 1, e :: es => do
    let v ← eval n e
    let vs ← evalArgs n es
    pure (v :: vs)

/-- dictionary entries: key before value, entry by entry -/
def evalEntries : Nat → List (Expr × Expr) → M (List (Value × Value))
  | 0, _ => M.outOfFuel
  | _ + 1, [] => pure []
  | n + 1, (k, v) :: rest => do
    let vk ← eval n k
    let vv ← eval n v
    let kvs ← evalEntries n rest
    pure ((vk, vv) :: kvs)

/-- call of a global function, a struct constructor or a built-in, on evaluated arguments -/
def callNamed : Nat → String → List Value → M Value
  | 0, _, _ => M.outOfFuel
  | n + 1, f, vs =>
    match f, vs with
    | "log", [v] => do M.emit v.logStr; pure .void
    | "panic", [_] => M.userErr .panic
    | "assert", [.bool true] => pure .void
    | "assert", [.bool true, _] => pure .void
    | "assert", [.bool false] => M.userErr .assertion
    | "assert", [.bool false, _] => M.userErr .assertion
    | _, _ =>
      match p.findFun f with
      | some fd => do
        let r ← callBody n fd.params fd.ret fd.body vs none
        pure r.1
      | none =>
        match p.findStruct f with
        | some sd =>
          match sd.init with
          | some (params, body) => do
            let r ← callBody n params .void body vs (some (.struct sd.name []))
            pure r.2
          | none => pure (.struct sd.name [])
        | none => M.internalErr .unbound

/-- method call on an evaluated receiver; returns the result and the receiver after the call -/
def callMethod : Nat → Value → String → List Value → M (Value × Value)
  | 0, _, _, _ => M.outOfFuel
  | n + 1, self, m, vs =>
    match self with
    | .struct sn _ =>
      match (p.findStruct sn).bind (·.findMethod m) with
      | some fd => callBody n fd.params fd.ret fd.body vs (some self)
      | none => M.internalErr .unbound
    | _ => M.internalErr .typeMismatch

/-- run a function body in a fresh activation (parameters boxed to their declared types); the
    caller's activation is restored afterwards.  Returns the (boxed) result and the final `self`. -/
def callBody : Nat → List Param → Ty → List Stmt → List Value → Option Value → M (Value × Value)
  | 0, _, _, _, _, _ => M.outOfFuel
  | n + 1, params, retTy, body, vs, self =>
    match bindParams params vs with
    | none => M.internalErr .typeMismatch
    | some env => fun s =>
      let env' := match self with | some sv => ("self", sv) :: env | none => env
      let r := execBlock n retTy body ⟨env'⟩
      let selfAfter := (r.st.env.lookup "self").getD .void
      match r.out with
      | .ok (.ret v) => ⟨.ok (v, selfAfter), s, r.tr⟩
      | .ok _ => ⟨.ok (.void, selfAfter), s, r.tr⟩
      | .userErr k => ⟨.userErr k, s, r.tr⟩
      | .internalErr k => ⟨.internalErr k, s, r.tr⟩
      | .outOfFuel => ⟨.outOfFuel, s, r.tr⟩

/-- evaluate an assignment / swap target down to a location: the sub-expressions (base, index) are
    evaluated here, in source order, and intermediate containers are read (`assignmentGetterSetter`) -/
def evalTarget : Nat → Expr → M LVal
  | 0, _ => M.outOfFuel
  | n + 1, e =>
    match e with
    | .var x => pure ⟨.var x, []⟩
    | .member false a f => do
      let lv ← evalTarget n a
      let _ ← lvRead lv                 -- the base is evaluated as a value
      pure (lv.extend (.field f))
    | .index a i => do
      let lv ← evalTarget n a
      let _ ← lvRead lv
      let vi ← eval n i
      pure (lv.extend (.idx vi))
    | other => do
      let v ← eval n other
      pure ⟨.temp v, []⟩

/-- statements (`interpreter_statement.go`); `retTy` is the enclosing function's return type -/
def exec : Nat → Ty → Stmt → M Flow
  | 0, _, _ => M.outOfFuel
  | n + 1, retTy, st =>
    match st with
    | .decl _ x ty e => do
      let v ← eval n e
      declVar x (box ty v)
      pure .normal
    -- VisitAssignmentStatement: target sub-expressions, then the value, then the write
    | .assign target ty e => do
      let lv ← evalTarget n target
      let v ← eval n e
      lvWrite lv (box ty v)
      pure .normal
    -- VisitSwapStatement: left target, right target, read left, read right, write left, write right
    | .swap l lty r rty => do
      let ll ← evalTarget n l
      let lr ← evalTarget n r
      let vl ← lvRead ll
      let vr ← lvRead lr
      lvWrite ll (box lty vr)
      lvWrite lr (box rty vl)
      pure .normal
    | .ite c t e => do
      let vc ← eval n c
      match vc with
      | .bool true => execBlock n retTy t
      | .bool false =>
        (match e with
         | some eb => execBlock n retTy eb
         | none => pure .normal)
      | _ => M.internalErr .typeMismatch
    | .while c body => do
      let vc ← eval n c
      match vc with
      | .bool false => pure .normal
      | .bool true => do
        let f ← execBlock n retTy body
        match f with
        | .brk => pure .normal
        | .ret v => pure (.ret v)
        | _ => exec n retTy (.while c body)
      | _ => M.internalErr .typeMismatch
    | .break_ => pure .brk
    | .continue_ => pure .cont
    | .ret none => pure (.ret .void)
    | .ret (some e) => do
      let v ← eval n e
      pure (.ret (box retTy v))
    | .expr e => do
      let _ ← eval n e
      pure .normal

/-- a block: its declarations are dropped when it is left -/
def execBlock : Nat → Ty → List Stmt → M Flow
  | 0, _, _ => M.outOfFuel
  | n + 1, retTy, ss => fun s =>
    let r := execStmts n retTy ss s
    ⟨r.out, ⟨r.st.env.restore s.env.length⟩, r.tr⟩

def execStmts : Nat → Ty → List Stmt → M Flow
  | 0, _, _ => M.outOfFuel
  | _ + 1, _, [] => pure .normal
  | n + 1, retTy, st :: rest => do
    let f ← exec n retTy st
    match f with
    | .normal => execStmts n retTy rest
    | other => pure other

end

/-- run `main()` of a program -/
def run (fuel : Nat) : Res Value :=
  (callNamed p fuel "main" []) ⟨[]⟩

end Verif.Model.Lang
