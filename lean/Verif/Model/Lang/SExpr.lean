import Verif.Model.Lang.Syntax
/-
Reader for the S-expression form of a checked Cadence program, produced from the *real*
`ast.Program` + `sema.Elaboration` by `harness/internal/sx/sx.go`.

Format (atoms are runs of characters other than space, parentheses and `"`; strings are `"…"` of
printable ASCII without `"` and `\`):

  program ::= (program decl*)
  decl    ::= (fun NAME (params param*) ty block)
            | (struct NAME (fields field*) member*)
  member  ::= (init (params param*) block) | (method NAME (params param*) ty block)
  param   ::= (param NAME ty)                      -- argument labels are not needed at run time
  field   ::= (field let|var NAME ty)
  block   ::= (block stmt*)
  stmt    ::= (let NAME ty expr) | (var NAME ty expr)        -- ty: target type (Elaboration)
            | (assign target ty expr)                        -- ty: target type (Elaboration)
            | (swap target ty target ty)                     -- left, left type, right, right type
            | (if expr block) | (if expr block block)
            | (while expr block) | (break) | (continue)
            | (return) | (return expr) | (expr expr)
  target  ::= (var NAME) | (member expr NAME) | (index expr expr)
  expr    ::= (int KIND DECIMAL) | (bool true|false) | (str "…") | (void) | (nil) | (var NAME)
            | (un -|! expr) | (bin OP expr expr)             -- OP: + - * / % & | ^ << >> == != < <= > >= && ||
            | (coalesce ty expr expr)                        -- ty: result type (Elaboration)
            | (cond expr expr expr)
            | (call NAME expr*)                              -- global function, struct constructor, log, panic, assert
            | (array ty expr*)                               -- ty: element type
            | (dict ty ty (entry expr expr)*)                -- key type, value type
            | (index expr expr) | (member expr NAME) | (omember expr NAME)
            | (mcall expr NAME expr*) | (omcall expr NAME expr*)
            | (force expr)
  ty      ::= Int | UInt | Int8 … Int64 | UInt8 … UInt64 | Word8 … Word64
            | Bool | String | Void | Never | AnyStruct
            | (opt ty) | (arr ty) | (dict ty ty) | (nom NAME)

Anything else makes `readProgram` return `none` (the driver reports the line as SKIP).
-/
namespace Verif.Model.Lang

inductive SX where
  | atom (s : String)
  | str (s : String)
  | list (xs : List SX)
  deriving Repr, Inhabited

namespace SX

inductive Tok where
  | lp | rp | atom (s : String) | str (s : String)

/-- tokenizer; `cur` accumulates the current atom (reversed), `inStr` the current string literal -/
def tokenize : List Char → List Char → Option (List Char) → List Tok → Option (List Tok)
  | [], cur, none, acc => some ((if cur.isEmpty then acc else Tok.atom (String.ofList cur.reverse) :: acc).reverse)
  | [], _, some _, _ => none
  | c :: cs, cur, some s, acc =>
    if c == '"' then tokenize cs cur none (Tok.str (String.ofList s.reverse) :: acc)
    else tokenize cs cur (some (c :: s)) acc
  | c :: cs, cur, none, acc =>
    let flush := if cur.isEmpty then acc else Tok.atom (String.ofList cur.reverse) :: acc
    if c == '(' then tokenize cs [] none (Tok.lp :: flush)
    else if c == ')' then tokenize cs [] none (Tok.rp :: flush)
    else if c == ' ' then tokenize cs [] none flush
    else if c == '"' then tokenize cs [] (some []) flush
    else tokenize cs (c :: cur) none acc

/-- stack parser: each stack entry is the reversed list of items read so far at that depth -/
def build : List Tok → List (List SX) → Option SX
  | [], [[x]] => some x
  | [], _ => none
  | Tok.lp :: ts, st => build ts ([] :: st)
  | Tok.rp :: ts, top :: next :: st => build ts ((SX.list top.reverse :: next) :: st)
  | Tok.rp :: _, _ => none
  | Tok.atom s :: ts, top :: st => build ts ((SX.atom s :: top) :: st)
  | Tok.str s :: ts, top :: st => build ts ((SX.str s :: top) :: st)
  | _ :: _, [] => none

def parse (s : String) : Option SX := do
  let toks ← tokenize s.toList [] none []
  build toks [[]]

end SX

open SX in
partial def readTy : SX → Option Ty
  | .atom "Bool" => some .bool | .atom "String" => some .string | .atom "Void" => some .void
  | .atom "Never" => some .never | .atom "AnyStruct" => some .any
  | .atom s => (IntKind.ofName? s).map Ty.int
  | .list [.atom "opt", t] => Ty.opt <$> readTy t
  | .list [.atom "arr", t] => Ty.arr <$> readTy t
  | .list [.atom "dict", k, v] => Ty.dict <$> readTy k <*> readTy v
  | .list [.atom "nom", .atom n] => some (.nom n)
  | _ => none

def readBinOp : String → Option BinOp
  | "+" => some .add | "-" => some .sub | "*" => some .mul | "/" => some .div | "%" => some .mod
  | "&" => some .band | "|" => some .bor | "^" => some .bxor | "<<" => some .shl | ">>" => some .shr
  | "==" => some .eq | "!=" => some .ne | "<" => some .lt | "<=" => some .le | ">" => some .gt | ">=" => some .ge
  | _ => none

open SX in
partial def readExpr : SX → Option Expr
  | .list [.atom "int", .atom k, .atom n] => do
    let kind ← IntKind.ofName? k
    let v ← n.toInt?
    some (.intLit kind v)
  | .list [.atom "bool", .atom "true"] => some (.boolLit true)
  | .list [.atom "bool", .atom "false"] => some (.boolLit false)
  | .list [.atom "str", .str s] => some (.strLit s)
  | .list [.atom "void"] => some .voidLit
  | .list [.atom "nil"] => some .nilLit
  | .list [.atom "var", .atom x] => some (.var x)
  | .list [.atom "un", .atom "-", e] => Expr.unary .neg <$> readExpr e
  | .list [.atom "un", .atom "!", e] => Expr.unary .not <$> readExpr e
  | .list [.atom "bin", .atom "&&", a, b] => Expr.and <$> readExpr a <*> readExpr b
  | .list [.atom "bin", .atom "||", a, b] => Expr.or <$> readExpr a <*> readExpr b
  | .list [.atom "bin", .atom op, a, b] => do
    let o ← readBinOp op
    Expr.binary o <$> readExpr a <*> readExpr b
  | .list [.atom "coalesce", t, a, b] => Expr.coalesce <$> readTy t <*> readExpr a <*> readExpr b
  | .list [.atom "cond", c, t, e] => Expr.cond <$> readExpr c <*> readExpr t <*> readExpr e
  | .list (.atom "call" :: .atom f :: args) => Expr.call f <$> args.mapM readExpr
  | .list (.atom "array" :: t :: es) => Expr.array <$> readTy t <*> es.mapM readExpr
  | .list (.atom "dict" :: k :: v :: es) => do
    let entries ← es.mapM fun
      | .list [.atom "entry", a, b] => do some ((← readExpr a), (← readExpr b))
      | _ => none
    Expr.dict <$> readTy k <*> readTy v <*> pure entries
  | .list [.atom "index", a, i] => Expr.index <$> readExpr a <*> readExpr i
  | .list [.atom "member", e, .atom f] => (Expr.member false · f) <$> readExpr e
  | .list [.atom "omember", e, .atom f] => (Expr.member true · f) <$> readExpr e
  | .list (.atom "mcall" :: r :: .atom m :: args) => do
    some (.mcall false (← readExpr r) m (← args.mapM readExpr))
  | .list (.atom "omcall" :: r :: .atom m :: args) => do
    some (.mcall true (← readExpr r) m (← args.mapM readExpr))
  | .list [.atom "force", e] => Expr.force <$> readExpr e
  | _ => none

open SX in
mutual
partial def readStmt : SX → Option Stmt
  | .list [.atom "let", .atom x, t, e] => Stmt.decl true x <$> readTy t <*> readExpr e
  | .list [.atom "var", .atom x, t, e] => Stmt.decl false x <$> readTy t <*> readExpr e
  | .list [.atom "assign", tg, t, e] => Stmt.assign <$> readExpr tg <*> readTy t <*> readExpr e
  | .list [.atom "swap", l, lt, r, rt] => Stmt.swap <$> readExpr l <*> readTy lt <*> readExpr r <*> readTy rt
  | .list [.atom "if", c, t] => do some (.ite (← readExpr c) (← readBlock t) none)
  | .list [.atom "if", c, t, e] => do some (.ite (← readExpr c) (← readBlock t) (some (← readBlock e)))
  | .list [.atom "while", c, b] => do some (.while (← readExpr c) (← readBlock b))
  | .list [.atom "break"] => some .break_
  | .list [.atom "continue"] => some .continue_
  | .list [.atom "return"] => some (.ret none)
  | .list [.atom "return", e] => do some (.ret (some (← readExpr e)))
  | .list [.atom "expr", e] => Stmt.expr <$> readExpr e
  | _ => none
partial def readBlock : SX → Option (List Stmt)
  | .list (.atom "block" :: ss) => ss.mapM readStmt
  | _ => none
end

open SX in
def readParams : SX → Option (List Param)
  | .list (.atom "params" :: ps) => ps.mapM fun
    | .list [.atom "param", .atom n, t] => Param.mk n <$> readTy t
    | _ => none
  | _ => none

open SX in
def readFun (head : String) : SX → Option FunDecl
  | .list [.atom h, .atom name, ps, ret, body] =>
    if h == head then do some ⟨name, (← readParams ps), (← readTy ret), (← readBlock body)⟩ else none
  | _ => none

open SX in
def readStruct : SX → Option StructDecl
  | .list (.atom "struct" :: .atom name :: .list (.atom "fields" :: fs) :: members) => do
    let fields ← fs.mapM fun
      | .list [.atom "field", .atom k, .atom n, t] => do some (FieldDecl.mk (k == "let") n (← readTy t))
      | _ => none
    let inits ← (members.filter fun | .list (.atom "init" :: _) => true | _ => false).mapM fun
      | .list [.atom "init", ps, body] => do some ((← readParams ps), (← readBlock body))
      | _ => none
    let methods ← (members.filter fun | .list (.atom "init" :: _) => false | _ => true).mapM (readFun "method")
    some ⟨name, fields, inits.head?, methods⟩
  | _ => none

open SX in
def readProgramSX : SX → Option Program
  | .list (.atom "program" :: ds) => do
    let funs ← (ds.filter fun | .list (.atom "fun" :: _) => true | _ => false).mapM (readFun "fun")
    let structs ← (ds.filter fun | .list (.atom "struct" :: _) => true | _ => false).mapM readStruct
    if funs.length + structs.length == ds.length then some ⟨funs, structs⟩ else none
  | _ => none

def readProgram (s : String) : Option Program := SX.parse s >>= readProgramSX

end Verif.Model.Lang
