import Verif.Model.Exec
/-
Executor + register map (C24, `commit_complete`).  The executors of `Verif.Model.Exec` with the content
of the registers added: a ledger is a map from register keys to values; an execution works on a fresh
`runtime.Storage` — a read cache (`cache`: registers / slabs loaded from the ledger) and the dirty
entries (`deltas`: `PersistentSlabStorage.deltas`, the new / changed account registers) — reads go
deltas → cache → ledger, writes go to the deltas only; `commit` writes every dirty register once (the
latest value); a failed execution and a script write nothing.

`ideal*` is the reference semantics the property talks about: one in-memory state that every
successful transaction updates in place and that a failed transaction / a script leaves as it was.

Core Lean only (linked into drv_exec: `Probe` is the driver's oracle state).
-/
namespace Verif.Model.ExecStore
open Verif.Model.Exec

variable {K V : Type} [DecidableEq K]

/-- `none` = the register is absent (an empty value deletes it) -/
abbrev Ledger (K V : Type) := K → Option V

def update (L : Ledger K V) (k : K) (v : Option V) : Ledger K V := fun k' => if k' = k then v else L k'

/-- association list, most recent entry first -/
def lookup : List (K × Option V) → K → Option (Option V)
  | [], _ => none
  | (k', v) :: rest, k => if k = k' then some v else lookup rest k

inductive Op (K V : Type) where
  | get (k : K)
  | set (k : K) (v : Option V)

/-- the in-memory storage of ONE execution -/
structure Mem (K V : Type) where
  cache : List (K × Option V) := []
  deltas : List (K × Option V) := []

/-- what the running program sees at key `k` -/
def Mem.view (m : Mem K V) (L : Ledger K V) (k : K) : Option V :=
  match lookup m.deltas k with
  | some v => v
  | none =>
    match lookup m.cache k with
    | some v => v
    | none => L k

/-- one operation: the value read (for `get`) and the new in-memory storage; a `get` that reaches the
ledger fills the read cache -/
def opStep (L : Ledger K V) (m : Mem K V) : Op K V → Mem K V × Option (Option V)
  | .get k =>
    let v := m.view L k
    (match lookup m.deltas k, lookup m.cache k with
     | none, none => { m with cache := (k, L k) :: m.cache }
     | _, _ => m, some v)
  | .set k v => ({ m with deltas := (k, v) :: m.deltas }, none)

/-- run a program; the values it read, in order -/
def runOps (L : Ledger K V) : Mem K V → List (Op K V) → Mem K V × List (Option V)
  | m, [] => (m, [])
  | m, o :: os =>
    match opStep L m o with
    | (m1, none) => runOps L m1 os
    | (m1, some v) => let (m2, rs) := runOps L m1 os; (m2, v :: rs)

/-- the register writes of a commit: one per dirty key, its latest value -/
def commitWrites : List (K × Option V) → List (K × Option V)
  | [] => []
  | (k, v) :: rest => (k, v) :: (commitWrites rest).filter (fun e => e.1 ≠ k)

/-- the ledger after a list of `SetValue` calls (first element of the list = last call) -/
def applyWrites (L : Ledger K V) : List (K × Option V) → Ledger K V
  | [] => L
  | (k, v) :: ws => update (applyWrites L ws) k v

/-- one step of a history -/
structure Step (K V : Type) where
  /-- a transaction / contract call that succeeds (it commits); `false`: it fails, or it is a script -/
  commits : Bool
  prog : List (Op K V)

/-- the executor: fresh storage, run, commit iff the step is a successful transaction -/
def execStep (L : Ledger K V) (s : Step K V) : Ledger K V × List (Option V) :=
  let (m, rs) := runOps L {} s.prog
  (if s.commits then applyWrites L (commitWrites m.deltas) else L, rs)

def execHistory (L : Ledger K V) : List (Step K V) → Ledger K V × List (List (Option V))
  | [] => (L, [])
  | s :: ss =>
    let (L1, rs) := execStep L s
    let (L2, rss) := execHistory L1 ss
    (L2, rs :: rss)

/-! ### reference semantics: one in-memory state -/

def idealOps (M : Ledger K V) : List (Op K V) → Ledger K V × List (Option V)
  | [] => (M, [])
  | .get k :: os => let (M1, rs) := idealOps M os; (M1, M k :: rs)
  | .set k v :: os => idealOps (update M k v) os

def idealStep (M : Ledger K V) (s : Step K V) : Ledger K V × List (Option V) :=
  let (M1, rs) := idealOps M s.prog
  (if s.commits then M1 else M, rs)

def idealHistory (M : Ledger K V) : List (Step K V) → Ledger K V × List (List (Option V))
  | [] => (M, [])
  | s :: ss =>
    let (M1, rs) := idealStep M s
    let (M2, rss) := idealHistory M1 ss
    (M2, rs :: rss)

/-! ### the trace of a step, as the executor model of `Verif.Model.Exec` produces it -/

/-- the host-visible behaviour of a step over registers `(owner, slab?, index)`: a `get` that reaches
the ledger is a `read`, everything else is program activity; the commit writes `commitWrites` -/
def behaviourOf (L : Ledger (Nat × Bool × Nat) V) (s : Step (Nat × Bool × Nat) V) (ok : Bool) : Behaviour :=
  let m := (runOps L {} s.prog).1
  let ws := commitWrites m.deltas
  { preCalls := 1, preOk := true,
    run := s.prog.map (fun o => match o with | .get _ => RunEv.read | .set _ _ => RunEv.step),
    ok := ok, commitPrefix := [],
    acctWrites := (ws.filter (fun e => !e.1.2.1)).map (fun e => e.1.1),
    slabWrites := (ws.filter (fun e => e.1.2.1)).map (fun e => (e.1.1, e.1.2.2)) }

/-! ### the driver's oracle for `stale-read-after-commit`

The stream's programs log a digest of what they read of one region of the state (a *channel*: the
storage paths of one account, the fields of the contract) when they start (`b`) and when they have
made their last change (`e`).  `Probe` is the register map of the reference semantics restricted to
what the driver can see: per channel, the digest of the committed state if known. -/

structure StepObs where
  /-- the step commits (successful transaction / contract call) -/
  commits : Bool
  /-- (channel, digest) logged at the start / at the end of the step -/
  begins : List (String × String)
  ends : List (String × String)
  /-- channels whose registers the step wrote (owners of the `write` events) -/
  wrote : List String

abbrev Probe := List (String × String)

def Probe.get (p : Probe) (ch : String) : Option String := (p.find? (·.1 == ch)).map (·.2)
def Probe.set (p : Probe) (ch d : String) : Probe := (ch, d) :: p.filter (·.1 != ch)
def Probe.forget (p : Probe) (ch : String) : Probe := p.filter (·.1 != ch)

/-- channels on which the step read something else than the committed state -/
def staleChannels (p : Probe) (o : StepObs) : List String :=
  (o.begins.filter (fun (ch, d) => match p.get ch with | some d0 => d0 != d | none => false)).map (·.1)

/-- the committed state after the step: what it read at the start is the state now; a committing step
replaces it by what it logged at its end, and where it wrote without logging the state is unknown;
`owners ch` = the owners whose registers hold the channel's state -/
def Probe.next (owners : String → List String) (p : Probe) (o : StepObs) : Probe :=
  let p1 := o.begins.foldl (fun acc (ch, d) => acc.set ch d) p
  if o.commits then
    let p2 := (p1.filter (fun (ch, _) => !((owners ch).any (o.wrote.contains ·)) || o.ends.any (·.1 == ch)))
    o.ends.foldl (fun acc (ch, d) => acc.set ch d) p2
  else p1

end Verif.Model.ExecStore
