import Verif.Model.Update
/-
Reader for the S-expression rendering of parsed programs produced by `harness/internal/declsx`
(grammar documented there).  Anything else makes the reader return `none` (the driver reports SKIP).
-/
namespace Verif.Model.Update

inductive SX where
  | atom (s : String)
  | list (xs : List SX)
  deriving Repr, Inhabited

namespace SX

inductive Tok where
  | lp | rp | atom (s : String)

def tokenize : List Char → List Char → List Tok → List Tok
  | [], cur, acc => (if cur.isEmpty then acc else Tok.atom (String.ofList cur.reverse) :: acc).reverse
  | c :: cs, cur, acc =>
    let flush := if cur.isEmpty then acc else Tok.atom (String.ofList cur.reverse) :: acc
    if c == '(' then tokenize cs [] (Tok.lp :: flush)
    else if c == ')' then tokenize cs [] (Tok.rp :: flush)
    else if c == ' ' then tokenize cs [] flush
    else tokenize cs (c :: cur) acc

def build : List Tok → List (List SX) → Option SX
  | [], [[x]] => some x
  | [], _ => none
  | Tok.lp :: ts, st => build ts ([] :: st)
  | Tok.rp :: ts, top :: next :: st => build ts ((SX.list top.reverse :: next) :: st)
  | Tok.rp :: _, _ => none
  | Tok.atom s :: ts, top :: st => build ts ((SX.atom s :: top) :: st)
  | _ :: _, [] => none

def parse (s : String) : Option SX := build (tokenize s.toList [] []) [[]]

end SX

def readAtoms : List SX → Option (List String)
  | [] => some []
  | .atom s :: rest => (s :: ·) <$> readAtoms rest
  | _ => none

def readNominal : SX → Option Nominal
  | .list (.atom "nom" :: .atom id :: nested) => (fun ns => { id := id, nested := ns }) <$> readAtoms nested
  | _ => none

def readAuth : SX → Option (Option (Auth Nominal))
  | .atom "-" => some none
  | .list (.atom "conj" :: es) => (fun x => some (.conj x)) <$> es.mapM readNominal
  | .list (.atom "disj" :: es) => (fun x => some (.disj x)) <$> es.mapM readNominal
  | .list [.atom "map", m] => (fun x => some (.mapped x)) <$> readNominal m
  | _ => none

partial def readTy : SX → Option TypeAst
  | .list (.atom "nom" :: .atom id :: nested) => (fun ns => .nominal { id := id, nested := ns }) <$> readAtoms nested
  | .list [.atom "opt", t] => Ty.optional <$> readTy t
  | .list [.atom "arr", t] => Ty.varSized <$> readTy t
  | .list [.atom "carr", t, .atom n, .atom b] => do
    let t' ← readTy t
    let n' ← n.toInt?
    let b' ← b.toNat?
    some (.constSized t' n' b')
  | .list [.atom "dict", k, v] => Ty.dict <$> readTy k <*> readTy v
  | .list [.atom "fun", .atom p, .list (.atom "params" :: ps), r] => do
    let p' ← p.toNat?
    let ps' ← ps.mapM readTy
    let r' ← readTy r
    some (.func p' ps' r')
  | .list [.atom "ref", a, t] => do
    let a' ← readAuth a
    let t' ← readTy t
    some (.ref a' t')
  | .list (.atom "inter" :: ns) => Ty.inter <$> ns.mapM readNominal
  | .list (.atom "inst" :: t :: args) => do
    let t' ← readTy t
    let args' ← args.mapM readTy
    some (.inst t' args')
  | _ => none

def readShape : SX → Option Shape
  | .atom "composite" => some .composite
  | .atom "interface" => some .interface
  | .atom "attachment" => some .attachment
  | _ => none

def readKind : SX → Option Kind
  | .atom "contract" => some .contract
  | .atom "contractInterface" => some .contractInterface
  | .atom "structure" => some .structure
  | .atom "structureInterface" => some .structureInterface
  | .atom "resource" => some .resource
  | .atom "resourceInterface" => some .resourceInterface
  | .atom "enum" => some .enum
  | .atom "event" => some .event
  | .atom "attachment" => some .attachment
  | .list [.atom "other", .atom n] => some (.other n)
  | _ => none

def readOptAtom : SX → Option (Option String)
  | .atom "-" => some none
  | .atom s => some (some s)
  | _ => none

def readPragma : SX → Option Pragma
  | .list [.atom "notinv"] => some .notInvocation
  | .list [.atom "inv", name, .atom n, arg0] => do
    let name' ← readOptAtom name
    let n' ← n.toNat?
    let a' ← readOptAtom arg0
    some (.invocation name' n' a')
  | _ => none

def readField : SX → Option Field
  | .list [.atom "f", .atom n, t] => (fun t' => { name := n, ty := t' }) <$> readTy t
  | _ => none

partial def readDecl : SX → Option Decl
  | .list [.atom "decl", shape, kind, .atom name, .list (.atom "fields" :: fields), .list (.atom "confs" :: confs),
      .list (.atom "cases" :: cases), .list (.atom "pragmas" :: pragmas), .list [.atom "base", base],
      .list (.atom "comps" :: comps), .list (.atom "atts" :: atts), .list (.atom "ifaces" :: ifaces)] => do
    let shape' ← readShape shape
    let kind' ← readKind kind
    let fields' ← fields.mapM readField
    let confs' ← confs.mapM readNominal
    let cases' ← readAtoms cases
    let pragmas' ← pragmas.mapM readPragma
    let base' ← (match base with | .atom "-" => some none | b => some <$> readNominal b)
    let comps' ← comps.mapM readDecl
    let atts' ← atts.mapM readDecl
    let ifaces' ← ifaces.mapM readDecl
    if shapeOf kind' != shape' then none else
    some (.mk kind' name fields' confs' cases' pragmas' base' comps' atts' ifaces')
  | _ => none

def readImportName : SX → Option (String × String)
  | .list [.atom "n", .atom ident, .atom alias] => some (ident, if alias == "-" then "" else alias)
  | _ => none

def readImport : SX → Option ImportDecl
  | .list (.atom "imp" :: .atom addr :: names) =>
    (fun ns => { address := if addr == "-" then none else some addr, names := ns }) <$> names.mapM readImportName
  | _ => none

def readProgram : SX → Option Program
  | .list [.atom "prog", .list (.atom "imports" :: imps), root] => do
    let imps' ← imps.mapM readImport
    match root with
    | .list [.atom "noroot"] => some { imports := imps', root := none }
    | .list [.atom "root", d] => (fun d' => { imports := imps', root := some d' }) <$> readDecl d
    | _ => none
  | _ => none

/-- account contract names: `-` or `ADDR=N1,N2;ADDR=...` -/
def readAccountNames (s : String) : AccountNames :=
  if s == "-" then [] else
  (s.splitOn ";").filterMap fun part =>
    match part.splitOn "=" with
    | [a, ns] => some (a, if ns.isEmpty then [] else ns.splitOn ",")
    | _ => none

end Verif.Model.Update
