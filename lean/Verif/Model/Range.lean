/-
Code-shaped model of InclusiveRange in /repo (C21), after the `fix:` commit that makes the iterator
count its elements up-front and `contains` use unbounded arithmetic:
  * `NewInclusiveRangeValue`, `NewInclusiveRangeValueWithStep`, `isSequenceMovingAwayFromEnd`,
    `InclusiveRangeContains`, `isNeedleBetweenStartEndExclusive`   (interpreter/value_range.go)
  * `NewInclusiveRangeIterator`, `Next`                            (interpreter/inclusive_range_iterator.go;
    the VM's `for` uses the same iterator through `CompositeValue.Iterator`)
over a small self-contained spec of the element types' checked arithmetic (`plus`, `negate`).
-/
namespace Verif.Model.Range

inductive Kind where
  | signed | unsigned | word
  deriving DecidableEq, Repr

/-- element type: `Int`/`UInt` have `bits = none` -/
structure Ty where
  kind : Kind
  bits : Option Nat
  deriving DecidableEq, Repr

def Ty.minV (t : Ty) : Option Int :=
  match t.kind, t.bits with
  | .signed, none => none
  | .signed, some b => some (-(2 ^ (b - 1) : Int))
  | _, _ => some 0

def Ty.maxV (t : Ty) : Option Int :=
  match t.kind, t.bits with
  | _, none => none
  | .signed, some b => some (2 ^ (b - 1) - 1)
  | _, some b => some (2 ^ b - 1)

def Ty.inRange (t : Ty) (v : Int) : Bool :=
  (match t.minV with | none => true | some m => decide (m ≤ v)) &&
  (match t.maxV with | none => true | some m => decide (v ≤ m))

inductive Err where
  | overflow | underflow
  /-- `InclusiveRangeConstructionError` -/
  | construction
  deriving DecidableEq, Repr

/-- the element type's `Plus`: checked for Int*/UInt*, wrapping for Word* -/
def plus (t : Ty) (a b : Int) : Except Err Int :=
  let r := a + b
  match t.kind, t.bits with
  | .word, some n => .ok (r % 2 ^ n)
  | _, _ =>
    if (match t.maxV with | none => false | some m => decide (r > m)) then .error .overflow
    else if (match t.minV with | none => false | some m => decide (r < m)) then .error .underflow
    else .ok r

/-- the element type's `Negate` (only called on the default step 1 of a signed type) -/
def negate (t : Ty) (a : Int) : Except Err Int :=
  let r := -a
  if (match t.maxV with | none => false | some m => decide (r > m)) then .error .overflow
  else if (match t.minV with | none => false | some m => decide (r < m)) then .error .underflow
  else .ok r

structure Range where
  start : Int
  end_ : Int
  step : Int
  deriving DecidableEq, Repr

/-- `NewInclusiveRangeValue` (no step argument) -/
def newRange (t : Ty) (start end_ : Int) : Except Err Range :=
  if start > end_ then
    if t.kind != .signed then .error .construction   -- step cannot be negative for an unsigned type
    else match negate t 1 with
      | .ok s => .ok ⟨start, end_, s⟩
      | .error e => .error e
  else .ok ⟨start, end_, 1⟩

/-- `isSequenceMovingAwayFromEnd` -/
def movingAway (start end_ step : Int) : Bool :=
  (decide (start < end_) && decide (step < 0)) || (decide (start > end_) && decide (step > 0))

/-- `NewInclusiveRangeValueWithStep` -/
def newRangeWithStep (_t : Ty) (start end_ step : Int) : Except Err Range :=
  if step == 0 then .error .construction
  else if movingAway start end_ step then .error .construction
  else .ok ⟨start, end_, step⟩

/-- `NewInclusiveRangeIterator`: first element and the number of elements that follow it
    (`none`: the sequence moves away from the end — prevented by the constructors — and is empty) -/
def iterInit (r : Range) : Option (Int × Nat) :=
  let distance := r.end_ - r.start
  if distance.sign == 0 || distance.sign == r.step.sign then
    some (r.start, (distance.tdiv r.step).toNat)
  else none

/-- the `for` loop driving `Next`: yields `cur`, then, while elements remain, adds the step with the
    element type's `Plus` -/
def iterLoop (t : Ty) (step : Int) : Nat → Int → Except Err (List Int)
  | 0, cur => .ok [cur]
  | n + 1, cur =>
    match plus t cur step with
    | .error e => .error e
    | .ok nx =>
      match iterLoop t step n nx with
      | .error e => .error e
      | .ok rest => .ok (cur :: rest)

def iterate (t : Ty) (r : Range) : Except Err (List Int) :=
  match iterInit r with
  | none => .ok []
  | some (first, remaining) => iterLoop t r.step remaining first

/-- `isNeedleBetweenStartEndExclusive` -/
def betweenExclusive (needle start end_ : Int) : Bool :=
  decide (needle > start) != decide (needle > end_)

/-- `InclusiveRangeContains` -/
def contains (r : Range) (needle : Int) : Bool :=
  if r.start == needle then true
  else if !(r.end_ == needle) && !betweenExclusive needle r.start r.end_ then false
  else (needle - r.start).tmod r.step == 0

end Verif.Model.Range
