/-
The predicate language of `/repo/tools/subtype-gen/rules.yaml` as plain data (core Lean only).
Lists are encoded with cons-constructors (no nested inductives) so that `DecidableEq` derives and the
regenerated rules can be compared with the pinned ones by the kernel.
-/
namespace Verif.Model.Types

/-- expressions of the rule language -/
inductive Expr where
  | ty (name : String)                 -- `XType` placeholder, name without the `Type` suffix
  | ident (name : String)              -- sub, super, source, target, nil, FunctionPurityView
  | member (parent : Expr) (name : String)
  | oneOfNil
  | oneOfCons (e : Expr) (rest : Expr)  -- `oneOf: [e, ...rest]`
  deriving DecidableEq, Repr, Inhabited

/-- predicates of the rule language; `and`/`or` over a list are right-nested binary nodes ending in
    `always` / `never` -/
inductive Pred where
  | always | never
  | isResource (e : Expr) | isAttachment (e : Expr) | isHashableStruct (e : Expr) | isStorable (e : Expr)
  | equals (source target : Expr)
  | deepEquals (source target : Expr)
  | subtype (sub super : Expr)
  | and (p q : Pred)
  | or (p q : Pred)
  | not (p : Pred)
  | permits (sub super : Expr)
  | returnCovariant (source target : Expr)
  | mustType (source : Expr) (typeName : String)
  | setContains (set element : Expr)
  | isIntersectionSubset (sub super : Expr)
  | isParameterizedSubtype (sub super : Expr)
  | forAll (source target : Expr) (p : Pred)
  deriving DecidableEq, Repr, Inhabited

/-- one rule: the super type it dispatches on (`complex` = dispatch by type switch on the kind,
    otherwise by identity with the simple type of that name), and its predicate -/
structure Rule where
  super : String
  complex : Bool
  pred : Pred
  deriving DecidableEq, Repr, Inhabited

end Verif.Model.Types
