/-
Executable (Bool) versions of the hypotheses `Coh`, `nomOK`, `authOK` of C08's transitivity theorems
(core Lean only): the `types` driver evaluates them on the declarations and types the harness prints from
the real checker, `Proofs/SubCoh.lean` proves that `true` implies the Prop-valued hypothesis.
-/
import Verif.Model.Types.Coherent
namespace Verif.Model.Types
open Verif.Model.Auth

def cohB (D : List Iface) : Bool :=
  D.all (fun i => D.all (fun j => i.name != j.name || i == j)) &&
  D.all (fun i => i.confs.all (fun x =>
    D.any (fun j => j.name == x && j.kind == i.kind && j.confs.all (fun y => i.confs.contains y)))) &&
  D.all (fun i => i.kind != .attachment)

def nomOKb (D : List Iface) : Ty → Bool
  | .iface i => D.contains i
  | .inter is => !is.isEmpty && is.all (fun i => D.contains i && is.all (fun j => j.kind == i.kind))
  | .comp _ k cs _ => cs.all (fun x => D.any (fun j => j.name == x && j.kind == k && j.confs.all (fun y => cs.contains y)))
  | .opt t => nomOKb D t
  | .varArr t => nomOKb D t
  | .constArr t _ => nomOKb D t
  | .ref _ t => nomOKb D t
  | .cap t => nomOKb D t
  | .range t => nomOKb D t
  | .dict k v => nomOKb D k && nomOKb D v
  | .fn _ p r => nomOKb D p && nomOKb D r
  | .consT t r => nomOKb D t && nomOKb D r
  | _ => true

def isAuthB : Access String → Bool
  | .prim p => p == .all
  | .set _ es => !es.isEmpty
  | .map _ => false

def authOKb : Ty → Bool
  | .ref a t => isAuthB a && authOKb t
  | .opt t => authOKb t
  | .varArr t => authOKb t
  | .constArr t _ => authOKb t
  | .cap t => authOKb t
  | .range t => authOKb t
  | .dict k v => authOKb k && authOKb v
  | .fn _ p r => authOKb p && authOKb r
  | .consT t r => authOKb t && authOKb r
  | _ => true

/-- all hypotheses of `trans_kindstable_partial` on one type of a chain, executable -/
def goodB (D : List Iface) (t : Ty) : Bool := t.wf && t.anyTop && nomOKb D t && authOKb t

end Verif.Model.Types
