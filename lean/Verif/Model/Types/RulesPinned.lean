/- PINNED copy of Gen/SubtypeRules.lean as of the pinned tree (rules.yaml at /repo 40c0dae); the theorems of C08 are about these rules, `rules_unchanged` ties them to the regenerated ones. -/
import Verif.Model.Types.Rules
namespace Verif.Model.Types.RulesPinned
open Verif.Model.Types

def rule0 : Rule := { super := "Any", complex := false, pred :=
  .always }

def rule1 : Rule := { super := "AnyStruct", complex := false, pred :=
  (.and (.not (.isResource (.ident "sub"))) (.and (.not (.equals (.ident "sub") (.ty "Any"))) .always)) }

def rule2 : Rule := { super := "AnyResource", complex := false, pred :=
  (.isResource (.ident "sub")) }

def rule3 : Rule := { super := "AnyResourceAttachment", complex := false, pred :=
  (.and (.isAttachment (.ident "sub")) (.and (.isResource (.ident "sub")) .always)) }

def rule4 : Rule := { super := "AnyStructAttachment", complex := false, pred :=
  (.and (.isAttachment (.ident "sub")) (.and (.not (.isResource (.ident "sub"))) .always)) }

def rule5 : Rule := { super := "HashableStruct", complex := false, pred :=
  (.isHashableStruct (.ident "sub")) }

def rule6 : Rule := { super := "Path", complex := false, pred :=
  (.subtype (.ident "sub") (.oneOfCons (.ty "StoragePath") (.oneOfCons (.ty "CapabilityPath") .oneOfNil))) }

def rule7 : Rule := { super := "Storable", complex := false, pred :=
  (.isStorable (.ident "sub")) }

def rule8 : Rule := { super := "CapabilityPath", complex := false, pred :=
  (.equals (.ident "sub") (.oneOfCons (.ty "PrivatePath") (.oneOfCons (.ty "PublicPath") .oneOfNil))) }

def rule9 : Rule := { super := "Number", complex := false, pred :=
  (.or (.equals (.ident "sub") (.oneOfCons (.ty "Number") (.oneOfCons (.ty "SignedNumber") .oneOfNil))) (.or (.subtype (.ident "sub") (.oneOfCons (.ty "Integer") (.oneOfCons (.ty "FixedPoint") .oneOfNil))) .never)) }

def rule10 : Rule := { super := "SignedNumber", complex := false, pred :=
  (.or (.equals (.ident "sub") (.ty "SignedNumber")) (.or (.subtype (.ident "sub") (.oneOfCons (.ty "SignedInteger") (.oneOfCons (.ty "SignedFixedPoint") .oneOfNil))) .never)) }

def rule11 : Rule := { super := "Integer", complex := false, pred :=
  (.or (.equals (.ident "sub") (.oneOfCons (.ty "Integer") (.oneOfCons (.ty "SignedInteger") (.oneOfCons (.ty "FixedSizeUnsignedInteger") (.oneOfCons (.ty "UInt") .oneOfNil))))) (.or (.subtype (.ident "sub") (.oneOfCons (.ty "SignedInteger") (.oneOfCons (.ty "FixedSizeUnsignedInteger") .oneOfNil))) .never)) }

def rule12 : Rule := { super := "SignedInteger", complex := false, pred :=
  (.equals (.ident "sub") (.oneOfCons (.ty "SignedInteger") (.oneOfCons (.ty "Int") (.oneOfCons (.ty "Int8") (.oneOfCons (.ty "Int16") (.oneOfCons (.ty "Int32") (.oneOfCons (.ty "Int64") (.oneOfCons (.ty "Int128") (.oneOfCons (.ty "Int256") .oneOfNil))))))))) }

def rule13 : Rule := { super := "FixedSizeUnsignedInteger", complex := false, pred :=
  (.equals (.ident "sub") (.oneOfCons (.ty "UInt8") (.oneOfCons (.ty "UInt16") (.oneOfCons (.ty "UInt32") (.oneOfCons (.ty "UInt64") (.oneOfCons (.ty "UInt128") (.oneOfCons (.ty "UInt256") (.oneOfCons (.ty "Word8") (.oneOfCons (.ty "Word16") (.oneOfCons (.ty "Word32") (.oneOfCons (.ty "Word64") (.oneOfCons (.ty "Word128") (.oneOfCons (.ty "Word256") .oneOfNil))))))))))))) }

def rule14 : Rule := { super := "FixedPoint", complex := false, pred :=
  (.or (.equals (.ident "sub") (.oneOfCons (.ty "FixedPoint") (.oneOfCons (.ty "SignedFixedPoint") (.oneOfCons (.ty "UFix64") (.oneOfCons (.ty "UFix128") .oneOfNil))))) (.or (.subtype (.ident "sub") (.oneOfCons (.ty "SignedFixedPoint") .oneOfNil)) .never)) }

def rule15 : Rule := { super := "SignedFixedPoint", complex := false, pred :=
  (.equals (.ident "sub") (.oneOfCons (.ty "SignedFixedPoint") (.oneOfCons (.ty "Fix64") (.oneOfCons (.ty "Fix128") .oneOfNil)))) }

def rule16 : Rule := { super := "Optional", complex := true, pred :=
  (.or (.and (.mustType (.ident "sub") "Optional") (.and (.subtype (.member (.ident "sub") "Type") (.member (.ident "super") "Type")) .always)) (.or (.subtype (.ident "sub") (.member (.ident "super") "Type")) .never)) }

def rule17 : Rule := { super := "Dictionary", complex := true, pred :=
  (.and (.mustType (.ident "sub") "Dictionary") (.and (.subtype (.member (.ident "sub") "ValueType") (.member (.ident "super") "ValueType")) (.and (.subtype (.member (.ident "sub") "KeyType") (.member (.ident "super") "KeyType")) .always))) }

def rule18 : Rule := { super := "VariableSized", complex := true, pred :=
  (.and (.mustType (.ident "sub") "VariableSized") (.and (.subtype (.member (.ident "sub") "ElementType") (.member (.ident "super") "ElementType")) .always)) }

def rule19 : Rule := { super := "ConstantSized", complex := true, pred :=
  (.and (.mustType (.ident "sub") "ConstantSized") (.and (.equals (.member (.ident "super") "Size") (.member (.ident "sub") "Size")) (.and (.subtype (.member (.ident "sub") "ElementType") (.member (.ident "super") "ElementType")) .always))) }

def rule20 : Rule := { super := "Reference", complex := true, pred :=
  (.and (.mustType (.ident "sub") "Reference") (.and (.permits (.member (.ident "sub") "Authorization") (.member (.ident "super") "Authorization")) (.and (.subtype (.member (.ident "sub") "ReferencedType") (.member (.ident "super") "ReferencedType")) .always))) }

def rule21 : Rule := { super := "Composite", complex := true, pred :=
  (.or (.and (.mustType (.ident "sub") "Intersection") (.and (.not (.equals (.member (.ident "sub") "LegacyType") (.oneOfCons (.ident "nil") (.oneOfCons (.ty "AnyResource") (.oneOfCons (.ty "AnyStruct") (.oneOfCons (.ty "Any") .oneOfNil)))))) (.and (.mustType (.member (.ident "sub") "LegacyType") "Composite") (.and (.deepEquals (.member (.ident "sub") "LegacyType") (.ident "super")) .always)))) (.or (.and (.mustType (.ident "sub") "Composite") (.and .never .always)) .never)) }

def rule22 : Rule := { super := "Interface", complex := true, pred :=
  (.or (.and (.mustType (.ident "sub") "Composite") (.and (.equals (.member (.ident "sub") "Kind") (.member (.ident "super") "CompositeKind")) (.and (.setContains (.member (.ident "sub") "EffectiveInterfaceConformanceSet") (.ident "super")) .always))) (.or (.and (.mustType (.ident "sub") "Intersection") (.and (.setContains (.member (.ident "sub") "EffectiveIntersectionSet") (.ident "super")) .always)) (.or (.and (.mustType (.ident "sub") "Interface") (.and (.setContains (.member (.ident "sub") "EffectiveInterfaceConformanceSet") (.ident "super")) .always)) .never))) }

def rule23 : Rule := { super := "Intersection", complex := true, pred :=
  (.or (.and (.equals (.member (.ident "super") "LegacyType") (.oneOfCons (.ident "nil") (.oneOfCons (.ty "Any") (.oneOfCons (.ty "AnyStruct") (.oneOfCons (.ty "AnyResource") .oneOfNil))))) (.and (.and (.not (.equals (.ident "sub") (.oneOfCons (.ty "Any") (.oneOfCons (.ty "AnyStruct") (.oneOfCons (.ty "AnyResource") .oneOfNil))))) (.and (.or (.and (.mustType (.ident "sub") "Intersection") (.and (.or (.and (.equals (.member (.ident "sub") "LegacyType") (.ident "nil")) (.and (.isIntersectionSubset (.ident "sub") (.ident "super")) .always)) (.or (.and (.equals (.member (.ident "sub") "LegacyType") (.oneOfCons (.ty "Any") (.oneOfCons (.ty "AnyStruct") (.oneOfCons (.ty "AnyResource") .oneOfNil)))) (.and (.or (.equals (.member (.ident "super") "LegacyType") (.ident "nil")) (.or (.subtype (.member (.ident "sub") "LegacyType") (.member (.ident "super") "LegacyType")) .never)) (.and (.isIntersectionSubset (.ident "sub") (.ident "super")) .always))) (.or (.and (.mustType (.member (.ident "sub") "LegacyType") "Composite") (.and (.or (.equals (.member (.ident "super") "LegacyType") (.ident "nil")) (.or (.subtype (.member (.ident "sub") "LegacyType") (.member (.ident "super") "LegacyType")) .never)) (.and (.isIntersectionSubset (.member (.ident "sub") "LegacyType") (.ident "super")) .always))) .never))) .always)) (.or (.and (.mustType (.ident "sub") "Conforming") (.and (.or (.equals (.member (.ident "super") "LegacyType") (.ident "nil")) (.or (.subtype (.ident "sub") (.member (.ident "super") "LegacyType")) .never)) (.and (.isIntersectionSubset (.ident "sub") (.ident "super")) .always))) .never)) .always)) .always)) (.or (.not (.equals (.ident "sub") (.oneOfCons (.ty "Any") (.oneOfCons (.ty "AnyStruct") (.oneOfCons (.ty "AnyResource") .oneOfNil))))) (.or (.and (.mustType (.ident "sub") "Intersection") (.and (.not (.equals (.member (.ident "sub") "LegacyType") (.oneOfCons (.ident "nil") (.oneOfCons (.ty "Any") (.oneOfCons (.ty "AnyStruct") (.oneOfCons (.ty "AnyResource") .oneOfNil)))))) (.and (.mustType (.member (.ident "sub") "LegacyType") "Composite") (.and (.deepEquals (.member (.ident "sub") "LegacyType") (.member (.ident "super") "LegacyType")) .always)))) (.or (.and (.mustType (.ident "sub") "Composite") (.and (.subtype (.ident "sub") (.member (.ident "super") "LegacyType")) .always)) .never)))) }

def rule24 : Rule := { super := "Function", complex := true, pred :=
  (.and (.mustType (.ident "sub") "Function") (.and (.equals (.member (.ident "sub") "Purity") (.oneOfCons (.member (.ident "super") "Purity") (.oneOfCons (.ident "FunctionPurityView") .oneOfNil))) (.and (.forAll (.member (.ident "sub") "TypeParameters") (.member (.ident "super") "TypeParameters") (.deepEquals (.member (.ident "source") "TypeBound") (.member (.ident "target") "TypeBound"))) (.and (.forAll (.member (.ident "sub") "Parameters") (.member (.ident "super") "Parameters") (.subtype (.member (.member (.ident "target") "TypeAnnotation") "Type") (.member (.member (.ident "source") "TypeAnnotation") "Type"))) (.and (.deepEquals (.member (.ident "sub") "Arity") (.member (.ident "super") "Arity")) (.and (.returnCovariant (.ident "sub") (.ident "super")) (.and (.equals (.member (.ident "sub") "IsConstructor") (.member (.ident "super") "IsConstructor")) .always))))))) }

def rule25 : Rule := { super := "Parameterized", complex := true, pred :=
  (.and (.mustType (.ident "sub") "Parameterized") (.and (.not (.equals (.member (.ident "sub") "BaseType") (.ident "nil"))) (.and (.or (.and (.not (.equals (.member (.ident "super") "BaseType") (.ident "nil"))) (.and (.subtype (.member (.ident "sub") "BaseType") (.member (.ident "super") "BaseType")) (.and (.forAll (.member (.ident "sub") "TypeArguments") (.member (.ident "super") "TypeArguments") (.subtype (.ident "source") (.ident "target"))) .always))) (.or (.subtype (.member (.ident "sub") "BaseType") (.ident "super")) .never)) .always))) }

def rules : List Rule := [rule0, rule1, rule2, rule3, rule4, rule5, rule6, rule7, rule8, rule9, rule10, rule11, rule12, rule13, rule14, rule15, rule16, rule17, rule18, rule19, rule20, rule21, rule22, rule23, rule24, rule25]

end Verif.Model.Types.RulesPinned
