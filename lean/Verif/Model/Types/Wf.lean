/-
Well-formedness and kind-stability predicates on the `Ty` algebra (core Lean only; executable, the
driver tags every operation with them).

* `wf t`: every simple type is one of the 49 of C08's quantifier, parameter lists are proper lists and
  occur only as the parameters of a function type.  On well-formed types the rule interpreter with the
  driver's fuel equals the structured relation (`struct_agree`).
* `noAny t`: `Any` does not occur in `t`; `anyTop t`: `Any` occurs at most as the whole type (`Any` cannot
  be written in a program, it is only the top of the lattice).
* `kindStable t`: no `Never` directly below an optional / array / dictionary constructor in covariant
  position (`stab true`), where such a container would be a subtype of containers of resources without
  being resource-kinded; `stab false` is the same condition on the contravariant positions (parameters of
  function types), which is what the *super-most* type of a chain has to satisfy.
* `Decls`/`declsOK`/`nomOK`: coherence of the nominal facts carried inside the types with one set of
  interface declarations (conformance sets are transitively closed, kinds agree).
-/
import Verif.Model.Types.SubStruct
namespace Verif.Model.Types
open Verif.Model.Auth

mutual
def Ty.wf : Ty → Bool
  | .prim n => Struct.primNames.contains n
  | .opt t => t.wf
  | .varArr t => t.wf
  | .constArr t _ => t.wf
  | .dict k v => k.wf && v.wf
  | .ref _ t => t.wf
  | .comp .. => true
  | .iface _ => true
  | .inter _ => true
  | .fn _ p r => p.wfParams && r.wf
  | .nilT => false
  | .consT _ _ => false
  | .capAny => true
  | .cap t => t.wf
  | .range t => t.wf
def Ty.wfParams : Ty → Bool
  | .nilT => true
  | .consT t r => t.wf && r.wfParams
  | _ => false
end

/-- `Any` does not occur -/
def Ty.noAny : Ty → Bool
  | .prim n => n != "Any"
  | .opt t => t.noAny
  | .varArr t => t.noAny
  | .constArr t _ => t.noAny
  | .dict k v => k.noAny && v.noAny
  | .ref _ t => t.noAny
  | .fn _ p r => p.noAny && r.noAny
  | .consT t r => t.noAny && r.noAny
  | .cap t => t.noAny
  | .range t => t.noAny
  | _ => true

/-- `Any` at most at the top -/
def Ty.anyTop (t : Ty) : Bool := t == any || t.noAny

/-- kind-stability at polarity `pos` (see the header) -/
def stab : Bool → Ty → Bool
  | pos, .opt t => (!pos || t != never) && stab pos t
  | pos, .varArr t => (!pos || t != never) && stab pos t
  | pos, .constArr t _ => (!pos || t != never) && stab pos t
  | pos, .dict k v => (!pos || (k != never && v != never)) && stab pos k && stab pos v
  | pos, .ref _ t => stab pos t
  | pos, .fn _ p r => stab (!pos) p && stab pos r
  | pos, .consT t r => stab pos t && stab pos r
  | pos, .cap t => stab pos t
  | pos, .range t => stab pos t
  | _, _ => true

def kindStable (t : Ty) : Bool := stab true t

/-- `sema.Type.Equal`: structural (types are printed in canonical form), except that
    `IntersectionType.Equal` compares the *effective* intersection sets (same size, one a subset of the
    other), so `{RJ}` equals `{RI, RJ}` when `RJ: RI`.  The static types' `Equal` compares the listed
    member sets, i.e. it is structural equality `==` (known finding `static-equal-intersection-effective-set`). -/
def semaEq : Ty → Ty → Bool
  | .inter a, .inter b =>
    let sa := (interSet a).eraseDups
    let sb := (interSet b).eraseDups
    sa.length == sb.length && subset sa sb
  | .opt a, .opt b => semaEq a b
  | .varArr a, .varArr b => semaEq a b
  | .constArr a n, .constArr b m => n == m && semaEq a b
  | .dict k v, .dict k' v' => semaEq k k' && semaEq v v'
  | .ref au a, .ref au' b => au == au' && semaEq a b
  | .fn v p r, .fn v' p' r' => v == v' && semaEq p p' && semaEq r r'
  | .consT t r, .consT t' r' => semaEq t t' && semaEq r r'
  | .cap a, .cap b => semaEq a b
  | .range a, .range b => semaEq a b
  | a, b => a == b

end Verif.Model.Types
