/-
M-TY — the type algebra of C08's quantifier (core Lean only).

Nominal types carry the facts the subtype rules read from the declaration (kind, effective
conformance set) inside the constructor; the harness prints those facts from the real
`sema.CompositeType` / `sema.InterfaceType` built by the real checker.  Sets (entitlements,
conformances, intersection members) are in canonical (sorted, duplicate-free) order — that is how the
harness prints them — so `Type.Equal` is structural equality `==`.
-/
import Verif.Model.Auth
namespace Verif.Model.Types
open Verif.Model.Auth

inductive Kind where
  | struct | resource | contract | enum | attachment | event
  deriving DecidableEq, Repr, Inhabited

/-- an interface type: name, composite kind, effective interface conformance set (names; without itself) -/
structure Iface where
  name : String
  kind : Kind
  confs : List String
  deriving DecidableEq, Repr, Inhabited

inductive Ty where
  | prim (name : String)                  -- simple types (`sema.XType` singletons), `Address`
  | opt (t : Ty)
  | varArr (t : Ty)
  | constArr (t : Ty) (size : Nat)
  | dict (k v : Ty)
  | ref (a : Access String) (t : Ty)
  | comp (name : String) (kind : Kind) (confs : List String) (baseIsResource : Bool)
  | iface (i : Iface)
  | inter (is : List Iface)               -- `{I1, I2}` (no legacy type)
  | fn (view : Bool) (params : Ty) (ret : Ty)   -- params: `nilT` / `consT`
  | nilT
  | consT (t : Ty) (rest : Ty)
  | capAny                                -- `Capability`
  | cap (borrow : Ty)                     -- `Capability<T>`
  | range (member : Ty)                   -- `InclusiveRange<T>`
  deriving DecidableEq, Repr, Inhabited

def Ty.size : Ty → Nat
  | .prim _ => 1 | .opt t => t.size + 1 | .varArr t => t.size + 1 | .constArr t _ => t.size + 1
  | .dict k v => k.size + v.size + 1 | .ref _ t => t.size + 1 | .comp .. => 1 | .iface _ => 1 | .inter _ => 1
  | .fn _ p r => p.size + r.size + 1 | .nilT => 1 | .consT t r => t.size + r.size + 1
  | .capAny => 1 | .cap t => t.size + 1 | .range t => t.size + 1

def never : Ty := .prim "Never"
def any : Ty := .prim "Any"

/-- parameter list of a function type -/
def Ty.toList : Ty → List Ty
  | .consT t r => t :: r.toList
  | _ => []

/-- `IsResourceType()` -/
def Ty.isResource : Ty → Bool
  | .prim n => n == "AnyResource" || n == "AnyResourceAttachment"
  | .opt t => t.isResource
  | .varArr t => t.isResource
  | .constArr t _ => t.isResource
  | .dict k v => k.isResource || v.isResource
  | .comp _ k _ b => k == .resource || (k == .attachment && b)
  | .iface i => i.kind == .resource
  | .inter (i :: _) => i.kind == .resource
  | _ => false

/-- `isAttachmentType` -/
def Ty.isAttachment : Ty → Bool
  | .comp _ k _ _ => k == .attachment
  | .prim n => n == "AnyResourceAttachment" || n == "AnyStructAttachment"
  | _ => false

/-- `EffectiveIntersectionSet()` (names) -/
def interSet (is : List Iface) : List String := is.flatMap (fun i => i.name :: i.confs)

/-- the complex-type kinds the rules dispatch on / assert with `mustType` -/
def Ty.isKind : Ty → String → Bool
  | .opt _, n => n == "Optional"
  | .varArr _, n => n == "VariableSized"
  | .constArr _ _, n => n == "ConstantSized"
  | .dict _ _, n => n == "Dictionary"
  | .ref _ _, n => n == "Reference"
  | .comp .., n => n == "Composite" || n == "Conforming"
  | .iface _, n => n == "Interface" || n == "Conforming"
  | .inter _, n => n == "Intersection"
  | .fn .., n => n == "Function"
  | .capAny, n => n == "Parameterized"
  | .cap _, n => n == "Parameterized"
  | .range _, n => n == "Parameterized"
  | _, _ => false

end Verif.Model.Types
