/-
Coherence of the nominal facts carried inside `Ty` values with one set of interface declarations, and
well-formedness of reference authorizations (core Lean only; Prop-valued hypotheses of the transitivity
theorems of C08).  The harness prints kind / effective conformance set of every composite and interface
from the real checker's types for one checked program, which is what `Coh` / `nomOK` say.
-/
import Verif.Model.Types.Wf
import Verif.Spec.Auth
namespace Verif.Model.Types
open Verif.Model.Auth

/-- the declared interfaces: names are unique, effective conformance sets are transitively closed and
    stay within one composite kind, no interface has kind `attachment` (attachments cannot be interfaces) -/
structure Coh (D : List Iface) : Prop where
  uniq : ∀ i ∈ D, ∀ j ∈ D, i.name = j.name → i = j
  closed : ∀ i ∈ D, ∀ x ∈ i.confs, ∃ j ∈ D, j.name = x ∧ j.kind = i.kind ∧ ∀ y ∈ j.confs, y ∈ i.confs
  kinds : ∀ i ∈ D, i.kind ≠ .attachment

/-- the nominal facts inside `t` are those of the declarations `D` -/
def nomOK (D : List Iface) : Ty → Prop
  | .iface i => i ∈ D
  | .inter is => is ≠ [] ∧ ∀ i ∈ is, i ∈ D ∧ ∀ j ∈ is, j.kind = i.kind
  | .comp _ k cs _ => ∀ x ∈ cs, ∃ j ∈ D, j.name = x ∧ j.kind = k ∧ ∀ y ∈ j.confs, y ∈ cs
  | .opt t => nomOK D t
  | .varArr t => nomOK D t
  | .constArr t _ => nomOK D t
  | .ref _ t => nomOK D t
  | .cap t => nomOK D t
  | .range t => nomOK D t
  | .dict k v => nomOK D k ∧ nomOK D v
  | .fn _ p r => nomOK D p ∧ nomOK D r
  | .consT t r => nomOK D t ∧ nomOK D r
  | _ => True

/-- every reference authorization is one a program can write (`Spec.Auth.IsAuth`) -/
def authOK : Ty → Prop
  | .ref a t => Verif.Spec.Auth.IsAuth a ∧ authOK t
  | .opt t => authOK t
  | .varArr t => authOK t
  | .constArr t _ => authOK t
  | .cap t => authOK t
  | .range t => authOK t
  | .dict k v => authOK k ∧ authOK v
  | .fn _ p r => authOK p ∧ authOK r
  | .consT t r => authOK t ∧ authOK r
  | _ => True

/-- the hypotheses on one type of a chain -/
structure Good (D : List Iface) (t : Ty) : Prop where
  wf : t.wf = true
  anyTop : t.anyTop = true
  nom : nomOK D t
  auth : authOK t

end Verif.Model.Types
