/-
A *structured* definition of the subtype relation on the `Ty` algebra (core Lean only): a parent
function on the simple-type hierarchy plus the tops, and one clause per type constructor — what the
rules of rules.yaml say, written as a recursive function instead of data for the interpreter of
`Subtype.lean`.  `Proofs/SubStruct.lean` proves that the two agree on the simple types (kernel
`decide` over the whole table) and per constructor, and proves transitivity of the structured relation
on the simple-type lattice.
-/
import Verif.Model.Types.Subtype
namespace Verif.Model.Types.Struct
open Verif.Model.Types Verif.Model.Auth

/-- the simple types of C08's quantifier (`Storable` and the invalid type excluded) -/
def primNames : List String :=
  ["Any", "AnyStruct", "AnyResource", "AnyStructAttachment", "AnyResourceAttachment", "HashableStruct", "Never", "Void",
   "Bool", "String", "Character", "MetaType", "Address", "Path", "StoragePath", "CapabilityPath", "PublicPath", "PrivatePath",
   "Number", "SignedNumber", "Integer", "SignedInteger", "FixedSizeUnsignedInteger", "FixedPoint", "SignedFixedPoint",
   "Int", "Int8", "Int16", "Int32", "Int64", "Int128", "Int256",
   "UInt", "UInt8", "UInt16", "UInt32", "UInt64", "UInt128", "UInt256",
   "Word8", "Word16", "Word32", "Word64", "Word128", "Word256",
   "Fix64", "Fix128", "UFix64", "UFix128"]

/-- the direct supertypes of a simple type -/
def parents (n : String) : List String :=
  if ["Int", "Int8", "Int16", "Int32", "Int64", "Int128", "Int256"].contains n then ["SignedInteger"]
  else if ["UInt8", "UInt16", "UInt32", "UInt64", "UInt128", "UInt256",
           "Word8", "Word16", "Word32", "Word64", "Word128", "Word256"].contains n then ["FixedSizeUnsignedInteger"]
  else if n == "UInt" then ["Integer"]
  else if n == "SignedInteger" then ["Integer", "SignedNumber"]
  else if n == "FixedSizeUnsignedInteger" then ["Integer"]
  else if n == "Integer" then ["Number"]
  else if n == "Fix64" || n == "Fix128" then ["SignedFixedPoint"]
  else if n == "UFix64" || n == "UFix128" then ["FixedPoint"]
  else if n == "SignedFixedPoint" then ["FixedPoint", "SignedNumber"]
  else if n == "FixedPoint" || n == "SignedNumber" then ["Number"]
  else if n == "StoragePath" || n == "CapabilityPath" then ["Path"]
  else if n == "PublicPath" || n == "PrivatePath" then ["CapabilityPath"]
  else if ["Number", "Path", "Address", "Bool", "Character", "String", "MetaType"].contains n then ["HashableStruct"]
  else if n == "HashableStruct" || n == "Void" || n == "AnyStructAttachment" then ["AnyStruct"]
  else if n == "AnyResourceAttachment" then ["AnyResource"]
  else if n == "AnyStruct" || n == "AnyResource" then ["Any"]
  else []

/-- `b` is reachable from `a` along `parents` in at most `fuel` steps (the hierarchy is 7 deep) -/
def reach : Nat → String → String → Bool
  | 0, _, _ => false
  | fuel + 1, a, b => (parents a).any (fun p => p == b || reach fuel p b)

/-- subtyping between simple types -/
def psub (a b : String) : Bool := a == b || a == "Never" || reach 8 a b

/-- `IsHashableStructType` on the structured side -/
def hashable : Ty → Bool
  | .comp _ k _ _ => k == .enum
  | .prim n => psub n "HashableStruct"
  | _ => false

def isTop (t : Ty) : Bool := t == .prim "Any" || t == .prim "AnyStruct" || t == .prim "AnyResource"

/-- the super type is a simple type: the six tops decide by kind, otherwise only simple types (by reachability) -/
def chkPrim (a : Ty) (n : String) : Bool :=
  if n == "Any" then true
  else if n == "AnyStruct" then !a.isResource && a != any
  else if n == "AnyResource" then a.isResource
  else if n == "AnyResourceAttachment" then a.isAttachment && a.isResource
  else if n == "AnyStructAttachment" then a.isAttachment && !a.isResource
  else if n == "HashableStruct" then hashable a
  else match a with
    | .prim m => m != n && (m == "Never" || reach 8 m n)
    | _ => false

mutual
/-- `IsSubType` -/
def sub : Ty → Ty → Bool
  | a, b => a == b || a == never || chk a b
termination_by a b => (a.size + b.size, 1)
decreasing_by all_goals simp_wf; all_goals omega
/-- `CheckSubTypeWithoutEquality` (for `a ≠ Never`) -/
def chk : Ty → Ty → Bool
  | a, .prim n => chkPrim a n
  | .opt a, .opt s => sub a s
  | a, .opt s => sub a s
  | .dict k v, .dict k' v' => sub v v' && sub k k'
  | .varArr e, .varArr e' => sub e e'
  | .constArr e n, .constArr e' n' => n' == n && sub e e'
  | .ref au t, .ref au' t' => permits au' au && sub t t'
  | .comp _ k cs _, .iface i => k == i.kind && cs.contains i.name
  | .inter is, .iface i => (interSet is).contains i.name
  | .iface j, .iface i => j.confs.contains i.name
  | .inter sb, .inter sup => subset (interSet sup) (interSet sb)
  | .comp _ _ cs _, .inter sup => subset (interSet sup) cs
  | .iface i, .inter sup => subset (interSet sup) i.confs
  | .fn v p r, .fn v' p' r' => (v == v' || v) && subParams p' p && sub r r'
  | .cap t, .capAny => true
  | .cap t, .cap t' => sub t t'
  | .range t, .range t' => sub t t'
  | _, _ => false
termination_by a b => (a.size + b.size, 0)
decreasing_by all_goals simp_wf; all_goals (simp only [Ty.size]; omega)
/-- parameter lists: same length, pointwise (the caller passes super's parameters first: contravariance) -/
def subParams : Ty → Ty → Bool
  | .nilT, .nilT => true
  | .consT t r, .consT t' r' => sub t t' && subParams r r'
  | _, _ => false
termination_by a b => (a.size + b.size, 0)
decreasing_by all_goals simp_wf; all_goals (simp only [Ty.size]; omega)
end

end Verif.Model.Types.Struct
