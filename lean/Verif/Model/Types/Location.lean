/-
M-TY / C45 — port of `/repo/common/location.go` and the per-kind files `common/*location.go`
(core Lean only).

Go strings are modelled as `List Char` (`Str`).  The only byte-level operations the code performs
are `strings.Split`/`SplitN` on "." and `hex.EncodeToString`/`DecodeString`; "." is ASCII, so splitting
a valid UTF-8 string at the byte 0x2E is splitting the character list at '.'.

  typeID loc qid         = `common.NewTypeIDFromQualifiedName(nil, loc, qid)`
                           (`hexIDLocationTypeID`, `idLocationTypeID`, `REPLLocation.TypeID`)
  decodeTypeID s         = `common.DecodeTypeID(nil, s)` (prefix dispatch + the per-prefix decoders)
-/
namespace Verif.Model.Types.Loc

abbrev Str := List Char

/-- `common.Location` implementations (a `nil` location is `none : Option Location`) -/
inductive Location where
  | address (addr : List UInt8) (name : Str)   -- `AddressLocation{Address (8 bytes), Name}`
  | string (s : Str)                           -- `StringLocation`
  | identifier (s : Str)                       -- `IdentifierLocation`
  | transaction (id : List UInt8)              -- `TransactionLocation` (32 bytes)
  | script (id : List UInt8)                   -- `ScriptLocation` (32 bytes)
  | repl                                       -- `REPLLocation{}`
  deriving DecidableEq, Repr, Inhabited

/-! ### encoding/hex -/

/-- `hextable[n]` (lower case) -/
def hexChar (n : Nat) : Char := if n < 10 then Char.ofNat (48 + n) else Char.ofNat (87 + n)

/-- `hex.EncodeToString` -/
def hexEncode : List UInt8 → Str
  | [] => []
  | b :: bs => hexChar (b.toNat / 16) :: hexChar (b.toNat % 16) :: hexEncode bs

/-- `reverseHexTable[c]` (`none` = 0xff) -/
def fromHexChar (c : Char) : Option Nat :=
  let n := c.toNat
  if 48 ≤ n ∧ n ≤ 57 then some (n - 48)
  else if 97 ≤ n ∧ n ≤ 102 then some (n - 87)
  else if 65 ≤ n ∧ n ≤ 70 then some (n - 55)
  else none

/-- `hex.DecodeString`; `none` = any error (`InvalidByteError`, `ErrLength`) -/
def hexDecode : Str → Option (List UInt8)
  | [] => some []
  | [_] => none
  | a :: b :: rest =>
    match fromHexChar a, fromHexChar b, hexDecode rest with
    | some x, some y, some r => some (UInt8.ofNat (x * 16 + y) :: r)
    | _, _, _ => none

/-! ### strings.Split / SplitN on "." -/

/-- `strings.Cut(s, ".")`: the text before the first '.', and the text after it -/
def breakDot : Str → Option (Str × Str)
  | [] => none
  | c :: cs =>
    if c = '.' then some ([], cs)
    else match breakDot cs with
      | some (a, r) => some (c :: a, r)
      | none => none

/-- `strings.SplitN(s, ".", n)` for `n ≥ 0` -/
def splitN (s : Str) : Nat → List Str
  | 0 => []
  | 1 => [s]
  | n + 2 =>
    match breakDot s with
    | none => [s]
    | some (a, rest) => a :: splitN rest (n + 1)

/-- `strings.Split(s, ".")`: a string of length `l` has at most `l + 1` pieces -/
def split (s : Str) : List Str := splitN s (s.length + 2)

/-- the first piece of `strings.Split(s, ".")` -/
def headPiece (s : Str) : Str :=
  match breakDot s with
  | none => s
  | some (a, _) => a

def noDot (s : Str) : Bool := s.all (fun c => c != '.')

/-! ### type IDs -/

def addressPrefix : Str := ['A']
def stringPrefix : Str := ['S']
def identifierPrefix : Str := ['I']
def transactionPrefix : Str := ['t']
def scriptPrefix : Str := ['s']
def replPrefix : Str := ['R', 'E', 'P', 'L']

/-- `idLocationTypeID` / `hexIDLocationTypeID` after hex encoding: prefix '.' id '.' qualifiedIdentifier -/
def idLocationTypeID (pre id qid : Str) : Str := pre ++ '.' :: (id ++ '.' :: qid)

/-- `Location.TypeID(nil, qualifiedIdentifier)` -/
def Location.typeID : Location → Str → Str
  | .address a _, qid => idLocationTypeID addressPrefix (hexEncode a) qid   -- NOTE: the name is not part of the ID
  | .string s, qid => idLocationTypeID stringPrefix s qid
  | .identifier s, qid => idLocationTypeID identifierPrefix s qid
  | .transaction i, qid => idLocationTypeID transactionPrefix (hexEncode i) qid
  | .script i, qid => idLocationTypeID scriptPrefix (hexEncode i) qid
  | .repl, qid => replPrefix ++ '.' :: qid

/-- `common.NewTypeIDFromQualifiedName(nil, location, qualifiedIdentifier)` -/
def typeID : Option Location → Str → Str
  | none, qid => qid
  | some l, qid => l.typeID qid

/-! ### decoders -/

inductive DecErr where
  | missingPrefix | missingLocation | invalidPrefix | invalidHex | addressOverflow
  deriving DecidableEq, Repr, Inhabited

/-- `common.BytesToAddress`: left-pads to 8 bytes, error when longer -/
def bytesToAddress (b : List UInt8) : Option (List UInt8) :=
  if b.length > 8 then none else some (List.replicate (8 - b.length) 0 ++ b)

/-- `copy(result[:], location)` into a zeroed 32-byte array -/
def copyInto32 (b : List UInt8) : List UInt8 :=
  (b.take 32) ++ List.replicate (32 - (b.take 32).length) 0

/-- `decodeAddressLocationTypeID` -/
def decodeAddressLocationTypeID (typeID : Str) : Except DecErr (Location × Str) :=
  if typeID = [] then .error .missingPrefix else
  match splitN typeID 4 with
  | [] => .error .missingPrefix            -- unreachable (`case 0: panic`)
  | [_] => .error .missingLocation
  | pre :: rawAddress :: rest =>
    if pre ≠ addressPrefix then .error .invalidPrefix else
    match hexDecode rawAddress with
    | none => .error .invalidHex
    | some raw =>
      let nq : Str × Str :=
        match rest with
        | [] => ([], [])
        | [n] => (n, n)
        | n :: r :: _ => (n, n ++ '.' :: r)
      match bytesToAddress raw with
      | none => .error .addressOverflow
      | some a => .ok (.address a nq.1, nq.2)

/-- the common shape of `decodeStringLocationTypeID` / `decodeIdentifierLocationTypeID` -/
def decodeIdLocationTypeID (pre : Str) (mk : Str → Location) (typeID : Str) : Except DecErr (Location × Str) :=
  if typeID = [] then .error .missingPrefix else
  match splitN typeID 3 with
  | [] => .error .missingPrefix
  | [_] => .error .missingLocation
  | p :: loc :: rest =>
    if p ≠ pre then .error .invalidPrefix else
    .ok (mk loc, match rest with | [] => [] | q :: _ => q)

/-- the common shape of `decodeTransactionLocationTypeID` / `decodeScriptLocationTypeID` -/
def decodeHexLocationTypeID (pre : Str) (mk : List UInt8 → Location) (typeID : Str) : Except DecErr (Location × Str) :=
  if typeID = [] then .error .missingPrefix else
  match splitN typeID 3 with
  | [] => .error .missingPrefix
  | [_] => .error .missingLocation
  | p :: loc :: rest =>
    if p ≠ pre then .error .invalidPrefix else
    match hexDecode loc with
    | none => .error .invalidHex
    | some raw => .ok (mk (copyInto32 raw), match rest with | [] => [] | q :: _ => q)

/-- `decodeREPLLocationTypeID` -/
def decodeREPLLocationTypeID (typeID : Str) : Except DecErr (Location × Str) :=
  if typeID = [] then .error .missingPrefix else
  match splitN typeID 2 with
  | [] => .error .missingPrefix
  | p :: rest =>
    if p ≠ replPrefix then .error .invalidPrefix else
    .ok (.repl, match rest with | [] => [] | q :: _ => q)

/-- `common.DecodeTypeID`: dispatch on the first piece; an unregistered prefix gives the `nil`
    location and the whole ID as the qualified identifier -/
def decodeTypeID (typeID : Str) : Except DecErr (Option Location × Str) :=
  let lift (r : Except DecErr (Location × Str)) : Except DecErr (Option Location × Str) :=
    match r with | .ok (l, q) => .ok (some l, q) | .error e => .error e
  match split typeID with
  | [] => .error .missingPrefix          -- `len(pieces) < 1`: unreachable
  | pre :: _ =>
    if pre = addressPrefix then lift (decodeAddressLocationTypeID typeID)
    else if pre = stringPrefix then lift (decodeIdLocationTypeID stringPrefix .string typeID)
    else if pre = identifierPrefix then lift (decodeIdLocationTypeID identifierPrefix .identifier typeID)
    else if pre = transactionPrefix then lift (decodeHexLocationTypeID transactionPrefix .transaction typeID)
    else if pre = scriptPrefix then lift (decodeHexLocationTypeID scriptPrefix .script typeID)
    else if pre = replPrefix then lift (decodeREPLLocationTypeID typeID)
    else .ok (none, typeID)

def registeredPrefixes : List Str :=
  [addressPrefix, stringPrefix, identifierPrefix, transactionPrefix, scriptPrefix, replPrefix]

/-- What a location must satisfy for its type IDs to decode back to it (the theorem's hypothesis):
    string / identifier names contain no '.'; byte ids have the array length of the Go type; an
    address location's `Name` — which is *not* part of the ID — is the first piece of the qualified
    identifier (what the checker produces: types of contract `C` are `C` and `C.…`); a `nil` location's
    identifier does not start with a registered prefix. -/
def decodable : Option Location → Str → Bool
  | none, qid => !registeredPrefixes.contains (headPiece qid)
  | some (.address a n), qid => a.length == 8 && n == headPiece qid
  | some (.string s), _ => noDot s
  | some (.identifier s), _ => noDot s
  | some (.transaction i), _ => i.length == 32
  | some (.script i), _ => i.length == 32
  | some .repl, _ => true

end Verif.Model.Types.Loc
