/-
M-TY / C45 — type IDs in the three representations and the conversions between them (core Lean only).

  STy  — checker types (`sema.Type`): nominal types are (location, qualified identifier); the ID is
         computed from them (`CompositeType.ID`, `EntitlementType.ID`, …)
  DTy  — run-time static types (`interpreter.StaticType`): nominal types *store* their type ID next
         to location and qualified identifier; entitlement sets are ordered sets of type IDs; a
         function static type wraps the checker's function type
  XTy  — exported types (`cadence.Type`): nominal types are (location, qualified identifier);
         entitlement sets are lists of type IDs

ports:  `semaID` = sema `ID()`; `staticID` = interpreter `ID()`; `extID` = cadence `ID()`;
        `toStatic` = `ConvertSemaToStaticType`; `toSema` = `ConvertStaticToSemaType` with the
        interpreter's handler (`GetEntitlementType` *decodes the type ID* to find the declaring
        program); `exportTy` = `runtime.ExportType`; `importTy` = `runtime.ImportType`;
        the run-time type constructors `ConstructOptionalTypeValue`, … on static types.
-/
import Verif.Model.Types.Location
namespace Verif.Model.Types.TID
open Verif.Model.Types.Loc

/-! ### strings -/

/-- byte-wise string order (`slices.Sort` on Go strings; UTF-8 preserves code-point order) -/
def strLt : Str → Str → Bool
  | [], [] => false
  | [], _ :: _ => true
  | _ :: _, [] => false
  | a :: as, b :: bs => a.toNat < b.toNat || (a.toNat == b.toNat && strLt as bs)

def insertSorted (x : Str) : List Str → List Str
  | [] => [x]
  | y :: ys => if strLt x y then x :: y :: ys else y :: insertSorted x ys

/-- `slices.Sort` (the result of sorting strings does not depend on the algorithm) -/
def sortStrs (l : List Str) : List Str := l.foldr insertSorted []

def joinWith (sep : Str) : List Str → Str
  | [] => []
  | [x] => x
  | x :: y :: r => x ++ sep ++ joinWith sep (y :: r)

def natToStr (n : Nat) : Str := (toString n).toList

/-- `orderedmap.Set` for each element: first occurrence wins -/
def dedup : List Str → List Str
  | [] => []
  | x :: xs => x :: (dedup xs).filter (· != x)

/-! ### the shared formatters of `sema` -/

def fmtOptional (e : Str) : Str := '(' :: e ++ [')', '?']
def fmtVarArr (e : Str) : Str := '[' :: e ++ [']']
def fmtConstArr (e : Str) (n : Nat) : Str := '[' :: e ++ ';' :: natToStr n ++ [']']
def fmtDict (k v : Str) : Str := '{' :: k ++ ':' :: v ++ ['}']
/-- `formatReferenceType("", authorization, id)` -/
def fmtRef (authorization e : Str) : Str :=
  (if authorization ≠ [] then ['a', 'u', 't', 'h', '('] ++ authorization ++ [')'] else []) ++ '&' :: e
/-- `FormatIntersectionTypeID`: sorts -/
def fmtInter (ids : List Str) : Str := '{' :: joinWith [','] (sortStrs ids) ++ ['}']
/-- `FormatIntersectionTypeIDWithSingleInterface` -/
def fmtInterSingle (id : Str) : Str := '{' :: id ++ ['}']
def fmtCap (b : Str) : Str := ['C', 'a', 'p', 'a', 'b', 'i', 'l', 'i', 't', 'y'] ++ (if b ≠ [] then '<' :: b ++ ['>'] else [])
def fmtRange (m : Str) : Str := ['I', 'n', 'c', 'l', 'u', 's', 'i', 'v', 'e', 'R', 'a', 'n', 'g', 'e'] ++ (if m ≠ [] then '<' :: m ++ ['>'] else [])
/-- `FormatFunctionTypeID(purity, nil, parameters, return)` -/
def fmtFn (view : Bool) (params : List Str) (ret : Str) : Str :=
  (if view then ['v', 'i', 'e', 'w', ' '] else []) ++ ['f', 'u', 'n', '('] ++ joinWith [','] params ++ [')', ':'] ++ ret

inductive SetKind where
  | conj | disj
  deriving DecidableEq, Repr, Inhabited

/-- `FormatEntitlementSetTypeID`: sorts, joins with "," / "|" -/
def fmtEntSet (ids : List Str) (k : SetKind) : Str :=
  joinWith (match k with | .conj => [','] | .disj => ['|']) (sortStrs ids)

/-! ### checker view -/

structure Nominal where
  loc : Option Location
  qid : Str
  deriving DecidableEq, Repr, Inhabited

/-- `common.NewTypeIDFromQualifiedName(nil, t.Location, qualifiedIdentifier)` -/
def Nominal.id (n : Nominal) : Str := typeID n.loc n.qid

inductive SAuth where
  | unauth
  | set (k : SetKind) (es : List Nominal)
  | map (m : Nominal)
  deriving DecidableEq, Repr, Inhabited

inductive STy where
  | prim (name : Str)
  | opt (t : STy) | varArr (t : STy) | constArr (t : STy) (n : Nat) | dict (k v : STy)
  | ref (a : SAuth) (t : STy)
  | comp (n : Nominal) | iface (n : Nominal) | inter (is : List Nominal)
  | fn (view : Bool) (params ret : STy) | nilT | consT (t rest : STy)
  | capAny | cap (t : STy) | range (t : STy)
  deriving DecidableEq, Repr, Inhabited

/-- `Access.ID()` -/
def SAuth.id : SAuth → Str
  | .unauth => []               -- never asked: `if t.Authorization != UnauthorizedAccess`
  | .set k es => fmtEntSet (es.map Nominal.id) k
  | .map m => m.id

mutual
/-- `sema.Type.ID()` -/
def semaID : STy → Str
  | .prim n => n
  | .opt t => fmtOptional (semaID t)
  | .varArr t => fmtVarArr (semaID t)
  | .constArr t n => fmtConstArr (semaID t) n
  | .dict k v => fmtDict (semaID k) (semaID v)
  | .ref a t => fmtRef (if a ≠ .unauth then a.id else []) (semaID t)
  | .comp n => n.id
  | .iface n => n.id
  | .inter is => fmtInter (is.map Nominal.id)
  | .fn view ps r => fmtFn view (semaParamIDs ps) (semaID r)
  | .nilT => []
  | .consT _ _ => []
  | .capAny => fmtCap []
  | .cap t => fmtCap (semaID t)
  | .range t => fmtRange (semaID t)
def semaParamIDs : STy → List Str
  | .consT t r => semaID t :: semaParamIDs r
  | _ => []
end

/-! ### run-time (static type) view -/

structure DNominal where
  loc : Option Location
  qid : Str
  typeID : Str
  deriving DecidableEq, Repr, Inhabited

inductive DAuth where
  | unauth
  | set (k : SetKind) (ids : List Str)     -- `*sema.TypeIDOrderedSet`
  | map (id : Str)
  deriving DecidableEq, Repr, Inhabited

/-- `NewEntitlementSetAuthorization`: the list is put into an ordered set -/
def newEntitlementSetAuthorization (ids : List Str) (k : SetKind) : DAuth := .set k (dedup ids)

inductive DTy where
  | prim (name : Str)
  | opt (t : DTy) | varArr (t : DTy) | constArr (t : DTy) (n : Nat) | dict (k v : DTy)
  | ref (a : DAuth) (t : DTy)
  | comp (n : DNominal) | iface (n : DNominal) | inter (is : List DNominal)
  | fn (f : STy)                             -- `FunctionStaticType{*sema.FunctionType}`
  | capAny | cap (t : DTy) | range (t : DTy)
  deriving DecidableEq, Repr, Inhabited

def DAuth.id : DAuth → Str
  | .unauth => []
  | .set k ids => fmtEntSet ids k
  | .map id => id

/-- `interpreter.StaticType.ID()` -/
def staticID : DTy → Str
  | .prim n => n
  | .opt t => fmtOptional (staticID t)
  | .varArr t => fmtVarArr (staticID t)
  | .constArr t n => fmtConstArr (staticID t) n
  | .dict k v => fmtDict (staticID k) (staticID v)
  | .ref a t => fmtRef (if a ≠ .unauth then a.id else []) (staticID t)
  | .comp n => n.typeID
  | .iface n => n.typeID
  | .inter [i] => fmtInterSingle i.typeID
  | .inter is => fmtInter (is.map (·.typeID))
  | .fn f => semaID f
  | .capAny => fmtCap []
  | .cap t => fmtCap (staticID t)
  | .range t => fmtRange (staticID t)

/-! ### exported view -/

inductive XAuth where
  | unauth
  | set (k : SetKind) (ids : List Str)
  | map (id : Str)
  deriving DecidableEq, Repr, Inhabited

inductive XTy where
  | prim (name : Str)
  | opt (t : XTy) | varArr (t : XTy) | constArr (t : XTy) (n : Nat) | dict (k v : XTy)
  | ref (a : XAuth) (t : XTy)
  | comp (n : Nominal) | iface (n : Nominal) | inter (is : List Nominal)
  | fn (view : Bool) (params ret : XTy) | nilT | consT (t rest : XTy)
  | capAny | cap (t : XTy) | range (t : XTy)
  deriving DecidableEq, Repr, Inhabited

def XAuth.id : XAuth → Str
  | .unauth => []
  | .set k ids => fmtEntSet ids k
  | .map id => id

mutual
/-- `cadence.Type.ID()` -/
def extID : XTy → Str
  | .prim n => n
  | .opt t => fmtOptional (extID t)
  | .varArr t => fmtVarArr (extID t)
  | .constArr t n => fmtConstArr (extID t) n
  | .dict k v => fmtDict (extID k) (extID v)
  | .ref a t => fmtRef (if a ≠ .unauth then a.id else []) (extID t)
  | .comp n => n.id
  | .iface n => n.id
  | .inter is => fmtInter (is.map Nominal.id)
  | .fn view ps r => fmtFn view (extParamIDs ps) (extID r)
  | .nilT => []
  | .consT _ _ => []
  | .capAny => fmtCap []
  | .cap t => fmtCap (extID t)
  | .range t => ['I', 'n', 'c', 'l', 'u', 's', 'i', 'v', 'e', 'R', 'a', 'n', 'g', 'e', '<'] ++ extID t ++ ['>']     -- its own `fmt.Sprintf`
def extParamIDs : XTy → List Str
  | .consT t r => extID t :: extParamIDs r
  | _ => []
end

/-! ### conversions -/

/-- `ConvertSemaCompositeTypeToStaticCompositeType` / `…Interface…`: copies `t.ID()` -/
def Nominal.toStatic (n : Nominal) : DNominal := { loc := n.loc, qid := n.qid, typeID := n.id }

/-- `ConvertSemaAccessToStaticAuthorization` -/
def SAuth.toStatic : SAuth → DAuth
  | .unauth => .unauth
  | .set k es => newEntitlementSetAuthorization (es.map Nominal.id) k
  | .map m => .map m.id

/-- `ConvertSemaToStaticType` -/
def toStatic : STy → DTy
  | .prim n => .prim n
  | .opt t => .opt (toStatic t)
  | .varArr t => .varArr (toStatic t)
  | .constArr t n => .constArr (toStatic t) n
  | .dict k v => .dict (toStatic k) (toStatic v)
  | .ref a t => .ref a.toStatic (toStatic t)
  | .comp n => .comp n.toStatic
  | .iface n => .iface n.toStatic
  | .inter is => .inter (is.map Nominal.toStatic)
  | .fn v p r => .fn (.fn v p r)
  | .nilT => .prim []          -- not a type
  | .consT _ _ => .prim []
  | .capAny => .capAny
  | .cap t => .cap (toStatic t)
  | .range t => .range (toStatic t)

/-- the declared nominal types a run-time lookup can find: `getElaboration(location)` then
    `elaboration.CompositeType(typeID)` etc. -/
abbrev Env := List Nominal

/-- `Interpreter.GetCompositeType(location, qualifiedIdentifier, typeID)` /
    `GetInterfaceType`: the program at `location`, then the type with that ID in its elaboration -/
def lookupNominal (env : Env) (loc : Option Location) (tid : Str) : Option Nominal :=
  env.find? (fun n => n.loc == loc && n.id == tid)

/-- `Interpreter.GetEntitlementType(typeID)` / `GetEntitlementMapType`: **decodes the type ID** to
    find the location (`common.DecodeTypeID`), then looks the ID up in that program's elaboration -/
def lookupByID (env : Env) (tid : Str) : Option Nominal :=
  match decodeTypeID tid with
  | .ok (loc, _) => lookupNominal env loc tid
  | .error _ => none

/-- `lookupEntitlement` / `GetEntitlementType`; `lookupComposite` and `lookupInterface` of the
    run-time type constructors have the same shape (decode, then look up) -/
def lookupEntitlement (env : Env) (tid : Str) : Option Nominal := lookupByID env tid

def allSome {α : Type} : List (Option α) → Option (List α)
  | [] => some []
  | none :: _ => none
  | some x :: r => (allSome r).map (x :: ·)

/-- `ConvertStaticAuthorizationToSemaAccess` -/
def DAuth.toSema (env : Env) : DAuth → Option SAuth
  | .unauth => some .unauth
  | .set k ids => (allSome (ids.map (lookupEntitlement env))).map (.set k)
  | .map id => (lookupEntitlement env id).map .map

/-- `ConvertStaticToSemaType`; `none` = an error from a lookup -/
def toSema (env : Env) : DTy → Option STy
  | .prim n => some (.prim n)
  | .opt t => (toSema env t).map .opt
  | .varArr t => (toSema env t).map .varArr
  | .constArr t n => (toSema env t).map (.constArr · n)
  | .dict k v => match toSema env k, toSema env v with
    | some k', some v' => some (.dict k' v') | _, _ => none
  | .ref a t => match toSema env t, a.toSema env with
    | some t', some a' => some (.ref a' t') | _, _ => none
  | .comp n => (lookupNominal env n.loc n.typeID).map .comp
  | .iface n => (lookupNominal env n.loc n.typeID).map .iface
  | .inter is => (allSome (is.map (fun n => lookupNominal env n.loc n.typeID))).map .inter
  | .fn f => some f
  | .capAny => some .capAny
  | .cap t => (toSema env t).map .cap
  | .range t => (toSema env t).map .range

/-- `exportAuthorization` -/
def SAuth.export : SAuth → XAuth
  | .unauth => .unauth
  | .set k es => .set k (es.map Nominal.id)
  | .map m => .map m.id

/-- `runtime.ExportType` -/
def exportTy : STy → XTy
  | .prim n => .prim n
  | .opt t => .opt (exportTy t)
  | .varArr t => .varArr (exportTy t)
  | .constArr t n => .constArr (exportTy t) n
  | .dict k v => .dict (exportTy k) (exportTy v)
  | .ref a t => .ref a.export (exportTy t)
  | .comp n => .comp n
  | .iface n => .iface n
  | .inter is => .inter is
  | .fn v p r => .fn v (exportTy p) (exportTy r)
  | .nilT => .nilT
  | .consT t r => .consT (exportTy t) (exportTy r)
  | .capAny => .capAny
  | .cap t => .cap (exportTy t)
  | .range t => .range (exportTy t)

/-- `importAuthorization` -/
def XAuth.import : XAuth → DAuth
  | .unauth => .unauth
  | .set k ids => newEntitlementSetAuthorization ids k
  | .map id => .map id

/-- `NewCompositeStaticTypeComputeTypeID` -/
def Nominal.importStatic (n : Nominal) : DNominal := { loc := n.loc, qid := n.qid, typeID := typeID n.loc n.qid }

/-- `runtime.ImportType` (`none`: the Go function panics — function types; nominal types without a
    location that name a primitive static type are outside the model) -/
def importTy : XTy → Option DTy
  | .prim n => some (.prim n)
  | .opt t => (importTy t).map .opt
  | .varArr t => (importTy t).map .varArr
  | .constArr t n => (importTy t).map (.constArr · n)
  | .dict k v => match importTy k, importTy v with
    | some k', some v' => some (.dict k' v') | _, _ => none
  | .ref a t => (importTy t).map (.ref a.import)
  | .comp n => some (.comp n.importStatic)
  | .iface n => some (.iface n.importStatic)
  | .inter is => some (.inter (is.map Nominal.importStatic))
  | .fn _ _ _ => none
  | .nilT => none
  | .consT _ _ => none
  | .capAny => some .capAny
  | .cap t => (importTy t).map .cap
  | .range t => (importTy t).map .range

/-! ### equality (`Type.Equal`) in the checker view -/

def sameSet (a b : List Nominal) : Bool := a.all (b.contains ·) && b.all (a.contains ·)

/-- `Access.Equal` -/
def SAuth.equal : SAuth → SAuth → Bool
  | .unauth, .unauth => true
  | .set k es, .set k' es' => k == k' && sameSet es es'
  | .map m, .map m' => m.id == m'.id
  | _, _ => false

/-- `sema.Type.Equal` -/
def STy.equal : STy → STy → Bool
  | .prim a, .prim b => a == b
  | .opt a, .opt b => a.equal b
  | .varArr a, .varArr b => a.equal b
  | .constArr a n, .constArr b m => a.equal b && n == m
  | .dict k v, .dict k' v' => k.equal k' && v.equal v'
  | .ref a t, .ref a' t' => a.equal a' && t.equal t'
  | .comp n, .comp n' => n == n'
  | .iface n, .iface n' => n == n'
  | .inter is, .inter is' => sameSet is is'
  | .fn v p r, .fn v' p' r' => v == v' && p.equal p' && r.equal r'
  | .nilT, .nilT => true
  | .consT t r, .consT t' r' => t.equal t' && r.equal r'
  | .capAny, .capAny => true
  | .cap a, .cap b => a.equal b
  | .range a, .range b => a.equal b
  | _, _ => false

/-! ### well-formedness side conditions of the theorems (also computed by the driver) -/

/-- the entitlements of a set have pairwise different IDs (the checker's set is keyed by the
    entitlement type itself) -/
def nodupIds (es : List Nominal) : Bool := dedup (es.map Nominal.id) == es.map Nominal.id

def SAuth.wf : SAuth → Bool
  | .set _ es => nodupIds es
  | _ => true

/-- entitlement sets without repetition; an `InclusiveRange` has a member type (non-empty ID) -/
def STy.wf : STy → Bool
  | .opt t => t.wf | .varArr t => t.wf | .constArr t _ => t.wf | .dict k v => k.wf && v.wf
  | .ref a t => a.wf && t.wf
  | .fn _ p r => p.wf && r.wf | .consT t r => t.wf && r.wf
  | .cap t => t.wf | .range t => t.wf && semaID t != []
  | _ => true

def STy.fnFree : STy → Bool
  | .opt t => t.fnFree | .varArr t => t.fnFree | .constArr t _ => t.fnFree | .dict k v => k.fnFree && v.fnFree
  | .ref _ t => t.fnFree | .cap t => t.fnFree | .range t => t.fnFree
  | .fn _ _ _ => false | .nilT => false | .consT _ _ => false
  | _ => true

/-- the run-time lookup finds the declaration -/
def Nominal.resolves (env : Env) (n : Nominal) : Bool := lookupNominal env n.loc n.id == some n

/-- an entitlement is found through its *decoded* ID -/
def Nominal.entResolves (env : Env) (e : Nominal) : Bool := decodable e.loc e.qid && e.resolves env

def SAuth.resolves (env : Env) : SAuth → Bool
  | .unauth => true
  | .set _ es => nodupIds es && es.all (·.entResolves env)
  | .map m => m.entResolves env

def STy.resolves (env : Env) : STy → Bool
  | .opt t => t.resolves env | .varArr t => t.resolves env | .constArr t _ => t.resolves env
  | .dict k v => k.resolves env && v.resolves env
  | .ref a t => a.resolves env && t.resolves env
  | .comp n => n.resolves env | .iface n => n.resolves env | .inter is => is.all (·.resolves env)
  | .cap t => t.resolves env | .range t => t.resolves env
  | .nilT => false | .consT _ _ => false
  | _ => true

/-! ### run-time type constructors (on static types) -/

/-- `OptionalType(t)` -/
def ctorOptional (t : DTy) : DTy := .opt t
/-- `VariableSizedArrayType(t)` -/
def ctorVarArr (t : DTy) : DTy := .varArr t
/-- `ConstantSizedArrayType(type:size:)` -/
def ctorConstArr (t : DTy) (n : Nat) : DTy := .constArr t n
/-- `DictionaryType(key:value:)`; `keyOK` = the key's checker type is a subtype of `HashableStruct` -/
def ctorDict (keyOK : Bool) (k v : DTy) : Option DTy := if keyOK then some (.dict k v) else none
/-- `CapabilityType(t)`: capabilities must hold references -/
def ctorCap : DTy → Option DTy
  | .ref a t => some (.cap (.ref a t))
  | _ => none
/-- `InclusiveRangeType(t)`; `isInteger` = the member's checker type is an integer type -/
def ctorRange (isInteger : Bool) (t : DTy) : Option DTy := if isInteger then some (.range t) else none
/-- `CompositeType(typeID)`: `lookupComposite` decodes the ID and asks for the composite -/
def ctorComposite (env : Env) (tid : Str) : Option DTy :=
  (lookupByID env tid).map (fun n => .comp n.toStatic)
/-- `ReferenceType(entitlements:type:)`: every ID must name an entitlement (`lookupEntitlement`);
    the authorization is the conjunction of the IDs as given -/
def ctorReference (env : Env) (ents : List Str) (t : DTy) : Option DTy :=
  if ents.isEmpty then some (.ref .unauth t)
  else if ents.all (fun e => (lookupEntitlement env e).isSome) then
    some (.ref (newEntitlementSetAuthorization ents .conj) t)
  else none
/-- `IntersectionType(types:)`; `kindsOK` = `CheckIntersectionType` reports nothing -/
def ctorIntersection (env : Env) (kindsOK : Bool) (ids : List Str) : Option DTy :=
  match allSome (ids.map (lookupByID env)) with
  | none => none
  | some ns => if kindsOK then some (.inter (ns.map Nominal.toStatic)) else none
/-- `FunctionType(parameters:return:)`: converts the static types back to checker types -/
def ctorFunction (env : Env) (params : List DTy) (ret : DTy) : Option DTy :=
  match allSome (params.map (toSema env)), toSema env ret with
  | some ps, some r => some (.fn (.fn false (ps.foldr .consT .nilT) r))
  | _, _ => none

end Verif.Model.Types.TID
