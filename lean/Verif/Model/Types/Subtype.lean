/-
The subtype relation obtained by *interpreting* the rule data of `rules.yaml` (core Lean only).

`check rules fuel sub super` is `CheckSubTypeWithoutEquality_gen`; `isSub` is `IsSubType`
(`Equal` or `check`).  Recursion is by fuel: every nested `IsSubType` call spends one unit; a call
with `fuel ≥ sub.size + super.size` never runs out (the driver uses that bound, the theorems state it).
-/
import Verif.Model.Types.Ty
import Verif.Model.Types.Rules
namespace Verif.Model.Types
open Verif.Model.Auth

/-- values of rule-language expressions -/
inductive Val where
  | ty (t : Ty)
  | nil
  | auth (a : Access String)
  | nat (n : Nat)
  | names (l : List String)
  | tys (l : List Ty)
  | kind (k : Kind)
  | purity (view : Bool)
  | bool (b : Bool)
  | param (t : Ty)
  | oneOf (l : List Val)
  | undef
  deriving Inhabited

structure Env where
  sub : Val
  super : Val
  source : Val := .undef
  target : Val := .undef

/-- field access (`sub.Type`, `super.Authorization`, …) -/
def field : Val → String → Val
  | .ty (.opt t), "Type" => .ty t
  | .ty (.ref _ t), "ReferencedType" => .ty t
  | .ty (.ref a _), "Authorization" => .auth a
  | .ty (.varArr t), "ElementType" => .ty t
  | .ty (.constArr t _), "ElementType" => .ty t
  | .ty (.constArr _ n), "Size" => .nat n
  | .ty (.dict k _), "KeyType" => .ty k
  | .ty (.dict _ v), "ValueType" => .ty v
  | .ty (.comp _ k _ _), "Kind" => .kind k
  | .ty (.comp _ _ cs _), "EffectiveInterfaceConformanceSet" => .names cs
  | .ty (.iface i), "CompositeKind" => .kind i.kind
  | .ty (.iface i), "EffectiveInterfaceConformanceSet" => .names i.confs
  | .ty (.inter _), "LegacyType" => .nil
  | .ty (.inter is), "EffectiveIntersectionSet" => .names (interSet is)
  | .ty (.fn v _ _), "Purity" => .purity v
  | .ty (.fn _ _ _), "TypeParameters" => .tys []
  | .ty (.fn _ p _), "Parameters" => .tys p.toList
  | .ty (.fn _ _ _), "Arity" => .nil
  | .ty (.fn _ _ _), "IsConstructor" => .bool false
  | .ty t, "TypeAnnotation" => .param t
  | .param t, "Type" => .ty t
  | .ty .capAny, "BaseType" => .nil
  | .ty (.cap _), "BaseType" => .ty .capAny
  | .ty (.cap t), "TypeArguments" => .tys [t]
  | .ty (.range _), "BaseType" => .ty (.prim "InclusiveRange")
  | .ty (.range t), "TypeArguments" => .tys [t]
  | _, _ => .undef

def evalExpr (env : Env) : Expr → Val
  | .ident "sub" => env.sub
  | .ident "super" => env.super
  | .ident "source" => env.source
  | .ident "target" => env.target
  | .ident "nil" => .nil
  | .ident "FunctionPurityView" => .purity true
  | .ident _ => .undef
  | .ty n => .ty (.prim n)
  | .member p f => field (evalExpr env p) f
  | .oneOfNil => .oneOf []
  | .oneOfCons e r =>
    match evalExpr env r with
    | .oneOf l => .oneOf (evalExpr env e :: l)
    | _ => .undef

/-- `==` / `Equal` on values -/
def valEq : Val → Val → Bool
  | .ty a, .ty b => a == b
  | .nil, .nil => true
  | .nat a, .nat b => a == b
  | .kind a, .kind b => a == b
  | .purity a, .purity b => a == b
  | .bool a, .bool b => a == b
  | _, _ => false

def valEqOneOf (a : Val) : Val → Bool
  | .oneOf l => l.any (valEq a)
  | b => valEq a b

def Expr.isOneOf : Expr → Bool
  | .oneOfCons _ _ => true
  | .oneOfNil => true
  | _ => false

/-- predicates the generators compile to a `switch` statement -/
def Pred.isSwitch : Pred → Bool
  | .mustType _ _ => true
  | .equals _ t => t.isOneOf
  | _ => false

def subset (a b : List String) : Bool := a.all (fun x => b.contains x)

mutual
/-- `IsSubType(sub, super)` -/
def isSub (rules : List Rule) : Nat → Ty → Ty → Bool
  | 0, _, _ => false
  | fuel + 1, sub, super => sub == super || check rules fuel sub super

/-- `CheckSubTypeWithoutEquality_gen(sub, super)`: the first rule whose super type matches decides -/
def check (rules : List Rule) : Nat → Ty → Ty → Bool
  | 0, _, _ => false
  | fuel + 1, sub, super =>
    if sub == never then true else
    match rules.find? (fun r => if r.complex then super.isKind r.super else super == .prim r.super) with
    | some r => evalPred rules fuel { sub := .ty sub, super := .ty super } r.pred
    | none => false

def subVal (rules : List Rule) : Nat → Val → Val → Bool
  | 0, _, _ => false
  | fuel + 1, .ty a, .ty b => isSub rules fuel a b
  | _ + 1, _, _ => false

def subValList (rules : List Rule) : Nat → Val → List Val → Bool
  | 0, _, _ => false
  | _ + 1, _, [] => false
  | fuel + 1, a, b :: l => subVal rules fuel a b || subValList rules fuel a l

/-- `IsHashableStructType` -/
def isHashable (rules : List Rule) : Nat → Ty → Bool
  | 0, _ => false
  | _ + 1, .comp _ k _ _ => k == .enum
  | fuel + 1, .prim n =>
    n == "Address" || n == "Never" || n == "Bool" || n == "Character" || n == "String" || n == "MetaType" ||
    n == "HashableStruct" || isSub rules fuel (.prim n) (.prim "Number") || isSub rules fuel (.prim n) (.prim "Path")
  | fuel + 1, t => isSub rules fuel t (.prim "Number") || isSub rules fuel t (.prim "Path")

def forAllPairs (rules : List Rule) : Nat → Env → Pred → List Ty → List Ty → Bool
  | 0, _, _, _, _ => false
  | _ + 1, _, _, [], [] => true
  | fuel + 1, env, p, a :: as, b :: bs =>
    evalPred rules fuel { env with source := .ty a, target := .ty b } p && forAllPairs rules fuel env p as bs
  | _ + 1, _, _, _, _ => false

def evalPred (rules : List Rule) : Nat → Env → Pred → Bool
  | 0, _, _ => false
  | _ + 1, _, .always => true
  | _ + 1, _, .never => false
  | _ + 1, env, .isResource e => match evalExpr env e with | .ty t => t.isResource | _ => false
  | _ + 1, env, .isAttachment e => match evalExpr env e with | .ty t => t.isAttachment | _ => false
  | fuel + 1, env, .isHashableStruct e => match evalExpr env e with | .ty t => isHashable rules fuel t | _ => false
  | _ + 1, _, .isStorable _ => false   -- `Storable` is outside the property's quantifier
  | _ + 1, env, .equals s t => valEqOneOf (evalExpr env s) (evalExpr env t)
  | _ + 1, env, .deepEquals s t => valEqOneOf (evalExpr env s) (evalExpr env t)
  | fuel + 1, env, .subtype sub super =>
    match evalExpr env super with
    | .oneOf l => subValList rules fuel (evalExpr env sub) l
    | v => subVal rules fuel (evalExpr env sub) v
  | fuel + 1, env, .and p q => evalPred rules fuel env p && evalPred rules fuel env q
  | fuel + 1, env, .or p q =>
    -- The code generators compile an `or` to a statement sequence, not to `||`: an arm that starts
    -- with a switch (`mustType`, or `equals` against a `oneOf`) *commits* — when the switch matches,
    -- the rest of that arm is the answer; an arm `not: equals: … oneOf` is a negative guard — when
    -- the `equals` matches the answer is `false`, otherwise the following arms decide.
    match p with
    | .not (.equals s t) =>
      if t.isOneOf then
        if valEqOneOf (evalExpr env s) (evalExpr env t) then false else evalPred rules fuel env q
      else evalPred rules fuel env p || evalPred rules fuel env q
    | .and g rest =>
      if g.isSwitch then
        if evalPred rules fuel env g then evalPred rules fuel env rest else evalPred rules fuel env q
      else evalPred rules fuel env p || evalPred rules fuel env q
    | _ => evalPred rules fuel env p || evalPred rules fuel env q
  | fuel + 1, env, .not p => !evalPred rules fuel env p
  | _ + 1, env, .permits sub super =>
    match evalExpr env super, evalExpr env sub with
    | .auth sup, .auth sb => permits sup sb
    | _, _ => false
  | fuel + 1, env, .returnCovariant s t =>
    match evalExpr env s, evalExpr env t with
    | .ty (.fn _ _ r), .ty (.fn _ _ r') => isSub rules fuel r r'
    | _, _ => false
  | _ + 1, env, .mustType s n => match evalExpr env s with | .ty t => t.isKind n | _ => false
  | _ + 1, env, .setContains set el =>
    match evalExpr env set, evalExpr env el with
    | .names l, .ty (.iface i) => l.contains i.name
    | _, _ => false
  | _ + 1, env, .isIntersectionSubset sub super =>
    match evalExpr env super, evalExpr env sub with
    | .ty (.inter sup), .ty (.inter sb) => subset (interSet sup) (interSet sb)
    | .ty (.inter sup), .ty (.comp _ _ cs _) => subset (interSet sup) cs
    | .ty (.inter sup), .ty (.iface i) => subset (interSet sup) i.confs
    | _, _ => false
  | _ + 1, _, .isParameterizedSubtype _ _ => false
  | fuel + 1, env, .forAll s t p =>
    match evalExpr env s, evalExpr env t with
    | .tys as, .tys bs => forAllPairs rules fuel env p as bs
    | _, _ => false
end

/-- Every nested call (rule dispatch, predicate node, list element) spends one unit of fuel; the
    deepest predicate of `rules.yaml` nests 12 nodes, the longest `oneOf` has 12 entries. -/
def fuelFor (a b : Ty) : Nat := 40 * (a.size + b.size) + 40

/-- `IsSubType` with enough fuel -/
def subtypeWith (rules : List Rule) (a b : Ty) : Bool := isSub rules (fuelFor a b) a b

/-- `interpreter.IsSubTypeOfSemaType`: the run-time relation short-cuts optionals before converting
    the static type and calling `sema.IsSubType` (static types convert back to equal sema types, which
    the stream checks on every pair). -/
def isSubOfSema (rules : List Rule) (fuel : Nat) : Ty → Ty → Bool
  | .opt t, super =>
    if super == any then true else
    match super with
    | .opt s => isSubOfSema rules fuel t s
    | .prim n => if n == "AnyStruct" || n == "AnyResource" then isSubOfSema rules fuel t super else false
    | _ => false
  | sub, super => if super == any then true else isSub rules fuel sub super

/-- `interpreter.IsSubType` on static types -/
def isSubRuntime (rules : List Rule) (fuel : Nat) (sub super : Ty) : Bool :=
  super == any || sub == super || isSubOfSema rules fuel sub super

end Verif.Model.Types
