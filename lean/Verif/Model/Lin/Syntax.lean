/-
Syntax of the resource-linearity fragment (property C03), shared by the port of the checker's
resource tracking (`Verif.Model.Lin.Linearity`) and by the independent path semantics
(`Verif.Spec.Paths`).  Produced from the *real* parsed `ast.Program` by
`harness/internal/linsx/linsx.go` and read by `Verif.Model.Lin.Reader`.

A statement list is a right-nested `seq … nop` (so that every definition is structurally
recursive).  The bodies of `ite`, `iflet` and `while` are blocks: they open a scope of their own.
Offsets are the source offsets the checker compares in `maybeAddResourceInvalidation`.
-/
namespace Verif.Model.Lin

abbrev Var := String

/-- initialiser of a resource declaration `let x <- …` -/
inductive Init where
  | create                         -- `create R()`
  | call                           -- `mk()`: a call returning a fresh resource
  | move (y : Var) (off : Nat)     -- `<- y`
  deriving Repr, DecidableEq, Inhabited

/-- atomic statements -/
inductive Atom where
  | letR (x : Var) (off : Nat) (i : Init)   -- `let/var x <- init`; off = offset of the identifier
  | destroy (x : Var) (off : Nat)           -- `destroy x`
  | eat (x : Var) (off : Nat)               -- `eat(<-x)`: move into a call argument
  | use (x : Var)                           -- `x.use()`: method call
  | read (x : Var)                          -- `check(x.id)`: field read
  | nomove (x : Var)                        -- `eat(x)`: resource argument without `<-`
  | swap (x y : Var)                        -- `x <-> y`
  | skip                                    -- a statement without resources
  | brk (off : Nat) | cont (off : Nat)      -- off = offset of the statement
  | ret                                     -- `return`
  | panic                                   -- `panic("")`: a call of type Never
  deriving Repr, DecidableEq, Inhabited

inductive Stmt where
  | nop
  | seq (a b : Stmt)
  | atom (a : Atom)
  | ite (t e : Stmt)                                         -- `if c {t} else {e}`
  | iflet (y : Var) (yoff : Nat) (x : Var) (xoff : Nat) (t e : Stmt)   -- `if let y <- x {t} else {e}`
  | while (b : Stmt)                                         -- `while c {b}`
  deriving Repr, DecidableEq, Inhabited

structure Fn where
  params : List (Var × Nat)      -- resource-typed parameters with the offsets of their identifiers
  body : Stmt
  deriving Repr, DecidableEq, Inhabited

/-- right-nested statement list -/
def Stmt.ofList : List Stmt → Stmt
  | [] => .nop
  | s :: ss => .seq s (ofList ss)

/-- names declared anywhere in a statement (with multiplicity) -/
def Stmt.declNames : Stmt → List Var
  | .nop => []
  | .seq a b => a.declNames ++ b.declNames
  | .atom (.letR x _ _) => [x]
  | .atom _ => []
  | .ite t e => t.declNames ++ e.declNames
  | .iflet y _ _ _ t e => y :: (t.declNames ++ e.declNames)
  | .while b => b.declNames

/-- every declaration site declares a different name (generated programs; the checker identifies
    variables by declaration, the model by name) -/
def Fn.uniqueNames (f : Fn) : Bool :=
  let ns := f.params.map (·.1) ++ f.body.declNames
  ns.eraseDups.length == ns.length

def Stmt.hasLoop : Stmt → Bool
  | .nop => false
  | .seq a b => a.hasLoop || b.hasLoop
  | .atom _ => false
  | .ite t e => t.hasLoop || e.hasLoop
  | .iflet _ _ _ _ t e => t.hasLoop || e.hasLoop
  | .while _ => true

def Stmt.hasHalt : Stmt → Bool
  | .nop => false
  | .seq a b => a.hasHalt || b.hasHalt
  | .atom .panic => true
  | .atom _ => false
  | .ite t e => t.hasHalt || e.hasHalt
  | .iflet _ _ _ _ t e => t.hasHalt || e.hasHalt
  | .while b => b.hasHalt

def Stmt.hasJump : Stmt → Bool
  | .nop => false
  | .seq a b => a.hasJump || b.hasJump
  | .atom (.brk _) | .atom (.cont _) => true
  | .atom _ => false
  | .ite t e => t.hasJump || e.hasJump
  | .iflet _ _ _ _ t e => t.hasJump || e.hasJump
  | .while b => b.hasJump

def Stmt.hasIflet : Stmt → Bool
  | .nop => false
  | .seq a b => a.hasIflet || b.hasIflet
  | .atom _ => false
  | .ite t e => t.hasIflet || e.hasIflet
  | .iflet _ _ _ _ _ _ => true
  | .while b => b.hasIflet

def Stmt.hasBranch : Stmt → Bool
  | .nop => false
  | .seq a b => a.hasBranch || b.hasBranch
  | .atom _ => false
  | _ => true

def Stmt.hasRet : Stmt → Bool
  | .nop => false
  | .seq a b => a.hasRet || b.hasRet
  | .atom .ret => true
  | .atom _ => false
  | .ite t e => t.hasRet || e.hasRet
  | .iflet _ _ _ _ t e => t.hasRet || e.hasRet
  | .while b => b.hasRet

/-- a conditional both of whose branches contain a `return`, nested inside a branch of another
    conditional (the shape of the known finding `rejects-linear-nested-returns`) -/
def Stmt.hasBothRet : Stmt → Bool
  | .nop => false
  | .seq a b => a.hasBothRet || b.hasBothRet
  | .atom _ => false
  | .ite t e => (t.hasRet && e.hasRet) || t.hasBothRet || e.hasBothRet
  | .iflet _ _ _ _ t e => (t.hasRet && e.hasRet) || t.hasBothRet || e.hasBothRet
  | .while b => b.hasBothRet

def Stmt.hasNestedReturns : Stmt → Bool
  | .nop => false
  | .seq a b => a.hasNestedReturns || b.hasNestedReturns
  | .atom _ => false
  | .ite t e => t.hasBothRet || e.hasBothRet
  | .iflet _ _ _ _ t e => t.hasBothRet || e.hasBothRet
  | .while b => b.hasNestedReturns

/-- a branch of a conditional that contains both a `break`/`continue` and a `return` (the shape of
    the known finding `accepts-nonlinear-jump-in-returning-branch`: such a branch "definitely
    returned" for `mergeResourceInfos` although a path leaves it by the jump) -/
def Stmt.hasJumpRetBranch : Stmt → Bool
  | .nop => false
  | .seq a b => a.hasJumpRetBranch || b.hasJumpRetBranch
  | .atom _ => false
  | .ite t e => (t.hasJump && t.hasRet) || (e.hasJump && e.hasRet) || t.hasJumpRetBranch || e.hasJumpRetBranch
  | .iflet _ _ _ _ t e =>
    (t.hasJump && t.hasRet) || (e.hasJump && e.hasRet) || t.hasJumpRetBranch || e.hasJumpRetBranch
  | .while b => b.hasJumpRetBranch

def Stmt.size : Stmt → Nat
  | .nop => 0
  | .seq a b => a.size + b.size
  | .atom _ => 1
  | .ite t e => 1 + t.size + e.size
  | .iflet _ _ _ _ t e => 1 + t.size + e.size
  | .while b => 1 + b.size

end Verif.Model.Lin
