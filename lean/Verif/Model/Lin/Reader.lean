import Verif.Model.Lang.SExpr
import Verif.Model.Lin.Syntax
/-
Reader for the S-expression form written by `harness/internal/linsx/linsx.go` (grammar there).
Reuses the S-expression tokenizer/parser of the μCadence bridge (`Verif.Model.Lang.SX`).
-/
namespace Verif.Model.Lin
open Verif.Model.Lang (SX)

def readInit : SX → Option Init
  | .atom "create" => some .create
  | .atom "call" => some .call
  | .list [.atom "move", .atom y, .atom o] => (Init.move y ·) <$> o.toNat?
  | _ => none

mutual
partial def readStmt : SX → Option Stmt
  | .list [.atom "let", .atom x, .atom o, i] => do
    some (.atom (.letR x (← o.toNat?) (← readInit i)))
  | .list [.atom "destroy", .atom x, .atom o] => do some (.atom (.destroy x (← o.toNat?)))
  | .list [.atom "eat", .atom x, .atom o] => do some (.atom (.eat x (← o.toNat?)))
  | .list [.atom "use", .atom x] => some (.atom (.use x))
  | .list [.atom "read", .atom x] => some (.atom (.read x))
  | .list [.atom "nomove", .atom x] => some (.atom (.nomove x))
  | .list [.atom "swap", .atom x, .atom y] => some (.atom (.swap x y))
  | .list [.atom "skip"] => some (.atom .skip)
  | .list [.atom "break", .atom o] => do some (.atom (.brk (← o.toNat?)))
  | .list [.atom "continue", .atom o] => do some (.atom (.cont (← o.toNat?)))
  | .list [.atom "return"] => some (.atom .ret)
  | .list [.atom "panic"] => some (.atom .panic)
  | .list [.atom "if", t] => do some (.ite (← readBlock t) .nop)
  | .list [.atom "if", t, e] => do some (.ite (← readBlock t) (← readBlock e))
  | .list [.atom "iflet", .atom y, .atom yo, .atom x, .atom xo, t] => do
    some (.iflet y (← yo.toNat?) x (← xo.toNat?) (← readBlock t) .nop)
  | .list [.atom "iflet", .atom y, .atom yo, .atom x, .atom xo, t, e] => do
    some (.iflet y (← yo.toNat?) x (← xo.toNat?) (← readBlock t) (← readBlock e))
  | .list [.atom "while", b] => do some (.while (← readBlock b))
  | _ => none
partial def readBlock : SX → Option Stmt
  | .list (.atom "block" :: ss) => Stmt.ofList <$> ss.mapM readStmt
  | _ => none
end

def readParam : SX → Option (Var × Nat)
  | .list [.atom "p", .atom x, .atom o] => (x, ·) <$> o.toNat?
  | _ => none

def readFn : SX → Option Fn
  | .list [.atom "fun", .list (.atom "params" :: ps), b] => do
    some { params := (← ps.mapM readParam), body := (← readBlock b) }
  | _ => none

def parseFn (s : String) : Option Fn := SX.parse s >>= readFn

end Verif.Model.Lin
