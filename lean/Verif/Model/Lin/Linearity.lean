import Verif.Model.Lin.Syntax
/-
Port of the checker's resource tracking (property C03), core Lean only.

Go sources ported (file: function):
  sema/resourceinvalidationkind.go : IsDefinite, AsPotential
  sema/resourceinfo.go             : MaybeRecordInvalidation, Invalidation, DefinitivelyInvalidated
  sema/resources.go                : MaybeRecordInvalidation, RemoveTemporaryMoveInvalidation (a no-op
                                     in this fragment, see `useTwice`), Clone, MergeBranches, mergeResourceInfos
  sema/return_info.go              : MergeBranches, MergePotentiallyUnevaluated, Clone, IsUnreachable,
                                     MaybeJumped, clearDefiniteExits, loop jump offsets
  sema/function_activations.go     : WithLoop
  sema/checker.go                  : checkResourceLoss (with the `DefinitelyExited && !MaybeJumped` skip),
                                     recordResourceInvalidation, maybeAddResourceInvalidation,
                                     checkPotentiallyUnevaluated, checkResourceMoveOperation
  sema/check_block.go              : checkBlock, visitStatements (unreachable statement)
  sema/check_conditional.go        : VisitIfStatement (expression test and optional binding), checkConditionalBranches
  sema/check_while.go              : VisitWhileStatement, VisitBreakStatement, VisitContinueStatement
  sema/check_return_statement.go   : VisitReturnStatement
  sema/check_invocation_expression.go : the `Never` return type update, checkMemberInvocationResourceInvalidation
  sema/check_expression.go         : VisitIdentifierExpression (use after invalidation)
  sema/check_function.go           : checkFunction / visitFunctionBlock (two scopes, halt suppresses the loss check)

Representation choices (each validated by the `lin` stream, which compares the multiset of errors):
* `Resources` is a map with a parent chain (`Clone` makes a child, `Invalidation()` walks up).  A
  child never deletes a parent's entry (only `MoveTemporary` entries are deleted, and those are
  removed before anything else happens), so a clone is modelled as a copy of the association list.
* variables are identified by name; `Fn.uniqueNames` is required (generated programs satisfy it).
* switch statements are outside the fragment, so `MaybeJumped = MaybeJumpedLoop` and only the loop
  jump-offset set exists.
-/
namespace Verif.Model.Lin

inductive Kind where
  | moveDefinite | movePotential | destroyDefinite | destroyPotential
  deriving Repr, DecidableEq, Inhabited

def Kind.isDefinite : Kind → Bool
  | .moveDefinite | .destroyDefinite => true
  | _ => false

def Kind.asPotential : Kind → Kind
  | .moveDefinite => .movePotential
  | .destroyDefinite => .destroyPotential
  | k => k

/-- error kinds reported by the modelled part of the checker -/
inductive Err where
  | loss            -- ResourceLossError
  | useAfter        -- ResourceUseAfterInvalidationError
  | missingMove     -- MissingMoveOperationError
  | unreachable     -- UnreachableStatementError
  | control         -- ControlStatementError (break / continue outside a loop)
  | notDeclared     -- NotDeclaredError
  deriving Repr, DecidableEq, Inhabited

/-- `sema.ReturnInfo` (without the switch fields) -/
structure RI where
  maybeReturned : Bool := false
  definitelyReturned : Bool := false
  definitelyHalted : Bool := false
  definitelyExited : Bool := false
  maybeJumpedLoop : Bool := false
  jumps : List Nat := []            -- LoopJumpOffsets (with the parents' elements)
  deriving Repr, DecidableEq, Inhabited

/-- association list of recorded invalidations; the first entry for a name counts -/
abbrev Invs := List (Var × Kind)

def Invs.get (m : Invs) (x : Var) : Option Kind := (m.find? (·.1 == x)).map (·.2)

/-- `ResourceInfo.DefinitivelyInvalidated` -/
def Invs.definitely (m : Invs) (x : Var) : Bool :=
  match m.get x with | some k => k.isDefinite | none => false

/-- the checker state threaded through the visitors -/
structure St where
  inv : Invs := []
  ri : RI := {}
  locals : List Var := []                  -- names with an invalidation recorded in the *current* clone of
                                           -- `Resources` (`ResourceInfo.invalidation` without the parents)
  scopes : List (List (Var × Nat)) := []   -- value activations of the function, innermost first
  loops : Nat := 0                        -- ControlStack (only loops)
  errs : List Err := []
  deriving Repr, Inhabited

def St.report (s : St) (e : Err) : St := { s with errs := e :: s.errs }

def St.declOff (s : St) (x : Var) : Option Nat :=
  (s.scopes.flatten.find? (·.1 == x)).map (·.2)

/-- `ReturnInfo.MergeBranches` -/
def RI.mergeBranches (ri t e : RI) : RI :=
  { maybeReturned := ri.maybeReturned || t.maybeReturned || e.maybeReturned
    maybeJumpedLoop := ri.maybeJumpedLoop || t.maybeJumpedLoop || e.maybeJumpedLoop
    definitelyReturned := ri.definitelyReturned || (t.definitelyReturned && e.definitelyReturned)
    definitelyHalted := ri.definitelyHalted || (t.definitelyHalted && e.definitelyHalted)
    definitelyExited := ri.definitelyExited || (t.definitelyExited && e.definitelyExited)
    jumps := ri.jumps ++ t.jumps ++ e.jumps }

/-- `ReturnInfo.MergePotentiallyUnevaluated` -/
def RI.mergePotentiallyUnevaluated (ri t : RI) : RI :=
  { ri with
    maybeReturned := ri.maybeReturned || t.maybeReturned
    maybeJumpedLoop := ri.maybeJumpedLoop || t.maybeJumpedLoop }

/-- `mergeResourceInfos`.  `e = none` is the `elseResources == nil` call of
    `checkPotentiallyUnevaluated` (then `elseReturnInfo` is nil as well). -/
def mergeInfos (t : Option Kind) (tri : RI) (e : Option (Option Kind × RI)) : Option Kind :=
  match t, e with
  | some tk, some (some ek, eri) =>
    -- first level: both branches have an invalidation
    if tri.definitelyReturned && eri.definitelyReturned then none
    else if tri.definitelyReturned then some ek
    else if eri.definitelyReturned then some tk
    else if !ek.isDefinite || !tk.isDefinite then some tk.asPotential else some tk
  | some tk, some (none, eri) =>
    -- only the then branch has an invalidation
    if tri.definitelyReturned then
      (if eri.definitelyHalted then some .destroyDefinite else none)
    else if !eri.definitelyHalted then some tk.asPotential else some tk
  | some tk, none =>
    if tri.definitelyReturned then none else some tk.asPotential
  | none, some (some ek, eri) =>
    -- only the else branch has an invalidation
    if eri.definitelyReturned then
      (if tri.definitelyHalted then some .destroyDefinite else none)
    else if !tri.definitelyHalted then some ek.asPotential else some ek
  | none, _ => none

/-- the resources `Resources.MergeBranches` iterates over -/
def mergeKeys (thenI : Invs) (e : Option (Invs × RI)) : List Var :=
  thenI.map (·.1) ++ (match e with | some p => p.1.map (·.1) | none => [])

/-- `Resources.MergeBranches`: every resource of the branches that has no invalidation in the outer
    scope gets the merged invalidation.  Returns the entries to add to the outer scope. -/
def mergeInvs (outer thenI : Invs) (tri : RI) (e : Option (Invs × RI)) : Invs :=
  (mergeKeys thenI e).foldl (fun (acc : Invs) x =>
    if (outer.get x).isSome || (acc.get x).isSome then acc else
    match mergeInfos (thenI.get x) tri (e.map fun p => (p.1.get x, p.2)) with
    | some k => (x, k) :: acc
    | none => acc) []

/-- the outer state after `Resources.MergeBranches` -/
def St.merged (s : St) (added : Invs) : St :=
  { s with inv := added ++ s.inv, locals := added.map (·.1) ++ s.locals }

/-- `checkResourceUseAfterInvalidation` after looking the variable up -/
def St.useCheck (s : St) (x : Var) : St :=
  match s.declOff x with
  | none => s.report .notDeclared
  | some _ => if (s.inv.get x).isSome then s.report .useAfter else s

/-- `maybeAddResourceInvalidation` for a variable resource -/
def St.maybeAdd (s : St) (x : Var) (k : Kind) (off : Nat) : St :=
  if s.ri.definitelyExited then s else
  match s.declOff x with
  | none => s
  | some d =>
    let onlyPotential := s.ri.jumps.any fun j => d < j && j < off
    let k := if onlyPotential then k.asPotential else k
    -- `ResourceInfo.MaybeRecordInvalidation` looks at the invalidation of the current clone only: an
    -- invalidation inherited from a parent clone is shadowed (this happens only after a
    -- use-after-invalidation error has been reported for `x`)
    if s.locals.contains x then s else { s with inv := (x, k) :: s.inv, locals := x :: s.locals }

/-- visiting an identifier expression and then `recordResourceInvalidation` (destroy, `<-x` argument,
    moved initialiser, optional binding) -/
def St.invalidate (s : St) (x : Var) (k : Kind) (off : Nat) : St :=
  (s.useCheck x).maybeAdd x k off

/-- `checkResourceLoss` over the given variables -/
def St.lossCheck (s : St) (vars : List (Var × Nat)) : St :=
  if s.ri.definitelyExited && !s.ri.maybeJumpedLoop then s else
  vars.foldl (fun s v => if s.inv.definitely v.1 then s else s.report .loss) s

def St.declare (s : St) (x : Var) (off : Nat) : St :=
  match s.scopes with
  | [] => { s with scopes := [[(x, off)]] }
  | sc :: rest => { s with scopes := ((x, off) :: sc) :: rest }

def checkAtom (s : St) : Atom → St
  | .letR x off i =>
    let s := match i with
      | .create | .call => s
      | .move y yoff => s.invalidate y .moveDefinite yoff
    s.declare x off
  | .destroy x off => s.invalidate x .destroyDefinite off
  | .eat x off => s.invalidate x .moveDefinite off
  | .use x =>
    -- identifier visit, then the temporary move of the receiver (recorded and removed), then the
    -- second use check of `checkMemberInvocationResourceInvalidation`
    (s.useCheck x).useCheck x
  | .read x => s.useCheck x
  | .nomove x => (s.useCheck x).report .missingMove
  | .swap x y =>
    -- each side is visited as a target (no use check) and again as a value
    (s.useCheck x).useCheck y
  | .skip => s
  | .brk off | .cont off =>
    if s.loops == 0 then s.report .control else
    { s with ri := { s.ri with jumps := off :: s.ri.jumps, maybeJumpedLoop := true, definitelyExited := true } }
  | .ret =>
    let s := s.lossCheck s.scopes.flatten
    { s with ri := { s.ri with maybeReturned := true, definitelyReturned := true, definitelyExited := true } }
  | .panic =>
    { s with ri := { s.ri with definitelyHalted := true, definitelyExited := true } }

def Stmt.isNop : Stmt → Bool
  | .nop => true
  | _ => false

/-- `enterValueScope` (with the given pre-declared variables) -/
def St.enter (s : St) (pre : List (Var × Nat)) : St := { s with scopes := pre :: s.scopes }

/-- `leaveValueScope(…, true)`: check resource loss for the variables of the innermost scope, then
    restore the scopes of `outer` -/
def St.leave (outer s1 : St) : St :=
  let s2 := s1.lossCheck (s1.scopes.headD [])
  { s2 with scopes := outer.scopes }

/-- the state a branch starts from: a clone of the resources (no local invalidations yet) and the
    errors reported so far -/
def St.branch (s : St) (errs : List Err) : St := { s with locals := [], errs := errs }

/-- `visitStatements` / the statement visitors.  A block (`checkBlock`) is
    `St.leave s (check (s.enter []) b)`. -/
def check (s : St) : Stmt → St
  | .nop => s
  | .seq a b =>
    -- an unreachable statement is reported once and the rest is not visited
    let s := check s a
    if s.ri.definitelyExited && !b.isNop then s.report .unreachable else check s b
  | .atom a => checkAtom s a
  | .ite t e =>
    -- checkConditionalBranches
    let ts := St.leave s (check ((s.branch s.errs).enter []) t)
    let es := St.leave s (check ((s.branch ts.errs).enter []) e)
    { s with ri := s.ri.mergeBranches ts.ri es.ri, errs := es.errs }.merged
      (mergeInvs s.inv ts.inv ts.ri (some (es.inv, es.ri)))
  | .iflet y yoff x xoff t e =>
    let s := s.invalidate x .moveDefinite xoff
    -- then branch: a scope holding `y`, then the block
    let ts0 := (s.branch s.errs).enter [(y, yoff)]
    let ts := St.leave s (St.leave ts0 (check (ts0.enter []) t))
    let es := St.leave s (check ((s.branch ts.errs).enter []) e)
    { s with ri := s.ri.mergeBranches ts.ri es.ri, errs := es.errs }.merged
      (mergeInvs s.inv ts.inv ts.ri (some (es.inv, es.ri)))
  | .while b =>
    -- checkPotentiallyUnevaluated ∘ WithLoop
    let saved := s.ri.maybeJumpedLoop
    let bs := St.leave s (check ({ s.branch s.errs with loops := s.loops + 1 }.enter []) b)
    let tri : RI :=
      if bs.ri.maybeJumpedLoop then
        { bs.ri with definitelyReturned := false, definitelyHalted := false, definitelyExited := false }
      else bs.ri
    let tri := { tri with maybeJumpedLoop := saved, jumps := s.ri.jumps }
    { s with ri := s.ri.mergePotentiallyUnevaluated tri, errs := bs.errs }.merged
      (mergeInvs s.inv bs.inv tri none)

/-- `checkFunction`: parameter scope, body scope (`visitFunctionBlock`), loss checks on leaving -/
def linState (f : Fn) : St :=
  let s0 : St := { scopes := [f.params.reverse] }
  let s1 := St.leave s0 (check (s0.enter []) f.body)
  if s1.ri.definitelyHalted then s1 else s1.lossCheck f.params

def linCheck (f : Fn) : List Err := (linState f).errs

end Verif.Model.Lin
