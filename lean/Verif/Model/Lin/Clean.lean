import Verif.Model.Lin.Linearity
/-
Hypothesis vocabulary of the C03 soundness theorems for loops (core Lean only, executable).

The checker analyses a loop body once.  A body that invalidates a resource of an enclosing scope
and can run again is only ever reported later, as a loss at the end of the resource's scope (the
merge after the loop makes the invalidation potential), and that report is suppressed by a halt
(known finding `accepts-nonlinear-loop-then-halt`).

* `loopsClean f` (semantic, computed from the checker's states): no loop body that can fall
  through leaves an invalidation of a resource declared outside the body.
* `noHaltAfterInvalidatingLoop f` (syntactic): no `panic` textually follows, in the same or an
  enclosing statement list, a loop whose body invalidates a variable it does not declare.
-/
namespace Verif.Model.Lin

/-- the state the body of a loop is checked from (`checkPotentiallyUnevaluated ∘ WithLoop ∘ checkBlock`) -/
def St.loopEntry (s : St) : St := { s.branch s.errs with loops := s.loops + 1 }.enter []

def loopsCleanAt (s : St) : Stmt → Bool
  | .nop => true
  | .seq a b => loopsCleanAt s a && loopsCleanAt (check s a) b
  | .atom _ => true
  | .ite t e =>
    let ts := St.leave s (check ((s.branch s.errs).enter []) t)
    loopsCleanAt ((s.branch s.errs).enter []) t && loopsCleanAt ((s.branch ts.errs).enter []) e
  | .iflet y yoff x xoff t e =>
    let s := s.invalidate x .moveDefinite xoff
    let ts0 := (s.branch s.errs).enter [(y, yoff)]
    let ts := St.leave s (St.leave ts0 (check (ts0.enter []) t))
    loopsCleanAt (ts0.enter []) t && loopsCleanAt ((s.branch ts.errs).enter []) e
  | .while b =>
    let bs := check s.loopEntry b
    loopsCleanAt s.loopEntry b &&
      (bs.ri.definitelyExited ||
        s.scopes.flatten.all fun v => (s.inv.get v.1).isSome || (bs.inv.get v.1).isNone)

/-- no loop body of `f` that can fall through leaves an invalidation of an outer resource -/
def loopsClean (f : Fn) : Bool :=
  loopsCleanAt (({ scopes := [f.params.reverse] } : St).enter []) f.body

/-! ### the syntactic hypothesis -/

/-- variables a statement invalidates (destroy, move into a call / an initialiser / an optional binding) -/
def Stmt.invalidated : Stmt → List Var
  | .nop => []
  | .seq a b => a.invalidated ++ b.invalidated
  | .atom (.letR _ _ (.move y _)) => [y]
  | .atom (.destroy x _) => [x]
  | .atom (.eat x _) => [x]
  | .atom _ => []
  | .ite t e => t.invalidated ++ e.invalidated
  | .iflet _ _ x _ t e => x :: (t.invalidated ++ e.invalidated)
  | .while b => b.invalidated

/-- the statement contains a loop whose body invalidates a variable that the body does not declare -/
def Stmt.hasInvalidatingLoop : Stmt → Bool
  | .nop => false
  | .seq a b => a.hasInvalidatingLoop || b.hasInvalidatingLoop
  | .atom _ => false
  | .ite t e => t.hasInvalidatingLoop || e.hasInvalidatingLoop
  | .iflet _ _ _ _ t e => t.hasInvalidatingLoop || e.hasInvalidatingLoop
  | .while b => b.hasInvalidatingLoop || b.invalidated.any fun x => !b.declNames.contains x

/-- in every statement list, nothing after a statement containing an invalidating loop can halt -/
def Stmt.noHaltAfterLoop : Stmt → Bool
  | .nop => true
  | .seq a b => a.noHaltAfterLoop && b.noHaltAfterLoop && (!a.hasInvalidatingLoop || !b.hasHalt)
  | .atom _ => true
  | .ite t e => t.noHaltAfterLoop && e.noHaltAfterLoop
  | .iflet _ _ _ _ t e => t.noHaltAfterLoop && e.noHaltAfterLoop
  | .while b => b.noHaltAfterLoop

def noHaltAfterInvalidatingLoop (f : Fn) : Bool := f.body.noHaltAfterLoop

end Verif.Model.Lin
