/-
Code-shaped model of /repo/stdlib/rlp/rlp.go (ReadSize, DecodeString, DecodeList) and of the
trailing-bytes check of the wrappers in /repo/stdlib/rlp.go (RLPDecodeString / RLPDecodeList).

Go `int` values are modelled as `Nat`: after the `fix:` commit no addition in the decoder can exceed
`len(inp) + 9`, which is shown by `Verif.Properties.C46.no_panic` under the hypothesis
`inp.length < 2^63` (a Go slice cannot be longer).  Every Go indexing `inp[i]` and slicing `inp[a:b]`
is modelled by `idx` / `slice`, which return `goPanic` outside the bounds, exactly where the Go
runtime would panic (slicing between `len` and `cap` does not panic in Go but reads bytes that are
not part of the input; the model treats it as a panic too).
-/
namespace Verif.Model.Rlp

abbrev Bytes := List UInt8

inductive Err where
  | emptyInput | invalidStartIndex | incompleteInput | nonCanonical
  | dataSizeTooLarge | listSizeMismatch | typeMismatch | trailingBytes
  deriving DecidableEq, Repr

/-- Outcome of a Go call: result, returned error, Go runtime panic, or loop fuel exhausted. -/
inductive Out (α : Type) where
  | ok (a : α)
  | err (e : Err)
  | goPanic
  | diverge
  deriving Repr, DecidableEq

instance : Monad Out where
  pure := .ok
  bind x f := match x with
    | .ok a => f a
    | .err e => .err e
    | .goPanic => .goPanic
    | .diverge => .diverge

def idx (inp : Bytes) (i : Nat) : Out UInt8 :=
  match inp[i]? with
  | some b => .ok b
  | none => .goPanic

def slice (inp : Bytes) (a b : Nat) : Out Bytes :=
  if a ≤ b ∧ b ≤ inp.length then .ok ((inp.take b).drop a) else .goPanic

/-- big-endian value of a byte string -/
def beNat (bs : Bytes) : Nat := bs.foldl (fun acc b => acc * 256 + b.toNat) 0

def maxLongLength : Nat := 2 ^ 63 - 1   -- MaxLongLengthAllowed = math.MaxInt64

/-- `ReadSize`: returns (isString, dataStartIndex, dataSize). -/
def readSize (inp : Bytes) (startIndex : Nat) : Out (Bool × Nat × Nat) := do
  if inp.length = 0 then .err .emptyInput else
  if startIndex ≥ inp.length then .err .invalidStartIndex else
  let firstByte ← idx inp startIndex
  let fb := firstByte.toNat
  let startIndex := startIndex + 1
  if fb ≤ 0x7f then return (true, startIndex - 1, 1) else
  if fb ≤ 0xb7 then return (true, startIndex, fb - 0x80) else
  if fb ≥ 0xc0 ∧ fb ≤ 0xf7 then return (false, startIndex, fb - 0xc0) else
  -- long string: 0xb8..0xbf, long list: 0xf8..0xff
  let isString := decide (fb ≥ 0xb8 ∧ fb ≤ 0xbf)
  let bytesToReadForLen := if fb ≥ 0xf8 then fb - 0xf7 else fb - 0xb7
  if startIndex ≥ inp.length then .err .incompleteInput else
  if bytesToReadForLen = 1 then
    let l ← idx inp startIndex
    let strLen := l.toNat
    let startIndex := startIndex + 1
    if strLen ≤ 55 then .err .nonCanonical else
    return (isString, startIndex, strLen)
  else
    let b0 ← idx inp startIndex
    if b0.toNat = 0 then .err .nonCanonical else
    let endIndex := startIndex + bytesToReadForLen
    if endIndex > inp.length then .err .incompleteInput else
    let lenBytes ← slice inp startIndex endIndex
    let startIndex := startIndex + bytesToReadForLen
    let strLen := beNat lenBytes
    if strLen > maxLongLength then .err .dataSizeTooLarge else
    return (isString, startIndex, strLen)

/-- `DecodeString` (after the fix: bounds compared by subtraction). Returns (payload, bytesRead). -/
def decodeString (inp : Bytes) (startIndex : Nat) : Out (Bytes × Nat) := do
  let (isString, dataStartIndex, dataSize) ← readSize inp startIndex
  if !isString then .err .typeMismatch else
  -- Go: `dataSize > len(inp)-dataStartIndex` on ints; a negative right-hand side makes it true
  if dataStartIndex > inp.length ∨ dataSize > inp.length - dataStartIndex then .err .incompleteInput else
  if dataSize = 1 ∧ startIndex = dataStartIndex then
    let b ← idx inp dataStartIndex
    return ([b], 1)
  else
  let first ← (if dataSize = 1 then idx inp dataStartIndex else pure 0)
  if dataSize = 1 ∧ first.toNat ≤ 0x7f then .err .nonCanonical else
  let dataEndIndex := dataStartIndex + dataSize
  let s ← slice inp dataStartIndex dataEndIndex
  return (s, dataEndIndex - startIndex)

/-- The `for dataBytesRead < listDataSize` loop of `DecodeList`. -/
def decodeListLoop (inp : Bytes) (listDataSize : Nat) :
    Nat → (itemStartIndex itemEndIndex dataBytesRead : Nat) → (acc : List Bytes) →
    Out (List Bytes × Nat × Nat)
  | 0, _, _, _, _ => .diverge
  | fuel + 1, itemStartIndex, itemEndIndex, dataBytesRead, acc =>
    if dataBytesRead < listDataSize then do
      let (_, itemDataStartIndex, itemSize) ← readSize inp itemStartIndex
      if itemDataStartIndex > inp.length ∨ itemSize > inp.length - itemDataStartIndex then
        .err .incompleteInput
      else
      let itemEndIndex := itemDataStartIndex + itemSize
      let item ← slice inp itemStartIndex itemEndIndex
      decodeListLoop inp listDataSize fuel itemEndIndex itemEndIndex
        (dataBytesRead + (itemEndIndex - itemStartIndex)) (acc ++ [item])
    else
      .ok (acc, itemEndIndex, dataBytesRead)

/-- `DecodeList`. Returns (encoded items, bytesRead). -/
def decodeList (inp : Bytes) (startIndex : Nat) : Out (List Bytes × Nat) := do
  let (isString, dataStartIndex, listDataSize) ← readSize inp startIndex
  if isString then .err .typeMismatch else
  if listDataSize = 0 then return ([], 1) else
  if dataStartIndex > inp.length ∨ listDataSize > inp.length - dataStartIndex then
    .err .incompleteInput else
  let (items, itemEndIndex, dataBytesRead) ←
    decodeListLoop inp listDataSize (inp.length + 1) dataStartIndex 0 0 []
  if dataBytesRead ≠ listDataSize then .err .listSizeMismatch else
  return (items, itemEndIndex - startIndex)

/-- `RLPDecodeString` wrapper: decode at 0 and require that the whole input was consumed. -/
def rlpDecodeString (inp : Bytes) : Out Bytes := do
  let (s, n) ← decodeString inp 0
  if n ≠ inp.length then .err .trailingBytes else return s

def rlpDecodeList (inp : Bytes) : Out (List Bytes) := do
  let (xs, n) ← decodeList inp 0
  if n ≠ inp.length then .err .trailingBytes else return xs

end Verif.Model.Rlp
