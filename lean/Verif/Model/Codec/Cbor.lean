/-
The subset of CBOR (RFC 8949) that CCF uses: data items <-> bytes.  Unsigned / negative integers,
byte and text strings, arrays, tags (bignums are tags 2 / 3 on byte strings), the simple values
false / true / null; definite lengths and shortest-form heads (what `fxamacker/cbor` emits in
`CoreDetEncOptions`; the library itself is trusted, this is the format).  Core Lean only.

The decoder accepts exactly the shortest-form (deterministic) encodings, so that the raw bytes of a
decoded item are `encode item`; `fxamacker/cbor` also accepts longer heads, which CCF encoders never
produce (the correspondence stream feeds the model decoder only with deterministic CBOR).
-/
namespace Verif.Model.Codec

inductive Cbor where
  | uint (n : Nat)            -- major type 0
  | nint (n : Nat)            -- major type 1: the value -1 - n
  | bytes (bs : List UInt8)   -- major type 2
  | text (s : String)         -- major type 3 (UTF-8)
  | arr (xs : List Cbor)      -- major type 4
  | tag (t : Nat) (v : Cbor)  -- major type 6
  | simple (n : Nat)          -- major type 7, values 20 (false), 21 (true), 22 (null)
  deriving Inhabited

namespace Cbor

def null : Cbor := .simple 22
def bool (b : Bool) : Cbor := .simple (if b then 21 else 20)

/-- a CBOR integer (major type 0 or 1) -/
def int (i : Int) : Cbor := if i < 0 then .nint (-1 - i).toNat else .uint i.toNat

/-- big-endian bytes of `n` with `k` bytes -/
def beBytes : Nat → Nat → List UInt8
  | 0, _ => []
  | k + 1, n => UInt8.ofNat (n / 256 ^ k % 256) :: beBytes k n

/-- number of bytes of the minimal big-endian representation (`0` for `0`) -/
def byteLen (n : Nat) : Nat := if n = 0 then 0 else Nat.log2 n / 8 + 1

/-- `big.Int.Bytes()`: minimal big-endian bytes, empty for 0 -/
def minBytes (n : Nat) : List UInt8 := beBytes (byteLen n) n

/-- `EncodeBigInt` with `BigIntConvertNone`: always a bignum tag -/
def bigInt (i : Int) : Cbor :=
  if i < 0 then .tag 3 (.bytes (minBytes (-1 - i).toNat)) else .tag 2 (.bytes (minBytes i.toNat))

/-- shortest-form head: major type (0..7) and argument (< 2^64) -/
def head (major : Nat) (arg : Nat) : List UInt8 :=
  let m := UInt8.ofNat (major * 32)
  if arg < 24 then [m + UInt8.ofNat arg]
  else if arg < 2 ^ 8 then (m + 24) :: beBytes 1 arg
  else if arg < 2 ^ 16 then (m + 25) :: beBytes 2 arg
  else if arg < 2 ^ 32 then (m + 26) :: beBytes 4 arg
  else (m + 27) :: beBytes 8 arg

mutual
def encode : Cbor → List UInt8
  | .uint n => head 0 n
  | .nint n => head 1 n
  | .bytes bs => head 2 bs.length ++ bs
  | .text s => head 3 s.toUTF8.data.toList.length ++ s.toUTF8.data.toList
  | .arr xs => head 4 xs.length ++ encodeList xs
  | .tag t v => head 6 t ++ encode v
  | .simple n => head 7 n
def encodeList : List Cbor → List UInt8
  | [] => []
  | x :: xs => encode x ++ encodeList xs
end

/-! ### decoding -/

def beNat : List UInt8 → Nat
  | [] => 0
  | b :: bs => b.toNat * 256 ^ bs.length + beNat bs

/-- read a shortest-form head: (major, argument, rest) -/
def readHead : List UInt8 → Option (Nat × Nat × List UInt8)
  | [] => none
  | b :: rest =>
    let major := b.toNat / 32
    let info := b.toNat % 32
    if info < 24 then some (major, info, rest)
    else
      let k := if info == 24 then 1 else if info == 25 then 2 else if info == 26 then 4 else if info == 27 then 8 else 0
      if k == 0 then none                        -- indefinite lengths and reserved values are rejected
      else if rest.length < k then none
      else
        let arg := beNat (rest.take k)
        -- shortest form only
        let minOk := if k == 1 then 24 ≤ arg else if k == 2 then 2 ^ 8 ≤ arg else if k == 4 then 2 ^ 16 ≤ arg else 2 ^ 32 ≤ arg
        if minOk then some (major, arg, rest.drop k) else none

def bytesToStringOpt (bs : List UInt8) : Option String := String.fromUTF8? (ByteArray.mk bs.toArray)

mutual
/-- decode one item; `fuel` bounds the nesting / number of items: an array level costs two units (one
for the item, one per element position), so twice the input length suffices -/
def decodeItem : Nat → List UInt8 → Option (Cbor × List UInt8)
  | 0, _ => none
  | fuel + 1, bs =>
    match readHead bs with
    | none => none
    | some (major, arg, rest) =>
      if major == 0 then some (.uint arg, rest)
      else if major == 1 then some (.nint arg, rest)
      else if major == 2 then
        if rest.length < arg then none else some (.bytes (rest.take arg), rest.drop arg)
      else if major == 3 then
        if rest.length < arg then none else
        match bytesToStringOpt (rest.take arg) with
        | some s => some (.text s, rest.drop arg)
        | none => none
      else if major == 4 then
        if rest.length < arg then none else        -- every item takes at least one byte
        match decodeItems fuel arg rest with
        | some (xs, rest') => some (.arr xs, rest')
        | none => none
      else if major == 6 then
        match decodeItem fuel rest with
        | some (v, rest') => some (.tag arg v, rest')
        | none => none
      else if major == 7 then
        if arg == 20 || arg == 21 || arg == 22 then some (.simple arg, rest) else none
      else none                                     -- maps (major type 5) are not used by CCF
def decodeItems : Nat → Nat → List UInt8 → Option (List Cbor × List UInt8)
  | _, 0, bs => some ([], bs)
  | 0, _ + 1, _ => none
  | fuel + 1, n + 1, bs =>
    match decodeItem fuel bs with
    | none => none
    | some (x, rest) =>
      match decodeItems fuel n rest with
      | some (xs, rest') => some (x :: xs, rest')
      | none => none
end

/-- decode a complete message: exactly one item, no trailing bytes -/
def decode (bs : List UInt8) : Option Cbor :=
  match decodeItem (2 * bs.length + 1) bs with
  | some (x, []) => some x
  | _ => none

/-! ### well-formed items: what the encoder emits (arguments below 2^64, the three simple values) -/

mutual
/-- every head argument fits 64 bits and every simple value is false / true / null -/
def wf : Cbor → Bool
  | .uint n => decide (n < 2 ^ 64)
  | .nint n => decide (n < 2 ^ 64)
  | .bytes bs => decide (bs.length < 2 ^ 64)
  | .text s => decide (s.toUTF8.data.toList.length < 2 ^ 64)
  | .arr xs => decide (xs.length < 2 ^ 64) && wfList xs
  | .tag t v => decide (t < 2 ^ 64) && wf v
  | .simple n => n == 20 || n == 21 || n == 22
def wfList : List Cbor → Bool
  | [] => true
  | x :: xs => wf x && wfList xs
end

mutual
/-- fuel that `decodeItem` needs for the encoding of an item -/
def need : Cbor → Nat
  | .arr xs => needList xs + 1
  | .tag _ v => need v + 1
  | _ => 1
def needList : List Cbor → Nat
  | [] => 0
  | x :: xs => max (need x) (needList xs) + 1
end

end Cbor
end Verif.Model.Codec
