import Verif.Model.Codec.CValue
/-
S-expression reader and printer for the external value / type algebra; the format is documented in
harness/internal/cval/print.go (the Go printer of the same format).  Used by the drivers only
(part of the correspondence harness, not of the model).  Core Lean only.
-/
namespace Verif.Model.Codec

inductive Sx where
  | atom (s : String)
  | str (s : String)
  | list (xs : List Sx)
  deriving Inhabited

namespace Sx

def hexVal (c : Char) : Option Nat :=
  if '0' ≤ c ∧ c ≤ '9' then some (c.toNat - '0'.toNat)
  else if 'a' ≤ c ∧ c ≤ 'f' then some (c.toNat - 'a'.toNat + 10)
  else if 'A' ≤ c ∧ c ≤ 'F' then some (c.toNat - 'A'.toNat + 10)
  else none

def unhex : List Char → List UInt8 → Option (List UInt8)
  | [], acc => some acc.reverse
  | [_], _ => none
  | a :: b :: rest, acc =>
    match hexVal a, hexVal b with
    | some x, some y => unhex rest (UInt8.ofNat (x * 16 + y) :: acc)
    | _, _ => none

def bytesToString (bs : List UInt8) : Option String := String.fromUTF8? (ByteArray.mk bs.toArray)

inductive Tok where
  | lp | rp | atom (s : String) | str (s : String)

def mkAtom (cur : List Char) : Option Tok :=
  match cur.reverse with
  | '#' :: rest =>
    if rest == ['-'] then some (.str "") else
    match unhex rest [] with
    | some bs => (bytesToString bs).map Tok.str
    | none => none
  | cs => some (.atom (String.ofList cs))

/-- tokenizer; `cur`: current atom (reversed); `inStr`: current quoted string (reversed) -/
def tokenize : List Char → List Char → Option (List Char) → List Tok → Option (List Tok)
  | [], cur, none, acc =>
    if cur.isEmpty then some acc.reverse else (mkAtom cur).map fun t => (t :: acc).reverse
  | [], _, some _, _ => none
  | c :: cs, cur, some s, acc =>
    if c == '"' then tokenize cs cur none (Tok.str (String.ofList s.reverse) :: acc)
    else tokenize cs cur (some (c :: s)) acc
  | c :: cs, cur, none, acc =>
    if c == '(' || c == ')' || c == ' ' || c == '"' then
      let flush : Option (List Tok) := if cur.isEmpty then some acc else (mkAtom cur).map (· :: acc)
      match flush with
      | none => none
      | some fl =>
        if c == '(' then tokenize cs [] none (Tok.lp :: fl)
        else if c == ')' then tokenize cs [] none (Tok.rp :: fl)
        else if c == ' ' then tokenize cs [] none fl
        else tokenize cs [] (some []) fl
    else tokenize cs (c :: cur) none acc

def build : List Tok → List (List Sx) → Option Sx
  | [], [[x]] => some x
  | [], _ => none
  | Tok.lp :: ts, st => build ts ([] :: st)
  | Tok.rp :: ts, top :: next :: st => build ts ((Sx.list top.reverse :: next) :: st)
  | Tok.rp :: _, _ => none
  | Tok.atom s :: ts, top :: st => build ts ((Sx.atom s :: top) :: st)
  | Tok.str s :: ts, top :: st => build ts ((Sx.str s :: top) :: st)
  | _ :: _, [] => none

def parse (s : String) : Option Sx := do
  let toks ← tokenize s.toList [] none []
  build toks [[]]

end Sx

/-! ### reading -/

def readCompKind : String → Option CompKind
  | "struct" => some .struct | "resource" => some .resource | "event" => some .event
  | "contract" => some .contract | "enum" => some .enum | "attachment" => some .attachment
  | "sinterface" => some .sinterface | "rinterface" => some .rinterface | "cinterface" => some .cinterface
  | _ => none

def CompKind.name : CompKind → String
  | .struct => "struct" | .resource => "resource" | .event => "event" | .contract => "contract"
  | .enum => "enum" | .attachment => "attachment" | .sinterface => "sinterface"
  | .rinterface => "rinterface" | .cinterface => "cinterface"

def readStrs : List Sx → Option (List String)
  | [] => some []
  | .str s :: r => (s :: ·) <$> readStrs r
  | _ => none

def readAuth : Sx → Option Auth
  | .atom "unauth" => some .unauth
  | .list [.atom "map", .str s] => some (.map s)
  | .list (.atom "conj" :: ids) => Auth.conj <$> readStrs ids
  | .list (.atom "disj" :: ids) => Auth.disj <$> readStrs ids
  | _ => none

mutual
partial def readType : Sx → Option CType
  | .atom "nil" => some .nil
  | .atom s => some (.prim s)
  | .list [.atom "opt", t] => CType.opt <$> readType t
  | .list [.atom "varr", t] => CType.varr <$> readType t
  | .list [.atom "carr", .atom n, t] => CType.carr <$> n.toNat? <*> readType t
  | .list [.atom "dict", k, v] => CType.dict <$> readType k <*> readType v
  | .list [.atom "range", t] => CType.range <$> readType t
  | .list [.atom "cap", t] => CType.cap <$> readType t
  | .list [.atom "ref", a, t] => CType.ref <$> readAuth a <*> readType t
  | .list (.atom "inter" :: ts) => (fun l => CType.inter (Types.ofList l)) <$> ts.mapM readType
  | .list [.atom "rec", .str id] => some (.seen id)
  | .list [.atom "fun", .atom purity, .list (.atom "tps" :: tps), .list (.atom "ps" :: ps), ret] => do
    let tps ← tps.mapM fun
      | .list [.atom "tp", .str n, b] => do some (n, ← readType b)
      | _ => none
    let ps ← readParams ps
    let ret ← readType ret
    some (.func (purity == "view") (TParams.ofList tps) ps ret)
  | .list [.atom "comp", .atom kind, .str id, extra, .list (.atom "fs" :: fs), .list (.atom "is" :: is)] => do
    let kind ← readCompKind kind
    let extra ← readType extra
    let fs ← fs.mapM fun
      | .list [.atom "f", .str n, t] => do some (n, ← readType t)
      | _ => none
    let is ← is.mapM fun
      | .list (.atom "i" :: ps) => readParams ps
      | _ => none
    some (.comp kind id extra (Fields.ofList fs) (Inits.ofList is))
  | _ => none
partial def readParams (ps : List Sx) : Option Params := do
  let l ← ps.mapM fun
    | .list [.atom "p", .str l, .str i, t] => do some (l, i, ← readType t)
    | _ => none
  some (Params.ofList l)
end

def readBytes (s : String) : Option (List UInt8) := Sx.unhex s.toList []

partial def readValue : Sx → Option CValue
  | .atom "nilv" => some .nilv
  | .list [.atom "void"] => some .void
  | .list [.atom "none"] => some .none
  | .list [.atom "some", v] => CValue.some <$> readValue v
  | .list [.atom "bool", .atom b] => some (.bool (b == "true"))
  | .list [.atom "str", .str s] => some (.str s)
  | .list [.atom "char", .str s] => some (.char s)
  | .list [.atom "addr", .atom h] => CValue.addr <$> readBytes h
  | .list [.atom "int", .atom k, .atom n] => CValue.int k <$> n.toInt?
  | .list [.atom "fix", .atom k, .atom n] => CValue.fix k <$> n.toInt?
  | .list (.atom "arr" :: t :: vs) => do
    some (.arr (← readType t) (Values.ofList (← vs.mapM readValue)))
  | .list (.atom "dictv" :: t :: kvs) => do
    let l ← kvs.mapM fun
      | .list [.atom "kv", k, v] => do some ((← readValue k), (← readValue v))
      | _ => none
    some (.dict (← readType t) (Pairs.ofList l))
  | .list (.atom "compv" :: t :: vs) => do
    some (.comp (← readType t) (Values.ofList (← vs.mapM readValue)))
  | .list [.atom "path", .atom d, .str i] => some (.path d i)
  | .list [.atom "capv", .atom id, .atom a, t] => do
    some (.cap (← id.toNat?) (← readBytes a) (← readType t))
  | .list [.atom "type", t] => CValue.type <$> readType t
  | .list [.atom "rangev", t, s, e, p] => do
    some (.range (← readType t) (← readValue s) (← readValue e) (← readValue p))
  | .list [.atom "funv", t] => CValue.func <$> readType t
  | _ => none

def parseValue (s : String) : Option CValue := Sx.parse s >>= readValue
def parseType (s : String) : Option CType := Sx.parse s >>= readType

/-! ### printing (same format as harness/internal/cval/print.go) -/

def hexDigitChar (n : Nat) : Char :=
  if n < 10 then Char.ofNat (n + '0'.toNat) else Char.ofNat (n - 10 + 'a'.toNat)

def hexOfBytes (bs : List UInt8) : String :=
  String.ofList (bs.foldr (fun b acc => hexDigitChar (b.toNat / 16) :: hexDigitChar (b.toNat % 16) :: acc) [])

def showStr (s : String) : String :=
  let plain := s.toList.all fun c => 0x20 ≤ c.toNat && c.toNat ≤ 0x7e && c != '"' && c != '\\'
  if plain then "\"" ++ s ++ "\"" else "#" ++ hexOfBytes s.toUTF8.toList

def sxList (head : String) (items : List String) : String :=
  if items.isEmpty then "(" ++ head ++ ")" else "(" ++ head ++ " " ++ " ".intercalate items ++ ")"

def showAuth : Auth → String
  | .unauth => "unauth"
  | .map id => sxList "map" [showStr id]
  | .conj ids => sxList "conj" (ids.map showStr)
  | .disj ids => sxList "disj" (ids.map showStr)

mutual
def showType : CType → String
  | .nil => "nil"
  | .prim id => id
  | .opt t => sxList "opt" [showType t]
  | .varr t => sxList "varr" [showType t]
  | .carr n t => sxList "carr" [toString n, showType t]
  | .dict k v => sxList "dict" [showType k, showType v]
  | .range t => sxList "range" [showType t]
  | .cap t => sxList "cap" [showType t]
  | .ref a t => sxList "ref" [showAuth a, showType t]
  | .inter ts => sxList "inter" (showTypes ts)
  | .func view tps ps ret =>
    sxList "fun" [if view then "view" else "impure", sxList "tps" (showTParams tps), sxList "ps" (showParams ps), showType ret]
  | .comp kind id extra fs is =>
    sxList "comp" [kind.name, showStr id, showType extra, sxList "fs" (showFields fs), sxList "is" (showInits is)]
  | .seen id => sxList "rec" [showStr id]
def showTypes : Types → List String
  | .nil => [] | .cons t r => showType t :: showTypes r
def showFields : Fields → List String
  | .nil => [] | .cons n t r => sxList "f" [showStr n, showType t] :: showFields r
def showParams : Params → List String
  | .nil => [] | .cons l i t r => sxList "p" [showStr l, showStr i, showType t] :: showParams r
def showInits : Inits → List String
  | .nil => [] | .cons ps r => sxList "i" (showParams ps) :: showInits r
def showTParams : TParams → List String
  | .nil => [] | .cons n b r => sxList "tp" [showStr n, showType b] :: showTParams r
end

mutual
def showValue : CValue → String
  | .nilv => "nilv"
  | .void => "(void)"
  | .none => "(none)"
  | .some v => sxList "some" [showValue v]
  | .bool b => if b then "(bool true)" else "(bool false)"
  | .str s => sxList "str" [showStr s]
  | .char s => sxList "char" [showStr s]
  | .addr bs => sxList "addr" [hexOfBytes bs]
  | .int k n => sxList "int" [k, toString n]
  | .fix k n => sxList "fix" [k, toString n]
  | .arr t vs => sxList "arr" (showType t :: showValues vs)
  | .dict t kvs => sxList "dictv" (showType t :: showPairs kvs)
  | .comp t vs => sxList "compv" (showType t :: showValues vs)
  | .path d i => sxList "path" [d, showStr i]
  | .cap id a t => sxList "capv" [toString id, hexOfBytes a, showType t]
  | .type t => sxList "type" [showType t]
  | .range t s e p => sxList "rangev" [showType t, showValue s, showValue e, showValue p]
  | .func t => sxList "funv" [showType t]
def showValues : Values → List String
  | .nil => [] | .cons v r => showValue v :: showValues r
def showPairs : Pairs → List String
  | .nil => [] | .cons k v r => sxList "kv" [showValue k, showValue v] :: showPairs r
end

end Verif.Model.Codec
