import Verif.Model.Codec.StoredCbor
import Verif.Gen.StoredTags
/-
Model of the storage codec (property C44): port of `interpreter/encode.go`, `interpreter/decode.go`,
`values/encode.go` (+ `value_link.go`, `value_pathcapability.go`, `values/value_{bool,int,ufix64}.go`)
for every storable that is not an atree container: numbers of every kind, strings, characters,
addresses, paths, capabilities, capability controllers, published values, type values, `Some` with
nested levels, the deprecated link / path-capability values, and static types, authorizations and
locations.

Two layers: value ↔ CBOR item (`valItem` / `valOfItem`, `typeItem` / `typeOfItem`) and CBOR item ↔
bytes (`StoredCbor.enc` / `StoredCbor.decode`).  Go decodes with a streaming decoder that validates the
whole top-level item first (`StreamDecoder.prepareNext` → `wellformed`), then walks it; that is what
`decode` followed by `valOfItem` does.

The tag table is a parameter (`Tags`); `genTags` instantiates it with the numbers regenerated from
the current sources (`Verif.Gen.StoredTags`).  Unicode is a parameter too (`Env`): NFC normalisation
(applied by `NewUnmeteredStringValue` / `NewUnmeteredCharacterValue` on decode) and the
one-grapheme-cluster test of `sema.IsValidCharacter`.

Core Lean only.
-/
namespace Verif.Model.Codec.Stored
open Verif.Model.Codec.StoredCbor

/-! ### the value algebra -/

inductive Loc where
  | none
  | address (addr : Nat) (name : Bytes)
  | string (s : Bytes)
  | identifier (s : Bytes)
  | transaction (id : Bytes)
  | script (id : Bytes)
  deriving Repr, DecidableEq, Inhabited

inductive Auth where
  | unauthorized
  | inaccessible
  | entMap (typeID : Bytes)
  /-- `kind`: 0 conjunction, 1 disjunction (`sema.EntitlementSetKind`, a uint8) -/
  | entSet (kind : Nat) (ents : List Bytes)
  deriving Repr, DecidableEq, Inhabited

inductive SType where
  | primitive (code : Nat)
  | optional (t : SType)
  | composite (loc : Loc) (qid : Bytes)
  | interface (loc : Loc) (qid : Bytes)
  | variableSized (t : SType)
  | constantSized (size : Int) (t : SType)
  | dictionary (k v : SType)
  /-- `legacy`: `HasLegacyIsAuthorized` / `LegacyIsAuthorized`, set only by decoding a pre-1.0 encoding -/
  | reference (auth : Auth) (t : SType) (legacy : Option Bool)
  | intersection (types : List (Loc × Bytes))
  | intersectionLegacy (legacyType : SType) (types : List (Loc × Bytes))
  | capability (borrow : SType)
  | capabilityNil
  | inclusiveRange (t : SType)
  deriving Repr, DecidableEq, Inhabited

inductive NumKind where
  | int | int8 | int16 | int32 | int64 | int128 | int256
  | uint | uint8 | uint16 | uint32 | uint64 | uint128 | uint256
  | word8 | word16 | word32 | word64 | word128 | word256
  | fix64 | ufix64
  deriving Repr, DecidableEq, Inhabited

inductive Cap where
  | id (addr : Nat) (id : Nat) (borrow : SType)
  /-- deprecated `PathCapabilityValue` -/
  | path (addr : Nat) (domain : Nat) (ident : Bytes) (borrow : Option SType)
  deriving Repr, DecidableEq, Inhabited

inductive Stored where
  | bool (b : Bool)
  | nil
  /-- `StringAtreeValue` (a bare CBOR text string) -/
  | rawText (s : Bytes)
  /-- `Uint64AtreeValue` (a bare CBOR unsigned integer) -/
  | rawUint (n : Nat)
  | void
  | string (s : Bytes)
  | character (s : Bytes)
  /-- `levels` nested `SomeStorable`s around a non-`Some` storable -/
  | some (levels : Nat) (inner : Stored)
  | address (a : Nat)
  | num (k : NumKind) (v : Int)
  | fix128 (hi lo : Nat)
  | ufix128 (hi lo : Nat)
  | path (domain : Nat) (ident : Bytes)
  | cap (c : Cap)
  | published (recipient : Nat) (c : Cap)
  | typeValue (t : Option SType)
  | storageCapCon (borrow : SType) (id : Nat) (domain : Nat) (ident : Bytes)
  | accountCapCon (borrow : SType) (id : Nat)
  /-- deprecated `PathLinkValue` -/
  | pathLink (domain : Nat) (ident : Bytes) (t : SType)
  /-- deprecated `AccountLinkValue` -/
  | accountLink
  deriving Repr, DecidableEq, Inhabited

/-! ### tag table -/

inductive VKind where
  | void | some | someNested | address | string | character | typeValue
  | num (k : NumKind) | fix128 | ufix128
  | path | capability | published | storageCapCon | accountCapCon | pathCapability | pathLink | accountLink
  deriving Repr, DecidableEq, Inhabited

inductive TKind where
  | primitive | composite | interface | variableSized | constantSized | dictionary | optional
  | reference | intersection | capability | inclusiveRange
  deriving Repr, DecidableEq, Inhabited

inductive AKind where
  | unauthorized | entMap | entSet | inaccessible
  deriving Repr, DecidableEq, Inhabited

inductive LKind where
  | address | string | identifier | transaction | script
  deriving Repr, DecidableEq, Inhabited

def NumKind.all : List NumKind :=
  [.int, .int8, .int16, .int32, .int64, .int128, .int256, .uint, .uint8, .uint16, .uint32, .uint64, .uint128,
   .uint256, .word8, .word16, .word32, .word64, .word128, .word256, .fix64, .ufix64]

def VKind.all : List VKind :=
  [.void, .some, .someNested, .address, .string, .character, .typeValue, .fix128, .ufix128, .path, .capability,
   .published, .storageCapCon, .accountCapCon, .pathCapability, .pathLink, .accountLink] ++ NumKind.all.map .num

def TKind.all : List TKind :=
  [.primitive, .composite, .interface, .variableSized, .constantSized, .dictionary, .optional, .reference,
   .intersection, .capability, .inclusiveRange]

def AKind.all : List AKind := [.unauthorized, .entMap, .entSet, .inaccessible]
def LKind.all : List LKind := [.address, .string, .identifier, .transaction, .script]

structure Tags where
  v : VKind → Nat
  t : TKind → Nat
  a : AKind → Nat
  l : LKind → Nat
  /-- the deprecated primitive code that decodes to `Capability` without a borrow type -/
  primCapability : Nat

def Tags.vkind (T : Tags) (n : Nat) : Option VKind := VKind.all.find? (fun k => T.v k == n)
def Tags.tkind (T : Tags) (n : Nat) : Option TKind := TKind.all.find? (fun k => T.t k == n)
def Tags.akind (T : Tags) (n : Nat) : Option AKind := AKind.all.find? (fun k => T.a k == n)
def Tags.lkind (T : Tags) (n : Nat) : Option LKind := LKind.all.find? (fun k => T.l k == n)

/-- what the decoders need of the table: within each dispatcher the tags are pairwise different,
    every tag fits a CBOR head, and no value tag collides with the bignum tags or atree's range -/
def Tags.ok (T : Tags) : Bool :=
  (VKind.all.map T.v).Nodup && (TKind.all.map T.t).Nodup && (AKind.all.map T.a).Nodup && (LKind.all.map T.l).Nodup &&
  (VKind.all.map T.v).all (fun n => 3 < n && n < 240) && (TKind.all.map T.t).all (· < 2 ^ 64) &&
  (AKind.all.map T.a).all (· < 2 ^ 64) && (LKind.all.map T.l).all (· < 2 ^ 64)

structure Env where
  /-- NFC normalisation of a UTF-8 string -/
  nfc : Bytes → Bytes
  /-- exactly one extended grapheme cluster -/
  isChar : Bytes → Bool

inductive DErr where
  /-- the bytes are not a CBOR item the model covers (see `StoredCbor.CErr`) or not complete -/
  | cbor (e : CErr)
  /-- the Go decoder returns an error -/
  | invalid
  /-- atree's own tags (slab references, inlined containers): outside the model -/
  | unsupported
  /-- the Go decoder panics: `NewCompositeStaticType` / `NewInterfaceStaticType` reject an empty type ID
      (no location and an empty qualified identifier) with `panic(errors.NewUnreachableError())` -/
  | goPanic
  deriving Repr, DecidableEq, Inhabited

@[inline] def bnd {α β : Type} (x : Except DErr α) (f : α → Except DErr β) : Except DErr β :=
  match x with
  | .ok a => f a
  | .error e => .error e

/-! ### numbers -/

inductive NumClass where
  /-- CBOR integer via `EncodeIntN` / `DecodeInt64`, then a range check -/
  | sint (lo hi : Int)
  /-- CBOR unsigned integer via `EncodeUintN` / `DecodeUint64`, then a range check -/
  | uint (hi : Nat)
  /-- bignum via `EncodeBigInt` / `DecodeBigInt`, then optional range checks -/
  | big (lo hi : Option Int)

def NumKind.cls : NumKind → NumClass
  | .int => .big none none
  | .int8 => .sint (-(2 ^ 7)) (2 ^ 7 - 1)
  | .int16 => .sint (-(2 ^ 15)) (2 ^ 15 - 1)
  | .int32 => .sint (-(2 ^ 31)) (2 ^ 31 - 1)
  | .int64 => .sint (-(2 ^ 63)) (2 ^ 63 - 1)
  | .int128 => .big (some (-(2 ^ 127))) (some (2 ^ 127 - 1))
  | .int256 => .big (some (-(2 ^ 255))) (some (2 ^ 255 - 1))
  | .uint => .big (some 0) none
  | .uint8 => .uint (2 ^ 8 - 1)
  | .uint16 => .uint (2 ^ 16 - 1)
  | .uint32 => .uint (2 ^ 32 - 1)
  | .uint64 => .uint (2 ^ 64 - 1)
  | .uint128 => .big (some 0) (some (2 ^ 128 - 1))
  | .uint256 => .big (some 0) (some (2 ^ 256 - 1))
  | .word8 => .uint (2 ^ 8 - 1)
  | .word16 => .uint (2 ^ 16 - 1)
  | .word32 => .uint (2 ^ 32 - 1)
  | .word64 => .uint (2 ^ 64 - 1)
  | .word128 => .big (some 0) (some (2 ^ 128 - 1))
  | .word256 => .big (some 0) (some (2 ^ 256 - 1))
  | .fix64 => .sint (-(2 ^ 63)) (2 ^ 63 - 1)
  | .ufix64 => .uint (2 ^ 64 - 1)

def geOpt (v : Int) : Option Int → Bool
  | none => true
  | some lo => decide (lo ≤ v)
def leOpt (v : Int) : Option Int → Bool
  | none => true
  | some hi => decide (v ≤ hi)

def NumClass.inRange (c : NumClass) (v : Int) : Bool :=
  match c with
  | .sint lo hi => decide (lo ≤ v) && decide (v ≤ hi)
  | .uint hi => decide (0 ≤ v) && decide (v ≤ (hi : Int))
  | .big lo hi => geOpt v lo && leOpt v hi

/-- `EncodeInt64` and friends: the shortest CBOR integer -/
def intItem (v : Int) : Item := if 0 ≤ v then .uint v.toNat else .nint (-v - 1).toNat

/-- `EncodeBigInt` with `BigIntConvertNone`: tag 2 / 3 over the minimal big-endian magnitude -/
def bigItem (v : Int) : Item :=
  if 0 ≤ v then .tag 2 (.bytes (natBytes v.toNat)) else .tag 3 (.bytes (natBytes (-v - 1).toNat))

def numItem (c : NumClass) (v : Int) : Item :=
  match c with
  | .sint _ _ => intItem v
  | .uint _ => intItem v
  | .big _ _ => bigItem v

/-- `DecodeInt64`: unsigned or negative integer whose argument fits an int64 -/
def int64OfItem : Item → Except DErr Int
  | .uint n => if n < 2 ^ 63 then .ok (n : Int) else .error .invalid
  | .nint n => if n < 2 ^ 63 then .ok (-(n : Int) - 1) else .error .invalid
  | _ => .error .invalid

/-- `DecodeBigInt`: first byte 0xc2 / 0xc3, then a definite byte string (leading zeros allowed) -/
def bigOfItem : Item → Except DErr Int
  | .tag 2 (.bytes b) => .ok (beNat b : Int)
  | .tag 3 (.bytes b) => .ok (-(beNat b : Int) - 1)
  | _ => .error .invalid

def numOfItem (c : NumClass) (x : Item) : Except DErr Int :=
  match c with
  | .sint _ _ => bnd (int64OfItem x) fun v => if c.inRange v then .ok v else .error .invalid
  | .uint _ =>
    match x with
    | .uint n => if c.inRange (n : Int) then .ok (n : Int) else .error .invalid
    | _ => .error .invalid
  | .big _ _ => bnd (bigOfItem x) fun v => if c.inRange v then .ok v else .error .invalid

/-! ### locations, authorizations, static types -/

def nilItem : Item := .simple 22

/-- `decodeString` / `DecodeString`: a text string that is valid UTF-8 -/
def textOfItem : Item → Except DErr Bytes
  | .text s => if validUtf8 s then .ok s else .error .invalid
  | _ => .error .invalid

/-- `decodeAddressBytes`: a byte string of at most 8 bytes, left-padded (`BytesToAddress`) -/
def addrBytesOfItem : Item → Except DErr Nat
  | .bytes b => if b.length ≤ 8 then .ok (beNat b) else .error .invalid
  | _ => .error .invalid

/-- `copy(location[:], identifier)`: 32 bytes, zero-padded / truncated on the right -/
def fit32 (b : Bytes) : Bytes := (b ++ List.replicate 32 0).take 32

def locItem (T : Tags) : Loc → Item
  | .none => nilItem
  | .address a name => .tag (T.l .address) (.array [.bytes (natBytes a), .text name])
  | .string s => .tag (T.l .string) (.text s)
  | .identifier s => .tag (T.l .identifier) (.text s)
  | .transaction b => .tag (T.l .transaction) (.bytes b)
  | .script b => .tag (T.l .script) (.bytes b)

def locOfItem (T : Tags) : Item → Except DErr Loc
  | .simple 22 => .ok .none
  | .tag n x =>
    match T.lkind n with
    | some .address =>
      (match x with
       | .array [a, nm] => bnd (addrBytesOfItem a) fun a => bnd (textOfItem nm) fun nm => .ok (.address a nm)
       | _ => .error .invalid)
    | some .string => bnd (textOfItem x) fun s => .ok (.string s)
    | some .identifier => bnd (textOfItem x) fun s => .ok (.identifier s)
    | some .transaction => (match x with | .bytes b => .ok (.transaction (fit32 b)) | _ => .error .invalid)
    | some .script => (match x with | .bytes b => .ok (.script (fit32 b)) | _ => .error .invalid)
    | none => .error .invalid
  | _ => .error .invalid

def authItem (T : Tags) : Auth → Item
  | .unauthorized => .tag (T.a .unauthorized) nilItem
  | .inaccessible => .tag (T.a .inaccessible) nilItem
  | .entMap id => .tag (T.a .entMap) (.text id)
  | .entSet kind ents => .tag (T.a .entSet) (.array [.uint kind, .array (ents.map .text)])

def textsOfItems : List Item → Except DErr (List Bytes)
  | [] => .ok []
  | x :: xs => bnd (textOfItem x) fun s => bnd (textsOfItems xs) fun ss => .ok (s :: ss)

/-- an ordered set built by successive `Set`: first occurrences, in order -/
def dedup : List Bytes → List Bytes
  | [] => []
  | x :: xs => x :: (dedup xs).filter (· != x)

def authOfItem (T : Tags) : Item → Except DErr Auth
  | .tag n x =>
    match T.akind n with
    | some .unauthorized => (match x with | .simple 22 => .ok .unauthorized | _ => .error .invalid)
    | some .inaccessible => (match x with | .simple 22 => .ok .inaccessible | _ => .error .invalid)
    | some .entMap => bnd (textOfItem x) fun s => .ok (.entMap s)
    | some .entSet =>
      (match x with
       | .array [.uint kind, .array ents] => bnd (textsOfItems ents) fun ss => .ok (.entSet (kind % 256) (dedup ss))
       | _ => .error .invalid)
    | none => .error .invalid
  | _ => .error .invalid

/-- `NewTypeIDFromQualifiedName` yields the empty type ID -/
def emptyTypeID (l : Loc) (q : Bytes) : Bool := l == .none && q.isEmpty

def ifaceItem (T : Tags) (p : Loc × Bytes) : Item := .tag (T.t .interface) (.array [locItem T p.1, .text p.2])

def ifaceOfItem (T : Tags) : Item → Except DErr (Loc × Bytes)
  | .tag n (.array [l, q]) =>
    if T.tkind n = some .interface then
      bnd (locOfItem T l) fun l => bnd (textOfItem q) fun q => if emptyTypeID l q then .error .goPanic else .ok (l, q)
    else .error .invalid
  | _ => .error .invalid

def ifacesOfItems (T : Tags) : List Item → Except DErr (List (Loc × Bytes))
  | [] => .ok []
  | x :: xs => bnd (ifaceOfItem T x) fun p => bnd (ifacesOfItems T xs) fun ps => .ok (p :: ps)

def typeItem (T : Tags) : SType → Item
  | .primitive c => .tag (T.t .primitive) (.uint c)
  | .optional t => .tag (T.t .optional) (typeItem T t)
  | .composite loc q => .tag (T.t .composite) (.array [locItem T loc, .text q])
  | .interface loc q => ifaceItem T (loc, q)
  | .variableSized t => .tag (T.t .variableSized) (typeItem T t)
  | .constantSized n t => .tag (T.t .constantSized) (.array [intItem n, typeItem T t])
  | .dictionary k v => .tag (T.t .dictionary) (.array [typeItem T k, typeItem T v])
  | .reference a t _ => .tag (T.t .reference) (.array [authItem T a, typeItem T t])
  | .intersection tys => .tag (T.t .intersection) (.array [nilItem, .array (tys.map (ifaceItem T))])
  | .intersectionLegacy l tys => .tag (T.t .intersection) (.array [typeItem T l, .array (tys.map (ifaceItem T))])
  | .capability t => .tag (T.t .capability) (typeItem T t)
  | .capabilityNil => .tag (T.t .capability) nilItem
  | .inclusiveRange t => .tag (T.t .inclusiveRange) (typeItem T t)

/-- `TypeDecoder.DecodeStaticType` -/
def typeOfItem (T : Tags) : Item → Except DErr SType
  | .tag n x =>
    match T.tkind n with
    | some .primitive =>
      (match x with
       | .uint c => if c = T.primCapability then .ok .capabilityNil else .ok (.primitive c)
       | _ => .error .invalid)
    | some .optional => bnd (typeOfItem T x) fun t => .ok (.optional t)
    | some .composite =>
      (match x with
       | .array [l, q] =>
         bnd (locOfItem T l) fun l => bnd (textOfItem q) fun q =>
           if emptyTypeID l q then .error .goPanic else .ok (.composite l q)
       | _ => .error .invalid)
    | some .interface => bnd (ifaceOfItem T (.tag n x)) fun p => .ok (.interface p.1 p.2)
    | some .variableSized => bnd (typeOfItem T x) fun t => .ok (.variableSized t)
    | some .constantSized =>
      (match x with
       | .array [.uint size, t] =>
         if size < 2 ^ 63 then bnd (typeOfItem T t) fun t => .ok (.constantSized (size : Int) t) else .error .invalid
       | _ => .error .invalid)
    | some .dictionary =>
      (match x with
       | .array [k, v] => bnd (typeOfItem T k) fun k => bnd (typeOfItem T v) fun v => .ok (.dictionary k v)
       | _ => .error .invalid)
    | some .reference =>
      (match x with
       | .array [.simple 20, t] => bnd (typeOfItem T t) fun t => .ok (.reference .unauthorized t (some false))
       | .array [.simple 21, t] => bnd (typeOfItem T t) fun t => .ok (.reference .unauthorized t (some true))
       | .array [a, t] => bnd (authOfItem T a) fun a => bnd (typeOfItem T t) fun t => .ok (.reference a t none)
       | _ => .error .invalid)
    | some .intersection =>
      (match x with
       | .array [.simple 22, .array tys] => bnd (ifacesOfItems T tys) fun tys => .ok (.intersection tys)
       | .array [l, .array tys] =>
         bnd (typeOfItem T l) fun l => bnd (ifacesOfItems T tys) fun tys => .ok (.intersectionLegacy l tys)
       | _ => .error .invalid)
    | some .capability =>
      (match x with
       | .simple 22 => .ok .capabilityNil
       | _ => bnd (typeOfItem T x) fun t => .ok (.capability t))
    | some .inclusiveRange => bnd (typeOfItem T x) fun t => .ok (.inclusiveRange t)
    | none => .error .invalid
  | _ => .error .invalid

/-! ### storable values -/

def addrItem (T : Tags) (a : Nat) : Item := .tag (T.v .address) (.bytes (natBytes a))

def addrOfItem (T : Tags) : Item → Except DErr Nat
  | .tag n x => if T.vkind n = some .address then addrBytesOfItem x else .error .invalid
  | _ => .error .invalid

def pathItem (T : Tags) (domain : Nat) (ident : Bytes) : Item :=
  .tag (T.v .path) (.array [.uint domain, .text ident])

/-- `decodePath` on the tag content; the domain is converted to `common.PathDomain` (a uint8) -/
def pathContent : Item → Except DErr (Nat × Bytes)
  | .array [.uint d, i] => bnd (textOfItem i) fun i => .ok (d % 256, i)
  | _ => .error .invalid

def pathOfItem (T : Tags) : Item → Except DErr (Nat × Bytes)
  | .tag n x => if T.vkind n = some .path then pathContent x else .error .invalid
  | _ => .error .invalid

def optTypeItem (T : Tags) : Option SType → Item
  | none => nilItem
  | some t => typeItem T t

def optTypeOfItem (T : Tags) : Item → Except DErr (Option SType)
  | .simple 22 => .ok none
  | x => bnd (typeOfItem T x) fun t => .ok (some t)

def capItem (T : Tags) : Cap → Item
  | .id addr id borrow => .tag (T.v .capability) (.array [addrItem T addr, .uint id, typeItem T borrow])
  | .path addr d i borrow =>
    .tag (T.v .pathCapability) (.array [addrItem T addr, pathItem T d i, optTypeItem T borrow])

def capContent (T : Tags) : Item → Except DErr Cap
  | .array [a, .uint id, b] => bnd (addrOfItem T a) fun a => bnd (typeOfItem T b) fun b => .ok (.id a id b)
  | _ => .error .invalid

def pathCapContent (T : Tags) : Item → Except DErr Cap
  | .array [a, p, b] =>
    bnd (addrOfItem T a) fun a => bnd (pathOfItem T p) fun p => bnd (optTypeOfItem T b) fun b => .ok (.path a p.1 p.2 b)
  | _ => .error .invalid

/-- a storable that is a `CapabilityValue` -/
def capOfItem (T : Tags) : Item → Except DErr Cap
  | .tag n x =>
    match T.vkind n with
    | some .capability => capContent T x
    | some .pathCapability => pathCapContent T x
    | _ => .error .invalid
  | _ => .error .invalid

def isReference : SType → Bool
  | .reference _ _ _ => true
  | _ => false

def valItem (T : Tags) : Stored → Item
  | .bool b => .simple (if b then 21 else 20)
  | .nil => nilItem
  | .rawText s => .text s
  | .rawUint n => .uint n
  | .void => .tag (T.v .void) nilItem
  | .string s => .tag (T.v .string) (.text s)
  | .character s => .tag (T.v .character) (.text s)
  | .some levels inner =>
    if levels = 1 then .tag (T.v .some) (valItem T inner)
    else .tag (T.v .someNested) (.array [.uint levels, valItem T inner])
  | .address a => addrItem T a
  | .num k v => .tag (T.v (.num k)) (numItem k.cls v)
  | .fix128 hi lo => .tag (T.v .fix128) (.array [.uint hi, .uint lo])
  | .ufix128 hi lo => .tag (T.v .ufix128) (.array [.uint hi, .uint lo])
  | .path d i => pathItem T d i
  | .cap c => capItem T c
  | .published r c => .tag (T.v .published) (.array [addrItem T r, capItem T c])
  | .typeValue t => .tag (T.v .typeValue) (.array [optTypeItem T t])
  | .storageCapCon b id d i => .tag (T.v .storageCapCon) (.array [typeItem T b, .uint id, pathItem T d i])
  | .accountCapCon b id => .tag (T.v .accountCapCon) (.array [typeItem T b, .uint id])
  | .pathLink d i t => .tag (T.v .pathLink) (.array [pathItem T d i, typeItem T t])
  | .accountLink => .tag (T.v .accountLink) nilItem

/-- wrap `levels` more `Some`s around a decoded storable -/
def wrapSome (levels : Nat) : Stored → Stored
  | .some l inner => .some (levels + l) inner
  | v => .some levels v

/-- `StorableDecoder.decodeStorable` -/
def valOfItem (T : Tags) (E : Env) : Item → Except DErr Stored
  | .simple 20 => .ok (.bool false)
  | .simple 21 => .ok (.bool true)
  | .simple 22 => .ok .nil
  | .simple _ => .error .invalid
  | .text s => if validUtf8 s then .ok (.rawText s) else .error .invalid
  | .uint n => .ok (.rawUint n)
  | .nint _ => .error .invalid
  | .bytes _ => .error .invalid
  | .array _ => .error .invalid
  | .tag n x =>
    if 240 ≤ n then .error .unsupported else
    match T.vkind n with
    | none => .error .invalid
    | some .void => .ok .void
    | some .string => bnd (textOfItem x) fun s => .ok (.string (E.nfc s))
    | some .character =>
      bnd (textOfItem x) fun s => if E.isChar s then .ok (.character (E.nfc s)) else .error .invalid
    | some .some => bnd (valOfItem T E x) fun v => .ok (wrapSome 1 v)
    | some .someNested =>
      (match x with
       | .array [.uint levels, inner] =>
         if levels ≤ 1 then .error .invalid else bnd (valOfItem T E inner) fun v => .ok (wrapSome levels v)
       | _ => .error .invalid)
    | some .address => bnd (addrBytesOfItem x) fun a => .ok (.address a)
    | some (.num k) => bnd (numOfItem k.cls x) fun v => .ok (.num k v)
    | some .fix128 => (match x with | .array [.uint hi, .uint lo] => .ok (.fix128 hi lo) | _ => .error .invalid)
    | some .ufix128 => (match x with | .array [.uint hi, .uint lo] => .ok (.ufix128 hi lo) | _ => .error .invalid)
    | some .path => bnd (pathContent x) fun p => .ok (.path p.1 p.2)
    | some .capability => bnd (capContent T x) fun c => .ok (.cap c)
    | some .pathCapability => bnd (pathCapContent T x) fun c => .ok (.cap c)
    | some .published =>
      (match x with
       | .array [r, c] => bnd (addrOfItem T r) fun r => bnd (capOfItem T c) fun c => .ok (.published r c)
       | _ => .error .invalid)
    | some .typeValue =>
      (match x with
       | .array [t] => bnd (optTypeOfItem T t) fun t => .ok (.typeValue t)
       | _ => .error .invalid)
    | some .storageCapCon =>
      (match x with
       | .array [b, .uint id, p] =>
         bnd (typeOfItem T b) fun b =>
           if isReference b then bnd (pathOfItem T p) fun p => .ok (.storageCapCon b id p.1 p.2) else .error .invalid
       | _ => .error .invalid)
    | some .accountCapCon =>
      (match x with
       | .array [b, .uint id] =>
         bnd (typeOfItem T b) fun b => if isReference b then .ok (.accountCapCon b id) else .error .invalid
       | _ => .error .invalid)
    | some .pathLink =>
      (match x with
       | .array [p, t] => bnd (pathOfItem T p) fun p => bnd (typeOfItem T t) fun t => .ok (.pathLink p.1 p.2 t)
       | _ => .error .invalid)
    | some .accountLink => .ok .accountLink

/-! ### the values the encoder is applied to (well-formedness)

These are the invariants of the Go value types: fixed-width fields fit their width, strings are
valid UTF-8 (and NFC-normalised where the constructor normalises), entitlement sets are sets, hashes
have 32 bytes, a `Some` chain ends in a non-`Some`, numbers are in the range of their type.  The
round-trip theorems are stated for well-formed values. -/

def textOk (s : Bytes) : Bool := validUtf8 s && decide (s.length < 2 ^ 64)

def Loc.wf : Loc → Bool
  | .none => true
  | .address a name => decide (a < 2 ^ 64) && textOk name
  | .string s => textOk s
  | .identifier s => textOk s
  | .transaction b => b.length == 32
  | .script b => b.length == 32

def Auth.wf : Auth → Bool
  | .unauthorized => true
  | .inaccessible => true
  | .entMap id => textOk id
  | .entSet kind ents => decide (kind < 256) && ents.all textOk && decide ents.Nodup && decide (ents.length < 2 ^ 64)

def ifaceWf (p : Loc × Bytes) : Bool := p.1.wf && textOk p.2 && !emptyTypeID p.1 p.2

def SType.wf (T : Tags) : SType → Bool
  | .primitive c => decide (c < 2 ^ 64) && c != T.primCapability
  | .optional t => t.wf T
  | .composite loc q => loc.wf && textOk q && !emptyTypeID loc q
  | .interface loc q => ifaceWf (loc, q)
  | .variableSized t => t.wf T
  | .constantSized n t => decide (0 ≤ n) && decide (n < 2 ^ 63) && t.wf T
  | .dictionary k v => k.wf T && v.wf T
  | .reference a t legacy => a.wf && t.wf T && legacy.isNone
  | .intersection tys => tys.all ifaceWf && decide (tys.length < 2 ^ 64)
  | .intersectionLegacy l tys => l.wf T && tys.all ifaceWf && decide (tys.length < 2 ^ 64)
  | .capability t => t.wf T
  | .capabilityNil => true
  | .inclusiveRange t => t.wf T

def optTypeWf (T : Tags) : Option SType → Bool
  | none => true
  | some t => t.wf T

def Cap.wf (T : Tags) : Cap → Bool
  | .id addr cid borrow => decide (addr < 2 ^ 64) && decide (cid < 2 ^ 64) && borrow.wf T
  | .path addr d i borrow => decide (addr < 2 ^ 64) && decide (d < 256) && textOk i && optTypeWf T borrow

def Stored.isSome : Stored → Bool
  | .some _ _ => true
  | _ => false

/-- magnitude bytes of a bignum fit a CBOR byte-string head -/
def bigOk (v : Int) : Bool :=
  if 0 ≤ v then decide ((natBytes v.toNat).length < 2 ^ 64) else decide ((natBytes (-v - 1).toNat).length < 2 ^ 64)

def Stored.wf (T : Tags) (E : Env) : Stored → Bool
  | .bool _ => true
  | .nil => true
  | .rawText s => textOk s
  | .rawUint n => decide (n < 2 ^ 64)
  | .void => true
  | .string s => textOk s && E.nfc s == s
  | .character s => textOk s && E.isChar s && E.nfc s == s
  | .some levels inner => decide (1 ≤ levels) && decide (levels < 2 ^ 64) && !inner.isSome && inner.wf T E
  | .address a => decide (a < 2 ^ 64)
  | .num k v => k.cls.inRange v && bigOk v
  | .fix128 hi lo => decide (hi < 2 ^ 64) && decide (lo < 2 ^ 64)
  | .ufix128 hi lo => decide (hi < 2 ^ 64) && decide (lo < 2 ^ 64)
  | .path d i => decide (d < 256) && textOk i
  | .cap c => c.wf T
  | .published r c => decide (r < 2 ^ 64) && c.wf T
  | .typeValue t => optTypeWf T t
  | .storageCapCon b id d i => b.wf T && isReference b && decide (id < 2 ^ 64) && decide (d < 256) && textOk i
  | .accountCapCon b id => b.wf T && isReference b && decide (id < 2 ^ 64)
  | .pathLink d i t => decide (d < 256) && textOk i && t.wf T
  | .accountLink => true

/-! ### bytes -/

/-- `storable.Encode` into a fresh encoder -/
def encodeStored (T : Tags) (v : Stored) : Bytes := enc (valItem T v)

/-- `DecodeStorable` on a byte stream decoder: the decoded storable and the unread rest -/
def decodeStored (T : Tags) (E : Env) (bs : Bytes) : Except DErr (Stored × Bytes) :=
  match decode bs with
  | .error e => .error (.cbor e)
  | .ok (i, rest) => bnd (valOfItem T E i) fun v => .ok (v, rest)

/-- `StaticTypeToBytes` -/
def encodeType (T : Tags) (t : SType) : Bytes := enc (typeItem T t)

/-- `StaticTypeFromBytes` -/
def decodeType (T : Tags) (bs : Bytes) : Except DErr (SType × Bytes) :=
  match decode bs with
  | .error e => .error (.cbor e)
  | .ok (i, rest) => bnd (typeOfItem T i) fun t => .ok (t, rest)

/-! ### the tag table of the current sources -/

open Verif.Gen.StoredTags in
def genTags : Tags where
  v
    | .void => tag_VoidValue | .some => tag_SomeValue | .someNested => tag_SomeValueWithNestedLevels
    | .address => tag_AddressValue | .string => tag_StringValue | .character => tag_CharacterValue
    | .typeValue => tag_TypeValue
    | .num .int => tag_IntValue | .num .int8 => tag_Int8Value | .num .int16 => tag_Int16Value
    | .num .int32 => tag_Int32Value | .num .int64 => tag_Int64Value | .num .int128 => tag_Int128Value
    | .num .int256 => tag_Int256Value
    | .num .uint => tag_UIntValue | .num .uint8 => tag_UInt8Value | .num .uint16 => tag_UInt16Value
    | .num .uint32 => tag_UInt32Value | .num .uint64 => tag_UInt64Value | .num .uint128 => tag_UInt128Value
    | .num .uint256 => tag_UInt256Value
    | .num .word8 => tag_Word8Value | .num .word16 => tag_Word16Value | .num .word32 => tag_Word32Value
    | .num .word64 => tag_Word64Value | .num .word128 => tag_Word128Value | .num .word256 => tag_Word256Value
    | .num .fix64 => tag_Fix64Value | .num .ufix64 => tag_UFix64Value
    | .fix128 => tag_Fix128Value | .ufix128 => tag_UFix128Value
    | .path => tag_PathValue | .capability => tag_CapabilityValue | .published => tag_PublishedValue
    | .storageCapCon => tag_StorageCapabilityControllerValue
    | .accountCapCon => tag_AccountCapabilityControllerValue
    | .pathCapability => tag_PathCapabilityValue | .pathLink => tag_PathLinkValue
    | .accountLink => tag_AccountLinkValue
  t
    | .primitive => tag_PrimitiveStaticType | .composite => tag_CompositeStaticType
    | .interface => tag_InterfaceStaticType | .variableSized => tag_VariableSizedStaticType
    | .constantSized => tag_ConstantSizedStaticType | .dictionary => tag_DictionaryStaticType
    | .optional => tag_OptionalStaticType | .reference => tag_ReferenceStaticType
    | .intersection => tag_IntersectionStaticType | .capability => tag_CapabilityStaticType
    | .inclusiveRange => tag_InclusiveRangeStaticType
  a
    | .unauthorized => tag_UnauthorizedStaticAuthorization | .entMap => tag_EntitlementMapStaticAuthorization
    | .entSet => tag_EntitlementSetStaticAuthorization | .inaccessible => tag_InaccessibleStaticAuthorization
  l
    | .address => tag_AddressLocation | .string => tag_StringLocation | .identifier => tag_IdentifierLocation
    | .transaction => tag_TransactionLocation | .script => tag_ScriptLocation
  primCapability := prim_Capability

end Verif.Model.Codec.Stored
