/-
Types shared by the regenerated instruction table (`Verif.Gen.Instr`) and the instruction codec model.
-/
namespace Verif.Model.Instr

/-- how an operand is encoded (one per `emit*` / `decode*` function pair of bbq/opcode/instruction.go) -/
inductive Kind where
  | bool            -- emitBool / decodeBool: one byte, 1 = true
  | u16             -- emitUint16 / decodeUint16: two bytes, big endian
  | u16s            -- emitUint16Array / decodeUint16Array: uint16 count, then the elements
  | pathDomain      -- emitPathDomain / decodePathDomain: one byte
  | compositeKind   -- emitCompositeKind / decodeCompositeKind: uint16(kind)
  | upvalues        -- emitUpvalueArray / decodeUpvalueArray: uint16 count, then (uint16, bool) each
  deriving DecidableEq, Repr

structure OperandSpec where
  name : String        -- operand name of instructions.yml
  yamlType : String    -- operand type of instructions.yml
  kind : Kind          -- from the emit* call in the generated `Encode` method
  deriving DecidableEq, Repr

structure InstrSpec where
  name : String                 -- Go name (opcode constant, `Instruction<Name>` struct)
  opcode : Nat                  -- value of the opcode constant in the running code
  operands : List OperandSpec
  deriving DecidableEq, Repr

/-- the operand kind the code generator (bbq/opcode/gen) assigns to an operand type of the YAML file -/
def kindOfYamlType : String → Option Kind
  | "bool" => some .bool
  | "localIndex" | "globalIndex" | "typeIndex" | "constantIndex" | "functionIndex"
  | "upvalueIndex" | "offset" | "size" => some .u16
  | "typeIndices" => some .u16s
  | "pathDomain" => some .pathDomain
  | "compositeKind" => some .compositeKind
  | "upvalues" => some .upvalues
  | _ => none

def emitFnOfKind : Kind → String
  | .bool => "emitBool" | .u16 => "emitUint16" | .u16s => "emitUint16Array"
  | .pathDomain => "emitPathDomain" | .compositeKind => "emitCompositeKind" | .upvalues => "emitUpvalueArray"

def decodeFnOfKind : Kind → String
  | .bool => "decodeBool" | .u16 => "decodeUint16" | .u16s => "decodeUint16Array"
  | .pathDomain => "decodePathDomain" | .compositeKind => "decodeCompositeKind" | .upvalues => "decodeUpvalueArray"

/-- Go field name of an operand (`firstUpper` of the code generator) -/
def firstUpper (s : String) : String :=
  match s.toList with
  | [] => ""
  | c :: cs => String.ofList (c.toUpper :: cs)

end Verif.Model.Instr
