/-
The external value / type algebra of /repo (`cadence.Value`, `cadence.Type`, files values.go and
types.go) as used by the codec properties C41 (JSON-Cadence), C42 (CCF), C43 (both).  Core Lean only.

A Go type graph is represented as a tree: a composite / interface type that occurs again inside the
same type tree (the same Go pointer: a repeated or a recursive occurrence) is the node `seen id` (S-expression `(rec id)`)
(by type ID).  The printer of the harness (harness/internal/cval/print.go) marks exactly the
occurrences that `json.PrepareType` finds in its `results` table and that the CCF type-value encoder
finds in its `visited` table.

Composite and interface types are identified by their type ID string; the decomposition of a type ID
into location and qualified identifier (`common.DecodeTypeID`) belongs to property C45.
-/
namespace Verif.Model.Codec

inductive CompKind where
  | struct | resource | event | contract | enum | attachment | sinterface | rinterface | cinterface
  deriving DecidableEq, Repr, Inhabited

def CompKind.isInterface : CompKind → Bool
  | .sinterface | .rinterface | .cinterface => true
  | _ => false

/-- `cadence.Authorization` -/
inductive Auth where
  | unauth
  | map (id : String)
  | conj (ids : List String)
  | disj (ids : List String)
  deriving DecidableEq, Repr, Inhabited

mutual
/-- `cadence.Type`; `nil` is Go's nil type (an untyped array, a capability without borrow type, …). -/
inductive CType where
  | nil
  | prim (id : String)                       -- cadence.PrimitiveType by type ID, and `Bytes`
  | opt (t : CType)
  | varr (t : CType)
  | carr (n : Nat) (t : CType)
  | dict (k v : CType)
  | range (t : CType)
  | cap (t : CType)
  | ref (a : Auth) (t : CType)
  | inter (ts : Types)
  | func (view : Bool) (tps : TParams) (ps : Params) (ret : CType)
  | comp (kind : CompKind) (id : String) (extra : CType) (fields : Fields) (inits : Inits)
  | seen (id : String)                       -- printed as (rec id)
/-- a list of types -/
inductive Types where
  | nil | cons (t : CType) (rest : Types)
/-- declared fields `(name, type)` -/
inductive Fields where
  | nil | cons (name : String) (t : CType) (rest : Fields)
/-- parameters `(label, identifier, type)` -/
inductive Params where
  | nil | cons (label id : String) (t : CType) (rest : Params)
/-- initializers (parameter lists) -/
inductive Inits where
  | nil | cons (ps : Params) (rest : Inits)
/-- type parameters `(name, bound or nil)` -/
inductive TParams where
  | nil | cons (name : String) (bound : CType) (rest : TParams)
end

instance : Inhabited CType := ⟨.nil⟩

mutual
/-- `cadence.Value`; `nilv` is a Go nil value (only produced by decoders). -/
inductive CValue where
  | nilv
  | void
  | none
  | some (v : CValue)
  | bool (b : Bool)
  | str (s : String)
  | char (s : String)
  | addr (bs : List UInt8)                    -- 8 bytes
  | int (kind : String) (n : Int)             -- Int, Int8 … Word256
  | fix (kind : String) (raw : Int)           -- Fix64, UFix64, Fix128, UFix128: the scaled integer
  | arr (t : CType) (vs : Values)
  | dict (t : CType) (kvs : Pairs)
  | comp (t : CType) (vs : Values)            -- Struct, Resource, Event, Contract, Enum, Attachment by the kind of `t`
  | path (domain : String) (id : String)
  | cap (id : Nat) (addr : List UInt8) (t : CType)
  | type (t : CType)
  | range (t : CType) (s e p : CValue)
  | func (t : CType)
inductive Values where
  | nil | cons (v : CValue) (rest : Values)
inductive Pairs where
  | nil | cons (k v : CValue) (rest : Pairs)
end

instance : Inhabited CValue := ⟨.nilv⟩

def Types.toList : Types → List CType
  | .nil => [] | .cons t r => t :: r.toList
def Types.ofList : List CType → Types
  | [] => .nil | t :: r => .cons t (Types.ofList r)
def Types.length : Types → Nat
  | .nil => 0 | .cons _ r => r.length + 1
def Fields.toList : Fields → List (String × CType)
  | .nil => [] | .cons n t r => (n, t) :: r.toList
def Fields.ofList : List (String × CType) → Fields
  | [] => .nil | (n, t) :: r => .cons n t (Fields.ofList r)
def Fields.length : Fields → Nat
  | .nil => 0 | .cons _ _ r => r.length + 1
def Params.toList : Params → List (String × String × CType)
  | .nil => [] | .cons l i t r => (l, i, t) :: r.toList
def Params.ofList : List (String × String × CType) → Params
  | [] => .nil | (l, i, t) :: r => .cons l i t (Params.ofList r)
def Inits.toList : Inits → List Params
  | .nil => [] | .cons p r => p :: r.toList
def Inits.ofList : List Params → Inits
  | [] => .nil | p :: r => .cons p (Inits.ofList r)
def Inits.length : Inits → Nat
  | .nil => 0 | .cons _ r => r.length + 1
def TParams.toList : TParams → List (String × CType)
  | .nil => [] | .cons n t r => (n, t) :: r.toList
def TParams.ofList : List (String × CType) → TParams
  | [] => .nil | (n, t) :: r => .cons n t (TParams.ofList r)
def Values.toList : Values → List CValue
  | .nil => [] | .cons v r => v :: r.toList
def Values.ofList : List CValue → Values
  | [] => .nil | v :: r => .cons v (Values.ofList r)
def Values.length : Values → Nat
  | .nil => 0 | .cons _ r => r.length + 1
def Pairs.toList : Pairs → List (CValue × CValue)
  | .nil => [] | .cons k v r => (k, v) :: r.toList
def Pairs.ofList : List (CValue × CValue) → Pairs
  | [] => .nil | (k, v) :: r => .cons k v (Pairs.ofList r)
def Pairs.length : Pairs → Nat
  | .nil => 0 | .cons _ _ r => r.length + 1

/-! ### Integer and fixed-point kinds -/

/-- value range of an integer kind: `(lower?, upper?)`, `none` = unbounded; `none` for an unknown kind -/
def intRange : String → Option (Option Int × Option Int)
  | "Int" => some (none, none)
  | "Int8" => some (some (-(2:Int)^7), some (2^7 - 1))
  | "Int16" => some (some (-(2:Int)^15), some (2^15 - 1))
  | "Int32" => some (some (-(2:Int)^31), some (2^31 - 1))
  | "Int64" => some (some (-(2:Int)^63), some (2^63 - 1))
  | "Int128" => some (some (-(2:Int)^127), some (2^127 - 1))
  | "Int256" => some (some (-(2:Int)^255), some (2^255 - 1))
  | "UInt" => some (some 0, none)
  | "UInt8" | "Word8" => some (some 0, some (2^8 - 1))
  | "UInt16" | "Word16" => some (some 0, some (2^16 - 1))
  | "UInt32" | "Word32" => some (some 0, some (2^32 - 1))
  | "UInt64" | "Word64" => some (some 0, some (2^64 - 1))
  | "UInt128" | "Word128" => some (some 0, some (2^128 - 1))
  | "UInt256" | "Word256" => some (some 0, some (2^256 - 1))
  | _ => none

def inRange (r : Option Int × Option Int) (n : Int) : Bool :=
  (match r.1 with | some lo => decide (lo ≤ n) | none => true) &&
  (match r.2 with | some hi => decide (n ≤ hi) | none => true)

def intKindOk (k : String) (n : Int) : Bool :=
  match intRange k with | some r => inRange r n | none => false

/-- raw range and scale (number of fractional digits) of a fixed-point kind -/
def fixInfo : String → Option ((Int × Int) × Nat)
  | "Fix64" => some ((-(2:Int)^63, 2^63 - 1), 8)
  | "UFix64" => some ((0, 2^64 - 1), 8)
  | "Fix128" => some ((-(2:Int)^127, 2^127 - 1), 24)
  | "UFix128" => some ((0, 2^128 - 1), 24)
  | _ => none

def fixKindOk (k : String) (n : Int) : Bool :=
  match fixInfo k with | some ((lo, hi), _) => decide (lo ≤ n) && decide (n ≤ hi) | none => false

/-! ### `Value.Type()` -/

/-- `Path.Type()` -/
def pathType : String → CType
  | "storage" => .prim "StoragePath"
  | "private" => .prim "PrivatePath"
  | "public" => .prim "PublicPath"
  | _ => .nil

/-- `Value.Type()` (values.go): the run-time type of a value. -/
def CValue.typeOf : CValue → CType
  | .nilv => .nil
  | .void => .prim "Void"
  | .none => .opt (.prim "Never")
  | .some v => .opt v.typeOf
  | .bool _ => .prim "Bool"
  | .str _ => .prim "String"
  | .char _ => .prim "Character"
  | .addr _ => .prim "Address"
  | .int k _ => .prim k
  | .fix k _ => .prim k
  | .arr t _ => t
  | .dict t _ => t
  | .comp t _ => t
  | .path d _ => pathType d
  | .cap _ _ t => .cap t
  | .type _ => .prim "Type"
  | .range t _ _ _ => t
  | .func t => t

end Verif.Model.Codec
