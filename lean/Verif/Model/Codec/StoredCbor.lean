/-
A small CBOR data-item model for the storage codec (property C44): exactly the subset that
`interpreter/encode.go` emits through `fxamacker/cbor`'s `StreamEncoder` — unsigned / negative
integers, byte and text strings, definite-length arrays, tags (bignums are tags 2 / 3 over a byte
string) and simple values — with shortest-form heads.

The decoder is strict: it accepts only definite lengths and shortest-form heads (the canonical form
the encoder produces).  `fxamacker/cbor`'s `StreamDecoder` is more liberal (it also accepts longer
heads and indefinite lengths); those inputs are reported as `nonCanonical` / `indefinite` /
`unsupported` so that the correspondence driver can count them as outside the model's domain.
Text strings are kept as raw bytes: as in the Go library, UTF-8 validity is checked where a string is
consumed (`DecodeString`), not by the well-formedness pass.

Core Lean only.
-/
namespace Verif.Model.Codec.StoredCbor

abbrev Bytes := List UInt8

inductive Item where
  | uint (n : Nat)
  /-- the negative integer `-1 - n` -/
  | nint (n : Nat)
  | bytes (b : Bytes)
  | text (b : Bytes)
  | array (xs : List Item)
  | tag (t : Nat) (x : Item)
  /-- 20 = false, 21 = true, 22 = null, 23 = undefined -/
  | simple (n : Nat)
  deriving Repr, Inhabited

inductive CErr where
  | truncated      -- input ends inside an item
  | malformed      -- reserved additional information, bad simple value, unexpected break
  | nonCanonical   -- a head longer than necessary (accepted by the Go library; outside the model)
  | indefinite     -- indefinite-length string / array / map (outside the model)
  | unsupported    -- maps and floating-point numbers (outside the model)
  | fuel
  deriving Repr, DecidableEq, Inhabited

/-! ### big-endian numbers -/

/-- `k` bytes, big-endian, of `n mod 256^k` -/
def beBytes : Nat → Nat → Bytes
  | 0, _ => []
  | k + 1, n => beBytes k (n / 256) ++ [UInt8.ofNat (n % 256)]

def beNat (bs : Bytes) : Nat := bs.foldl (fun a b => a * 256 + b.toNat) 0

/-- minimal big-endian bytes (`big.Int.Bytes`, `Address.Bytes`): empty for 0 -/
def natBytes (n : Nat) : Bytes := if n = 0 then [] else beBytes (n.log2 / 8 + 1) n

/-! ### heads -/

def initialByte (maj ai : Nat) : UInt8 := UInt8.ofNat (maj * 32 + ai)

/-- shortest-form head of major type `maj` with argument `arg` (`arg < 2^64`) -/
def head (maj arg : Nat) : Bytes :=
  if arg < 24 then [initialByte maj arg]
  else if arg < 256 then initialByte maj 24 :: beBytes 1 arg
  else if arg < 65536 then initialByte maj 25 :: beBytes 2 arg
  else if arg < 4294967296 then initialByte maj 26 :: beBytes 4 arg
  else initialByte maj 27 :: beBytes 8 arg

/-- read `k` argument bytes; `lo` is the smallest argument that needs this length -/
def takeArg (maj ai k lo : Nat) (rest : Bytes) : Except CErr (Nat × Nat × Nat × Bytes) :=
  if rest.length < k then .error .truncated
  else
    let v := beNat (rest.take k)
    if v < lo then .error .nonCanonical else .ok (maj, ai, v, rest.drop k)

/-- head → (major type, additional information, argument, rest) -/
def decHead : Bytes → Except CErr (Nat × Nat × Nat × Bytes)
  | [] => .error .truncated
  | b :: rest =>
    let maj := b.toNat / 32
    let ai := b.toNat % 32
    if ai < 24 then .ok (maj, ai, ai, rest)
    else if ai = 24 then takeArg maj ai 1 24 rest
    else if ai = 25 then (if maj = 7 then .error .unsupported else takeArg maj ai 2 256 rest)
    else if ai = 26 then (if maj = 7 then .error .unsupported else takeArg maj ai 4 65536 rest)
    else if ai = 27 then (if maj = 7 then .error .unsupported else takeArg maj ai 8 4294967296 rest)
    else if ai = 31 then
      (if maj = 2 ∨ maj = 3 ∨ maj = 4 ∨ maj = 5 then .error .indefinite else .error .malformed)
    else .error .malformed

/-! ### items -/

mutual
def enc : Item → Bytes
  | .uint n => head 0 n
  | .nint n => head 1 n
  | .bytes b => head 2 b.length ++ b
  | .text b => head 3 b.length ++ b
  | .array xs => head 4 xs.length ++ encMany xs
  | .tag t x => head 6 t ++ enc x
  | .simple n => head 7 n
def encMany : List Item → Bytes
  | [] => []
  | x :: xs => enc x ++ encMany xs
end

mutual
/-- what the encoder can produce: arguments below 2^64, simple values outside 24..31 -/
def Item.wf : Item → Bool
  | .uint n => decide (n < 2 ^ 64)
  | .nint n => decide (n < 2 ^ 64)
  | .bytes b => decide (b.length < 2 ^ 64)
  | .text b => decide (b.length < 2 ^ 64)
  | .array xs => decide (xs.length < 2 ^ 64) && wfMany xs
  | .tag t x => decide (t < 2 ^ 64) && x.wf
  | .simple n => decide (n < 24) || (decide (32 ≤ n) && decide (n < 256))
def wfMany : List Item → Bool
  | [] => true
  | x :: xs => x.wf && wfMany xs
end

mutual
/-- fuel that `decItem` needs for the encoding of an item -/
def need : Item → Nat
  | .array xs => 1 + needMany xs
  | .tag _ x => 1 + need x
  | _ => 1
def needMany : List Item → Nat
  | [] => 0
  | x :: xs => 1 + max (need x) (needMany xs)
end

mutual
/-- one data item from the front of the input (fuel-indexed: one unit per nesting level / element) -/
def decItem : Nat → Bytes → Except CErr (Item × Bytes)
  | 0, _ => .error .fuel
  | f + 1, bs =>
    match decHead bs with
    | .error e => .error e
    | .ok (maj, ai, arg, rest) =>
      if maj = 0 then .ok (.uint arg, rest)
      else if maj = 1 then .ok (.nint arg, rest)
      else if maj = 2 then
        (if rest.length < arg then .error .truncated else .ok (.bytes (rest.take arg), rest.drop arg))
      else if maj = 3 then
        (if rest.length < arg then .error .truncated else .ok (.text (rest.take arg), rest.drop arg))
      else if maj = 4 then
        (match decMany f arg rest with
         | .error e => .error e
         | .ok (xs, r) => .ok (.array xs, r))
      else if maj = 5 then .error .unsupported
      else if maj = 6 then
        (match decItem f rest with
         | .error e => .error e
         | .ok (x, r) => .ok (.tag arg x, r))
      else
        (if ai = 24 ∧ arg < 32 then .error .malformed else .ok (.simple arg, rest))
def decMany : Nat → Nat → Bytes → Except CErr (List Item × Bytes)
  | _, 0, bs => .ok ([], bs)
  | 0, _ + 1, _ => .error .fuel
  | f + 1, n + 1, bs =>
    match decItem f bs with
    | .error e => .error e
    | .ok (x, r) =>
      match decMany f n r with
      | .error e => .error e
      | .ok (xs, r') => .ok (x :: xs, r')
end

/-- decode the first data item of `bs`; returns the item and the unread rest -/
def decode (bs : Bytes) : Except CErr (Item × Bytes) := decItem (2 * bs.length + 1) bs

/-! ### UTF-8 (port of Go's `utf8.Valid`) -/

def isCont (b : UInt8) : Bool := 0x80 ≤ b.toNat && b.toNat ≤ 0xBF

def validUtf8 : Bytes → Bool
  | [] => true
  | b0 :: rest =>
    let x := b0.toNat
    if x < 0x80 then validUtf8 rest
    else match rest with
      | [] => false
      | b1 :: r1 =>
        let y := b1.toNat
        if 0xC2 ≤ x && x ≤ 0xDF then isCont b1 && validUtf8 r1
        else match r1 with
          | [] => false
          | b2 :: r2 =>
            if x = 0xE0 then 0xA0 ≤ y && y ≤ 0xBF && isCont b2 && validUtf8 r2
            else if (0xE1 ≤ x && x ≤ 0xEC) || x = 0xEE || x = 0xEF then isCont b1 && isCont b2 && validUtf8 r2
            else if x = 0xED then 0x80 ≤ y && y ≤ 0x9F && isCont b2 && validUtf8 r2
            else match r2 with
              | [] => false
              | b3 :: r3 =>
                if x = 0xF0 then 0x90 ≤ y && y ≤ 0xBF && isCont b2 && isCont b3 && validUtf8 r3
                else if 0xF1 ≤ x && x ≤ 0xF3 then isCont b1 && isCont b2 && isCont b3 && validUtf8 r3
                else if x = 0xF4 then 0x80 ≤ y && y ≤ 0x8F && isCont b2 && isCont b3 && validUtf8 r3
                else false

end Verif.Model.Codec.StoredCbor
