import Verif.Model.Codec.CValue
/-
Type IDs of external types (`cadence.Type.ID()`, types.go, with the `sema.Format…TypeID` helpers),
decimal / hexadecimal text helpers shared by the codecs, and the byte-wise string orders used by
`slices.Sort` (type IDs) and by the CCF sorters.  Core Lean only.
-/
namespace Verif.Model.Codec

/-! ### bytes of strings, byte-wise orders -/

def strBytes (s : String) : List UInt8 := s.toUTF8.data.toList

/-- lexicographic `≤` on byte strings (`bytes.Compare(a, b) <= 0`, Go string `<=`) -/
def bytesLe : List UInt8 → List UInt8 → Bool
  | [], _ => true
  | _ :: _, [] => false
  | a :: as, b :: bs => if a < b then true else if b < a then false else bytesLe as bs

/-- Go `s1 <= s2` on strings -/
def strLe (a b : String) : Bool := bytesLe (strBytes a) (strBytes b)

/-- length-first, then byte-wise (`bytewiseCadenceTypeSorter.Less`, `stringsAreSortedBytewise` with `<=`) -/
def lenFirstLe (a b : String) : Bool :=
  let x := strBytes a; let y := strBytes b
  if x.length != y.length then x.length < y.length else bytesLe x y

/-- insertion sort (models `sort.Sort` / `slices.Sort` on keys that are pairwise different) -/
def insertBy {α} (le : α → α → Bool) (x : α) : List α → List α
  | [] => [x]
  | y :: ys => if le x y then x :: y :: ys else y :: insertBy le x ys

def sortBy {α} (le : α → α → Bool) : List α → List α
  | [] => []
  | x :: xs => insertBy le x (sortBy le xs)

/-! ### decimal and hexadecimal text -/

def showNat (n : Nat) : String := Nat.repr n
def showInt (n : Int) : String := if n < 0 then "-" ++ Nat.repr n.natAbs else Nat.repr n.natAbs

/-- a non-empty string of ASCII digits -/
def parseDigits (cs : List Char) : Option Nat :=
  if !cs.isEmpty && cs.all Char.isDigit then some (Nat.ofDigitChars 10 cs 0) else none

/-- `strconv.ParseUint(s, 10, _)` without the range check: digits only -/
def goParseNat (s : String) : Option Nat := parseDigits s.toList

/-- `big.Int.SetString(s, 10)` / `strconv.ParseInt(s, 10, _)` without the range check:
optional sign, then digits -/
def goParseInt (s : String) : Option Int :=
  match s.toList with
  | '+' :: r => (parseDigits r).map Int.ofNat
  | '-' :: r => (parseDigits r).map fun n => -(Int.ofNat n)
  | cs => (parseDigits cs).map Int.ofNat

def hexDigit (n : Nat) : Char :=
  if n < 10 then Char.ofNat (n + 48) else Char.ofNat (n + 87)

def hexVal (c : Char) : Option Nat :=
  if '0' ≤ c ∧ c ≤ '9' then some (c.toNat - 48)
  else if 'a' ≤ c ∧ c ≤ 'f' then some (c.toNat - 87)
  else if 'A' ≤ c ∧ c ≤ 'F' then some (c.toNat - 55)
  else none

/-- `fmt.Sprintf("%x", bytes)` -/
def hexEncode : List UInt8 → List Char
  | [] => []
  | b :: bs => hexDigit (b.toNat / 16) :: hexDigit (b.toNat % 16) :: hexEncode bs

/-- `hex.DecodeString` -/
def hexDecode : List Char → Option (List UInt8)
  | [] => some []
  | [_] => none
  | a :: b :: rest =>
    match hexVal a, hexVal b, hexDecode rest with
    | some x, some y, some r => some (UInt8.ofNat (x * 16 + y) :: r)
    | _, _, _ => none

/-! ### type IDs -/

def joinWith (sep : String) : List String → String
  | [] => ""
  | [x] => x
  | x :: xs => x ++ sep ++ joinWith sep xs

def Auth.id : Auth → String
  | .unauth => ""
  | .map id => id
  | .conj ids => joinWith "," (sortBy strLe ids)
  | .disj ids => joinWith "|" (sortBy strLe ids)

mutual
/-- `Type.ID()`; a nil type has no ID in Go (nil dereference): the model gives `""`. -/
def CType.id : CType → String
  | .nil => ""
  | .prim id => id
  | .opt t => "(" ++ t.id ++ ")?"
  | .varr t => "[" ++ t.id ++ "]"
  | .carr n t => "[" ++ t.id ++ ";" ++ showNat n ++ "]"
  | .dict k v => "{" ++ k.id ++ ":" ++ v.id ++ "}"
  | .range t => "InclusiveRange<" ++ t.id ++ ">"
  | .cap .nil => "Capability"
  | .cap t => "Capability<" ++ t.id ++ ">"
  | .ref a t => (if a.id == "" then "" else "auth(" ++ a.id ++ ")") ++ "&" ++ t.id
  | .inter ts => "{" ++ joinWith "," (sortBy strLe (Types.ids ts)) ++ "}"
  | .func view tps ps ret =>
    (if view then "view " else "") ++ "fun" ++
    (match tps with | .nil => "" | _ => "<" ++ joinWith "," (TParams.idParts tps) ++ ">") ++
    "(" ++ joinWith "," (Params.ids ps) ++ "):" ++ ret.id
  | .comp _ id _ _ _ => id
  | .seen id => id
def Types.ids : Types → List String
  | .nil => [] | .cons t r => t.id :: Types.ids r
def Params.ids : Params → List String
  | .nil => [] | .cons _ _ t r => t.id :: Params.ids r
def TParams.idParts : TParams → List String
  | .nil => []
  | .cons n .nil r => n :: TParams.idParts r
  | .cons n b r => (n ++ ":" ++ b.id) :: TParams.idParts r
end

end Verif.Model.Codec
