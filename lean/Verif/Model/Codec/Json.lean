import Verif.Model.Codec.TypeID
import Verif.Gen.CcfTags
/-
JSON-Cadence (property C41): JSON trees, `prepare` / `prepareType` (ports of
/repo/encoding/json/encode.go: `Prepare`, `PrepareType`), `decodeValue` / `decodeType` (ports of
decode.go on the tree that Go's `encoding/json` produces), and `erase` (what JSON-Cadence does not
carry).  Core Lean only.

JSON objects are association lists in the order of Go's struct fields; the parser of the driver
removes duplicate keys (last one wins) as Go's `map[string]any` does, so `kvs.length` is Go's
`len(obj)`.  The `results` table of `PrepareType` (keyed by Go pointer) is represented by the `seen`
nodes of `CType` (see CValue.lean); the `typeDecodingResults` table of the decoder (keyed by type ID
string) is the `List String` threaded through `decodeType`.
-/
namespace Verif.Model.Codec

inductive Json where
  | null
  | bool (b : Bool)
  | num (n : Nat)          -- a number that is a natural number literal
  | numOther               -- any other JSON number (not interpreted by the model)
  | str (s : String)
  | arr (xs : List Json)
  | obj (kvs : List (String × Json))
  deriving Inhabited

def Json.isNull : Json → Bool
  | .null => true
  | _ => false

/-- decoding errors: `err` = the Go decoder returns an error; `ood` = the input is outside the
model's domain (the driver reports SKIP) -/
inductive DErr where
  | err
  | ood (why : String)
  deriving DecidableEq, Repr

abbrev D := Except DErr

/-! ### encoding (encode.go) -/

def vobj (ty : String) (v : Json) : Json := .obj [("value", v), ("type", .str ty)]

def CompKind.jsonKind : CompKind → String
  | .struct => "Struct" | .resource => "Resource" | .event => "Event" | .contract => "Contract"
  | .enum => "Enum" | .attachment => "Attachment" | .sinterface => "StructInterface"
  | .rinterface => "ResourceInterface" | .cinterface => "ContractInterface"

/-- `jsonNominalType` of an entitlement (only `kind` and `typeID` are set) -/
def entitlementJson (kind id : String) : Json :=
  .obj [("type", .null), ("kind", .str kind), ("typeID", .str id), ("fields", .null), ("initializers", .null)]

def entitlementsJson (ids : List String) : Json :=
  match ids with
  | [] => .null
  | _ => .arr (ids.map (entitlementJson "Entitlement"))

/-- `prepareAuthorization` -/
def prepareAuth : Auth → Json
  | .unauth => .obj [("kind", .str "Unauthorized"), ("entitlements", .null)]
  | .map id => .obj [("kind", .str "EntitlementMapAuthorization"), ("entitlements", .arr [entitlementJson "EntitlementMap" id])]
  | .conj ids => .obj [("kind", .str "EntitlementConjunctionSet"), ("entitlements", entitlementsJson ids)]
  | .disj ids => .obj [("kind", .str "EntitlementDisjunctionSet"), ("entitlements", entitlementsJson ids)]

abbrev PResults := List String    -- `TypePreparationResults`: the composite / interface types seen so far (by type ID)

mutual
/-- `PrepareType` with its `results` table: a composite / interface type that was seen before in the
same type tree is encoded as its bare type ID -/
def prepareTypeR : CType → PResults → Json × PResults
  | .nil, rs => (.str "", rs)
  | .prim id, rs => (.obj [("kind", .str id)], rs)
  | .opt t, rs => let (j, rs) := prepareTypeR t rs; (.obj [("type", j), ("kind", .str "Optional")], rs)
  | .varr t, rs => let (j, rs) := prepareTypeR t rs; (.obj [("type", j), ("kind", .str "VariableSizedArray")], rs)
  | .carr n t, rs =>
    let (j, rs) := prepareTypeR t rs; (.obj [("type", j), ("kind", .str "ConstantSizedArray"), ("size", .num n)], rs)
  | .dict k v, rs =>
    let (kj, rs) := prepareTypeR k rs
    let (vj, rs) := prepareTypeR v rs
    (.obj [("key", kj), ("value", vj), ("kind", .str "Dictionary")], rs)
  | .range t, rs => let (j, rs) := prepareTypeR t rs; (.obj [("element", j), ("kind", .str "InclusiveRange")], rs)
  | .cap t, rs => let (j, rs) := prepareTypeR t rs; (.obj [("type", j), ("kind", .str "Capability")], rs)
  | .ref a t, rs =>
    let (j, rs) := prepareTypeR t rs
    (.obj [("type", j), ("kind", .str "Reference"), ("authorization", prepareAuth a)], rs)
  | .inter ts, rs =>
    let (js, rs) := prepareTypesR ts rs
    (.obj [("kind", .str "Intersection"), ("typeID", .str (CType.inter ts).id), ("types", .arr js)], rs)
  | .func view tps ps ret, rs =>
    let (tj, rs) := prepareTParamsR tps rs
    let (pj, rs) := prepareParamsR ps rs
    let (rj, rs) := prepareTypeR ret rs
    (.obj [("kind", .str "Function"), ("typeID", .str (CType.func view tps ps ret).id),
           ("typeParameters", .arr tj), ("parameters", .arr pj),
           ("return", rj), ("purity", .str (if view then "view" else ""))], rs)
  | .comp kind id extra fs is, rs =>
    if rs.contains id then (.str id, rs) else
    let rs := id :: rs
    let (fj, rs) := prepareFieldsR fs rs
    let (ij, rs) := prepareInitsR is rs
    let (ej, rs) := prepareTypeR extra rs
    (.obj [("type", ej), ("kind", .str kind.jsonKind), ("typeID", .str id),
           ("fields", .arr fj), ("initializers", .arr ij)], rs)
  | .seen id, rs => (.str id, rs)
def prepareTypesR : Types → PResults → List Json × PResults
  | .nil, rs => ([], rs)
  | .cons t r, rs => let (j, rs) := prepareTypeR t rs; let (js, rs) := prepareTypesR r rs; (j :: js, rs)
def prepareFieldsR : Fields → PResults → List Json × PResults
  | .nil, rs => ([], rs)
  | .cons n t r, rs =>
    let (j, rs) := prepareTypeR t rs
    let (js, rs) := prepareFieldsR r rs
    (.obj [("type", j), ("id", .str n)] :: js, rs)
def prepareParamsR : Params → PResults → List Json × PResults
  | .nil, rs => ([], rs)
  | .cons l i t r, rs =>
    let (j, rs) := prepareTypeR t rs
    let (js, rs) := prepareParamsR r rs
    (.obj [("type", j), ("label", .str l), ("id", .str i)] :: js, rs)
def prepareInitsR : Inits → PResults → List Json × PResults
  | .nil, rs => ([], rs)
  | .cons ps r, rs =>
    let (j, rs) := prepareParamsR ps rs
    let (js, rs) := prepareInitsR r rs
    (.arr j :: js, rs)
def prepareTParamsR : TParams → PResults → List Json × PResults
  | .nil, rs => ([], rs)
  | .cons n .nil r, rs =>
    let (js, rs) := prepareTParamsR r rs
    (.obj [("name", .str n), ("typeBound", .null)] :: js, rs)
  | .cons n b r, rs =>
    let (j, rs) := prepareTypeR b rs
    let (js, rs) := prepareTParamsR r rs
    (.obj [("name", .str n), ("typeBound", j)] :: js, rs)
end

/-- `PrepareType(t, TypePreparationResults{})` -/
def prepareType (t : CType) : Json := (prepareTypeR t []).1

/-- `encodeBytes` of an address: `0x` + lower-case hex -/
def addrJson (bs : List UInt8) : Json := .str (String.ofList ('0' :: 'x' :: hexEncode bs))

/-- `"%d.%0<scale>d"` with the sign rule of `encodeFix64` / `format.Fix128` -/
def padLeft (n : Nat) (cs : List Char) : List Char := List.replicate (n - cs.length) '0' ++ cs

def showFixed (scale : Nat) (raw : Int) : String :=
  let a := raw.natAbs
  let ip := a / 10 ^ scale
  let fp := a % 10 ^ scale
  (if raw < 0 then "-" else "") ++ Nat.repr ip ++ "." ++ String.ofList (padLeft scale (Nat.repr fp).toList)

def fixScale (k : String) : Nat := match fixInfo k with | some (_, s) => s | none => 8

/-- field names of a composite value: the declared names, `""` beyond them (`prepareComposite`) -/
def fieldNameAt : Fields → String
  | .nil => "" | .cons n _ _ => n
def fieldsTail : Fields → Fields
  | .nil => .nil | .cons _ _ r => r

def compValueKind : CType → String
  | .comp k _ _ _ _ => k.jsonKind
  | _ => "?"
def compTypeID : CType → String
  | .comp _ id _ _ _ => id
  | _ => ""
def compFields : CType → Fields
  | .comp _ _ _ fs _ => fs
  | _ => .nil

mutual
/-- `Prepare` -/
def prepare : CValue → Json
  | .nilv => .null
  | .void => .obj [("type", .str "Void")]
  | .none => vobj "Optional" .null
  | .some v => vobj "Optional" (prepare v)
  | .bool b => vobj "Bool" (.bool b)
  | .str s => vobj "String" (.str s)
  | .char s => vobj "Character" (.str s)
  | .addr bs => vobj "Address" (addrJson bs)
  | .int k n => vobj k (.str (showInt n))
  | .fix k n => vobj k (.str (showFixed (fixScale k) n))
  | .arr _ vs => vobj "Array" (.arr (prepareValues vs))
  | .dict _ kvs => vobj "Dictionary" (.arr (preparePairs kvs))
  | .comp t vs =>
    vobj (compValueKind t) (.obj [("id", .str (compTypeID t)), ("fields", .arr (prepareCompFields (compFields t) vs))])
  | .path d i => vobj "Path" (.obj [("domain", .str d), ("identifier", .str i)])
  | .cap id a t =>
    vobj "Capability" (.obj [("borrowType", prepareType t), ("address", addrJson a), ("id", .str (showNat id))])
  | .type t => vobj "Type" (.obj [("staticType", prepareType t)])
  | .range _ s e p => vobj "InclusiveRange" (.obj [("start", prepare s), ("end", prepare e), ("step", prepare p)])
  | .func t => vobj "Function" (.obj [("functionType", prepareType t)])
def prepareValues : Values → List Json
  | .nil => [] | .cons v r => prepare v :: prepareValues r
def preparePairs : Pairs → List Json
  | .nil => []
  | .cons k v r => .obj [("key", prepare k), ("value", prepare v)] :: preparePairs r
def prepareCompFields : Fields → Values → List Json
  | _, .nil => []
  | fs, .cons v r => .obj [("value", prepare v), ("name", .str (fieldNameAt fs))] :: prepareCompFields (fieldsTail fs) r
end

/-- `json.Encode` fails (`prepareComposite` panics) when a composite has fewer values than declared fields -/
def Fields.len : Fields → Nat
  | .nil => 0 | .cons _ _ r => r.len + 1

/-! ### decoding (decode.go) -/

def lookupSub : (kvs : List (String × Json)) → String → Option {v : Json // sizeOf v < sizeOf kvs}
  | [], _ => none
  | (k, v) :: rest, key =>
    if k == key then some ⟨v, by simp; omega⟩
    else (lookupSub rest key).map fun ⟨x, h⟩ => ⟨x, by simp; omega⟩

/-- `getKey`: a missing property is an error -/
def getKey (kvs : List (String × Json)) (key : String) : D {v : Json // sizeOf v < sizeOf kvs} :=
  match lookupSub kvs key with
  | some r => .ok r
  | none => .error .err

def hasKey (kvs : List (String × Json)) (key : String) : Bool := (lookupSub kvs key).isSome

def asArr : (j : Json) → D {xs : List Json // sizeOf xs < sizeOf j}
  | .arr xs => .ok ⟨xs, by simp⟩
  | _ => .error .err

def asObj : (j : Json) → D {kvs : List (String × Json) // sizeOf kvs < sizeOf j}
  | .obj kvs => .ok ⟨kvs, by simp⟩
  | _ => .error .err

def toStr : Json → D String
  | .str s => .ok s
  | _ => .error .err

def toBoolJ : Json → D Bool
  | .bool b => .ok b
  | _ => .error .err

/-- `toUInt`: a `float64` converted with `uint(v)`; the model only interprets natural number literals -/
def toUIntJ : Json → D Nat
  | .num n => if n < 2 ^ 53 then .ok n else .error (.ood "size-number-too-large")
  | .numOther => .error (.ood "size-number-not-natural")
  | _ => .error .err

/-- type IDs of composite types accepted by `decodeCompositeTypeID` (`common.DecodeTypeID`, property
C45): the model covers the shapes `A.<16 lower-case hex digits>.<name>(.<name>)*` and `S.<name>.<name>(.<name>)*`
with names of letters, digits and `_`; everything else is outside the model. -/
def isNameChar (c : Char) : Bool := c.isAlphanum || c == '_'
/-- a lower-case hexadecimal digit (an address with upper-case digits is accepted by Go and re-rendered in
lower case by `Type.ID()`: outside the model) -/
def isLowerHex (c : Char) : Bool := c.isDigit || ('a' ≤ c && c ≤ 'f')
def isName (cs : List Char) : Bool := !cs.isEmpty && cs.all isNameChar
def splitDots (cs : List Char) : List (List Char) :=
  cs.foldr (fun c acc => if c == '.' then [] :: acc else match acc with | [] => [[c]] | x :: r => (c :: x) :: r) [[]]
def typeIDShapeOk (id : String) : Bool :=
  match splitDots id.toList with
  | ['A'] :: addr :: n1 :: n2 :: rest =>
    addr.length == 16 && addr.all isLowerHex && isName n1 && isName n2 && rest.all isName
  | ['S'] :: n0 :: n1 :: rest => isName n0 && isName n1 && rest.all isName
  | _ => false

def decodeCompositeTypeID (j : Json) : D String := do
  let id ← toStr j
  if typeIDShapeOk id then pure id else .error (.ood "type-id-shape")

/-- `decodeEntitlementTypeIDs` -/
def decodeEntitlementIDs : Json → D (List String)
  | .arr xs => xs.mapM fun
    | .obj kvs => do let ⟨v, _⟩ ← getKey kvs "typeID"; toStr v
    | _ => .error .err
  | _ => .error .err

/-- `decodeAuthorization` -/
def decodeAuth : Json → D Auth
  | .obj kvs => do
    let ⟨k, _⟩ ← getKey kvs "kind"
    let kind ← toStr k
    if kind == "Unauthorized" then pure .unauth
    else if kind == "EntitlementMapAuthorization" then do
      let ⟨e, _⟩ ← getKey kvs "entitlements"
      match ← decodeEntitlementIDs e with
      | [id] => pure (.map id)
      | _ => .error .err
    else if kind == "EntitlementConjunctionSet" then do
      let ⟨e, _⟩ ← getKey kvs "entitlements"
      pure (.conj (← decodeEntitlementIDs e))
    else if kind == "EntitlementDisjunctionSet" then do
      let ⟨e, _⟩ ← getKey kvs "entitlements"
      pure (.disj (← decodeEntitlementIDs e))
    else .error .err
  | _ => .error .err

def readCompKindJson : String → Option CompKind
  | "Struct" => some .struct | "Resource" => some .resource | "Event" => some .event
  | "Contract" => some .contract | "Enum" => some .enum | "Attachment" => some .attachment
  | "StructInterface" => some .sinterface | "ResourceInterface" => some .rinterface
  | "ContractInterface" => some .cinterface
  | _ => none

/-- the keys of `simpleTypes` -/
def isSimpleTypeName (k : String) : Bool := k == "Bytes" || Verif.Gen.CcfTags.jsonSimpleTypes.contains k

/-- `typeDecodingResults`: type ID -> decoded type; `none` while the type is still being decoded (a
reference from inside its own declaration: printed `(rec id)`) -/
abbrev Results := List (String × Option CType)

def Results.finish (rs : Results) (id : String) (t : CType) : Results :=
  match rs with
  | [] => []
  | (k, d) :: r => if k == id then (k, some t) :: r else (k, d) :: Results.finish r id t

mutual
/-- `decodeType` -/
def decodeType (j : Json) (rs : Results) : D (CType × Results) :=
  match j with
  | .str s =>
    if s == "" then pure (.nil, rs)
    else match rs.lookup s with
      | some (some t) => pure (t, rs)
      | some none => pure (.seen s, rs)
      | none => .error .err                -- `toObject` of a string
  | .obj kvs => do
    let ⟨kj, _⟩ ← getKey kvs "kind"
    let kind ← toStr kj
    if kind == "Function" then do
      -- purity: any string other than "view" is impure; a non-string is an error
      let view ← (match lookupSub kvs "purity" with
        | some ⟨p, _⟩ => do let s ← toStr p; pure (s == "view")
        | none => pure false : D Bool)
      let (tps, rs) ← (match lookupSub kvs "typeParameters" with
        | some ⟨tpj, _⟩ =>
          (match tpj with
          | .null => pure (TParams.nil, rs)
          | _ => do let ⟨xs, _⟩ ← asArr tpj; decodeTParams xs rs)
        | none => pure (TParams.nil, rs) : D (TParams × Results))
      let ⟨pj, _⟩ ← getKey kvs "parameters"
      let ⟨pxs, _⟩ ← asArr pj
      let (ps, rs) ← decodeParams pxs rs
      let ⟨rj, _⟩ ← getKey kvs "return"
      let (ret, rs) ← decodeType rj rs
      pure (.func view tps ps ret, rs)
    else if kind == "Intersection" then do
      let ⟨tj, _⟩ ← getKey kvs "types"
      let ⟨xs, _⟩ ← asArr tj
      let (ts, rs) ← decodeTypesList xs rs
      pure (.inter ts, rs)
    else if kind == "Optional" then do
      let ⟨tj, _⟩ ← getKey kvs "type"
      let (t, rs) ← decodeType tj rs
      pure (.opt t, rs)
    else if kind == "Restriction" then
      .error .err                          -- only in backwards-compatible mode (fixed: used to panic with a non-error value)
    else if kind == "VariableSizedArray" then do
      let ⟨tj, _⟩ ← getKey kvs "type"
      let (t, rs) ← decodeType tj rs
      pure (.varr t, rs)
    else if kind == "Capability" then do
      let ⟨tj, _⟩ ← getKey kvs "type"
      let (t, rs) ← decodeType tj rs
      pure (.cap t, rs)
    else if kind == "Dictionary" then do
      let ⟨kj, _⟩ ← getKey kvs "key"
      let (k, rs) ← decodeType kj rs
      let ⟨vj, _⟩ ← getKey kvs "value"
      let (v, rs) ← decodeType vj rs
      pure (.dict k v, rs)
    else if kind == "InclusiveRange" then do
      let ⟨tj, _⟩ ← getKey kvs "element"
      let (t, rs) ← decodeType tj rs
      pure (.range t, rs)
    else if kind == "ConstantSizedArray" then do
      let ⟨sj, _⟩ ← getKey kvs "size"
      let n ← toUIntJ sj
      let ⟨tj, _⟩ ← getKey kvs "type"
      let (t, rs) ← decodeType tj rs
      pure (.carr n t, rs)
    else if kind == "Reference" then do
      let ⟨tj, _⟩ ← getKey kvs "type"
      let (t, rs) ← decodeType tj rs
      let ⟨aj, _⟩ ← getKey kvs "authorization"
      let a ← decodeAuth aj
      pure (.ref a t, rs)
    else if isSimpleTypeName kind then pure (.prim kind, rs)
    else do
      -- decodeNominalType: initializers, type ID, [raw / base type], register, fields
      let ⟨ij, _⟩ ← getKey kvs "initializers"
      let ⟨ixs, _⟩ ← asArr ij
      let (is, rs) ← decodeInits ixs rs
      let ⟨idj, _⟩ ← getKey kvs "typeID"
      let id ← decodeCompositeTypeID idj
      match readCompKindJson kind with
      | none => .error .err
      | some ck => do
        if ck == .event && is.length != 1 then .error .err else
        let (extra, rs) ← (if ck == .enum || ck == .attachment then do
            let ⟨tj, _⟩ ← getKey kvs "type"
            decodeType tj rs
          else pure (CType.nil, rs) : D (CType × Results))
        let rs := (id, none) :: rs
        let ⟨fj, _⟩ ← getKey kvs "fields"
        let ⟨fxs, _⟩ ← asArr fj
        let (fs, rs) ← decodeFieldTypes fxs rs
        let t := CType.comp ck id extra fs is
        pure (t, rs.finish id t)
  | _ => .error .err
termination_by sizeOf j
decreasing_by all_goals (simp_wf; omega)
def decodeTypesList (xs : List Json) (rs : Results) : D (Types × Results) :=
  match xs with
  | [] => pure (.nil, rs)
  | x :: r => do
    let (t, rs) ← decodeType x rs
    let (ts, rs) ← decodeTypesList r rs
    pure (.cons t ts, rs)
termination_by sizeOf xs
decreasing_by all_goals (simp_wf; omega)
def decodeFieldTypes (xs : List Json) (rs : Results) : D (Fields × Results) :=
  match xs with
  | [] => pure (.nil, rs)
  | x :: r => do
    let ⟨kvs, _⟩ ← asObj x
    let ⟨idj, _⟩ ← getKey kvs "id"
    let n ← toStr idj
    let ⟨tj, _⟩ ← getKey kvs "type"
    let (t, rs) ← decodeType tj rs
    let (fs, rs) ← decodeFieldTypes r rs
    pure (.cons n t fs, rs)
termination_by sizeOf xs
decreasing_by all_goals (simp_wf; omega)
def decodeParams (xs : List Json) (rs : Results) : D (Params × Results) :=
  match xs with
  | [] => pure (.nil, rs)
  | x :: r => do
    let ⟨kvs, _⟩ ← asObj x
    let ⟨lj, _⟩ ← getKey kvs "label"
    let l ← toStr lj
    let ⟨idj, _⟩ ← getKey kvs "id"
    let i ← toStr idj
    let ⟨tj, _⟩ ← getKey kvs "type"
    let (t, rs) ← decodeType tj rs
    let (ps, rs) ← decodeParams r rs
    pure (.cons l i t ps, rs)
termination_by sizeOf xs
decreasing_by all_goals (simp_wf; omega)
def decodeInits (xs : List Json) (rs : Results) : D (Inits × Results) :=
  match xs with
  | [] => pure (.nil, rs)
  | x :: r => do
    let ⟨ps, _⟩ ← asArr x
    let (p, rs) ← decodeParams ps rs
    let (is, rs) ← decodeInits r rs
    pure (.cons p is, rs)
termination_by sizeOf xs
decreasing_by all_goals (simp_wf; omega)
def decodeTParams (xs : List Json) (rs : Results) : D (TParams × Results) :=
  match xs with
  | [] => pure (.nil, rs)
  | x :: r => do
    let ⟨kvs, _⟩ ← asObj x
    let ⟨nj, _⟩ ← getKey kvs "name"
    let n ← toStr nj
    -- `typeBoundObj, ok := obj["typeBound"]; if ok && typeBoundObj != nil { decodeType(typeBoundObj) }`
    let (b, rs) ← (match lookupSub kvs "typeBound" with
      | some ⟨bj, _⟩ => if bj.isNull then pure (CType.nil, rs) else decodeType bj rs
      | none => pure (CType.nil, rs) : D (CType × Results))
    let (tps, rs) ← decodeTParams r rs
    pure (.cons n b tps, rs)
termination_by sizeOf xs
decreasing_by all_goals (simp_wf; omega)
end

/-- `decodeType` with a fresh results table -/
def decodeTypeTop (j : Json) : D CType := do let (t, _) ← decodeType j []; pure t

/-- `decodeAddress` -/
def decodeAddr : Json → D (List UInt8)
  | .str s =>
    match s.toList with
    | '0' :: 'x' :: rest =>
      match hexDecode rest with
      | some bs => if bs.length ≤ 8 then .ok (List.replicate (8 - bs.length) 0 ++ bs) else .error .err
      | none => .error .err
    | _ => .error .err
  | _ => .error .err

/-- unsigned kinds parsed with `strconv.ParseUint` (no sign allowed) -/
def usesParseUint (k : String) : Bool :=
  k == "UInt8" || k == "UInt16" || k == "UInt32" || k == "UInt64" || k == "Word8" || k == "Word16" || k == "Word32" || k == "Word64"

def decodeIntKind (k : String) (j : Json) : D CValue := do
  let s ← toStr j
  let n? : Option Int := if usesParseUint k then (goParseNat s).map Int.ofNat else goParseInt s
  match n? with
  | some n => if intKindOk k n then pure (.int k n) else .error .err
  | none => .error .err

/-- `fixedpoint.parseFixedPoint` + `checkAndConvertFixedPoint` -/
def goParseFixed (scale : Nat) (s : String) : Option Int :=
  match splitDots s.toList with
  | [ip, fp] =>
    let negative := match s.toList with | '-' :: _ => true | _ => false
    match goParseInt (String.ofList ip) with
    | none => none
    | some i =>
      match fp with
      | '+' :: _ => none
      | '-' :: _ => none
      | _ =>
        match parseDigits fp with
        | none => none
        | some f =>
          if fp.length > scale then none else
          let raw : Int := Int.ofNat (i.natAbs * 10 ^ scale + f * 10 ^ (scale - fp.length))
          some (if negative then -raw else raw)
  | _ => none

def decodeFixKind (k : String) (j : Json) : D CValue := do
  let s ← toStr j
  match goParseFixed (fixScale k) s with
  | some n =>
    let unsignedNeg := (k == "UFix64" || k == "UFix128") && (match s.toList with | '-' :: _ => true | _ => false)
    if fixKindOk k n && !unsignedNeg then pure (.fix k n) else .error .err
  | none => .error .err

def isIntKind (k : String) : Bool := (intRange k).isSome
def isFixKind (k : String) : Bool := (fixInfo k).isSome

def validDomain (d : String) : Bool := d == "storage" || d == "private" || d == "public"

mutual
/-- `decodeValue` -/
def decodeValue (j : Json) : D CValue :=
  match j with
  | .obj kvs => do
    let ⟨tj, _⟩ ← getKey kvs "type"
    let ty ← toStr tj
    if ty == "Void" then (if kvs.length != 1 then .error .err else pure .void)
    else if kvs.length != 2 then .error .err
    else do
    let ⟨v, _⟩ ← getKey kvs "value"
    if ty == "Optional" then
      match v with
      | .null => pure .none
      | _ => do let x ← decodeValue v; pure (.some x)
    else if ty == "Bool" then do pure (.bool (← toBoolJ v))
    else if ty == "Character" then do
      let s ← toStr v
      if s.length == 1 then pure (.char s) else if s.length == 0 then .error .err else .error (.ood "character-with-several-code-points")
    else if ty == "String" then do pure (.str (← toStr v))
    else if ty == "Address" then do pure (.addr (← decodeAddr v))
    else if isIntKind ty then decodeIntKind ty v
    else if isFixKind ty then decodeFixKind ty v
    else if ty == "Array" then do
      let ⟨xs, _⟩ ← asArr v
      pure (.arr .nil (← decodeValuesList xs))
    else if ty == "Dictionary" then do
      let ⟨xs, _⟩ ← asArr v
      pure (.dict .nil (← decodePairsList xs))
    else if ty == "Resource" || ty == "Struct" || ty == "Event" || ty == "Contract" || ty == "Enum" then do
      let ⟨ckvs, _⟩ ← asObj v
      let ⟨idj, _⟩ ← getKey ckvs "id"
      let id ← decodeCompositeTypeID idj
      let ⟨fj, _⟩ ← getKey ckvs "fields"
      let ⟨xs, _⟩ ← asArr fj
      let (fs, vs) ← decodeCompFieldsList xs
      let ck : CompKind := if ty == "Resource" then .resource else if ty == "Struct" then .struct
        else if ty == "Event" then .event else if ty == "Contract" then .contract else .enum
      let is : Inits := if ty == "Event" then .cons .nil .nil else .nil
      pure (.comp (.comp ck id .nil fs is) vs)
    else if ty == "InclusiveRange" then do
      let ⟨rkvs, _⟩ ← asObj v
      let ⟨sj, _⟩ ← getKey rkvs "start"
      let s ← decodeValue sj
      let ⟨ej, _⟩ ← getKey rkvs "end"
      let e ← decodeValue ej
      let ⟨pj, _⟩ ← getKey rkvs "step"
      let p ← decodeValue pj
      pure (.range (.range s.typeOf) s e p)
    else if ty == "Path" then do
      let ⟨pkvs, _⟩ ← asObj v
      let ⟨dj, _⟩ ← getKey pkvs "domain"
      let d ← toStr dj
      let ⟨ij, _⟩ ← getKey pkvs "identifier"
      let i ← toStr ij
      if validDomain d then pure (.path d i) else .error .err
    else if ty == "Type" then do
      let ⟨tkvs, _⟩ ← asObj v
      let ⟨sj, _⟩ ← getKey tkvs "staticType"
      pure (.type (← decodeTypeTop sj))
    else if ty == "Capability" then do
      let ⟨ckvs, _⟩ ← asObj v
      let ⟨aj, _⟩ ← getKey ckvs "address"
      let a ← decodeAddr aj
      let ⟨bj, _⟩ ← getKey ckvs "borrowType"
      let b ← decodeTypeTop bj
      if hasKey ckvs "path" then .error .err else
      let ⟨idj, _⟩ ← getKey ckvs "id"
      match ← decodeIntKind "UInt64" idj with
      | .int _ n => pure (.cap n.toNat a b)
      | _ => .error .err
    else if ty == "Function" then do
      let ⟨fkvs, _⟩ ← asObj v
      let ⟨fj, _⟩ ← getKey fkvs "functionType"
      match ← decodeTypeTop fj with
      | .func view tps ps ret => pure (.func (.func view tps ps ret))
      | _ => .error .err
    else .error .err
  | _ => .error .err
termination_by sizeOf j
decreasing_by all_goals (simp_wf; omega)
def decodeValuesList (xs : List Json) : D Values :=
  match xs with
  | [] => pure .nil
  | x :: r => do
    let v ← decodeValue x
    let vs ← decodeValuesList r
    pure (.cons v vs)
termination_by sizeOf xs
decreasing_by all_goals (simp_wf; omega)
def decodePairsList (xs : List Json) : D Pairs :=
  match xs with
  | [] => pure .nil
  | x :: r => do
    let ⟨kvs, _⟩ ← asObj x
    let ⟨kj, _⟩ ← getKey kvs "key"
    let k ← decodeValue kj
    let ⟨vj, _⟩ ← getKey kvs "value"
    let v ← decodeValue vj
    let ps ← decodePairsList r
    pure (.cons k v ps)
termination_by sizeOf xs
decreasing_by all_goals (simp_wf; omega)
/-- `decodeCompositeFields`: names and values; the declared type of a field is the value's type -/
def decodeCompFieldsList (xs : List Json) : D (Fields × Values) :=
  match xs with
  | [] => pure (.nil, .nil)
  | x :: r => do
    let ⟨kvs, _⟩ ← asObj x
    let ⟨nj, _⟩ ← getKey kvs "name"
    let n ← toStr nj
    let ⟨vj, _⟩ ← getKey kvs "value"
    let v ← decodeValue vj
    let (fs, vs) ← decodeCompFieldsList r
    pure (.cons n v.typeOf fs, .cons v vs)
termination_by sizeOf xs
decreasing_by all_goals (simp_wf; omega)
end

/-- `json.Decode` on the tree of the first JSON value of the input: the top level must be an object -/
def decode (j : Json) : D CValue := decodeValue j

/-! ### erasure: what JSON-Cadence does not carry -/

def zipFieldTypes : Fields → Values → Fields
  | _, .nil => .nil
  | fs, .cons v r => .cons (fieldNameAt fs) v.typeOf (zipFieldTypes (fieldsTail fs) r)

mutual
/-- static types of containers, declared field types, initializers and enum raw types of composite
values are dropped; the type of a range is the type of its (erased) start value -/
def erase : CValue → CValue
  | .some v => .some (erase v)
  | .arr _ vs => .arr .nil (eraseValues vs)
  | .dict _ kvs => .dict .nil (erasePairs kvs)
  | .comp t vs =>
    let vs' := eraseValues vs
    match t with
    | .comp k id _ fs _ =>
      .comp (.comp k id .nil (zipFieldTypes fs vs') (if k == .event then .cons .nil .nil else .nil)) vs'
    | _ => .comp t vs'
  | .range _ s e p => let s' := erase s; .range (.range s'.typeOf) s' (erase e) (erase p)
  | v => v
def eraseValues : Values → Values
  | .nil => .nil | .cons v r => .cons (erase v) (eraseValues r)
def erasePairs : Pairs → Pairs
  | .nil => .nil | .cons k v r => .cons (erase k) (erase v) (erasePairs r)
end

end Verif.Model.Codec
