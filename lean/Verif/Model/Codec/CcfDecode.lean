import Verif.Model.Codec.Ccf
import Verif.Model.Codec.Json
/-
CCF (property C42): the decoder of /repo/encoding/ccf (decode.go, decode_type.go, decode_typedef.go,
ccf_type_id.go, the two `…AreSortedBytewise` predicates of sort.go) on CBOR data items.  Core Lean only.

Go decodes from a `cbor.StreamDecoder`, which first validates the complete top-level data item
(`wellformed`) and then hands out heads; the port decodes the item tree of `Cbor.decodeItem` (the
shortest-form subset, so that the raw bytes of a sub-item are `Cbor.encode` of it: Go compares the raw
bytes of dictionary keys).  Every Go error is `.err`; panics raised inside the decoder with an `error`
value are recovered by `Decoder.Decode` and are `.err` too.

Types are decoded in two steps, because the Go decoder builds a pointer graph (a type definition /
composite type value is registered first and its fields are filled in later, so that fields can refer
to any definition, including the one they belong to):
 1. *raw* types: `CType`s in which a reference to the table entry number `n` is the node
    `.seen (mkRef n)` (and no `.comp` node occurs); the table maps the CCF type id to kind, Cadence type
    ID, raw fields …;
 2. `expand`: the tree the harness prints for the graph (print.go): an entry is unfolded at every
    reference, except inside its own unfolding, where it is `.seen <Cadence type ID>`.
-/
namespace Verif.Model.Codec.CcfDecode
open Verif.Model.Codec Verif.Model.Codec.Ccf

/-- `DecOptions`: the three enforce-sort options (dictionary keys and type definitions are always checked) -/
structure DMode where
  enforceFields : Bool := false
  enforceIntersections : Bool := false
  enforceEntitlements : Bool := false

def DMode.default : DMode := {}
def DMode.strict : DMode := { enforceFields := true, enforceIntersections := true, enforceEntitlements := true }

inductive DErr where
  | err | ood (why : String)
  deriving DecidableEq, Repr

abbrev D := Except DErr

/-! ### sort.go: the predicates the decoder enforces -/

/-- `stringsAreSortedBytewise(s1, s2)`: strictly increasing, length first -/
def strSorted (a b : String) : Bool := lenFirstLe a b && a != b

/-- `bytesAreSortedBytewise(b1, b2)`: `bytes.Compare(b1, b2) <= 0` -/
def rawSorted (a b : List UInt8) : Bool := bytesLe a b

/-! ### heads (`cbor.StreamDecoder.Decode…`) -/

def isNil : Cbor → Bool
  | .simple 22 => true
  | _ => false

def asArr : Cbor → D (List Cbor)
  | .arr xs => pure xs
  | _ => .error .err

def asUint : Cbor → D Nat
  | .uint n => pure n
  | _ => .error .err

def asText : Cbor → D String
  | .text s => pure s
  | _ => .error .err

def asBytes : Cbor → D (List UInt8)
  | .bytes b => pure b
  | _ => .error .err

/-- `DecodeInt64` -/
def asInt64 : Cbor → D Int
  | .uint n => if n > 2 ^ 63 - 1 then .error .err else pure (Int.ofNat n)
  | .nint n => if n > 2 ^ 63 - 1 then .error .err else pure (-1 - Int.ofNat n)
  | _ => .error .err

/-- `DecodeBigInt`: tag 2 / 3 on a byte string -/
def asBigInt : Cbor → D Int
  | .tag 2 (.bytes b) => pure (Int.ofNat (Cbor.beNat b))
  | .tag 3 (.bytes b) => pure (-1 - Int.ofNat (Cbor.beNat b))
  | _ => .error .err

/-- `decodeCCFTypeID`: `new(big.Int).SetBytes(b).Uint64()` -/
def asCcfID : Cbor → D Nat
  | .bytes b => pure (Cbor.beNat b % 2 ^ 64)
  | _ => .error .err

/-! ### the table of composite / interface types -/

structure Entry where
  kind : CompKind
  id : String          -- Cadence type ID
  extra : CType        -- raw: enum raw type / attachment base type (type values only)
  fields : Fields      -- raw
  inits : Inits        -- raw

abbrev Table := List (Nat × Entry)

def Table.find (tbl : Table) (n : Nat) : Option Entry := (List.find? (fun p => p.1 == n) tbl).map (·.2)
def Table.has (tbl : Table) (n : Nat) : Bool := (tbl.find n).isSome
def Table.set (tbl : Table) (n : Nat) (e : Entry) : Table := tbl.map fun p => if p.1 == n then (n, e) else p

/-- the raw reference to table entry `n` -/
def mkRef (n : Nat) : String := String.ofList (List.replicate n '#')
def refIdx (s : String) : Nat := s.length

/-- `decodeCadenceTypeID`: `common.DecodeTypeID` (property C45) must accept the type ID; the model covers
the shapes of `typeIDShapeOk` (address and string locations), everything else is outside the model -/
def asCadenceTypeID (x : Cbor) : D String := do
  let id ← asText x
  if typeIDShapeOk id then pure id else .error (.ood "type-id-shape")

/-- inline-type tag / type-value tag → kind -/
def kindOfTag (base : Nat) (t : Nat) : Option CompKind :=
  if t == base + tagStructType then some .struct
  else if t == base + tagResourceType then some .resource
  else if t == base + tagEventType then some .event
  else if t == base + tagContractType then some .contract
  else if t == base + tagEnumType then some .enum
  else if t == base + tagAttachmentType then some .attachment
  else if t == base + tagStructInterfaceType then some .sinterface
  else if t == base + tagResourceInterfaceType then some .rinterface
  else if t == base + tagContractInterfaceType then some .cinterface
  else none

/-- `typeBySimpleTypeID`: the inverse of the encoder's table -/
def simpleTypeByID (n : Nat) : Option String :=
  match Verif.Gen.CcfTags.simpleTypes.find? (fun e => e.1 == n) with
  | some (_, _, id) => if id == "" then none else some id
  | none => none

def asSimpleType (x : Cbor) : D CType := do
  match simpleTypeByID (← asUint x) with
  | some id => pure (.prim id)
  | none => .error .err

/-! ### raw types: type IDs -/

mutual
/-- the raw type with every reference replaced by `.seen <Cadence type ID>`: `Type.ID()` of the Go
type is `CType.id` of this tree -/
def substIds (ids : List (Nat × String)) : CType → CType
  | .opt t => .opt (substIds ids t)
  | .varr t => .varr (substIds ids t)
  | .carr n t => .carr n (substIds ids t)
  | .dict k v => .dict (substIds ids k) (substIds ids v)
  | .range t => .range (substIds ids t)
  | .cap t => .cap (substIds ids t)
  | .ref a t => .ref a (substIds ids t)
  | .inter ts => .inter (substIdsTs ids ts)
  | .func v tps ps r => .func v (substIdsTPs ids tps) (substIdsPs ids ps) (substIds ids r)
  | .seen s => match ids.find? (fun p => p.1 == refIdx s) with
    | some (_, id) => .seen id
    | none => .seen s
  | t => t
def substIdsTs (ids : List (Nat × String)) : Types → Types
  | .nil => .nil | .cons t r => .cons (substIds ids t) (substIdsTs ids r)
def substIdsPs (ids : List (Nat × String)) : Params → Params
  | .nil => .nil | .cons l i t r => .cons l i (substIds ids t) (substIdsPs ids r)
def substIdsTPs (ids : List (Nat × String)) : TParams → TParams
  | .nil => .nil | .cons n b r => .cons n (substIds ids b) (substIdsTPs ids r)
end

def rawID (ids : List (Nat × String)) (t : CType) : String := (substIds ids t).id

/-! ### authorizations (decode_type.go: decodeAuthorization) -/

/-- the entitlements of a set with more than one member: texts, pairwise different, sorted when enforced -/
def entitlements (enforce : Bool) : List Cbor → String → List String → D (List String)
  | [], _, _ => pure []
  | x :: rest, prev, seenIDs => do
    let id ← asText x
    if seenIDs.contains id then .error .err
    else if enforce && !strSorted prev id then .error .err
    else do pure (id :: (← entitlements enforce rest id (id :: seenIDs)))

def entitlementSet (m : DMode) (x : Cbor) : D Auth := do
  match ← asArr x with
  | [k, es] =>
    let kind ← asUint k
    if kind != 0 && kind != 1 then .error .err else
    let ids ← (match ← asArr es with
      | [] => .error .err
      | [e] => do pure [← asText e]
      | l => entitlements m.enforceEntitlements l "" [] : D (List String))
    pure (if kind == 0 then .conj ids else .disj ids)
  | _ => .error .err

def decodeAuth (m : DMode) (isType : Bool) : Cbor → D Auth
  | .simple 22 => pure .unauth
  | .tag t v =>
    if t == (if isType then tagEntitlementSetAuthorizationAccessType else 195) then entitlementSet m v
    else if t == (if isType then tagEntitlementMapAuthorizationAccessType else 196) then do pure (.map (← asText v))
    else .error .err
  | _ => .error .err

/-- the uniqueness and sortedness checks of `decodeIntersectionType` on the members' type IDs -/
def checkMembers (enforce : Bool) : List String → String → List String → Bool
  | [], _, _ => true
  | id :: rest, prev, seenIDs =>
    !seenIDs.contains id && (!enforce || strSorted prev id) && checkMembers enforce rest id (id :: seenIDs)

/-! ### inline types (decode_type.go: decodeInlineType) -/

mutual
/-- `decodeInlineType` to a raw type; `ids`: the CCF ids of the type definitions with their Cadence type IDs -/
def inlineT (m : DMode) (ids : List (Nat × String)) : Nat → Cbor → D CType
  | 0, _ => .error (.ood "fuel")
  | f + 1, x =>
    match x with
    | .tag t v =>
      if t == tagSimpleType then asSimpleType v
      else if t == tagOptionalType then do pure (.opt (← inlineT m ids f v))
      else if t == tagVarsizedArrayType then do pure (.varr (← inlineT m ids f v))
      else if t == tagConstsizedArrayType then
        match v with
        | .arr [n, e] => do
          let n ← asUint n
          pure (.carr n (← inlineT m ids f e))
        | _ => .error .err
      else if t == tagDictType then
        match v with
        | .arr [k, e] => do
          let k ← inlineT m ids f k
          pure (.dict k (← inlineT m ids f e))
        | _ => .error .err
      else if t == tagInclusiveRangeType then do pure (.range (← inlineT m ids f v))
      else if t == tagReferenceType then
        match v with
        | .arr [a, e] => do
          let a ← decodeAuth m true a
          pure (.ref a (← inlineT m ids f e))
        | _ => .error .err
      else if t == tagIntersectionType then
        match v with
        | .arr (y :: ys) => do
          let ts ← inlineTs m ids f (y :: ys)
          if checkMembers m.enforceIntersections (ts.toList.map (rawID ids)) "" [] then pure (.inter ts) else .error .err
        | _ => .error .err
      else if t == tagCapabilityType then
        match v with
        | .arr [b] => if isNil b then pure (.cap .nil) else do pure (.cap (← inlineT m ids f b))
        | _ => .error .err
      else if t == tagTypeRef then do
        let n ← asCcfID v
        if (ids.find? (fun p => p.1 == n)).isSome then pure (.seen (mkRef n)) else .error .err
      else .error .err
    | _ => .error .err
def inlineTs (m : DMode) (ids : List (Nat × String)) : Nat → List Cbor → D Types
  | 0, _ => .error (.ood "fuel")
  | _ + 1, [] => pure .nil
  | f + 1, x :: xs => do
    let t ← inlineT m ids f x
    pure (.cons t (← inlineTs m ids f xs))
end

/-! ### composite fields (decode_typedef.go: decodeCompositeFields) -/

/-- the uniqueness and sortedness checks on field names -/
def checkNames (enforce : Bool) : List String → String → List String → Bool
  | [], _, _ => true
  | n :: rest, prev, seenNames =>
    !seenNames.contains n && (!enforce || strSorted prev n) && checkNames enforce rest n (n :: seenNames)

def inlineFields (m : DMode) (ids : List (Nat × String)) (fuel : Nat) : List Cbor → D Fields
  | [] => pure .nil
  | .arr [n, t] :: rest => do
    let name ← asText n
    let ty ← inlineT m ids fuel t
    pure (.cons name ty (← inlineFields m ids fuel rest))
  | _ :: _ => .error .err

def decodeInlineFields (m : DMode) (ids : List (Nat × String)) (fuel : Nat) (x : Cbor) : D Fields := do
  let fs ← inlineFields m ids fuel (← asArr x)
  if checkNames m.enforceFields (Fields.names fs) "" [] then pure fs else .error .err

/-! ### type definitions (decode_typedef.go: decodeTypeDefs) -/

/-- one definition, first pass: kind, Cadence type ID, the item of the fields (composite types only) -/
def typeDefHead (i : Nat) (x : Cbor) : D (CompKind × String × Option Cbor) :=
  match x with
  | .tag t (.arr items) =>
    match kindOfTag 0 t with
    | none => .error .err
    | some kind =>
      if kind.isInterface then
        match items with
        | [idb, cid] => do
          let n ← asCcfID idb
          let cid ← asCadenceTypeID cid
          if n != i then .error .err else pure (kind, cid, none)
        | _ => .error .err
      else
        match items with
        | [idb, cid, fs] => do
          let n ← asCcfID idb
          let cid ← asCadenceTypeID cid
          if n != i then .error .err else pure (kind, cid, some fs)
        | _ => .error .err
  | _ => .error .err

/-- first pass over the definitions: ids equal positions, Cadence type IDs unique and strictly sorted -/
def typeDefHeads : List Cbor → Nat → String → List String → D (List (CompKind × String × Option Cbor))
  | [], _, _, _ => pure []
  | x :: rest, i, prev, seenIDs => do
    let (kind, cid, fs) ← typeDefHead i x
    if seenIDs.contains cid then .error .err
    else if !strSorted prev cid then .error .err
    else do pure ((kind, cid, fs) :: (← typeDefHeads rest (i + 1) cid (cid :: seenIDs)))

def headIds : List (CompKind × String × Option Cbor) → Nat → List (Nat × String)
  | [], _ => []
  | (_, cid, _) :: r, i => (i, cid) :: headIds r (i + 1)

/-- second pass: the fields, with every definition available -/
def typeDefEntries (m : DMode) (ids : List (Nat × String)) (fuel : Nat) :
    List (CompKind × String × Option Cbor) → Nat → D Table
  | [], _ => pure []
  | (kind, cid, fs) :: rest, i => do
    let fields ← (match fs with
      | some x => decodeInlineFields m ids fuel x
      | none => pure .nil : D Fields)
    pure ((i, { kind := kind, id := cid, extra := .nil, fields := fields, inits := noInits kind }) ::
      (← typeDefEntries m ids fuel rest (i + 1)))

def decodeTypeDefs (m : DMode) (fuel : Nat) (x : Cbor) : D Table := do
  match ← asArr x with
  | [] => .error .err
  | ds =>
    let heads ← typeDefHeads ds 0 "" []
    typeDefEntries m (headIds heads 0) fuel heads 0

def Table.ids (tbl : Table) : List (Nat × String) := tbl.map fun p => (p.1, p.2.id)

/-! ### type values (decode.go: decodeTypeValue) -/

/-- `visited` of a type value: the entries and `nextCCFTypeID` -/
structure TV where
  tbl : Table := []
  next : Nat := 0

def paramNamesOk : List (String × String × CType) → List String → List String → Bool
  | [], _, _ => true
  | (l, i, _) :: r, ls, is => !ls.contains l && !is.contains i && paramNamesOk r (l :: ls) (i :: is)

def tparamNamesOk : List (String × CType) → List String → Bool
  | [], _ => true
  | (n, _) :: r, ns => !ns.contains n && tparamNamesOk r (n :: ns)

mutual
/-- `decodeTypeValue` to a raw type -/
def typeValueT (m : DMode) : Nat → Cbor → TV → D (CType × TV)
  | 0, _, _ => .error (.ood "fuel")
  | f + 1, x, st =>
    match x with
    | .tag t v =>
      if t == tagTypeRef + typeValueOffset then do
        let n ← asCcfID v
        if st.tbl.has n then pure (.seen (mkRef n), st) else .error .err
      else if t == tagSimpleType + typeValueOffset then do pure (← asSimpleType v, st)
      else if t == tagOptionalType + typeValueOffset then do
        let (e, st) ← typeValueT m f v st
        pure (.opt e, st)
      else if t == tagVarsizedArrayType + typeValueOffset then do
        let (e, st) ← typeValueT m f v st
        pure (.varr e, st)
      else if t == tagConstsizedArrayType + typeValueOffset then
        match v with
        | .arr [n, e] => do
          let n ← asUint n
          let (e, st) ← typeValueT m f e st
          pure (.carr n e, st)
        | _ => .error .err
      else if t == tagDictType + typeValueOffset then
        match v with
        | .arr [k, e] => do
          let (k, st) ← typeValueT m f k st
          let (e, st) ← typeValueT m f e st
          pure (.dict k e, st)
        | _ => .error .err
      else if t == 194 then do
        let (e, st) ← typeValueT m f v st
        pure (.range e, st)
      else if t == tagCapabilityType + typeValueOffset then
        match v with
        | .arr [b] =>
          if isNil b then pure (.cap .nil, st) else do
            let (e, st) ← typeValueT m f b st
            pure (.cap e, st)
        | _ => .error .err
      else if t == tagReferenceType + typeValueOffset then
        match v with
        | .arr [a, e] => do
          let a ← decodeAuth m false a
          let (e, st) ← typeValueT m f e st
          pure (.ref a e, st)
        | _ => .error .err
      else if t == tagIntersectionType + typeValueOffset then
        match v with
        | .arr (y :: ys) => do
          let (ts, st) ← typeValueTs m f (y :: ys) st
          -- the type IDs are taken while decoding; the Cadence type ID of an entry never changes
          if checkMembers m.enforceIntersections (ts.toList.map (rawID st.tbl.ids)) "" [] then pure (.inter ts, st)
          else .error .err
        | _ => .error .err
      else if t == 193 then
        match v with
        | .arr (tps :: ps :: ret :: rest) =>
          if rest.length > 1 then .error .err else do
          let (tps, st) ← tparamValuesT m f (← asArr tps) st
          if !tparamNamesOk tps.toList [] then .error .err else
          let (ps, st) ← paramValuesT m f (← asArr ps) st
          if !paramNamesOk ps.toList [] [] then .error .err else
          let (r, st) ← typeValueT m f ret st
          match rest with
          | [] => pure (.func false tps ps r, st)
          | p :: _ => do
            let p ← asInt64 p
            if p == 0 then pure (.func false tps ps r, st)
            else if p == 1 then pure (.func true tps ps r, st)
            else .error .err
        | _ => .error .err
      else
        match kindOfTag typeValueOffset t with
        | none => .error .err
        | some kind =>
          match v with
          | .arr [idb, cid, ty, fs, is] => do
            let n ← asCcfID idb
            if n != st.next then .error .err else
            let st : TV := { st with next := n + 1 }
            let cid ← asCadenceTypeID cid
            let (extra, st) ← (if isNil ty then pure (CType.nil, st) else typeValueT m f ty st : D (CType × TV))
            -- the constructors: only enum and attachment types have (and must have) a type
            let extraOk := match extra with
              | .nil => !(kind == .enum || kind == .attachment)
              | _ => kind == .enum || kind == .attachment
            if !extraOk then .error .err else
            if st.tbl.has n then .error .err else
            let e : Entry := { kind := kind, id := cid, extra := extra, fields := .nil, inits := .nil }
            let st : TV := { st with tbl := st.tbl ++ [(n, e)] }
            let (fields, st) ← fieldValuesT m f (← asArr fs) st
            if !checkNames m.enforceFields (Fields.names fields) "" [] then .error .err else
            let isl ← asArr is
            if isl.length > 1 then .error .err else
            let (inits, st) ← initValuesT m f isl st
            if kind == .event && isl.length != 1 then .error .err else
            let st : TV := { st with tbl := st.tbl.set n { e with fields := fields, inits := inits } }
            pure (.seen (mkRef n), st)
          | _ => .error .err
    | _ => .error .err
def typeValueTs (m : DMode) : Nat → List Cbor → TV → D (Types × TV)
  | 0, _, _ => .error (.ood "fuel")
  | _ + 1, [], st => pure (.nil, st)
  | f + 1, x :: xs, st => do
    let (t, st) ← typeValueT m f x st
    let (ts, st) ← typeValueTs m f xs st
    pure (.cons t ts, st)
def fieldValuesT (m : DMode) : Nat → List Cbor → TV → D (Fields × TV)
  | 0, _, _ => .error (.ood "fuel")
  | _ + 1, [], st => pure (.nil, st)
  | f + 1, x :: xs, st =>
    match x with
    | .arr [n, t] => do
      let name ← asText n
      let (t, st) ← typeValueT m f t st
      let (fs, st) ← fieldValuesT m f xs st
      pure (.cons name t fs, st)
    | _ => .error .err
def paramValuesT (m : DMode) : Nat → List Cbor → TV → D (Params × TV)
  | 0, _, _ => .error (.ood "fuel")
  | _ + 1, [], st => pure (.nil, st)
  | f + 1, x :: xs, st =>
    match x with
    | .arr [l, i, t] => do
      let l ← asText l
      let i ← asText i
      let (t, st) ← typeValueT m f t st
      let (ps, st) ← paramValuesT m f xs st
      pure (.cons l i t ps, st)
    | _ => .error .err
def tparamValuesT (m : DMode) : Nat → List Cbor → TV → D (TParams × TV)
  | 0, _, _ => .error (.ood "fuel")
  | _ + 1, [], st => pure (.nil, st)
  | f + 1, x :: xs, st =>
    match x with
    | .arr [n, b] => do
      let n ← asText n
      let (b, st) ← (if isNil b then pure (CType.nil, st) else typeValueT m f b st : D (CType × TV))
      let (tps, st) ← tparamValuesT m f xs st
      pure (.cons n b tps, st)
    | _ => .error .err
def initValuesT (m : DMode) : Nat → List Cbor → TV → D (Inits × TV)
  | 0, _, _ => .error (.ood "fuel")
  | _ + 1, [], st => pure (.nil, st)
  | f + 1, x :: xs, st => do
    let (ps, st) ← paramValuesT m f (← asArr x) st
    if !paramNamesOk ps.toList [] [] then .error .err else
    let (is, st) ← initValuesT m f xs st
    pure (.cons ps is, st)
end

/-! ### raw types to trees -/

mutual
def sizeT : CType → Nat
  | .opt t | .varr t | .carr _ t | .range t | .cap t | .ref _ t => sizeT t + 1
  | .dict k v => sizeT k + sizeT v + 1
  | .inter ts => sizeTs ts + 1
  | .func _ tps ps r => sizeTPs tps + sizePs ps + sizeT r + 1
  | .comp _ _ e fs is => sizeT e + sizeFs fs + sizeIs is + 1
  | _ => 1
def sizeTs : Types → Nat
  | .nil => 1 | .cons t r => sizeT t + sizeTs r + 1
def sizeFs : Fields → Nat
  | .nil => 1 | .cons _ t r => sizeT t + sizeFs r + 1
def sizePs : Params → Nat
  | .nil => 1 | .cons _ _ t r => sizeT t + sizePs r + 1
def sizeIs : Inits → Nat
  | .nil => 1 | .cons ps r => sizePs ps + sizeIs r + 1
def sizeTPs : TParams → Nat
  | .nil => 1 | .cons _ b r => sizeT b + sizeTPs r + 1
end

def Entry.size (e : Entry) : Nat := sizeT e.extra + sizeFs e.fields + sizeIs e.inits + 1

/-- fuel that `expand` needs: a path through the tree passes through each entry at most once -/
def expandFuel (tbl : Table) (t : CType) : Nat :=
  (tbl.length + 1) * ((tbl.map (fun p => p.2.size)).foldl max (sizeT t) + 1)

mutual
/-- the tree of a raw type: an entry is unfolded at every reference, except inside its own unfolding
(`enc`: the entries being unfolded), where it is `.seen <Cadence type ID>` (print.go: `(rec ID)`) -/
def expand (tbl : Table) : Nat → List Nat → CType → CType
  | 0, _, t => t
  | f + 1, enc, t =>
    match t with
    | .opt t => .opt (expand tbl f enc t)
    | .varr t => .varr (expand tbl f enc t)
    | .carr n t => .carr n (expand tbl f enc t)
    | .dict k v => .dict (expand tbl f enc k) (expand tbl f enc v)
    | .range t => .range (expand tbl f enc t)
    | .cap t => .cap (expand tbl f enc t)
    | .ref a t => .ref a (expand tbl f enc t)
    | .inter ts => .inter (expandTs tbl f enc ts)
    | .func v tps ps r => .func v (expandTPs tbl f enc tps) (expandPs tbl f enc ps) (expand tbl f enc r)
    | .seen s =>
      let n := refIdx s
      match tbl.find n with
      | none => .seen s
      | some e =>
        if enc.contains n then .seen e.id
        else .comp e.kind e.id (expand tbl f (n :: enc) e.extra) (expandFs tbl f (n :: enc) e.fields)
          (expandIs tbl f (n :: enc) e.inits)
    | t => t
def expandTs (tbl : Table) : Nat → List Nat → Types → Types
  | 0, _, ts => ts
  | _ + 1, _, .nil => .nil
  | f + 1, enc, .cons t r => .cons (expand tbl f enc t) (expandTs tbl f enc r)
def expandFs (tbl : Table) : Nat → List Nat → Fields → Fields
  | 0, _, fs => fs
  | _ + 1, _, .nil => .nil
  | f + 1, enc, .cons n t r => .cons n (expand tbl f enc t) (expandFs tbl f enc r)
def expandPs (tbl : Table) : Nat → List Nat → Params → Params
  | 0, _, ps => ps
  | _ + 1, _, .nil => .nil
  | f + 1, enc, .cons l i t r => .cons l i (expand tbl f enc t) (expandPs tbl f enc r)
def expandIs (tbl : Table) : Nat → List Nat → Inits → Inits
  | 0, _, is => is
  | _ + 1, _, .nil => .nil
  | f + 1, enc, .cons ps r => .cons (expandPs tbl f enc ps) (expandIs tbl f enc r)
def expandTPs (tbl : Table) : Nat → List Nat → TParams → TParams
  | 0, _, tps => tps
  | _ + 1, _, .nil => .nil
  | f + 1, enc, .cons n b r => .cons n (expand tbl f enc b) (expandTPs tbl f enc r)
end

/-- the printed tree of a raw type -/
def treeOf (tbl : Table) (t : CType) : CType := expand tbl (expandFuel tbl t) [] t

/-- `decodeNullableTypeValue` with a fresh `visited` table: the static type of a type value -/
def decodeTypeValueTop (m : DMode) (fuel : Nat) (x : Cbor) : D CType :=
  if isNil x then pure .nil else do
    let (t, st) ← typeValueT m fuel x {}
    pure (treeOf st.tbl t)

/-! ### values (decode.go: decodeValue) -/

/-- `newNilOptionalValue`: the nil nested as deep as the directly nested optional types -/
def nilOptional : CType → CValue
  | .opt (.opt t) => .some (nilOptional (.opt t))
  | _ => .none

def isBigKind (k : String) : Bool :=
  k == "Int" || k == "Int128" || k == "Int256" || k == "UInt" || k == "UInt128" || k == "UInt256" ||
  k == "Word128" || k == "Word256"

def isInt64Kind (k : String) : Bool := k == "Int8" || k == "Int16" || k == "Int32" || k == "Int64"

def isUint64Kind (k : String) : Bool :=
  k == "UInt8" || k == "UInt16" || k == "UInt32" || k == "UInt64" || k == "Word8" || k == "Word16" ||
  k == "Word32" || k == "Word64"

/-- `common.PathDomain(uint64)` (a `uint8`) and `NewPath` -/
def domainName (d : Nat) : D String :=
  let d := d % 256
  if d == 0 then .error .err
  else if d == 1 then pure "storage" else if d == 2 then pure "private" else if d == 3 then pure "public"
  else .error (.ood "path-domain")

/-- the values of the simple types that `decodeValue` decodes directly; `none`: not such a type -/
def simpleValue (id : String) (x : Cbor) : Option (D CValue) :=
  if id == "Void" then some (if isNil x then pure .void else .error .err)
  else if id == "Bool" then some (match x with
    | .simple 20 => pure (.bool false) | .simple 21 => pure (.bool true) | _ => .error .err)
  else if id == "Character" then some (do
    let s ← asText x
    if s.length == 1 then pure (.char s) else if s.length == 0 then .error .err
    else .error (.ood "character-with-several-code-points"))
  else if id == "String" then some (do pure (.str (← asText x)))
  else if id == "Address" then some (do
    let b ← asBytes x
    if b.length != 8 then .error .err else pure (.addr b))
  else if isBigKind id then some (do
    let n ← asBigInt x
    if intKindOk id n then pure (.int id n) else .error .err)
  else if isInt64Kind id then some (do
    let n ← asInt64 x
    if intKindOk id n then pure (.int id n) else .error .err)
  else if isUint64Kind id then some (do
    let n ← asUint x
    if intKindOk id (Int.ofNat n) then pure (.int id (Int.ofNat n)) else .error .err)
  else if id == "Fix64" then some (do pure (.fix "Fix64" (← asInt64 x)))
  else if id == "UFix64" then some (do pure (.fix "UFix64" (Int.ofNat (← asUint x))))
  else if id == "Fix128" then some (match x with
    | .arr [.uint hi, .uint lo] =>
      let u := hi * 2 ^ 64 + lo
      pure (.fix "Fix128" (if u < 2 ^ 127 then Int.ofNat u else Int.ofNat u - 2 ^ 128))
    | _ => .error .err)
  else if id == "UFix128" then some (match x with
    | .arr [.uint hi, .uint lo] => pure (.fix "UFix128" (Int.ofNat (hi * 2 ^ 64 + lo)))
    | _ => .error .err)
  else if id == "StoragePath" || id == "PublicPath" || id == "PrivatePath" then some (match x with
    | .arr [.uint d, .text i] => do pure (.path (← domainName d) i)
    | _ => .error .err)
  else none

mutual
/-- number of nodes of an item -/
def itemSize : Cbor → Nat
  | .arr xs => itemsSize xs + 1
  | .tag _ v => itemSize v + 1
  | _ => 1
def itemsSize : List Cbor → Nat
  | [] => 0
  | x :: xs => itemSize x + itemsSize xs + 1
end

/-- fuel for the type decoders on an item (they use one unit per level and per list position) -/
def typeFuel (x : Cbor) : Nat := 2 * itemSize x + 2

theorem sizeT_fieldTypeAt_le (fs : Fields) : sizeT (fieldTypeAt fs) ≤ sizeFs fs := by
  cases fs <;> simp [fieldTypeAt, sizeT, sizeFs]; omega

theorem sizeFs_fieldsRest_le (fs : Fields) : sizeFs (fieldsRest fs) ≤ sizeFs fs := by
  cases fs <;> simp [fieldsRest, sizeFs]; omega

mutual
/-- `decodeValue t` for a raw type `t`.  `fuel` bounds the nesting of the item: it goes down with every
step into a sub-item; the steps that stay on the item (`T?` to `T`, `&T` to `T`) go down in the type. -/
def decodeValue (m : DMode) (tbl : Table) (fuel : Nat) (t : CType) (x : Cbor) : D CValue :=
  match t with
  | .nil => .error .err
  | .prim id =>
    if id == "Type" then do pure (.type (← decodeTypeValueTop m (typeFuel x) x))
    else match simpleValue id x with
      | some r => r
      | none => abstractValue m tbl fuel x
  | .opt e =>
    if isNil x then pure (nilOptional (.opt e))
    else do pure (.some (← decodeValue m tbl fuel e x))
  | .varr e =>
    match fuel with
    | 0 => .error (.ood "fuel")
    | f + 1 => do
      let xs ← asArr x
      pure (.arr (treeOf tbl (.varr e)) (← decodeValues m tbl f e xs))
  | .carr n e =>
    match fuel with
    | 0 => .error (.ood "fuel")
    | f + 1 => do
      let xs ← asArr x
      if xs.length != n then .error .err else
      pure (.arr (treeOf tbl (.carr n e)) (← decodeValues m tbl f e xs))
  | .dict k v =>
    match fuel with
    | 0 => .error (.ood "fuel")
    | f + 1 => do
      let xs ← asArr x
      if xs.length % 2 != 0 then .error .err else
      pure (.dict (treeOf tbl (.dict k v)) (← decodePairs m tbl f k v [] xs))
  | .range e =>
    match fuel with
    | 0 => .error (.ood "fuel")
    | f + 1 =>
      match x with
      | .arr [s, en, st] => do
        let s ← decodeValue m tbl f e s
        let en ← decodeValue m tbl f e en
        let st ← decodeValue m tbl f e st
        pure (.range (treeOf tbl (.range e)) s en st)
      | _ => .error .err
  | .cap b =>
    match x with
    | .tag tn v => if tn == tagTypeAndValue then typeAndValue m tbl fuel v else .error .err
    | .arr [a, i] => do
      let a ← asBytes a
      if a.length != 8 then .error .err else
      let i ← asUint i
      pure (.cap i a (treeOf tbl b))
    | _ => .error .err
  | .ref _ e => decodeValue m tbl fuel e x
  | .seen s =>
    match tbl.find (refIdx s) with
    | none => .error .err
    | some e =>
      if e.kind.isInterface then abstractValue m tbl fuel x
      else
        match fuel with
        | 0 => .error (.ood "fuel")
        | f + 1 => do
          let xs ← asArr x
          if xs.length != e.fields.length then .error .err else
          pure (.comp (treeOf tbl (.seen s)) (← decodeFieldValues m tbl f e.fields xs))
  | .inter _ => abstractValue m tbl fuel x
  | .func _ _ _ _ => abstractValue m tbl fuel x
  | .comp _ _ _ _ _ => abstractValue m tbl fuel x
termination_by (fuel, sizeT t + 2)
decreasing_by
  all_goals simp_wf
  all_goals first
    | (apply Prod.Lex.left; omega)
    | (apply Prod.Lex.right; simp [sizeT]; done)
    | (apply Prod.Lex.right; simp [sizeT]; omega)
/-- the `default` case: a nil value, or a value with its run-time type -/
def abstractValue (m : DMode) (tbl : Table) (fuel : Nat) (x : Cbor) : D CValue :=
  if isNil x then pure .nilv
  else match x with
    | .tag tn v => if tn == tagTypeAndValue then typeAndValue m tbl fuel v else .error .err
    | _ => .error .err
termination_by (fuel, 1)
decreasing_by
  all_goals simp_wf
  all_goals (apply Prod.Lex.right; omega)
/-- `decodeTypeAndValue` -/
def typeAndValue (m : DMode) (tbl : Table) (fuel : Nat) (x : Cbor) : D CValue :=
  match fuel with
  | 0 => .error (.ood "fuel")
  | f + 1 =>
    match x with
    | .arr [ti, v] => do
      let t ← inlineT m tbl.ids (typeFuel ti) ti
      decodeValue m tbl f t v
    | _ => .error .err
termination_by (fuel, 0)
decreasing_by
  all_goals simp_wf
  all_goals (apply Prod.Lex.left; omega)
def decodeValues (m : DMode) (tbl : Table) (fuel : Nat) (t : CType) : List Cbor → D Values
  | [] => pure .nil
  | x :: xs => do
    let v ← decodeValue m tbl fuel t x
    pure (.cons v (← decodeValues m tbl fuel t xs))
termination_by xs => (fuel, sizeT t + 3 + xs.length)
decreasing_by
  all_goals simp_wf
  all_goals (apply Prod.Lex.right; omega)
/-- `decodeDictionary`: the raw bytes of the keys must not decrease -/
def decodePairs (m : DMode) (tbl : Table) (fuel : Nat) (kt vt : CType) (prev : List UInt8) : List Cbor → D Pairs
  | [] => pure .nil
  | [_] => .error .err
  | k :: v :: rest => do
    let kb := Cbor.encode k
    if !rawSorted prev kb then .error .err else
    let key ← decodeValue m tbl fuel kt k
    let val ← decodeValue m tbl fuel vt v
    pure (.cons key val (← decodePairs m tbl fuel kt vt kb rest))
termination_by xs => (fuel, sizeT kt + sizeT vt + 3 + xs.length)
decreasing_by
  all_goals simp_wf
  all_goals (apply Prod.Lex.right; omega)
def decodeFieldValues (m : DMode) (tbl : Table) (fuel : Nat) (fs : Fields) : List Cbor → D Values
  | [] => pure .nil
  | x :: xs => do
    let v ← decodeValue m tbl fuel (fieldTypeAt fs) x
    pure (.cons v (← decodeFieldValues m tbl fuel (fieldsRest fs) xs))
termination_by xs => (fuel, sizeFs fs + 3 + xs.length)
decreasing_by
  all_goals simp_wf
  · apply Prod.Lex.right; have := sizeT_fieldTypeAt_le fs; omega
  · apply Prod.Lex.right; have := sizeFs_fieldsRest_le fs; omega
end

/-! ### the message -/

mutual
/-- the CCF ids under every type-ref tag of an item -/
def refsOf : Cbor → List Nat
  | .arr xs => refsOfList xs
  | .tag t v => if t == tagTypeRef then (match v with | .bytes b => [Cbor.beNat b % 2 ^ 64] | _ => []) else refsOf v
  | _ => []
def refsOfList : List Cbor → List Nat
  | [] => []
  | x :: xs => refsOf x ++ refsOfList xs
end

/-- fuel for one message: the nesting of the item -/
def msgFuel (x : Cbor) : Nat := itemSize x + 1

/-- `Decoder.Decode` on the item of the message.  `types.hasUnreferenced()`: when the value has been
decoded, every type-ref tag of the message has been decoded as a reference (no other position of a
message accepts that tag), so the referenced definitions are the ids under these tags. -/
def decodeMsgF (m : DMode) (fuel : Nat) (x : Cbor) : D CValue :=
  match x with
  | .tag t body =>
    if t == tagTypeDefAndValue then
      match body with
      | .arr [defs, tv] => do
        let tbl ← decodeTypeDefs m (typeFuel defs) defs
        let v ← typeAndValue m tbl fuel tv
        if tbl.length > (refsOf x).eraseDups.length then .error .err else pure v
      | _ => .error .err
    else if t == tagTypeAndValue then typeAndValue m [] fuel body
    else .error .err
  | _ => .error .err

/-- `Decoder.Decode` with the fuel of the message -/
def decodeMsg (m : DMode) (x : Cbor) : D CValue := decodeMsgF m (msgFuel x) x

/-- `DecMode.Decode`: one item, no trailing bytes.  Bytes that are not shortest-form CBOR of the subset
are outside the model (`fxamacker/cbor` accepts longer heads). -/
def decode (m : DMode) (bs : List UInt8) : D CValue :=
  match Cbor.decodeItem (2 * bs.length + 1) bs with
  | none => .error (.ood "cbor")
  | some (x, rest) => if !rest.isEmpty then .error .err else decodeMsg m x

end Verif.Model.Codec.CcfDecode
