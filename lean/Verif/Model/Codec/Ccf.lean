import Verif.Model.Codec.TypeID
import Verif.Model.Codec.Cbor
import Verif.Gen.CcfTags
/-
CCF (property C42): the encoder of /repo/encoding/ccf (encode.go, encode_type.go,
encode_typedef.go, traverse_value.go, sort.go, simpletype.go) over the external value / type algebra,
producing CBOR data items.  Tag numbers are the constants of consts.go (pinned against the running
code by Verif.Gen.CcfTags and the `tags_pinned` obligation of C42); simple type ids come from
Verif.Gen.CcfTags.simpleTypes.  Core Lean only.
-/
namespace Verif.Model.Codec.Ccf
open Verif.Model.Codec

/-! ### constants (consts.go) -/
def tagTypeDefAndValue := 129
def tagTypeAndValue := 130
def tagTypeRef := 136
def tagSimpleType := 137
def tagOptionalType := 138
def tagVarsizedArrayType := 139
def tagConstsizedArrayType := 140
def tagDictType := 141
def tagReferenceType := 142
def tagIntersectionType := 143
def tagCapabilityType := 144
def tagInclusiveRangeType := 145
def tagEntitlementSetAuthorizationAccessType := 146
def tagEntitlementMapAuthorizationAccessType := 147
def tagStructType := 160
def tagResourceType := 161
def tagEventType := 162
def tagContractType := 163
def tagEnumType := 164
def tagAttachmentType := 165
def tagStructInterfaceType := 176
def tagResourceInterfaceType := 177
def tagContractInterfaceType := 178
/-- a type-value tag is the inline-type tag + 48 -/
def typeValueOffset := 48
def simpleTypeFunction := 51

/-- the pinned tag table, compared with the regenerated one by `C42.tags_pinned` -/
def pinnedTags : List (String × Nat) := [
  ("TypeDef", 128), ("TypeDefAndValue", tagTypeDefAndValue), ("TypeAndValue", tagTypeAndValue),
  ("TypeRef", tagTypeRef), ("SimpleType", tagSimpleType), ("OptionalType", tagOptionalType),
  ("VarsizedArrayType", tagVarsizedArrayType), ("ConstsizedArrayType", tagConstsizedArrayType),
  ("DictType", tagDictType), ("ReferenceType", tagReferenceType), ("IntersectionType", tagIntersectionType),
  ("CapabilityType", tagCapabilityType), ("InclusiveRangeType", tagInclusiveRangeType),
  ("EntitlementSetAuthorizationAccessType", tagEntitlementSetAuthorizationAccessType),
  ("EntitlementMapAuthorizationAccessType", tagEntitlementMapAuthorizationAccessType),
  ("StructType", tagStructType), ("ResourceType", tagResourceType), ("EventType", tagEventType),
  ("ContractType", tagContractType), ("EnumType", tagEnumType), ("AttachmentType", tagAttachmentType),
  ("StructInterfaceType", tagStructInterfaceType), ("ResourceInterfaceType", tagResourceInterfaceType),
  ("ContractInterfaceType", tagContractInterfaceType),
  ("TypeValueRef", tagTypeRef + typeValueOffset), ("SimpleTypeValue", tagSimpleType + typeValueOffset),
  ("OptionalTypeValue", tagOptionalType + typeValueOffset),
  ("VarsizedArrayTypeValue", tagVarsizedArrayType + typeValueOffset),
  ("ConstsizedArrayTypeValue", tagConstsizedArrayType + typeValueOffset),
  ("DictTypeValue", tagDictType + typeValueOffset), ("ReferenceTypeValue", tagReferenceType + typeValueOffset),
  ("IntersectionTypeValue", tagIntersectionType + typeValueOffset),
  ("CapabilityTypeValue", tagCapabilityType + typeValueOffset), ("FunctionTypeValue", 193),
  ("InclusiveRangeTypeValue", 194), ("EntitlementSetAuthorizationAccessTypeValue", 195),
  ("EntitlementMapAuthorizationAccessTypeValue", 196),
  ("StructTypeValue", tagStructType + typeValueOffset), ("ResourceTypeValue", tagResourceType + typeValueOffset),
  ("EventTypeValue", tagEventType + typeValueOffset), ("ContractTypeValue", tagContractType + typeValueOffset),
  ("EnumTypeValue", tagEnumType + typeValueOffset), ("AttachmentTypeValue", tagAttachmentType + typeValueOffset),
  ("StructInterfaceTypeValue", tagStructInterfaceType + typeValueOffset),
  ("ResourceInterfaceTypeValue", tagResourceInterfaceType + typeValueOffset),
  ("ContractInterfaceTypeValue", tagContractInterfaceType + typeValueOffset)]

def compTag : CompKind → Nat
  | .struct => tagStructType | .resource => tagResourceType | .event => tagEventType
  | .contract => tagContractType | .enum => tagEnumType | .attachment => tagAttachmentType
  | .sinterface => tagStructInterfaceType | .rinterface => tagResourceInterfaceType
  | .cinterface => tagContractInterfaceType

/-- `simpleTypeIDByType`: the simple type id of a primitive type (by type ID) -/
def simpleTypeID (id : String) : Option Nat :=
  (Verif.Gen.CcfTags.simpleTypes.find? (fun e => e.2.2 == id && id != "")).map (·.1)

/-- encoding mode: the three sort options of `EncOptions` (dictionary keys are always sorted) -/
structure Mode where
  sortFields : Bool := false
  sortIntersections : Bool := false
  sortEntitlements : Bool := false

def Mode.default : Mode := {}
def Mode.deterministic : Mode := { sortFields := true, sortIntersections := true, sortEntitlements := true }

/-- errors of the encoder: `err` = `Encode` returns an error; `unexpected` = an internal
(unexpected) error, which `Encode` re-panics; `ood` = outside the model -/
inductive EErr where
  | err | unexpected | ood (why : String)
  deriving DecidableEq, Repr

abbrev E := Except EErr

/-! ### `cadence.Type.Equal` (types.go) -/

def sameSet (a b : List String) : Bool := a.length == b.length && a.all b.contains

def authEqual : Auth → Auth → Bool
  | .unauth, .unauth => true
  | .map a, .map b => a == b
  | .conj a, .conj b => sameSet a b
  | .disj a, .disj b => sameSet a b
  | _, _ => false

def isCompositeLike : CType → Option String
  | .comp _ id _ _ _ => some id
  | .seen id => some id
  | _ => none

mutual
/-- `Type.Equal`: composite / interface types by identity (kind and type ID), intersections as sets
of type IDs (since /repo 0eda6e0; before, by Go pointer) -/
def typeEqual : CType → CType → Bool
  | .nil, .nil => true
  | .prim a, .prim b => a == b
  | .opt a, .opt b => typeEqual a b
  | .varr a, .varr b => typeEqual a b
  | .carr n a, .carr m b => n == m && typeEqual a b
  | .dict k v, .dict k' v' => typeEqual k k' && typeEqual v v'
  | .range a, .range b => typeEqual a b
  | .cap .nil, .cap .nil => true
  | .cap .nil, .cap _ => false
  | .cap a, .cap b => typeEqual a b
  | .ref x a, .ref y b => authEqual x y && typeEqual a b
  | .func v tps ps r, .func v' tps' ps' r' => v == v' && tparamsEqual tps tps' && paramsEqual ps ps' && typeEqual r r'
  | .comp k id _ _ _, .comp k' id' _ _ _ => k == k' && id == id'
  | .comp _ id _ _ _, .seen id' => id == id'
  | .seen id, .comp _ id' _ _ _ => id == id'
  | .seen id, .seen id' => id == id'
  | .inter a, .inter b => sameSet (Types.ids a).eraseDups (Types.ids b).eraseDups
  | _, _ => false
def paramsEqual : Params → Params → Bool
  | .nil, .nil => true
  | .cons _ _ t r, .cons _ _ t' r' => typeEqual t t' && paramsEqual r r'
  | _, _ => false
def tparamsEqual : TParams → TParams → Bool
  | .nil, .nil => true
  | .cons _ .nil r, .cons _ .nil r' => tparamsEqual r r'
  | .cons _ .nil _, .cons _ _ _ => false
  | .cons _ b r, .cons _ b' r' => (match b' with | .nil => false | _ => typeEqual b b') && tparamsEqual r r'
  | _, _ => false
end

/-! ### collection of composite / interface types (traverse_value.go) -/

/-- a collected type: type ID, the declaration, and the `abstractTypes` flag (none while in progress) -/
structure Collected where
  id : String
  kind : CompKind
  fields : Fields
  abstract : Option Bool

abbrev St := List Collected      -- in insertion order

def St.find (st : St) (id : String) : Option Collected := List.find? (fun c => c.id == id) st
def St.setAbstract (st : St) (id : String) (b : Bool) : St :=
  st.map fun c => if c.id == id then { c with abstract := some b } else c

/-- primitive types for which `traverseType` answers "no need to check the run-time type" -/
def concretePrims : List String := ["Void", "Bool", "Never", "Character", "String", "Address", "Int", "Int8", "Int16",
  "Int32", "Int64", "Int128", "Int256", "UInt", "UInt8", "UInt16", "UInt32", "UInt64", "UInt128", "UInt256", "Word8",
  "Word16", "Word32", "Word64", "Word128", "Word256", "Fix64", "UFix64", "Path", "StoragePath", "PublicPath",
  "PrivatePath", "Type", "Number", "SignedNumber", "Integer", "SignedInteger", "FixedSizeUnsignedInteger", "FixedPoint",
  "SignedFixedPoint"]

mutual
/-- `traverseType`: collects composite / interface types, answers whether run-time types must be checked -/
def traverseType : CType → St → Bool × St
  | .opt t, st => traverseType t st
  | .varr t, st => traverseType t st
  | .carr _ t, st => traverseType t st
  | .dict k v, st =>
    let (a, st) := traverseType k st
    let (b, st) := traverseType v st
    (a || b, st)
  | .cap t, st => traverseType t st
  | .ref _ t, st => traverseType t st
  | .inter ts, st => traverseTypes ts st
  | .comp kind id _ fs _, st =>
    match st.find id with
    | some c => (if kind.isInterface then true else c.abstract.getD false, st)
    | none =>
      let st := st ++ [{ id := id, kind := kind, fields := fs, abstract := none }]
      if kind.isInterface then (true, st)
      else
        let (check, st) := traverseFields fs st
        (check, st.setAbstract id check)
  | .seen id, st =>
    match st.find id with
    | some c => (if c.kind.isInterface then true else c.abstract.getD false, st)
    | none => (true, st)
  | .prim id, st => (!(id == "Bytes" || concretePrims.contains id), st)
  | .func _ _ _ _, st => (false, st)
  | .range _, st => (false, st)
  | .nil, st => (true, st)
def traverseTypes : Types → St → Bool × St
  | .nil, st => (false, st)
  | .cons t r, st =>
    let (a, st) := traverseType t st
    let (b, st) := traverseTypes r st
    (a || b, st)
def traverseFields : Fields → St → Bool × St
  | .nil, st => (false, st)
  | .cons _ t r, st =>
    let (a, st) := traverseType t st
    let (b, st) := traverseFields r st
    (a || b, st)
end

def isEnumType : CType → Bool
  | .comp .enum _ _ _ _ => true
  | _ => false

mutual
/-- `traverseValue` -/
def traverseValue : CValue → St → St
  | .nilv, st => st
  | .some v, st =>
    let (check, st) := traverseType (CValue.some v).typeOf st
    if check then traverseValue v st else st
  | .arr t vs, st =>
    let (check, st) := traverseType t st
    if check then traverseValues vs st else st
  | .dict t kvs, st =>
    let (check, st) := traverseType t st
    if check then traversePairs kvs st else st
  | .comp t vs, st =>
    let (check, st) := traverseType t st
    if check && !isEnumType t then traverseValues vs st else st
  | v, st => (traverseType v.typeOf st).2
def traverseValues : Values → St → St
  | .nil, st => st
  | .cons v r, st => traverseValues r (traverseValue v st)
def traversePairs : Pairs → St → St
  | .nil, st => st
  | .cons k v r, st => traversePairs r (traverseValue v (traverseValue k st))
end

/-- `compositeTypesFromValue`: the collected types sorted by type ID (length first), ids = positions -/
def collect (v : CValue) : List Collected :=
  let st := traverseValue v []
  if st.length < 2 then st else sortBy (fun a b => lenFirstLe a.id b.id) st

def ccfID (tids : List Collected) (id : String) : Option Nat := List.findIdx? (fun c => c.id == id) tids

/-- `ccfTypeID.Bytes()` as a CBOR byte string -/
def ccfIDItem (n : Nat) : Cbor := .bytes (Cbor.minBytes n)

/-! ### inline types (encode_type.go) -/

def sortedIdx (le : String → String → Bool) (xs : List String) : List String := sortBy le xs

def authItem (m : Mode) (isType : Bool) : Auth → Cbor
  | .unauth => Cbor.null
  | .map id => .tag (if isType then tagEntitlementMapAuthorizationAccessType else 196) (.text id)
  | .conj ids => .tag (if isType then tagEntitlementSetAuthorizationAccessType else 195)
      (.arr [.uint 0, .arr ((if m.sortEntitlements then sortBy lenFirstLe ids else ids).map Cbor.text)])
  | .disj ids => .tag (if isType then tagEntitlementSetAuthorizationAccessType else 195)
      (.arr [.uint 1, .arr ((if m.sortEntitlements then sortBy lenFirstLe ids else ids).map Cbor.text)])

/-- members of an intersection in encoding order: sorted by type ID (length first) when requested -/
def orderTypes (sort : Bool) (ts : List CType) : List CType :=
  if sort then sortBy (fun a b => lenFirstLe a.id b.id) ts else ts

mutual
/-- `encodeInlineType` -/
def inlineType (m : Mode) (tids : List Collected) : CType → E Cbor
  | .nil => .error .unexpected
  | .prim id =>
    match simpleTypeID id with
    | some n => pure (.tag tagSimpleType (.uint n))
    | none => .error .unexpected
  | .opt t => do pure (.tag tagOptionalType (← inlineType m tids t))
  | .varr t => do pure (.tag tagVarsizedArrayType (← inlineType m tids t))
  | .carr n t => do pure (.tag tagConstsizedArrayType (.arr [.uint n, ← inlineType m tids t]))
  | .dict k v => do pure (.tag tagDictType (.arr [← inlineType m tids k, ← inlineType m tids v]))
  | .range t => do pure (.tag tagInclusiveRangeType (← inlineType m tids t))
  | .comp _ id _ _ _ =>
    match ccfID tids id with
    | some n => pure (.tag tagTypeRef (ccfIDItem n))
    | none => .error .unexpected
  | .seen id =>
    match ccfID tids id with
    | some n => pure (.tag tagTypeRef (ccfIDItem n))
    | none => .error .unexpected
  | .ref a t => do pure (.tag tagReferenceType (.arr [authItem m true a, ← inlineType m tids t]))
  | .inter ts => do
    -- a single member is encoded with the nullable encoder, the others with the plain one: same result;
    -- inline types are encoded without state, so encoding the members and then ordering them by
    -- type ID is the same as ordering first
    let items ← inlineTypes m tids ts
    let keyed := (Types.ids ts).zip items
    let ordered := if m.sortIntersections then sortBy (fun a b => lenFirstLe a.1 b.1) keyed else keyed
    pure (.tag tagIntersectionType (.arr (ordered.map (·.2))))
  | .cap .nil => pure (.tag tagCapabilityType (.arr [Cbor.null]))
  | .cap t => do pure (.tag tagCapabilityType (.arr [← inlineType m tids t]))
  | .func _ _ _ _ => pure (.tag tagSimpleType (.uint simpleTypeFunction))
def inlineTypes (m : Mode) (tids : List Collected) : Types → E (List Cbor)
  | .nil => pure []
  | .cons t r => do pure ((← inlineType m tids t) :: (← inlineTypes m tids r))
end

/-! ### type values (encode.go: encodeTypeValue …) -/

/-- fields in encoding order: sorted by name (length first) in deterministic mode -/
def orderFields (sort : Bool) (fs : Fields) : List (String × CType) :=
  if sort then sortBy (fun a b => lenFirstLe a.1 b.1) fs.toList else fs.toList

abbrev Visited := List String     -- type IDs in the order of first visit; the CCF id is the position

def visitedID (vis : Visited) (id : String) : Option Nat := List.findIdx? (· == id) vis

mutual
/-- nesting depth of a type (fuel for the type-value encoder) -/
def depthT : CType → Nat
  | .opt t | .varr t | .carr _ t | .range t | .cap t | .ref _ t => depthT t + 1
  | .dict k v => max (depthT k) (depthT v) + 1
  | .inter ts => depthTs ts + 1
  | .func _ tps ps r => max (max (depthTPs tps) (depthPs ps)) (depthT r) + 1
  | .comp _ _ e fs is => max (max (depthT e) (depthFs fs)) (depthIs is) + 1
  | _ => 1
def depthTs : Types → Nat
  | .nil => 0 | .cons t r => max (depthT t) (depthTs r)
def depthFs : Fields → Nat
  | .nil => 0 | .cons _ t r => max (depthT t) (depthFs r)
def depthPs : Params → Nat
  | .nil => 0 | .cons _ _ t r => max (depthT t) (depthPs r)
def depthIs : Inits → Nat
  | .nil => 0 | .cons ps r => max (depthPs ps) (depthIs r)
def depthTPs : TParams → Nat
  | .nil => 0 | .cons _ b r => max (depthT b) (depthTPs r)
end

mutual
/-- `encodeTypeValue` with the `visited` table; `fuel` ≥ the depth of the type -/
def typeValue (m : Mode) : Nat → CType → Visited → E (Cbor × Visited)
  | 0, _, _ => .error (.ood "fuel")
  | fuel + 1, t, vis =>
    match t with
    | .nil => .error .unexpected
    | .seen id =>
      match visitedID vis id with
      | some n => pure (.tag (tagTypeRef + typeValueOffset) (ccfIDItem n), vis)
      | none => .error (.ood "rec-before-declaration")
    | .prim id =>
      match simpleTypeID id with
      | some n => pure (.tag (tagSimpleType + typeValueOffset) (.uint n), vis)
      | none => .error .unexpected
    | .opt t => do let (x, vis) ← typeValue m fuel t vis; pure (.tag (tagOptionalType + typeValueOffset) x, vis)
    | .varr t => do let (x, vis) ← typeValue m fuel t vis; pure (.tag (tagVarsizedArrayType + typeValueOffset) x, vis)
    | .carr n t => do
      let (x, vis) ← typeValue m fuel t vis
      pure (.tag (tagConstsizedArrayType + typeValueOffset) (.arr [.uint n, x]), vis)
    | .dict k v => do
      let (x, vis) ← typeValue m fuel k vis
      let (y, vis) ← typeValue m fuel v vis
      pure (.tag (tagDictType + typeValueOffset) (.arr [x, y]), vis)
    | .range t => do let (x, vis) ← typeValue m fuel t vis; pure (.tag 194 x, vis)
    | .ref a t => do
      let (x, vis) ← typeValue m fuel t vis
      pure (.tag (tagReferenceType + typeValueOffset) (.arr [authItem m false a, x]), vis)
    | .inter ts => do
      let (xs, vis) ← typeValues m fuel (orderTypes m.sortIntersections ts.toList) vis
      pure (.tag (tagIntersectionType + typeValueOffset) (.arr xs), vis)
    | .cap .nil => pure (.tag (tagCapabilityType + typeValueOffset) (.arr [Cbor.null]), vis)
    | .cap t => do
      let (x, vis) ← typeValue m fuel t vis
      pure (.tag (tagCapabilityType + typeValueOffset) (.arr [x]), vis)
    | .func view tps ps ret => do
      let (x, vis) ← functionValue m fuel view tps ps ret vis
      pure (.tag 193 x, vis)
    | .comp kind id extra fs is =>
      match visitedID vis id with
      | some n => pure (.tag (tagTypeRef + typeValueOffset) (ccfIDItem n), vis)
      | none => do
        let n := vis.length
        let vis := vis ++ [id]
        let (ex, vis) ← (match extra with
          | .nil => pure (Cbor.null, vis)
          | e => typeValue m fuel e vis : E (Cbor × Visited))
        let (fx, vis) ← fieldValues m fuel (orderFields m.sortFields fs) vis
        let inits := is.toList
        if inits.length > 1 then .error .err else
        let (ix, vis) ← initValues m fuel inits vis
        pure (.tag (compTag kind + typeValueOffset) (.arr [ccfIDItem n, .text id, ex, .arr fx, .arr ix]), vis)
termination_by fuel _ _ => (fuel, 0, 0)
/-- `encodeFunction` -/
def functionValue (m : Mode) (fuel : Nat) (view : Bool) (tps : TParams) (ps : Params) (ret : CType) (vis : Visited) :
    E (Cbor × Visited) := do
  let (tx, vis) ← tparamValues m fuel tps.toList vis
  let (px, vis) ← paramValues m fuel ps.toList vis
  let (rx, vis) ← (match fuel with
    | 0 => .error (.ood "fuel")
    | f + 1 => typeValue m (f + 1) ret vis : E (Cbor × Visited))
  pure (.arr [.arr tx, .arr px, rx, .uint (if view then 1 else 0)], vis)
termination_by (fuel, 2, 0)
def typeValues (m : Mode) (fuel : Nat) : List CType → Visited → E (List Cbor × Visited)
  | [], vis => pure ([], vis)
  | t :: r, vis => do
    let (x, vis) ← typeValue m fuel t vis
    let (xs, vis) ← typeValues m fuel r vis
    pure (x :: xs, vis)
termination_by ts => (fuel, 1, ts.length)
def fieldValues (m : Mode) (fuel : Nat) : List (String × CType) → Visited → E (List Cbor × Visited)
  | [], vis => pure ([], vis)
  | (n, t) :: r, vis => do
    let (x, vis) ← typeValue m fuel t vis
    let (xs, vis) ← fieldValues m fuel r vis
    pure (.arr [.text n, x] :: xs, vis)
termination_by fs => (fuel, 1, fs.length)
def paramValues (m : Mode) (fuel : Nat) : List (String × String × CType) → Visited → E (List Cbor × Visited)
  | [], vis => pure ([], vis)
  | (l, i, t) :: r, vis => do
    let (x, vis) ← typeValue m fuel t vis
    let (xs, vis) ← paramValues m fuel r vis
    pure (.arr [.text l, .text i, x] :: xs, vis)
termination_by ps => (fuel, 1, ps.length)
def initValues (m : Mode) (fuel : Nat) : List Params → Visited → E (List Cbor × Visited)
  | [], vis => pure ([], vis)
  | ps :: r, vis => do
    let (x, vis) ← paramValues m fuel ps.toList vis
    let (xs, vis) ← initValues m fuel r vis
    pure (.arr x :: xs, vis)
termination_by is => (fuel, 2, is.length)
def tparamValues (m : Mode) (fuel : Nat) : List (String × CType) → Visited → E (List Cbor × Visited)
  | [], vis => pure ([], vis)
  | (n, b) :: r, vis => do
    let (x, vis) ← (match b with
      | .nil => pure (Cbor.null, vis)
      | b => typeValue m fuel b vis : E (Cbor × Visited))
    let (xs, vis) ← tparamValues m fuel r vis
    pure (.arr [.text n, x] :: xs, vis)
termination_by tps => (fuel, 1, tps.length)
end

/-- `encodeNullableTypeValue` with a fresh `visited` table (type values and function values are self-contained) -/
def typeValueTop (m : Mode) : CType → E Cbor
  | .nil => pure Cbor.null
  | t => do let (x, _) ← typeValue m (depthT t + 1) t []; pure x

/-! ### values (encode.go) -/

/-- `isOptionalNeverType` -/
def isOptionalNever : CType → Bool
  | .opt (.prim "Never") => true
  | .opt t => isOptionalNever t
  | _ => false

/-- `needToEncodeRuntimeType` -/
def needRuntimeType : CType → CType → Bool
  | .nil, _ => true
  | .opt s, rt =>
    if typeEqual (.opt s) rt then false
    else if isOptionalNever rt then false
    else match rt with
      | .opt r => needRuntimeType s r
      | _ => true
  | .ref a s, rt => if typeEqual (.ref a s) rt then false else needRuntimeType s rt
  | st, rt => !typeEqual st rt

/-- `getTypeToEncodeAsCCFInlineType`; `none`: the static type is optional and the run-time type is not (unexpected error) -/
def inlineRuntimeType : CType → CType → Option CType
  | .opt s, .opt r => inlineRuntimeType s r
  | .opt _, _ => none
  | .ref _ s, rt => inlineRuntimeType s rt
  | _, rt => some rt

def elemType : CType → CType
  | .varr t => t
  | .carr _ t => t
  | _ => .nil
def dictKeyType : CType → CType
  | .dict k _ => k
  | _ => .nil
def dictValType : CType → CType
  | .dict _ v => v
  | _ => .nil
def rangeElemType : CType → CType
  | .range t => t
  | _ => .nil

def domainCode : String → Option Nat
  | "storage" => some 1 | "private" => some 2 | "public" => some 3 | _ => none

def fieldTypeAt : Fields → CType
  | .nil => .nil | .cons _ t _ => t
def fieldsRest : Fields → Fields
  | .nil => .nil | .cons _ _ r => r

/-- reorder the encoded fields by field name (length first) in deterministic mode -/
def orderByName (sort : Bool) (names : List String) (items : List Cbor) : List Cbor :=
  if sort && items.length > 1 then (sortBy (fun a b => lenFirstLe a.1 b.1) (names.zip items)).map (·.2) else items

/-- `bytewiseKeyValuePairSorter`: pairs ordered by the bytes of the encoded key -/
def sortPairs (pairs : List (Cbor × Cbor)) : List (Cbor × Cbor) :=
  sortBy (fun a b => bytesLe (Cbor.encode a.1) (Cbor.encode b.1)) pairs

def flattenPairs : List (Cbor × Cbor) → List Cbor
  | [] => []
  | (k, v) :: r => k :: v :: flattenPairs r

def Fields.names : Fields → List String
  | .nil => [] | .cons n _ r => n :: Fields.names r

mutual
/-- `encodeValue v staticType`.  `same`: the static type is the very object `v.Type()` (top level,
inner value of an optional): `staticType.Equal(runtimeType)` then holds even for intersection types,
which Go compares by pointer. -/
def value (m : Mode) (tids : List Collected) (same : Bool) : CValue → CType → E Cbor
  | .nilv, _ => pure Cbor.null
  | v, st => do
    let rt := v.typeOf
    match rt with
    | .nil => .error .unexpected                    -- "value has nil type"
    | _ =>
    let body ← valueBody m tids v
    if !same && needRuntimeType st rt then
      match inlineRuntimeType st rt with
      | none => .error .unexpected
      | some it => do
        let ti ← inlineType m tids it
        pure (.tag tagTypeAndValue (.arr [ti, body]))
    else pure body
/-- the value itself (the part of `encodeValue` after the optional type tag) -/
def valueBody (m : Mode) (tids : List Collected) : CValue → E Cbor
  | .nilv => pure Cbor.null
  | .void => pure Cbor.null
  | .none => pure Cbor.null
  | .some v => value m tids true v v.typeOf
  | .bool b => pure (Cbor.bool b)
  | .str s => pure (.text s)
  | .char s => pure (.text s)
  | .addr bs => pure (.bytes bs)
  | .int k n =>
    if k == "Int" || k == "Int128" || k == "Int256" || k == "UInt" || k == "UInt128" || k == "UInt256"
        || k == "Word128" || k == "Word256" then pure (Cbor.bigInt n)
    else pure (Cbor.int n)
  | .fix k n =>
    if k == "Fix64" || k == "UFix64" then pure (Cbor.int n)
    else
      -- Fix128 / UFix128: [hi, lo] of the 128-bit two's complement
      let u := (n % (2 ^ 128 : Int)).toNat
      pure (.arr [.uint (u / 2 ^ 64), .uint (u % 2 ^ 64)])
  | .arr t vs => do pure (.arr (← values m tids vs (elemType t)))
  | .dict t kvs => do
    let ps ← pairs m tids kvs (dictKeyType t) (dictValType t)
    pure (.arr (flattenPairs (if ps.length > 1 then sortPairs ps else ps)))
  | .range t s e p => do
    let et := rangeElemType t
    pure (.arr [← value m tids false s et, ← value m tids false e et, ← value m tids false p et])
  | .comp t vs =>
    match t with
    | .comp _ _ _ fs _ =>
      if fs.length != vs.length then .error .unexpected else do   -- (a user error when a value is an attachment)
      let items ← fieldValuesV m tids vs fs
      pure (.arr (orderByName m.sortFields (Fields.names fs) items))
    | _ => .error .unexpected
  | .path d i =>
    match domainCode d with
    | some c => pure (.arr [.uint c, .text i])
    | none => .error (.ood "path-domain")
  | .cap id a _ => pure (.arr [.bytes a, .uint id])
  | .type t => typeValueTop m t
  | .func t =>
    match t with
    | .func view tps ps ret => do
      let (x, _) ← functionValue m (depthT t + 1) view tps ps ret []
      pure x
    | _ => .error .unexpected
def values (m : Mode) (tids : List Collected) : Values → CType → E (List Cbor)
  | .nil, _ => pure []
  | .cons v r, st => do pure ((← value m tids false v st) :: (← values m tids r st))
def pairs (m : Mode) (tids : List Collected) : Pairs → CType → CType → E (List (Cbor × Cbor))
  | .nil, _, _ => pure []
  | .cons k v r, kt, vt => do pure (((← value m tids false k kt), (← value m tids false v vt)) :: (← pairs m tids r kt vt))
def fieldValuesV (m : Mode) (tids : List Collected) : Values → Fields → E (List Cbor)
  | .nil, _ => pure []
  | .cons v r, fs => do pure ((← value m tids false v (fieldTypeAt fs)) :: (← fieldValuesV m tids r (fieldsRest fs)))
end

/-! ### type definitions (encode_typedef.go) and the top-level message -/

def typeDefFields (m : Mode) (tids : List Collected) : List (String × CType) → E (List Cbor)
  | [] => pure []
  | (n, t) :: r => do pure (.arr [.text n, ← inlineType m tids t] :: (← typeDefFields m tids r))

def typeDef (m : Mode) (tids : List Collected) (idx : Nat) (c : Collected) : E Cbor :=
  if c.kind.isInterface then pure (.tag (compTag c.kind) (.arr [ccfIDItem idx, .text c.id]))
  else do
    let fs ← typeDefFields m tids (orderFields m.sortFields c.fields)
    pure (.tag (compTag c.kind) (.arr [ccfIDItem idx, .text c.id, .arr fs]))

def typeDefs (m : Mode) (tids : List Collected) : List Collected → Nat → E (List Cbor)
  | [], _ => pure []
  | c :: r, i => do pure ((← typeDef m tids i c) :: (← typeDefs m tids r (i + 1)))

/-- `Encoder.Encode`: the top-level message as a CBOR item -/
def encodeItem (m : Mode) (v : CValue) : E Cbor := do
  let tids := collect v
  let rt := v.typeOf
  match rt with
  | .nil => .error .unexpected
  | _ =>
  let ti ← inlineType m tids rt
  let body ← value m tids true v rt
  if tids.isEmpty then pure (.tag tagTypeAndValue (.arr [ti, body]))
  else do
    let defs ← typeDefs m tids tids 0
    pure (.tag tagTypeDefAndValue (.arr [.arr defs, .arr [ti, body]]))

/-- `ccf.Encode` / `EncMode.Encode`: the bytes -/
def encode (m : Mode) (v : CValue) : E (List UInt8) := do pure (Cbor.encode (← encodeItem m v))

/-! ### what CCF does not carry

The type definitions of a CCF message carry the fields of composite types only: initializers, enum raw
types and attachment base types of the types *of values* are not encoded (Go's `Type.Equal` on
composite types compares location and qualified identifier only), and interface types are encoded by
their type ID alone.  Type values (`Type<T>()`) and function values carry everything. -/

def noInits (k : CompKind) : Inits := if k == .event then .cons .nil .nil else .nil

mutual
def eraseT : CType → CType
  | .opt t => .opt (eraseT t)
  | .varr t => .varr (eraseT t)
  | .carr n t => .carr n (eraseT t)
  | .dict k v => .dict (eraseT k) (eraseT v)
  | .range t => .range (eraseT t)
  | .cap t => .cap (eraseT t)
  | .ref a t => .ref a (eraseT t)
  | .inter ts => .inter (eraseTs ts)
  | .comp k id _ fs _ => if k.isInterface then .comp k id .nil .nil (noInits k) else .comp k id .nil (eraseFs fs) (noInits k)
  | t => t
def eraseTs : Types → Types
  | .nil => .nil | .cons t r => .cons (eraseT t) (eraseTs r)
def eraseFs : Fields → Fields
  | .nil => .nil | .cons n t r => .cons n (eraseT t) (eraseFs r)
end

mutual
def eraseV : CValue → CValue
  | .some v => .some (eraseV v)
  | .arr t vs => .arr (eraseT t) (eraseVs vs)
  | .dict t kvs => .dict (eraseT t) (erasePs kvs)
  | .comp t vs => .comp (eraseT t) (eraseVs vs)
  | .range t s e p => .range (eraseT t) (eraseV s) (eraseV e) (eraseV p)
  | .cap id a t => .cap id a (eraseT t)
  | v => v
def eraseVs : Values → Values
  | .nil => .nil | .cons v r => .cons (eraseV v) (eraseVs r)
def erasePs : Pairs → Pairs
  | .nil => .nil | .cons k v r => .cons (eraseV k) (eraseV v) (erasePs r)
end

end Verif.Model.Codec.Ccf
