import Verif.Model.Codec.Json
/-
JSON text -> tree (the part of Go's `encoding/json` that `json.Decode` relies on: the first JSON value
of the input decoded into `map[string]any` / `[]any` / `string` / `float64` / `bool` / `nil`), and a
canonical rendering of trees used to compare them.  Used by the drivers only (trusted, like Go's
`encoding/json` on the other side).  Core Lean only.
-/
namespace Verif.Model.Codec.JsonText
open Verif.Model.Codec

def isWs (c : Char) : Bool := c == ' ' || c == '\n' || c == '\t' || c == '\r'

def skipWs : List Char → List Char
  | c :: cs => if isWs c then skipWs cs else c :: cs
  | [] => []

def hex4 : List Char → Option (Nat × List Char)
  | a :: b :: c :: d :: rest =>
    match hexVal a, hexVal b, hexVal c, hexVal d with
    | some w, some x, some y, some z => some (((w * 16 + x) * 16 + y) * 16 + z, rest)
    | _, _, _, _ => none
  | _ => none

/-- string body after the opening quote -/
partial def parseStr (cs : List Char) (acc : List Char) : Option (String × List Char) :=
  match cs with
  | [] => none
  | '"' :: rest => some (String.ofList acc.reverse, rest)
  | '\\' :: e :: rest =>
    match e with
    | '"' => parseStr rest ('"' :: acc)
    | '\\' => parseStr rest ('\\' :: acc)
    | '/' => parseStr rest ('/' :: acc)
    | 'b' => parseStr rest (Char.ofNat 8 :: acc)
    | 'f' => parseStr rest (Char.ofNat 12 :: acc)
    | 'n' => parseStr rest ('\n' :: acc)
    | 'r' => parseStr rest ('\r' :: acc)
    | 't' => parseStr rest ('\t' :: acc)
    | 'u' =>
      match hex4 rest with
      | none => none
      | some (u, rest') =>
        if 0xD800 ≤ u && u < 0xDC00 then
          -- high surrogate: needs a following \uDC00..\uDFFF, otherwise U+FFFD
          match rest' with
          | '\\' :: 'u' :: r2 =>
            match hex4 r2 with
            | some (l, r3) =>
              if 0xDC00 ≤ l && l < 0xE000 then
                parseStr r3 (Char.ofNat (0x10000 + (u - 0xD800) * 0x400 + (l - 0xDC00)) :: acc)
              else parseStr rest' (Char.ofNat 0xFFFD :: acc)
            | none => none
          | _ => parseStr rest' (Char.ofNat 0xFFFD :: acc)
        else if 0xDC00 ≤ u && u < 0xE000 then parseStr rest' (Char.ofNat 0xFFFD :: acc)
        else parseStr rest' (Char.ofNat u :: acc)
    | _ => none
  | c :: rest => if c.toNat < 0x20 then none else parseStr rest (c :: acc)

def takeDigits : List Char → List Char × List Char
  | c :: cs => if c.isDigit then let (d, r) := takeDigits cs; (c :: d, r) else ([], c :: cs)
  | [] => ([], [])

/-- JSON number grammar; natural number literals are interpreted -/
def parseNum (cs : List Char) : Option (Json × List Char) :=
  let (neg, cs1) := match cs with | '-' :: r => (true, r) | _ => (false, cs)
  let (ip, cs2) := takeDigits cs1
  if ip.isEmpty then none
  else if ip.length > 1 && ip.head? == some '0' then none
  else
    let (hasFrac, cs3, okF) := match cs2 with
      | '.' :: r => let (fp, r') := takeDigits r; (true, r', !fp.isEmpty)
      | _ => (false, cs2, true)
    if !okF then none else
    let (hasExp, cs4, okE) := match cs3 with
      | 'e' :: r | 'E' :: r =>
        let r1 := match r with | '+' :: x => x | '-' :: x => x | _ => r
        let (ep, r') := takeDigits r1; (true, r', !ep.isEmpty)
      | _ => (false, cs3, true)
    if !okE then none else
    if neg || hasFrac || hasExp then some (.numOther, cs4)
    else some (.num (Nat.ofDigitChars 10 ip 0), cs4)

def startsWith (cs pre : List Char) : Option (List Char) :=
  if pre.isPrefixOf cs then some (cs.drop pre.length) else none

/-- set a key, replacing an earlier binding (Go map semantics; the position of the first binding is kept) -/
def setKey (kvs : List (String × Json)) (k : String) (v : Json) : List (String × Json) :=
  if kvs.any (·.1 == k) then kvs.map (fun p => if p.1 == k then (k, v) else p) else kvs ++ [(k, v)]

mutual
partial def parseValue (cs : List Char) (depth : Nat) : Option (Json × List Char) :=
  if depth > 10000 then none else
  match skipWs cs with
  | 'n' :: r => (startsWith r "ull".toList).map (Json.null, ·)
  | 't' :: r => (startsWith r "rue".toList).map (Json.bool true, ·)
  | 'f' :: r => (startsWith r "alse".toList).map (Json.bool false, ·)
  | '"' :: r => (parseStr r []).map fun (s, r') => (Json.str s, r')
  | '[' :: r =>
    match skipWs r with
    | ']' :: r' => some (.arr [], r')
    | r' => parseElems r' [] depth
  | '{' :: r =>
    match skipWs r with
    | '}' :: r' => some (.obj [], r')
    | r' => parseMembers r' [] depth
  | c :: r => if c == '-' || c.isDigit then parseNum (c :: r) else none
  | [] => none
partial def parseElems (cs : List Char) (acc : List Json) (depth : Nat) : Option (Json × List Char) :=
  match parseValue cs (depth + 1) with
  | none => none
  | some (v, r) =>
    match skipWs r with
    | ',' :: r' => parseElems r' (v :: acc) depth
    | ']' :: r' => some (.arr (v :: acc).reverse, r')
    | _ => none
partial def parseMembers (cs : List Char) (acc : List (String × Json)) (depth : Nat) : Option (Json × List Char) :=
  match skipWs cs with
  | '"' :: r =>
    match parseStr r [] with
    | none => none
    | some (k, r1) =>
      match skipWs r1 with
      | ':' :: r2 =>
        match parseValue r2 (depth + 1) with
        | none => none
        | some (v, r3) =>
          match skipWs r3 with
          | ',' :: r4 => parseMembers r4 (setKey acc k v) depth
          | '}' :: r4 => some (.obj (setKey acc k v), r4)
          | _ => none
      | _ => none
  | _ => none
end

/-- the first JSON value of the text (what `json.Decoder.Decode` reads) -/
def parse (s : String) : Option Json := (parseValue s.toList 0).map (·.1)

/-- canonical rendering (strings as hex of their UTF-8 bytes), for comparing trees -/
partial def render : Json → String
  | .null => "null"
  | .bool b => if b then "true" else "false"
  | .num n => toString n
  | .numOther => "<num>"
  | .str s => "\"" ++ String.ofList (hexEncode (strBytes s)) ++ "\""
  | .arr xs => "[" ++ ",".intercalate (xs.map render) ++ "]"
  | .obj kvs => "{" ++ ",".intercalate (kvs.map fun (k, v) => "\"" ++ String.ofList (hexEncode (strBytes k)) ++ "\":" ++ render v) ++ "}"

/-- readable rendering (for MODELDIFF messages) -/
partial def pretty : Json → String
  | .null => "null"
  | .bool b => if b then "true" else "false"
  | .num n => toString n
  | .numOther => "<num>"
  | .str s => s.quote
  | .arr xs => "[" ++ ",".intercalate (xs.map pretty) ++ "]"
  | .obj kvs => "{" ++ ",".intercalate (kvs.map fun (k, v) => k.quote ++ ":" ++ pretty v) ++ "}"

end Verif.Model.Codec.JsonText
