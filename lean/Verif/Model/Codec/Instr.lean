/-
Code-shaped model of the operand codecs of /repo/bbq/opcode/instruction.go (`emit*` / `decode*`), and a
*generic* instruction codec: `Instruction.Encode`, `DecodeInstruction` and `DecodeInstructions`
interpreted over the instruction table regenerated from the source (`Verif.Gen.Instr.specs`), which
says for every instruction which `emit*` functions its `Encode` method calls, in which order.

Go specifics that are modelled:
* the instruction pointer is a `uint16`: `*ip += n` wraps modulo 2^16 (`wrap16`);
* `code[*ip]` beyond `len(code)` is a Go panic (`Out.goPanic`);
* `emitCompositeKind` truncates the kind to `uint16`; `emitUint16Array` / `emitUpvalueArray` panic for
  more than 65535 elements;
* `DecodeInstruction` panics (unreachable) for a byte that is not an opcode of the table;
* `DecodeInstructions` loops while `ip < uint16(len(code))` (the length is truncated too).
-/
import Verif.Gen.Instr
namespace Verif.Model.Instr

abbrev Bytes := List UInt8

inductive Out (α : Type) where
  | ok (a : α)
  | goPanic
  | diverge
  deriving Repr, DecidableEq

def wrap16 (n : Nat) : Nat := n % 65536
def u8 (n : Nat) : UInt8 := UInt8.ofNat n

/-- operand values; numbers are the Go values (`uint16`, `PathDomain` = uint8, `CompositeKind` = uint) -/
inductive Operand where
  | bool (b : Bool)
  | u16 (v : Nat)
  | u16s (vs : List Nat)
  | pathDomain (v : Nat)
  | compositeKind (v : Nat)
  | upvalues (us : List (Nat × Bool))     -- (TargetIndex, IsLocal)
  deriving DecidableEq, Repr

structure Instr where
  opcode : Nat
  operands : List Operand
  deriving DecidableEq, Repr

/-! ### emit* -/

/-- `encodeUint16` / `emitUint16`: big endian -/
def emitUint16 (v : Nat) : Bytes := [u8 ((v >>> 8) &&& 0xff), u8 (v &&& 0xff)]

def emitBool (b : Bool) : Bytes := [if b then 1 else 0]

def emitByte (b : Nat) : Bytes := [u8 b]

def emitUpvalue (u : Nat × Bool) : Bytes := emitUint16 u.1 ++ emitBool u.2

/-- `none` = Go panic ("uint16 array too large") -/
def emitOperand : Operand → Option Bytes
  | .bool b => some (emitBool b)
  | .u16 v => some (emitUint16 v)
  | .u16s vs =>
    if vs.length > 65535 then none
    else some (emitUint16 (wrap16 vs.length) ++ (vs.map emitUint16).flatten)
  | .pathDomain v => some (emitByte v)                      -- emitByte(code, byte(domain))
  | .compositeKind v => some (emitUint16 (wrap16 v))        -- emitUint16(code, uint16(kind))
  | .upvalues us =>
    if us.length > 65535 then none
    else some (emitUint16 (wrap16 us.length) ++ (us.map emitUpvalue).flatten)

def Operand.kind : Operand → Kind
  | .bool _ => .bool | .u16 _ => .u16 | .u16s _ => .u16s
  | .pathDomain _ => .pathDomain | .compositeKind _ => .compositeKind | .upvalues _ => .upvalues

/-- the operand is within the range its encoding can represent: `uint16` operands below 2^16 (always
    true of the Go field types), path domains below 2^8, composite kinds below 2^16 (the Go type is
    `uint`, the encoder truncates), arrays of at most 65535 elements (the encoder panics above) -/
def Operand.inRange : Operand → Bool
  | .bool _ => true
  | .u16 v => v < 65536
  | .u16s vs => vs.length ≤ 65535 && vs.all (· < 65536)
  | .pathDomain v => v < 256
  | .compositeKind v => v < 65536
  | .upvalues us => us.length ≤ 65535 && us.all (·.1 < 65536)

def emitOperands : List OperandSpec → List Operand → Option Bytes
  | [], [] => some []
  | s :: ss, o :: os =>
    if o.kind ≠ s.kind then none     -- not representable in Go (the struct field has another type)
    else match emitOperand o, emitOperands ss os with
      | some a, some b => some (a ++ b)
      | _, _ => none
  | _, _ => none

/-- `Instruction<Name>.Encode`: `emitOpcode`, then the operands in table order -/
def encode (spec : InstrSpec) (operands : List Operand) : Option Bytes :=
  (emitOperands spec.operands operands).map (u8 spec.opcode :: ·)

/-! ### decode* -/

def decodeByte (code : Bytes) (ip : Nat) : Out (Nat × Nat) :=
  match code[ip]? with
  | none => .goPanic
  | some b => .ok (b.toNat, wrap16 (ip + 1))

def decodeUint16 (code : Bytes) (ip : Nat) : Out (Nat × Nat) :=
  match code[ip]? with
  | none => .goPanic
  | some first =>
    match code[wrap16 (ip + 1)]? with
    | none => .goPanic
    | some last => .ok (wrap16 (first.toNat <<< 8) ||| last.toNat, wrap16 (ip + 2))

def decodeBool (code : Bytes) (ip : Nat) : Out (Bool × Nat) :=
  match decodeByte code ip with
  | .ok (b, ip) => .ok (b == 1, ip)
  | .goPanic => .goPanic
  | .diverge => .diverge

def decodeUpvalue (code : Bytes) (ip : Nat) : Out ((Nat × Bool) × Nat) :=
  match decodeUint16 code ip with
  | .ok (t, ip) =>
    match decodeBool code ip with
    | .ok (l, ip) => .ok ((t, l), ip)
    | .goPanic => .goPanic
    | .diverge => .diverge
  | .goPanic => .goPanic
  | .diverge => .diverge

/-- `for i := 0; i < int(count); i++ { values = append(values, decodeUint16(ip, code)) }` -/
def decodeUint16ArrayLoop (code : Bytes) : Nat → Nat → List Nat → Out (List Nat × Nat)
  | 0, ip, acc => .ok (acc, ip)
  | n + 1, ip, acc =>
    match decodeUint16 code ip with
    | .ok (v, ip) => decodeUint16ArrayLoop code n ip (acc ++ [v])
    | .goPanic => .goPanic
    | .diverge => .diverge

def decodeUpvalueArrayLoop (code : Bytes) : Nat → Nat → List (Nat × Bool) → Out (List (Nat × Bool) × Nat)
  | 0, ip, acc => .ok (acc, ip)
  | n + 1, ip, acc =>
    match decodeUpvalue code ip with
    | .ok (v, ip) => decodeUpvalueArrayLoop code n ip (acc ++ [v])
    | .goPanic => .goPanic
    | .diverge => .diverge

def decodeOperand (k : Kind) (code : Bytes) (ip : Nat) : Out (Operand × Nat) :=
  match k with
  | .bool =>
    match decodeBool code ip with
    | .ok (b, ip) => .ok (.bool b, ip) | .goPanic => .goPanic | .diverge => .diverge
  | .u16 =>
    match decodeUint16 code ip with
    | .ok (v, ip) => .ok (.u16 v, ip) | .goPanic => .goPanic | .diverge => .diverge
  | .u16s =>
    match decodeUint16 code ip with
    | .ok (count, ip) =>
      match decodeUint16ArrayLoop code count ip [] with
      | .ok (vs, ip) => .ok (.u16s vs, ip) | .goPanic => .goPanic | .diverge => .diverge
    | .goPanic => .goPanic | .diverge => .diverge
  | .pathDomain =>
    match decodeByte code ip with
    | .ok (b, ip) => .ok (.pathDomain b, ip) | .goPanic => .goPanic | .diverge => .diverge
  | .compositeKind =>
    match decodeUint16 code ip with
    | .ok (v, ip) => .ok (.compositeKind v, ip) | .goPanic => .goPanic | .diverge => .diverge
  | .upvalues =>
    match decodeUint16 code ip with
    | .ok (count, ip) =>
      match decodeUpvalueArrayLoop code count ip [] with
      | .ok (us, ip) => .ok (.upvalues us, ip) | .goPanic => .goPanic | .diverge => .diverge
    | .goPanic => .goPanic | .diverge => .diverge

def decodeOperands (code : Bytes) : List OperandSpec → Nat → Out (List Operand × Nat)
  | [], ip => .ok ([], ip)
  | s :: ss, ip =>
    match decodeOperand s.kind code ip with
    | .ok (o, ip) =>
      match decodeOperands code ss ip with
      | .ok (os, ip) => .ok (o :: os, ip)
      | .goPanic => .goPanic | .diverge => .diverge
    | .goPanic => .goPanic | .diverge => .diverge

/-- `DecodeInstruction(&ip, code)` over a table -/
def decodeInstruction (table : List InstrSpec) (code : Bytes) (ip : Nat) : Out (Instr × Nat) :=
  match decodeByte code ip with
  | .ok (op, ip) =>
    match table.find? (fun s => s.opcode == op) with
    | none => .goPanic                                   -- default: panic(errors.NewUnreachableError())
    | some spec =>
      match decodeOperands code spec.operands ip with
      | .ok (os, ip) => .ok (⟨op, os⟩, ip)
      | .goPanic => .goPanic | .diverge => .diverge
  | .goPanic => .goPanic | .diverge => .diverge

/-- `DecodeInstructions(code)`: `for ip < uint16(len(code)) { … }` -/
def decodeInstructionsLoop (table : List InstrSpec) (code : Bytes) : Nat → Nat → List Instr → Out (List Instr)
  | 0, _, _ => .diverge
  | fuel + 1, ip, acc =>
    if ip < wrap16 code.length then
      match decodeInstruction table code ip with
      | .ok (i, ip) => decodeInstructionsLoop table code fuel ip (acc ++ [i])
      | .goPanic => .goPanic | .diverge => .diverge
    else .ok acc

def decodeInstructions (table : List InstrSpec) (code : Bytes) (fuel : Nat) : Out (List Instr) :=
  decodeInstructionsLoop table code fuel 0 []

/-- encoding a whole instruction sequence (what `ByteCodeGen.Emit` does instruction by instruction) -/
def encodeAll (table : List InstrSpec) : List Instr → Option Bytes
  | [] => some []
  | i :: is =>
    match table.find? (fun s => s.opcode == i.opcode) with
    | none => none
    | some spec =>
      match encode spec i.operands, encodeAll table is with
      | some a, some b => some (a ++ b)
      | _, _ => none

end Verif.Model.Instr
