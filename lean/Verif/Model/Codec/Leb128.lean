/-
Code-shaped model of /repo/bbq/leb128/leb128.go.

Go integers:
* `uint32` / `uint64` values are `Nat`s below `2^w`; every operation that can leave the range in Go
  (`<<`) is followed by an explicit truncation `wrapU w`.
* `int32` / `int64` values are `Int`s in `[-2^(w-1), 2^(w-1))`; `+`, `<<` are followed by `wrapS w`
  (two's-complement wrap-around), `>>` is the arithmetic shift (`Int.shiftRight`, i.e. floor
  division by `2^k`), `v & m` for a non-negative mask `m < 2^w` is taken on the two's-complement bit
  pattern (`landS`).
* `uint8(x)` is truncation to the low 8 bits (`u8`).
* `int` loop counters and byte counts are `Nat` (they never exceed 10).

Loops: the `for more {…}` loops of the `Append*` functions terminate because `v >>= 7` shrinks `|v|`
(well-founded recursion, so the model functions are total as the Go functions are); the `Read*` loops
are bounded by `max32bitByteCount` / `max64bitByteCount`, which are regenerated from the source into
`Verif.Gen.LebFacts` on every run.
-/
import Verif.Gen.LebFacts
namespace Verif.Model.Leb128

abbrev Bytes := List UInt8

inductive Err where
  | dataTooShort      -- "data too short"
  | lengthTooSmall    -- "length too small"
  deriving DecidableEq, Repr

/-- Go `uintW(x)`: keep the low `w` bits. -/
def wrapU (w : Nat) (n : Nat) : Nat := n % 2 ^ w

/-- Go `intW` wrap-around of an exact result. -/
def wrapS (w : Nat) (x : Int) : Int := (x + 2 ^ (w - 1)) % 2 ^ w - 2 ^ (w - 1)

/-- two's-complement bit pattern of an `intW` -/
def patS (w : Nat) (x : Int) : Nat := (x % 2 ^ w).toNat

/-- Go `a & b` on `intW`. -/
def landS (w : Nat) (a b : Int) : Int := wrapS w ((patS w a &&& patS w b : Nat) : Int)

/-- Go `uint8(x)` -/
def u8 (n : Nat) : UInt8 := UInt8.ofNat n

/-! ### AppendUint32 / AppendUint64 -/

/-- the `for more { … }` loop shared by `AppendUint32` and `AppendUint64` -/
def appendUintLoop (data : Bytes) (v : Nat) : Bytes :=
  let c := v &&& 0x7f            -- c := uint8(v & 0x7f)
  let v' := v >>> 7              -- v >>= 7
  if _h : v' ≠ 0 then            -- more = v != 0
    appendUintLoop (data ++ [u8 (c ||| 0x80)]) v'
  else
    data ++ [u8 c]
termination_by v
decreasing_by
  simp only [Nat.shiftRight_eq_div_pow] at *
  omega

def appendUint (data : Bytes) (v : Nat) : Bytes :=
  if v < 128 then data ++ [u8 v] else appendUintLoop data v

/-- `AppendUint32(data, v)`; `v` is a `uint32` (`v < 2^32`). -/
def appendUint32 (data : Bytes) (v : Nat) : Bytes := appendUint data v
/-- `AppendUint64(data, v)`; `v < 2^64`. -/
def appendUint64 (data : Bytes) (v : Nat) : Bytes := appendUint data v

/-! ### AppendUint32FixedLength -/

/-- `for i := range length { … }`; `k` = remaining iterations -/
def appendFixedLoop (length : Int) : Nat → Nat → Bytes → Nat → Bytes × Nat
  | 0, _, data, v => (data, v)
  | k + 1, i, data, v =>
    let c := v &&& 0x7f
    let v := v >>> 7
    let c := if (i : Int) < length - 1 then c ||| 0x80 else c
    appendFixedLoop length k (i + 1) (data ++ [u8 c]) v

/-- `AppendUint32FixedLength(data, v, length)`; a non-positive `length` means no iteration. -/
def appendUint32FixedLength (data : Bytes) (v : Nat) (length : Int) : Except Err Bytes :=
  let (data, v) := appendFixedLoop length length.toNat 0 data v
  if v ≠ 0 then .error .lengthTooSmall else .ok data

/-! ### ReadUint32 / ReadUint64 -/

/-- `for i := range max { … }`; `k` = remaining iterations. Returns (result, count). -/
def readUintLoop (w : Nat) (data : Bytes) : Nat → Nat → Nat → Nat → Nat → Except Err (Nat × Nat)
  | 0, _, _, result, count => .ok (result, count)
  | k + 1, i, shift, result, count =>
    match data[i]? with
    | none => .error .dataTooShort                          -- if i >= len(data)
    | some x =>
      let b := x.toNat
      let count := count + 1
      let result := result ||| wrapU w ((b &&& 0x7f) <<< shift)
      if b &&& 0x80 = 0 then .ok (result, count)
      else readUintLoop w data k (i + 1) (shift + 7) result count

def readUint32 (data : Bytes) : Except Err (Nat × Nat) :=
  readUintLoop 32 data Verif.Gen.LebFacts.max32bitByteCount 0 0 0 0

def readUint64 (data : Bytes) : Except Err (Nat × Nat) :=
  readUintLoop 64 data Verif.Gen.LebFacts.max64bitByteCount 0 0 0 0

/-! ### AppendInt32 / AppendInt64 -/

/-- `more = !((v == 0 && sign == 0) || (v == -1 && sign != 0))`, `v` already shifted -/
def moreS (v' : Int) (sign : Nat) : Bool := !((v' = 0 ∧ sign = 0) ∨ (v' = -1 ∧ sign ≠ 0))

theorem moreS_decreases (v : Int) (h : moreS (v >>> 7) ((v % 128).toNat &&& 0x40) = true) :
    (v >>> 7).natAbs < v.natAbs := by
  have h0 : v ≠ 0 := by
    intro h'; subst h'; revert h; decide
  have h1 : v ≠ -1 := by
    intro h'; subst h'; revert h; decide
  rw [Int.shiftRight_eq_div_pow]
  omega

/-- the `for more { … }` loop shared by `AppendInt32` and `AppendInt64` -/
def appendIntLoop (data : Bytes) (v : Int) : Bytes :=
  -- c := uint8(v & 0x7f); sign := uint8(v & 0x40); v >>= 7 (arithmetic)
  if _h : moreS (v >>> 7) ((v % 128).toNat &&& 0x40) = true then
    appendIntLoop (data ++ [u8 ((v % 128).toNat ||| 0x80)]) (v >>> 7)
  else
    data ++ [u8 (v % 128).toNat]
termination_by v.natAbs
decreasing_by exact moreS_decreases v _h

def appendInt32 (data : Bytes) (v : Int) : Bytes := appendIntLoop data v
def appendInt64 (data : Bytes) (v : Int) : Bytes := appendIntLoop data v

/-! ### ReadInt32 / ReadInt64 -/

/-- `for i := 0; (b&0x80 == 0x80) && i < max; i++ { … }`; `k` = `max - i`.
    Returns (result, signBits, count). -/
def readIntLoop (w : Nat) (data : Bytes) :
    Nat → Nat → Nat → Int → Int → Nat → Except Err (Int × Int × Nat)
  | 0, _, _, result, signBits, count => .ok (result, signBits, count)
  | k + 1, i, b, result, signBits, count =>
    if b &&& 0x80 = 0x80 then
      match data[i]? with
      | none => .error .dataTooShort
      | some x =>
        let b := x.toNat
        let count := count + 1
        -- result += intW(b&0x7f) << (i*7)
        let result := wrapS w (result + wrapS w (((b &&& 0x7f : Nat) : Int) <<< (i * 7)))
        let signBits := wrapS w (signBits <<< 7)
        readIntLoop w data k (i + 1) b result signBits count
    else .ok (result, signBits, count)

def readInt (w maxCount : Nat) (data : Bytes) : Except Err (Int × Nat) :=
  match readIntLoop w data maxCount 0 0x80 0 (-1) 0 with
  | .error e => .error e
  | .ok (result, signBits, count) =>
    if landS w (signBits >>> 1) result ≠ 0 then .ok (wrapS w (result + signBits), count)
    else .ok (result, count)

def readInt32 (data : Bytes) : Except Err (Int × Nat) :=
  readInt 32 Verif.Gen.LebFacts.max32bitByteCount data

def readInt64 (data : Bytes) : Except Err (Int × Nat) :=
  readInt 64 Verif.Gen.LebFacts.max64bitByteCount data

end Verif.Model.Leb128
