/-
C25 — capability controllers, publishing and inbox.

Concrete layer: the per-account storage layout of `/repo/stdlib/account.go`
(`storeCapabilityController` / `removeCapabilityController`: id → controller;
`recordStorageCapabilityController` / `unrecordStorageCapabilityController`: path → id set, entry removed
when the set becomes empty; `GenerateAccountID`: id counter; `AccountCapabilitiesPublish` /
`Unpublish` / `Get` / `Borrow` / `Exists`: public path → capability; `AccountInboxPublish` / `Unpublish` /
`Claim`: name → (recipient, capability)), including the `unreachable` panics of that code as an `internal`
abort.  Abstract layer: the set of live controllers (`Acct.live`).  Core Lean only.
-/
namespace Verif.Model.Caps

/-- borrow types of the stream's universe: `&C.S`, `&C.S2` (S2 : I), `&{C.I}`, `&AnyStruct` -/
inductive T where
  | s | s2 | i | any
  deriving DecidableEq, Repr

def sub : T → T → Bool
  | .s, .s | .s, .any | .s2, .s2 | .s2, .i | .s2, .any | .i, .i | .i, .any | .any, .any => true
  | _, _ => false

/-- `CanBorrow` (no authorizations in this universe): referenced types related either way -/
def canBorrow (wanted cap : T) : Bool := sub wanted cap || sub cap wanted

structure Ctrl where
  ty : T
  target : Nat
  tag : String
  deriving DecidableEq, Repr

structure Cap where
  id : Nat
  ty : T
  deriving DecidableEq, Repr

structure Acct where
  ctrls : List (Nat × Ctrl) := []          -- capability controllers by id
  index : List (Nat × List Nat) := []      -- storage path → id set
  nextId : Nat := 0                        -- last id handed out by GenerateAccountID
  published : List (Nat × Cap) := []       -- public path → capability
  inbox : List (String × (Nat × Cap)) := []  -- name → (recipient, capability)
  storage : List (Nat × (T × Int)) := []   -- storage path → stored value (dynamic type, field x)

def assocFind {κ α : Type} [DecidableEq κ] (k : κ) : List (κ × α) → Option α
  | [] => none
  | (k', v) :: rest => if k' = k then some v else assocFind k rest

def assocErase {κ α : Type} [DecidableEq κ] (k : κ) (l : List (κ × α)) : List (κ × α) := l.filter (fun p => p.1 ≠ k)

def assocSet {κ α : Type} [DecidableEq κ] (k : κ) (v : α) (l : List (κ × α)) : List (κ × α) := (k, v) :: assocErase k l

/-- `recordStorageCapabilityController`; `none` = the `unreachable` panic (id already in the set) -/
def record (index : List (Nat × List Nat)) (p id : Nat) : Option (List (Nat × List Nat)) :=
  match assocFind p index with
  | none => some (assocSet p [id] index)
  | some set => if id ∈ set then none else some (assocSet p (set ++ [id]) index)

/-- `unrecordStorageCapabilityController`; `none` = one of its `unreachable` panics -/
def unrecord (index : List (Nat × List Nat)) (p id : Nat) : Option (List (Nat × List Nat)) :=
  match assocFind p index with
  | none => none
  | some set =>
    if id ∈ set then
      let set' := set.filter (· ≠ id)
      if set'.isEmpty then some (assocErase p index) else some (assocSet p set' index)
    else none

/-- `getStorageCapabilityControllerIDsIterator`: the ids recorded for a path -/
def Acct.idsAt (ac : Acct) (p : Nat) : List Nat := (assocFind p ac.index).getD []

/-- abstract layer: the live controllers -/
def Acct.live (ac : Acct) : List (Nat × Ctrl) := ac.ctrls

inductive Op where
  | issue (a p : Nat) (ty : T)
  | retarget (a id p : Nat)
  | delete (a id : Nat)
  | setTag (a id : Nat) (tag : String)
  | getController (a id : Nat)
  | getControllers (a p : Nat)
  | forEachController (a p : Nat)
  | publish (a id q : Nat)
  | unpublish (a q : Nat)
  | exists_ (a q : Nat)
  | get (a q : Nat) (w : T)
  | borrow (a q : Nat) (w : T)
  | inboxPublish (a id : Nat) (name : String) (recipient : Nat)
  | inboxUnpublish (a : Nat) (name : String) (w : T)
  | inboxClaim (a : Nat) (name : String) (provider : Nat) (w : T)
  | save (a p : Nat) (ty : T) (x : Int)
  | load (a p : Nat)
  | panic
  /-- `let c: Capability = capabilities.get<&g>(/public/q)` (the capability's type is `g`, not the controller's),
  then `c.check<&w>()` and `c.borrow<&w>()` -/
  | getBorrow (a q : Nat) (g w : T)
  /-- `capabilities.publish(capabilities.get<&g>(/public/q), at: /public/q2)` -/
  | republish (a q : Nat) (g : T) (q2 : Nat)
  /-- `let c: Capability = getController(byCapabilityID: id)!.capability`, then `c.check<&w>()` / `c.borrow<&w>()` -/
  | ctrlBorrow (a id : Nat) (w : T)
  deriving Repr

inductive Abort where
  | overwrite | cast | panic | internal
  deriving DecidableEq, Repr

inductive Obs where
  | id (n : Nat)                       -- issued id
  | done                                -- rt / dl / tg / pb / ip / sv
  | nil                                 -- controller / capability / inbox entry not found
  | ctrl (id : Nat) (c : Ctrl)
  | ids (l : List Nat)
  | optId (n : Option Nat)
  | bool (b : Bool)
  | got (id : Nat) (check : Bool)
  | ref (v : Option (T × Int))
  | capRef (id : Nat) (v : Option (T × Int))   -- capability value: its id, what check / borrow at the wanted type give
  deriving DecidableEq, Repr

inductive Res (α : Type) where
  | ok (x : α) | abort (e : Abort)

abbrev State := Nat → Acct

def State.set (s : State) (a : Nat) (ac : Acct) : State := fun b => if b = a then ac else s b

/-- `getCheckedCapabilityController` + target lookup: the value a `borrow<&w>` of the capability reaches -/
def resolve (ac : Acct) (cap : Cap) (w : T) : Option (Ctrl × Option (T × Int)) :=
  if !canBorrow w cap.ty then none else
  match assocFind cap.id ac.ctrls with
  | none => none
  | some c => if !canBorrow w c.ty then none else some (c, assocFind c.target ac.storage)

def checkOk (w : T) : Option (T × Int) → Bool
  | some (vt, _) => sub vt w
  | none => false

/-- the capability value returned by `capabilities.get<&g>(/public/q)`: id 0 = the invalid capability;
its borrow type is the *wanted* type `g` either way -/
def getCap (ac : Acct) (q : Nat) (g : T) : Cap :=
  match assocFind q ac.published with
  | none => ⟨0, g⟩
  | some cap =>
    match resolve ac cap g with
    | none => ⟨0, g⟩
    | some _ => ⟨cap.id, g⟩

/-- `borrow<&w>()` on a capability value (`CapabilityBorrow` → `BorrowCapabilityController`): the wanted type is
compared with the capability's type *and* with the controller's type, then the stored value is type-checked;
`check<&w>()` is true exactly when this is `some` -/
def borrowCap (ac : Acct) (cap : Cap) (w : T) : Option (T × Int) :=
  if cap.id = 0 then none else
  match resolve ac cap w with
  | none => none
  | some (_, v) => if checkOk w v then v else none

def step (s : State) : Op → Res (State × Obs)
  | .issue a p ty =>
    let ac := s a
    let id := ac.nextId + 1
    match assocFind id ac.ctrls, record ac.index p id with
    | none, some index' =>
      .ok (s.set a { ac with ctrls := (id, ⟨ty, p, ""⟩) :: ac.ctrls, index := index', nextId := id }, .id id)
    | _, _ => .abort .internal
  | .retarget a id p =>
    let ac := s a
    match assocFind id ac.ctrls with
    | none => .ok (s, .nil)
    | some c =>
      match unrecord ac.index c.target id with
      | none => .abort .internal
      | some i1 =>
        match record i1 p id with
        | none => .abort .internal
        | some i2 => .ok (s.set a { ac with ctrls := assocSet id { c with target := p } ac.ctrls, index := i2 }, .done)
  | .delete a id =>
    let ac := s a
    match assocFind id ac.ctrls with
    | none => .ok (s, .nil)
    | some c =>
      match unrecord ac.index c.target id with
      | none => .abort .internal
      | some i1 => .ok (s.set a { ac with ctrls := assocErase id ac.ctrls, index := i1 }, .done)
  | .setTag a id tag =>
    let ac := s a
    match assocFind id ac.ctrls with
    | none => .ok (s, .nil)
    | some c => .ok (s.set a { ac with ctrls := assocSet id { c with tag := tag } ac.ctrls }, .done)
  | .getController a id =>
    match assocFind id (s a).ctrls with
    | none => .ok (s, .nil)
    | some c => .ok (s, .ctrl id c)
  | .getControllers a p =>
    -- every recorded id must have a controller (`getStorageCapabilityControllerReference` is unreachable otherwise)
    if ((s a).idsAt p).all (fun id => (assocFind id (s a).ctrls).isSome) then .ok (s, .ids ((s a).idsAt p))
    else .abort .internal
  | .forEachController a p =>
    if ((s a).idsAt p).all (fun id => (assocFind id (s a).ctrls).isSome) then .ok (s, .ids ((s a).idsAt p))
    else .abort .internal
  | .publish a id q =>
    let ac := s a
    match assocFind id ac.ctrls with
    | none => .ok (s, .nil)
    | some c =>
      if (assocFind q ac.published).isSome then .abort .overwrite
      else .ok (s.set a { ac with published := assocSet q ⟨id, c.ty⟩ ac.published }, .done)
  | .unpublish a q =>
    let ac := s a
    match assocFind q ac.published with
    | none => .ok (s, .optId none)
    | some cap => .ok (s.set a { ac with published := assocErase q ac.published }, .optId (some cap.id))
  | .exists_ a q => .ok (s, .bool (assocFind q (s a).published).isSome)
  | .get a q w =>
    match assocFind q (s a).published with
    | none => .ok (s, .got 0 false)
    | some cap =>
      match resolve (s a) cap w with
      | none => .ok (s, .got 0 false)
      | some (_, v) => .ok (s, .got cap.id (checkOk w v))
  | .borrow a q w =>
    match assocFind q (s a).published with
    | none => .ok (s, .ref none)
    | some cap =>
      match resolve (s a) cap w with
      | none => .ok (s, .ref none)
      | some (_, v) => .ok (s, .ref (if checkOk w v then v else none))
  | .inboxPublish a id name recipient =>
    let ac := s a
    match assocFind id ac.ctrls with
    | none => .ok (s, .nil)
    | some c => .ok (s.set a { ac with inbox := assocSet name (recipient, ⟨id, c.ty⟩) ac.inbox }, .done)
  | .inboxUnpublish a name w =>
    let ac := s a
    match assocFind name ac.inbox with
    | none => .ok (s, .optId none)
    | some (_, cap) =>
      if !sub cap.ty w then .abort .cast
      else .ok (s.set a { ac with inbox := assocErase name ac.inbox }, .optId (some cap.id))
  | .inboxClaim a name provider w =>
    let pv := s provider
    match assocFind name pv.inbox with
    | none => .ok (s, .optId none)
    | some (recipient, cap) =>
      if recipient ≠ a then .ok (s, .optId none)
      else if !sub cap.ty w then .abort .cast
      else .ok (s.set provider { pv with inbox := assocErase name pv.inbox }, .optId (some cap.id))
  | .save a p ty x =>
    let ac := s a
    if (assocFind p ac.storage).isSome then .abort .overwrite
    else .ok (s.set a { ac with storage := assocSet p (ty, x) ac.storage }, .done)
  | .load a p =>
    let ac := s a
    match assocFind p ac.storage with
    | none => .ok (s, .bool false)
    | some _ => .ok (s.set a { ac with storage := assocErase p ac.storage }, .bool true)
  | .panic => .abort .panic
  | .getBorrow a q g w =>
    let cap := getCap (s a) q g
    .ok (s, .capRef cap.id (borrowCap (s a) cap w))
  | .republish a q g q2 =>
    let ac := s a
    if (assocFind q2 ac.published).isSome then .abort .overwrite
    else .ok (s.set a { ac with published := assocSet q2 (getCap ac q g) ac.published }, .done)
  | .ctrlBorrow a id w =>
    match assocFind id (s a).ctrls with
    | none => .ok (s, .nil)
    | some c => .ok (s, .capRef id (borrowCap (s a) ⟨id, c.ty⟩ w))

structure TxObs where
  logs : List Obs
  outcome : Option Abort
  deriving DecidableEq, Repr

def runOps : State → List Op → List Obs → State × TxObs
  | s, [], acc => (s, ⟨acc.reverse, none⟩)
  | s, op :: ops, acc =>
    match step s op with
    | .ok (s', o) => runOps s' ops (o :: acc)
    | .abort e => (s, ⟨acc.reverse, some e⟩)

def runTx (s : State) (tx : List Op) : State × TxObs :=
  let (s', o) := runOps s tx []
  match o.outcome with
  | none => (s', o)
  | some _ => (s, o)

def runHist : State → List (List Op) → State × List TxObs
  | s, [] => (s, [])
  | s, tx :: rest =>
    let (s', o) := runTx s tx
    let (s'', os) := runHist s' rest
    (s'', o :: os)

def init : State := fun _ => {}

end Verif.Model.Caps
