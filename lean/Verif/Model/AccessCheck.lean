import Verif.Model.Auth
/-
Scope model of the checker's member-access rules (property C50), core Lean only.

Ported from /repo:
  sema/check_member_expression.go : isReadableMember, isWriteableMember, containingContractKindedType
  sema/check_assignment.go        : visitMemberExpressionAssignment (InvalidAssignmentAccessError,
                                    AssignmentToConstantMemberError, FieldReinitializationError)
  sema/accesscheckmode.go         : IsReadableAccess, IsWriteableAccess
  sema/check_composite_declaration.go : checker.containerTypes (true while a composite's declaration,
                                    and everything nested in it, is being checked)
  common/location.go              : LocationsInSameAccount
  sema/access.go                  : PermitsAccess (reused from M-AUTH, `Verif.Model.Auth.permits`)

Accounts ⊃ contracts ⊃ nested composites ⊃ members.  A composite type is its location plus its
path of enclosing declarations, innermost first.  `Config.MemberAccountAccessHandler` is nil in the
checker configuration of the stream (the runtime's handler is not modelled).
-/
namespace Verif.Model.AccessCheck
open Verif.Model.Auth

inductive CKind where
  | contract | resource | struct
  deriving DecidableEq, Repr, Inhabited

/-- `common.Location` -/
inductive Location where
  | address (addr : Nat) (name : String)      -- AddressLocation
  | script (id : Nat)                         -- ScriptLocation / StringLocation
  | transaction (id : Nat)                    -- TransactionLocation
  deriving DecidableEq, Repr, Inhabited

/-- `common.LocationsInSameAccount` (both non-nil) -/
def sameAccount : Location → Location → Bool
  | .address a _, .address b _ => a == b       -- only the address is compared, the name is ignored
  | .address _ _, _ => false
  | l, r => l == r

/-- a composite type: location and declaration path, innermost first (never empty) -/
structure CType where
  loc : Location
  path : List (String × CKind)
  deriving DecidableEq, Repr, Inhabited

def containingContractPath : List (String × CKind) → Option (List (String × CKind))
  | [] => none
  | (n, k) :: ps => if k = .contract then some ((n, k) :: ps) else containingContractPath ps

/-- `containingContractKindedType`: the type itself or the nearest enclosing one of kind contract -/
def containingContract (t : CType) : Option CType :=
  (containingContractPath t.path).map fun p => { loc := t.loc, path := p }

inductive Mode where
  | strict | notSpecifiedRestricted | notSpecifiedUnrestricted | none
  deriving DecidableEq, Repr, Inhabited

/-- `AccessCheckMode.IsReadableAccess` -/
def Mode.isReadableAccess (mode : Mode) (a : Access Nat) : Bool :=
  match mode with
  | .strict | .notSpecifiedRestricted => permits a unauthorized
  | .notSpecifiedUnrestricted => a == .prim .notSpecified || permits a unauthorized
  | .none => true

/-- `AccessCheckMode.IsWriteableAccess` -/
def Mode.isWriteableAccess (mode : Mode) (a : Access Nat) : Bool :=
  match mode with
  | .strict | .notSpecifiedRestricted => false
  | .notSpecifiedUnrestricted => a == .prim .notSpecified
  | .none => true

structure Member where
  access : Access Nat
  container : CType           -- `member.ContainerType`
  isLet : Bool                -- `member.VariableKind != VariableKindVariable`
  isResource : Bool           -- the member's type is a resource type
  deriving DecidableEq, Repr

/-- an access site -/
structure Site where
  loc : Location                          -- `checker.Location`
  path : List (String × CKind)            -- enclosing composite declarations, innermost first; [] = top level
  viaRef : Option (Access Nat)            -- authorization of the reference the member is accessed on
  deriving Repr

def suffixes {α} : List α → List (List α)
  | [] => []
  | x :: xs => (x :: xs) :: suffixes xs

/-- the types with `checker.containerTypes[t] = true` at the site -/
def Site.containers (s : Site) : List CType := (suffixes s.path).map fun p => { loc := s.loc, path := p }

/-- the `switch ast.PrimitiveAccess(access)` part of `isReadableMember` -/
def primScope (s : Site) (p : Prim) (c : CType) : Bool :=
  match p with
  | .contract =>
    match containingContract c with
    | some c0 => s.containers.contains c0
    | none => false
  | .account => sameAccount s.loc c.loc
  | _ => false

/-- `isReadableMember` (accessed type: an owned value or a reference with the given authorization) -/
def readable (mode : Mode) (s : Site) (m : Member) : Bool :=
  if mode.isReadableAccess m.access then true else
  match m.access with
  | .prim p =>
    if s.containers.contains m.container then true else primScope s p m.container
  | .set k es =>
    match s.viaRef with
    | some held => permits (.set k es) held
    | none => true
  | .map _ => true

/-- `isWriteableMember` -/
def writeable (mode : Mode) (s : Site) (m : Member) : Bool :=
  mode.isWriteableAccess m.access || s.containers.contains m.container

/-- where an assignment `target.f = v` happens -/
structure AssignCtx where
  selfAccess : Bool      -- the target is `self.f` (accessedSelfMember ≠ nil)
  inInit : Bool          -- inside the initializer (InitializationInfo ≠ nil), before any return
  initialized : Bool     -- `f` is already in InitializedFieldMembers
  deriving DecidableEq, Repr, Inhabited

inductive AssignErr where
  | invalidAssignmentAccess | assignmentToConstantMember | fieldReinitialization
  deriving DecidableEq, Repr, Inhabited

/-- the access-related errors of `visitMemberExpressionAssignment` -/
def assignErrs (mode : Mode) (s : Site) (m : Member) (c : AssignCtx) : List AssignErr :=
  (if writeable mode s m then [] else [.invalidAssignmentAccess]) ++
  (if c.selfAccess then
     (if c.inInit then
        (if (m.isLet || m.isResource) && c.initialized then [.fieldReinitialization] else [])
      else if m.isLet then [.assignmentToConstantMember] else [])
   else if m.isLet then [.assignmentToConstantMember] else [])

end Verif.Model.AccessCheck
