/-
Executor protocol (C24): the host-visible event alphabet of one execution, the phase automaton
(trace acceptor) of the executors *as they exist* in /repo (runtime/transaction_executor.go,
script_executor.go, contract_function_executor.go, storage.go:commit, stdlib/account.go's three
`CommitStorageTemporarily` callers), and a generative model of the executor parameterised by the
facts that `vtool gen-commitsites` extracts from the source.

Core Lean only (linked into drv_exec).
-/
namespace Verif.Model.Exec

deriving instance DecidableEq for Except

inductive Kind where
  | script | tx | call
  deriving DecidableEq, Repr

/-- Host-visible events of one execution, in the order the recording host saw them. -/
inductive Ev where
  /-- any host callback that neither reads nor writes registers (code/program loading, metrics, uuid …) -/
  | host
  /-- `Preprocess` returned (parse / check / argument count validation are over) -/
  | pp
  /-- the program ran: computation metering of kind Statement / Loop / FunctionInvocation -/
  | step
  | read
  | alloc
  /-- `SetValue`: owner (as a number), is it a slab register `$i`, the slab index (0 for account registers) -/
  | write (owner : Nat) (slab : Bool) (idx : Nat)
  | emit
  | log
  /-- `GetStorageUsed` / `GetStorageCapacity` / `CreateAccount`: the three host queries that
      stdlib/account.go precedes by `CommitStorageTemporarily` -/
  | flushQuery
  | endOk
  | endErr
  deriving DecidableEq, Repr

def Ev.isWrite : Ev → Bool
  | .write .. => true
  | _ => false

/-- events caused by running program code -/
def Ev.isProg : Ev → Bool
  | .step | .emit | .log | .alloc => true
  | _ => false

def Ev.isEnd : Ev → Bool
  | .endOk | .endErr => true
  | _ => false

inductive Phase where
  | pre | run | commit | done
  deriving DecidableEq, Repr

inductive Rej where
  | inPre            -- something other than a host call before `pp`
  | writeInScript    -- a script reached its end in the commit phase
  | progAfterWrite   -- program activity after a register write that was not a temporary commit
  | errAfterWrite    -- error result after register writes that were not a temporary commit
  | afterEnd
  | noEnd
  | endInPre
  deriving DecidableEq, Repr

structure St where
  phase : Phase := .pre
  /-- a temporary commit happened (writes followed by a flush query) -/
  flushed : Bool := false
  deriving DecidableEq, Repr

/-- canonical order inside one commit: all account registers (strictly ascending owner) before all
    slab registers (strictly ascending (owner, index)). -/
def orderOk : Option (Bool × Nat × Nat) → Bool × Nat × Nat → Bool
  | none, _ => true
  | some (false, o, _), (false, o', _) => o < o'
  | some (false, _, _), (true, _, _) => true
  | some (true, _, _), (false, _, _) => false
  | some (true, o, i), (true, o', i') => o < o' || (o == o' && i < i')

def stepSt (kind : Kind) (st : St) (e : Ev) : Except Rej St :=
  match st.phase, e with
  | .done, _ => .error .afterEnd
  -- Preprocess: only register-free host calls
  | .pre, .host => .ok st
  | .pre, .pp => .ok { st with phase := .run }
  | .pre, .endOk => .error .endInPre
  | .pre, .endErr => .error .endInPre
  | .pre, _ => .error .inPre
  -- Run
  | .run, .pp => .error .inPre
  | .run, .write .. => .ok { st with phase := .commit }
  | .run, .endOk => .ok { st with phase := .done }
  | .run, .endErr => .ok { st with phase := .done }
  | .run, _ => .ok st
  -- Commit (final, or temporary if a flush query follows)
  | .commit, .write .. => .ok st
  | .commit, .read => .ok st
  | .commit, .flushQuery => .ok { st with phase := .run, flushed := true }
  | .commit, .endOk => if kind = .script then .error .writeInScript else .ok { st with phase := .done }
  | .commit, .endErr => .error .errAfterWrite
  | .commit, _ => .error .progAfterWrite

def runFrom (kind : Kind) : St → List Ev → Except Rej St
  | st, [] => .ok st
  | st, e :: es =>
    match stepSt kind st e with
    | .ok st' => runFrom kind st' es
    | .error r => .error r

/-- The acceptor: the whole trace must be consumed and end in `done`. -/
def accept (kind : Kind) (tr : List Ev) : Except Rej St :=
  match runFrom kind {} tr with
  | .ok st => if st.phase = .done then .ok st else .error .noEnd
  | .error r => .error r

def Accepted (kind : Kind) (tr : List Ev) (st : St) : Prop := accept kind tr = .ok st

/-! ### Direct (model-independent) reading of the property on a trace — used by the driver as the
spec oracle and by the theorems as the conclusion. -/

def hasWrite (tr : List Ev) : Bool := tr.any Ev.isWrite

/-- no program activity after the first write -/
def writesAfterRun : List Ev → Bool
  | [] => true
  | e :: es => if e.isWrite then !(es.any Ev.isProg) else writesAfterRun es

def endsErr : List Ev → Bool
  | [] => false
  | [e] => e == .endErr
  | _ :: es => endsErr es

/-- every maximal block of consecutive writes is in the canonical commit order (C33) -/
def writesCanonicalFrom : Option (Bool × Nat × Nat) → List Ev → Bool
  | _, [] => true
  | last, .write o s i :: es => orderOk last (s, o, i) && writesCanonicalFrom (some (s, o, i)) es
  | _, _ :: es => writesCanonicalFrom none es

def writesCanonical (tr : List Ev) : Bool := writesCanonicalFrom none tr

/-- writes that are followed (after more writes / reads) by a flush query: a temporary commit -/
def hasTempCommit : List Ev → Bool
  | [] => false
  | e :: es =>
    if e.isWrite then
      match es.dropWhile (fun x => x.isWrite || x == .read) with
      | .flushQuery :: _ => true
      | _ => hasTempCommit es
    else hasTempCommit es

/-! ### Generative model of the executors, parameterised by extracted facts -/

/-- What `vtool gen-commitsites` establishes about the source. -/
structure Cfg where
  /-- a commit call site exists in runtime/script_executor.go -/
  scriptCommits : Bool
  /-- some commit call site in a transaction / contract-function executor is not guarded by the
      preceding `if err != nil { return err }` of the run call -/
  commitOnFailure : Bool
  deriving DecidableEq, Repr

/-- A program's host-visible behaviour while it runs: register-free calls, steps, reads, allocations,
    events and logs in any order — but no writes (writes go to the in-memory cache: FX `SetValue`
    sites), and whether it succeeds. -/
inductive RunEv where
  | host | step | read | alloc | emit | log
  deriving DecidableEq, Repr

def RunEv.ev : RunEv → Ev
  | .host => .host | .step => .step | .read => .read | .alloc => .alloc | .emit => .emit | .log => .log

structure Behaviour where
  preCalls : Nat
  preOk : Bool
  run : List RunEv
  ok : Bool
  /-- commitContractUpdates: reads / allocations before the first write -/
  commitPrefix : List RunEv
  /-- the deltas of the cache in commit order: new account registers (owners), then slabs -/
  acctWrites : List Nat
  slabWrites : List (Nat × Nat)
  deriving Repr

def commitEvents (b : Behaviour) : List Ev :=
  (b.commitPrefix.filter (fun e => e == .read || e == .alloc || e == .host)).map RunEv.ev ++
  b.acctWrites.map (fun o => Ev.write o false 0) ++ b.slabWrites.map (fun (o, i) => Ev.write o true i)

/-- The executor: Preprocess; on failure stop.  Run; on failure stop *unless* the source commits on
    failure.  Commit unless this is a script (*unless* the source commits in scripts). -/
def exec (cfg : Cfg) (kind : Kind) (b : Behaviour) : List Ev :=
  List.replicate b.preCalls Ev.host ++ [Ev.pp] ++
  (if !b.preOk then [Ev.endErr] else
    b.run.map RunEv.ev ++
    (if b.ok then
      (if kind = .script && !cfg.scriptCommits then [] else commitEvents b) ++ [Ev.endOk]
    else
      (if cfg.commitOnFailure then commitEvents b else []) ++ [Ev.endErr]))

end Verif.Model.Exec
