import Verif.Model.Front.ExprSyntax
/-!
C38 — token-level port of the printer: the `Doc` methods of `/repo/ast/expression.go` and
`/repo/ast/type.go` rendered flat (every `Line` a space, every `SoftLine` empty), as a list of tokens.

A token carries its lexeme, its lexical class and whether white space precedes it (the parser is
sensitive to that in two places: the postfix type operators `?` / `??` must be adjacent to the type,
and `>>` is two adjacent `>` tokens).

Ported: `parenthesizedExpressionDoc`, `UnaryExpression.Doc`, `BinaryExpression.Doc` (left / right
rules with associativity), `CastingExpression.Doc`, `ConditionalExpression.Doc`, `ReferenceExpression.Doc`,
`ForceExpression.Doc`, `MemberExpression.Doc` (with the integer-literal receiver rule of fix 3c33138),
`IndexExpression.Doc`, the literal docs, `parenthesizedTypeDoc`, `typeNeedsParentheses` (fix 4c015e3),
`OptionalType.Doc`, `ReferenceType.Doc`, `NominalType.Doc`.
-/
namespace Verif.Model.Front.Syn
open Verif.Gen.PrecTables

inductive TokKind where
  | ident | int | fix | sym
  deriving DecidableEq, Repr, Inhabited

structure Tok where
  kind : TokKind
  text : String
  /-- white space (or a comment) precedes the token -/
  sp : Bool
  deriving DecidableEq, Repr, Inhabited

def sym (s : String) : Tok := ⟨.sym, s, false⟩
def symSp (s : String) : Tok := ⟨.sym, s, true⟩

/-- mark the first token as preceded by white space (`prettier.Space` / flat `prettier.Line`) -/
def spaced : List Tok → List Tok
  | [] => []
  | t :: ts => { t with sp := true } :: ts

/-- `prettier.WrapParentheses(doc, SoftLine)` rendered flat -/
def parens (ts : List Tok) : List Tok := sym "(" :: ts ++ [sym ")"]

/-! ### types -/

def nominalToks : List String → List Tok
  | [] => []
  | [a] => [⟨.ident, a, false⟩]
  | a :: rest => ⟨.ident, a, false⟩ :: sym "." :: nominalToks rest

/-- `typeNeedsParentheses` restricted to the fragment: an unauthorized reference directly under a
    reference (`&&` would be lexed as logical-and) -/
def tyNeedsParens (t : Ty) (parentPrec : Nat) : Bool :=
  match t with
  | .reference _ => parentPrec == typePrecedences.idxOf "Reference"
  | _ => false

def printTy : Ty → List Tok
  | .nominal p => nominalToks p
  | .optional t =>
    let d := printTy t
    (if (Ty.optional t).prec ≤ t.prec && !tyNeedsParens t (Ty.optional t).prec then d else parens d) ++ [sym "?"]
  | .reference t =>
    let d := printTy t
    sym "&" :: (if (Ty.reference t).prec ≤ t.prec && !tyNeedsParens t (Ty.reference t).prec then d else parens d)

/-- the lexer reads two adjacent `?` as one `??` token -/
def isSym (s : String) (t : Tok) : Bool := t.kind == .sym && t.text == s

def mergeQ : List Tok → List Tok
  | a :: b :: rest =>
    if isSym "?" a && isSym "?" b && !b.sp then ⟨.sym, "??", a.sp⟩ :: mergeQ rest else a :: mergeQ (b :: rest)
  | ts => ts

def printAnn (resource : Bool) (t : Ty) : List Tok :=
  if resource then sym "@" :: mergeQ (printTy t) else mergeQ (printTy t)

/-! ### expressions -/

/-- `parenthesizedExpressionDoc` applied to an already printed sub-expression of precedence `sub` -/
def parenthesized (doc : List Tok) (sub parent : Nat) : List Tok :=
  if parent ≤ sub then doc
  else if parent == precAccess && sub == precUnaryPostfix then doc
  else parens doc

/-- the operator of a binary expression, preceded by a space; `>>` is lexed as two `>` tokens -/
def opToks (op : BinOp) : List Tok :=
  if op = .shr then [symSp ">", sym ">"] else [symSp op.sym]

def Expr.isArgsCons : Expr → Bool
  | .argsCons .. => true
  | _ => false

mutual
def printExpr : Expr → List Tok
  | .ident n => [⟨.ident, n, false⟩]
  | .int neg l => if neg then [sym "-", ⟨.int, l, false⟩] else [⟨.int, l, false⟩]
  | .fix neg l => if neg then [sym "-", ⟨.fix, l, false⟩] else [⟨.fix, l, false⟩]
  | .bool b => [⟨.ident, if b then "true" else "false", false⟩]
  | .nil => [⟨.ident, "nil", false⟩]
  | .void => [sym "(", sym ")"]
  | .unary op e =>
    let d := parenthesized (printExpr e) e.prec op.prec
    sym op.sym :: (if op = .move then spaced d else d)
  | .ref e => sym "&" :: parenthesized (printExpr e) e.prec precUnaryPrefix
  | .force e => parenthesized (printExpr e) e.prec precUnaryPostfix ++ [sym "!"]
  | .binary op l r =>
    let own := op.prec
    let ld := printExpr l
    let ld := if (op.leftAssoc && own > l.prec) || (!op.leftAssoc && own ≥ l.prec) then parens ld else ld
    let rd := printExpr r
    let rd := if (op.leftAssoc && own ≥ r.prec) || (!op.leftAssoc && own > r.prec) then parens rd else rd
    ld ++ opToks op ++ spaced rd
  | .cast op e res t =>
    parenthesized (printExpr e) e.prec precCasting ++
      (if op = .cast then ⟨.ident, "as", true⟩ else symSp op.sym) :: spaced (printAnn res t)
  | .cond c t e =>
    let own := precTernary
    let cd := printExpr c
    let cd := if own ≥ c.prec then parens cd else cd
    let td := printExpr t
    let td := if own ≥ t.prec then parens td else td
    let ed := printExpr e
    let ed := if own > e.prec then parens ed else ed
    cd ++ symSp "?" :: spaced td ++ symSp ":" :: spaced ed
  | .member o e n =>
    let d := printExpr e
    let d := match e with
      | .int _ _ => parens d
      | _ => parenthesized d e.prec precAccess
    d ++ [sym (if o then "?." else "."), ⟨.ident, n, false⟩]
  | .index e i => parenthesized (printExpr e) e.prec precAccess ++ sym "[" :: printExpr i ++ [sym "]"]
  | .invoke f args => parenthesized (printExpr f) f.prec precAccess ++ sym "(" :: printArgs args ++ [sym ")"]
  -- argument lists are not expressions (never printed on their own for a well-formed expression)
  | .argsNil => [sym "<args>"]
  | .argsCons _ _ _ => [sym "<args>"]
/-- `Arguments.Doc` without the parentheses: arguments joined by `, `; `Argument.Doc`: `label: ` + expression -/
def printArgs : Expr → List Tok
  | .argsCons label a rest =>
    (if label == "" then printExpr a else ⟨.ident, label, false⟩ :: sym ":" :: spaced (printExpr a)) ++
      (if rest.isArgsCons then sym "," :: spaced (printArgs rest) else [])
  | _ => []
end

/-- the lexer reads two adjacent `&` as one `&&` token -/
def mergeAmp : List Tok → List Tok
  | a :: b :: rest =>
    if isSym "&" a && isSym "&" b && !b.sp then ⟨.sym, "&&", a.sp⟩ :: mergeAmp rest else a :: mergeAmp (b :: rest)
  | ts => ts

/-- the printed form as the lexer sees it -/
def printE (e : Expr) : List Tok := mergeAmp (printExpr e)

/-- lexemes only (what the stream compares with the lexed Go output) -/
def lexemes (ts : List Tok) : List String := ts.map (·.text)

end Verif.Model.Front.Syn
