/-!
C39 — ports of two byte-level post-passes of `/repo/formatter/formatter.go`:
`stripTrailingLineWhitespace` and `collapseBlankLines` (`bytes.Split` / `bytes.Join` on "\n",
`bytes.TrimRight(line, " \t")`, `bytes.TrimSpace` restricted to ASCII white space).
`rejoinStringInterpolations` is not ported (correspondence by the Go-only oracle of stream `fmt`).
-/
namespace Verif.Model.Front.Trivia

abbrev Bytes := List UInt8

/-- `bytes.Split(data, "\n")`: n separators give n + 1 parts -/
def splitLines : Bytes → List Bytes
  | [] => [[]]
  | b :: rest =>
    if b = 10 then [] :: splitLines rest
    else match splitLines rest with
      | [] => [[b]]
      | l :: ls => (b :: l) :: ls

/-- `bytes.Join(lines, "\n")` -/
def joinLines : List Bytes → Bytes
  | [] => []
  | [l] => l
  | l :: ls => l ++ 10 :: joinLines ls

def isSpaceTab (b : UInt8) : Bool := b = 32 || b = 9
/-- ASCII white space of `bytes.TrimSpace` (a line never contains `\n`) -/
def isAsciiSpace (b : UInt8) : Bool := b = 32 || b = 9 || b = 11 || b = 12 || b = 13

/-- `stripTrailingLineWhitespace`: a line of spaces / tabs only becomes empty (other lines are kept as
    they are, trailing blanks included) -/
def strip (data : Bytes) : Bytes :=
  joinLines ((splitLines data).map fun l => if l.all isSpaceTab then [] else l)

def blank (l : Bytes) : Bool := l.all isAsciiSpace

def collapseLines (max : Nat) : Nat → List Bytes → List Bytes
  | _, [] => []
  | consecutive, l :: ls =>
    if blank l then
      if consecutive + 1 > max then collapseLines max (consecutive + 1) ls
      else l :: collapseLines max (consecutive + 1) ls
    else l :: collapseLines max 0 ls

/-- `collapseBlankLines(data, max)` -/
def collapse (max : Nat) (data : Bytes) : Bytes := joinLines (collapseLines max 0 (splitLines data))

/-- the lines that are not blank, in order: code tokens, string contents and comment lines live here -/
def nonBlankLines (data : Bytes) : List Bytes := (splitLines data).filter (fun l => !blank l)

/-- the bytes of an ASCII string (for examples) -/
def ascii (s : String) : Bytes := s.toList.map (fun c => c.toNat.toUInt8)

end Verif.Model.Front.Trivia
