import Verif.Model.Front.Print
/-!
C38 — port of the parser's expression core (`/repo/parser/expression.go`) and of the type core
(`/repo/parser/type.go`) over a token list.

`parseExpr fuel rbp` = `parseExpression(p, rightBindingPower)`: null denotation of the first token, then
the loop of `applyExprMetaLeftDenotation`: stop when `rbp ≥ lbp(current token)`, otherwise consume the
token and apply its left denotation.  `fuel` bounds the recursion depth; it is an artefact of the port:
more fuel never changes a result (`Verif.Proofs.PrattFuel`) and `4 * number of tokens + 4` suffices for
every printed expression (`Verif.Proofs.PrattRT`).  Binding powers come from the regenerated tables.

Ported null denotations: identifiers (`true` / `false` / `nil`), integer and fixed-point literals,
prefix `-` (with the folding of the sign into a non-negative literal), `!`, `*`, `<-`, `&`,
parenthesised expression and the void literal `()`.
Ported left denotations: the binary operators (`defineExpr(binaryExpr)`; `<` as comparison only — the
speculative type-argument parse is outside the port; `>` with the look-ahead for an adjacent second
`>`), `?:`, `as` / `as?` / `as!`, postfix `!`, `.` / `?.`, `[`.
Invocation: `(` as left denotation with `parseArgumentListRemainder` / `parseArgument` (labels; no type
arguments).
Not ported (the port answers `none`): type arguments, arrays, dictionaries, strings, paths, `create`,
`destroy`, `attach`, function expressions, type arguments.
-/
namespace Verif.Model.Front.Syn
open Verif.Gen.PrecTables

def typeLbpOptional : Nat := 10 * (typePrecedences.idxOf "Optional")
def typeLbpReference : Nat := 10 * (typePrecedences.idxOf "Reference")

def reservedIdent (s : String) : Bool :=
  s == "create" || s == "destroy" || s == "attach" || s == "fun" || s == "view" || s == "as"

/-- a `.` followed by an identifier -/
def dotIdent : List Tok → Option (String × List Tok)
  | ⟨.sym, s, _⟩ :: ⟨.ident, n, _⟩ :: rest => if s == "." then some (n, rest) else none
  | _ => none

/-- `parseNominalTypeRemainder`: `.`-separated identifiers -/
def parseNominalRest : Nat → List String → List Tok → Option (List String × List Tok)
  | 0, _, _ => none
  | fuel + 1, acc, ts =>
    match dotIdent ts with
    | some (n, rest) => parseNominalRest fuel (n :: acc) rest
    | none => some (acc.reverse, ts)

/-! The bodies of the mutually recursive functions take the recursive calls (at the smaller fuel) as
    parameters (`pt` = `parseTy fuel`, `tl` = `tyLoop fuel`, `pe` = `parseExpr fuel`, …): the functions
    proper only tie the knot.  This keeps one equation per function for the proofs. -/

/-- the next token must be the symbol `s` (`p.mustOne`) -/
def expect (s : String) : List Tok → Option (List Tok)
  | ⟨.sym, s', _⟩ :: rest => if s' == s then some rest else none
  | _ => none

/-- the next token is a `>` that is adjacent to the previous token (second half of `>>`) -/
def adjGt : List Tok → Option (List Tok)
  | ⟨.sym, s, false⟩ :: rest => if s == ">" then some rest else none
  | _ => none

/-- null denotation of `parseType` followed by the loop -/
def parseTyBody (pn : List String → List Tok → Option (List String × List Tok))
    (pt : Nat → List Tok → Option (Ty × List Tok)) (tl : Nat → Ty → List Tok → Option (Ty × List Tok))
    (rbp : Nat) (ts : List Tok) : Option (Ty × List Tok) :=
  match ts with
  | ⟨.ident, n, _⟩ :: rest =>
    if reservedIdent n || n == "auth" then none else
    (pn [n] rest).bind fun (path, rest') => tl rbp (.nominal path) rest'
  | ⟨.sym, s, _⟩ :: rest =>
    if s == "&" then
      (pt typeLbpReference rest).bind fun (t, rest') => tl rbp (.reference t) rest'
    else if s == "(" then
      (pt 0 rest).bind fun (t, r) => (expect ")" r).bind fun rest' => tl rbp t rest'
    else none
  | _ => none

/-- the loop of `parseType`: postfix `?` / `??` apply only when adjacent (a space token has binding
    power 0) -/
def tyLoopBody (tl : Nat → Ty → List Tok → Option (Ty × List Tok))
    (rbp : Nat) (left : Ty) (ts : List Tok) : Option (Ty × List Tok) :=
  match ts with
  | ⟨.sym, s, false⟩ :: rest =>
    if s == "?" then
      if rbp ≥ typeLbpOptional then some (left, ts) else tl rbp (.optional left) rest
    else if s == "??" then
      if rbp ≥ typeLbpOptional then some (left, ts) else tl rbp (.optional (.optional left)) rest
    else if s == "<" then none      -- instantiation: outside the port
    else some (left, ts)
  | _ => some (left, ts)

mutual
/-- `parseType(p, rightBindingPower)` -/
def parseTy : Nat → Nat → List Tok → Option (Ty × List Tok)
  | 0, _, _ => none
  | fuel + 1, rbp, ts => parseTyBody (parseNominalRest fuel) (parseTy fuel) (tyLoop fuel) rbp ts
def tyLoop : Nat → Nat → Ty → List Tok → Option (Ty × List Tok)
  | 0, _, _, _ => none
  | fuel + 1, rbp, left, ts => tyLoopBody (tyLoop fuel) rbp left ts
end

/-- `parseTypeAnnotation` -/
def parseAnn (fuel : Nat) (ts : List Tok) : Option (Bool × Ty × List Tok) :=
  match expect "@" ts with
  | some rest => (parseTy fuel 0 rest).map (fun (t, r) => (true, t, r))
  | none => (parseTy fuel 0 ts).map (fun (t, r) => (false, t, r))

/-- the literal denotes zero: digits (after the base prefix) are all `0` (or `_`) -/
def isZeroLit (l : String) : Bool :=
  let cs := l.toList
  let ds := match cs with
    | '0' :: 'x' :: r => r
    | '0' :: 'b' :: r => r
    | '0' :: 'o' :: r => r
    | r => r
  ds.all (fun c => c == '0' || c == '_')

/-- the prefix `-` null denotation folds the sign into a non-negative literal (`Value.Neg`: the sign
    of zero stays non-negative) -/
def foldMinus : Expr → Expr
  | .int false l => .int (!isZeroLit l) l
  | .fix false l => .fix true l
  | e => .unary .minus e

/-- left binding power of the token at the head of the input (`exprLeftBindingPower`, the `<` / `>`
    meta left denotations); 0 = the loop stops -/
def exprLbp (ts : List Tok) : Nat :=
  match ts with
  | [] => 0
  | ⟨.ident, n, _⟩ :: _ => if n == "as" then bpCasting else 0
  | ⟨.sym, s, _⟩ :: rest =>
    if s == "as?" || s == "as!" then bpCasting
    else if s == "?" then bpTernary
    else if s == "!" then bpUnaryPostfix
    else if s == "." || s == "?." || s == "[" || s == "(" then bpAccess
    else if s == ">" then
      (match adjGt rest with
       | some _ => BinOp.shr.lbp
       | none => BinOp.gt.lbp)
    else match binOfSym s with
      | some op => if op = .shr then 0 else op.lbp
      | none => 0
  | _ => 0

/-- `applyExprNullDenotation`; `pe` = `parseExpression` -/
def nudBody (pe : Nat → List Tok → Option (Expr × List Tok)) (ts : List Tok) : Option (Expr × List Tok) :=
  match ts with
  | ⟨.ident, n, _⟩ :: rest =>
    if n == "true" then some (.bool true, rest)
    else if n == "false" then some (.bool false, rest)
    else if n == "nil" then some (.nil, rest)
    else if reservedIdent n then none
    else some (.ident n, rest)
  | ⟨.int, l, _⟩ :: rest => some (.int false l, rest)
  | ⟨.fix, l, _⟩ :: rest => some (.fix false l, rest)
  | ⟨.sym, s, _⟩ :: rest =>
    if s == "(" then
      match expect ")" rest with
      | some rest' => some (.void, rest')
      | none => (pe 0 rest).bind fun (e, r) => (expect ")" r).map fun rest' => (e, rest')
    else if s == "-" then
      (pe UnOp.minus.bp rest).map (fun (e, r) => (foldMinus e, r))
    else if s == "!" then (pe UnOp.not.bp rest).map (fun (e, r) => (.unary .not e, r))
    else if s == "*" then (pe UnOp.deref.bp rest).map (fun (e, r) => (.unary .deref e, r))
    else if s == "<-" then (pe UnOp.move.bp rest).map (fun (e, r) => (.unary .move e, r))
    else if s == "&" then (pe bpUnaryPrefix rest).map (fun (e, r) => (.ref e, r))
    else none
  | _ => none

/-- after an argument: `,` and the remaining arguments, or the closing parenthesis -/
def argTail (pas : List Tok → Option (Expr × List Tok)) (label : String) (e : Expr) (r : List Tok) :
    Option (Expr × List Tok) :=
  match expect "," r with
  | some r' => (pas r').map fun (rest, r'') => (.argsCons label e rest, r'')
  | none => (expect ")" r).map fun r' => (.argsCons label e .argsNil, r')

/-- `parseArgumentListRemainder` (after the `(` or after a `,`) with `parseArgument`: an expression; if a
    `:` follows, the expression must be an identifier and is the label.  `pe` = `parseExpression`, `pas` =
    this function at the smaller fuel. -/
def argsBody (pe : Nat → List Tok → Option (Expr × List Tok)) (pas : List Tok → Option (Expr × List Tok))
    (ts : List Tok) : Option (Expr × List Tok) :=
  match expect ")" ts with
  | some rest => some (.argsNil, rest)
  | none =>
    (pe 0 ts).bind fun (e, r) =>
      match expect ":" r with
      | some r' =>
        (match e with
         | .ident n => (pe 0 r').bind fun (e2, r2) => argTail pas n e2 r2
         | _ => none)
      | none => argTail pas "" e r

/-- `applyExprLeftDenotation` for the token at the head of `ts`; `pe` = `parseExpression`,
    `pa` = `parseTypeAnnotation`, `pas` = `parseArgumentListRemainder` -/
def ledBody (pe : Nat → List Tok → Option (Expr × List Tok)) (pa : List Tok → Option (Bool × Ty × List Tok))
    (pas : List Tok → Option (Expr × List Tok)) (left : Expr) (ts : List Tok) : Option (Expr × List Tok) :=
  match ts with
  | ⟨.ident, n, _⟩ :: rest =>
    if n == "as" then (pa rest).map (fun (res, t, r) => (.cast .cast left res t, r)) else none
  | ⟨.sym, s, _⟩ :: rest =>
    if s == "as?" then (pa rest).map (fun (res, t, r) => (.cast .failable left res t, r))
    else if s == "as!" then (pa rest).map (fun (res, t, r) => (.cast .force left res t, r))
    else if s == "?" then
      (pe 0 rest).bind fun (t, r) => (expect ":" r).bind fun rest' =>
        (pe 0 rest').map (fun (e, r) => (.cond left t e, r))
    else if s == "!" then some (.force left, rest)
    else if s == "." || s == "?." then
      match rest with
      | ⟨.ident, n, _⟩ :: rest' => some (.member (s == "?.") left n, rest')
      | _ => none
    else if s == "[" then
      (pe 0 rest).bind fun (i, r) => (expect "]" r).map fun rest' => (.index left i, rest')
    else if s == "(" then (pas rest).map fun (args, r) => (.invoke left args, r)
    else if s == ">" then
      match adjGt rest with
      | some rest' => (pe BinOp.shr.rbp rest').map (fun (e, r) => (.binary .shr left e, r))
      | none => (pe BinOp.gt.rbp rest).map (fun (e, r) => (.binary .gt left e, r))
    else match binOfSym s with
      | some op => (pe op.rbp rest).map (fun (e, r) => (.binary op left e, r))
      | none => none
  | _ => none

mutual
/-- `parseExpression(p, rightBindingPower)` -/
def parseExpr : Nat → Nat → List Tok → Option (Expr × List Tok)
  | 0, _, _ => none
  | fuel + 1, rbp, ts =>
    match nud fuel ts with
    | some (left, rest) => loop fuel rbp left rest
    | none => none
/-- `applyExprNullDenotation` -/
def nud : Nat → List Tok → Option (Expr × List Tok)
  | 0, _ => none
  | fuel + 1, ts => nudBody (parseExpr fuel) ts
/-- the loop of `parseExpression`: `applyExprMetaLeftDenotation` until done -/
def loop : Nat → Nat → Expr → List Tok → Option (Expr × List Tok)
  | 0, _, _, _ => none
  | fuel + 1, rbp, left, ts =>
    if rbp ≥ exprLbp ts then some (left, ts) else
    match led fuel left ts with
    | some (left', rest) => loop fuel rbp left' rest
    | none => none
/-- `applyExprLeftDenotation` -/
def led : Nat → Expr → List Tok → Option (Expr × List Tok)
  | 0, _, _ => none
  | fuel + 1, left, ts => ledBody (parseExpr fuel) (parseAnn fuel) (parseArgs fuel) left ts
/-- `parseArgumentListRemainder` -/
def parseArgs : Nat → List Tok → Option (Expr × List Tok)
  | 0, _ => none
  | fuel + 1, ts => argsBody (parseExpr fuel) (parseArgs fuel) ts
end

/-- parse a complete token list as one expression.  The fuel is an artefact of the port (the Go parser
    has none); `Verif.Proofs.PrattFuel` shows that more fuel never changes a result, and the round trip
    theorem that `4 * length + 4` suffices for every printed expression. -/
def parseAll (ts : List Tok) : Option Expr :=
  match parseExpr (4 * ts.length + 4) 0 ts with
  | some (e, []) => some e
  | _ => none

def parseTyAll (ts : List Tok) : Option Ty :=
  match parseTy (3 * ts.length + 3) 0 ts with
  | some (t, []) => some t
  | _ => none

end Verif.Model.Front.Syn
