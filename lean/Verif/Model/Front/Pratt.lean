import Verif.Model.Front.Print
/-!
C38 — port of the parser's expression core (`/repo/parser/expression.go`) and of the type core
(`/repo/parser/type.go`) over a token list.

`parseExpr fuel rbp` = `parseExpression(p, rightBindingPower)`: null denotation of the first token, then
the loop of `applyExprMetaLeftDenotation`: stop when `rbp ≥ lbp(current token)`, otherwise consume the
token and apply its left denotation.  `fuel` bounds the recursion depth (every call consumes a token,
so `fuel = number of tokens + 1` always suffices).  Binding powers come from the regenerated tables.

Ported null denotations: identifiers (`true` / `false` / `nil`), integer and fixed-point literals,
prefix `-` (with the folding of the sign into a non-negative literal), `!`, `*`, `<-`, `&`,
parenthesised expression and the void literal `()`.
Ported left denotations: the binary operators (`defineExpr(binaryExpr)`; `<` as comparison only — the
speculative type-argument parse is outside the port; `>` with the look-ahead for an adjacent second
`>`), `?:`, `as` / `as?` / `as!`, postfix `!`, `.` / `?.`, `[`.
Not ported (the port answers `none`): invocation, arrays, dictionaries, strings, paths, `create`,
`destroy`, `attach`, function expressions, type arguments.
-/
namespace Verif.Model.Front.Syn
open Verif.Gen.PrecTables

def typeLbpOptional : Nat := 10 * (typePrecedences.idxOf "Optional")
def typeLbpReference : Nat := 10 * (typePrecedences.idxOf "Reference")

def reservedIdent (s : String) : Bool :=
  s == "create" || s == "destroy" || s == "attach" || s == "fun" || s == "view" || s == "as"

/-- `parseNominalTypeRemainder`: `.`-separated identifiers -/
def parseNominalRest : Nat → List String → List Tok → Option (List String × List Tok)
  | 0, _, _ => none
  | fuel + 1, acc, ts =>
    match ts with
    | ⟨.sym, ".", _⟩ :: ⟨.ident, n, _⟩ :: rest => parseNominalRest fuel (n :: acc) rest
    | _ => some (acc.reverse, ts)

mutual
/-- `parseType(p, rightBindingPower)` -/
def parseTy : Nat → Nat → List Tok → Option (Ty × List Tok)
  | 0, _, _ => none
  | fuel + 1, rbp, ts =>
    match ts with
    | ⟨.ident, n, _⟩ :: rest =>
      if reservedIdent n || n == "auth" then none else
      match parseNominalRest fuel [n] rest with
      | some (path, rest') => tyLoop fuel rbp (.nominal path) rest'
      | none => none
    | ⟨.sym, "&", _⟩ :: rest =>
      match parseTy fuel typeLbpReference rest with
      | some (t, rest') => tyLoop fuel rbp (.reference t) rest'
      | none => none
    | ⟨.sym, "(", _⟩ :: rest =>
      match parseTy fuel 0 rest with
      | some (t, ⟨.sym, ")", _⟩ :: rest') => tyLoop fuel rbp t rest'
      | _ => none
    | _ => none
/-- the loop of `parseType`: postfix `?` / `??` apply only when adjacent (a space token has binding
    power 0) -/
def tyLoop : Nat → Nat → Ty → List Tok → Option (Ty × List Tok)
  | 0, _, _, _ => none
  | fuel + 1, rbp, left, ts =>
    match ts with
    | ⟨.sym, "?", false⟩ :: rest =>
      if rbp ≥ typeLbpOptional then some (left, ts) else tyLoop fuel rbp (.optional left) rest
    | ⟨.sym, "??", false⟩ :: rest =>
      if rbp ≥ typeLbpOptional then some (left, ts) else tyLoop fuel rbp (.optional (.optional left)) rest
    | ⟨.sym, "<", false⟩ :: _ => none      -- instantiation: outside the port
    | _ => some (left, ts)
end

/-- `parseTypeAnnotation` -/
def parseAnn (fuel : Nat) (ts : List Tok) : Option (Bool × Ty × List Tok) :=
  match ts with
  | ⟨.sym, "@", _⟩ :: rest => (parseTy fuel 0 rest).map (fun (t, r) => (true, t, r))
  | _ => (parseTy fuel 0 ts).map (fun (t, r) => (false, t, r))

/-- the literal denotes zero: digits (after the base prefix) are all `0` (or `_`) -/
def isZeroLit (l : String) : Bool :=
  let cs := l.toList
  let ds := match cs with
    | '0' :: 'x' :: r => r
    | '0' :: 'b' :: r => r
    | '0' :: 'o' :: r => r
    | r => r
  ds.all (fun c => c == '0' || c == '_')

/-- the prefix `-` null denotation folds the sign into a non-negative literal (`Value.Neg`: the sign
    of zero stays non-negative) -/
def foldMinus : Expr → Expr
  | .int false l => .int (!isZeroLit l) l
  | .fix false l => .fix true l
  | e => .unary .minus e

/-- left binding power of the token at the head of the input (`exprLeftBindingPower`, the `<` / `>`
    meta left denotations); 0 = the loop stops -/
def exprLbp (ts : List Tok) : Nat :=
  match ts with
  | [] => 0
  | ⟨.ident, "as", _⟩ :: _ => bpCasting
  | ⟨.sym, s, _⟩ :: rest =>
    if s == "as?" || s == "as!" then bpCasting
    else if s == "?" then bpTernary
    else if s == "!" then bpUnaryPostfix
    else if s == "." || s == "?." || s == "[" || s == "(" then bpAccess
    else if s == ">" then
      (match rest with
       | ⟨.sym, ">", false⟩ :: _ => BinOp.shr.lbp
       | _ => BinOp.gt.lbp)
    else match binOfSym s with
      | some op => if op = .shr then 0 else op.lbp
      | none => 0
  | _ => 0

mutual
/-- `parseExpression(p, rightBindingPower)` -/
def parseExpr : Nat → Nat → List Tok → Option (Expr × List Tok)
  | 0, _, _ => none
  | fuel + 1, rbp, ts =>
    match nud fuel ts with
    | some (left, rest) => loop fuel rbp left rest
    | none => none
/-- `applyExprNullDenotation` -/
def nud : Nat → List Tok → Option (Expr × List Tok)
  | 0, _ => none
  | fuel + 1, ts =>
    match ts with
    | ⟨.ident, n, _⟩ :: rest =>
      if n == "true" then some (.bool true, rest)
      else if n == "false" then some (.bool false, rest)
      else if n == "nil" then some (.nil, rest)
      else if reservedIdent n then none
      else some (.ident n, rest)
    | ⟨.int, l, _⟩ :: rest => some (.int false l, rest)
    | ⟨.fix, l, _⟩ :: rest => some (.fix false l, rest)
    | ⟨.sym, s, _⟩ :: rest =>
      if s == "(" then
        match rest with
        | ⟨.sym, ")", _⟩ :: rest' => some (.void, rest')
        | _ =>
          match parseExpr fuel 0 rest with
          | some (e, ⟨.sym, ")", _⟩ :: rest') => some (e, rest')
          | _ => none
      else if s == "-" then
        (parseExpr fuel UnOp.minus.bp rest).map (fun (e, r) => (foldMinus e, r))
      else if s == "!" then (parseExpr fuel UnOp.not.bp rest).map (fun (e, r) => (.unary .not e, r))
      else if s == "*" then (parseExpr fuel UnOp.deref.bp rest).map (fun (e, r) => (.unary .deref e, r))
      else if s == "<-" then (parseExpr fuel UnOp.move.bp rest).map (fun (e, r) => (.unary .move e, r))
      else if s == "&" then (parseExpr fuel bpUnaryPrefix rest).map (fun (e, r) => (.ref e, r))
      else none
    | _ => none
/-- the loop of `parseExpression`: `applyExprMetaLeftDenotation` until done -/
def loop : Nat → Nat → Expr → List Tok → Option (Expr × List Tok)
  | 0, _, _, _ => none
  | fuel + 1, rbp, left, ts =>
    if rbp ≥ exprLbp ts then some (left, ts) else
    match led fuel left ts with
    | some (left', rest) => loop fuel rbp left' rest
    | none => none
/-- `applyExprLeftDenotation` for the token at the head of `ts` -/
def led : Nat → Expr → List Tok → Option (Expr × List Tok)
  | 0, _, _ => none
  | fuel + 1, left, ts =>
    match ts with
    | ⟨.ident, "as", _⟩ :: rest =>
      (parseAnn fuel rest).map (fun (res, t, r) => (.cast .cast left res t, r))
    | ⟨.sym, s, _⟩ :: rest =>
      if s == "as?" then (parseAnn fuel rest).map (fun (res, t, r) => (.cast .failable left res t, r))
      else if s == "as!" then (parseAnn fuel rest).map (fun (res, t, r) => (.cast .force left res t, r))
      else if s == "?" then
        match parseExpr fuel 0 rest with
        | some (t, ⟨.sym, ":", _⟩ :: rest') => (parseExpr fuel 0 rest').map (fun (e, r) => (.cond left t e, r))
        | _ => none
      else if s == "!" then some (.force left, rest)
      else if s == "." || s == "?." then
        match rest with
        | ⟨.ident, n, _⟩ :: rest' => some (.member (s == "?.") left n, rest')
        | _ => none
      else if s == "[" then
        match parseExpr fuel 0 rest with
        | some (i, ⟨.sym, "]", _⟩ :: rest') => some (.index left i, rest')
        | _ => none
      else if s == "(" then none
      else if s == ">" then
        match rest with
        | ⟨.sym, ">", false⟩ :: rest' =>
          (parseExpr fuel BinOp.shr.rbp rest').map (fun (e, r) => (.binary .shr left e, r))
        | _ => (parseExpr fuel BinOp.gt.rbp rest).map (fun (e, r) => (.binary .gt left e, r))
      else match binOfSym s with
        | some op => (parseExpr fuel op.rbp rest).map (fun (e, r) => (.binary op left e, r))
        | none => none
    | _ => none
end

/-- parse a complete token list as one expression -/
def parseAll (ts : List Tok) : Option Expr :=
  match parseExpr (2 * ts.length + 2) 0 ts with
  | some (e, []) => some e
  | _ => none

def parseTyAll (ts : List Tok) : Option Ty :=
  match parseTy (2 * ts.length + 2) 0 ts with
  | some (t, []) => some t
  | _ => none

end Verif.Model.Front.Syn
