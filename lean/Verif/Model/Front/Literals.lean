/-
Code-shaped model of literal handling in /repo (C40):
  * `lexer.numberState` + `scan*Remainder`              (parser/lexer/state.go, lexer.go)
  * `parseIntegerLiteral`, `parseFixedPointPart`, `parseFixedPointLiteral`, the folding of a
    prefix minus into a literal, `parseStringLiteralContent`   (parser/expression.go)
  * `CheckIntegerLiteral`, `CheckFixedPointLiteral`            (sema/checker.go)
  * `fixedpoint.CheckRange`, `ScaleFractional`, `ConvertToFixedPointBigInt` (fixedpoint/)
  * the interpreter's construction of the fixed-point value (`value.Int64` / `value.Uint64` wrap)
`big.Int` is `Int`/`Nat`; `big.Int.SetString(s, base)` is the Horner fold `setString`.
-/
namespace Verif.Model.Front.Literals

/-! ## Integer literals -/

inductive Kind where
  | binary | octal | decimal | hex | unknown
  deriving DecidableEq, Repr

/-- `IntegerLiteralKind.Base()` (the parser uses base 1 for the unknown kind) -/
def Kind.base : Kind → Nat
  | .binary => 2 | .octal => 8 | .decimal => 10 | .hex => 16 | .unknown => 1

inductive TokKind where
  | int (k : Kind)
  | fixed
  /-- lexer error "missing fractional digits" -/
  | fixedMissing
  deriving DecidableEq, Repr

def isDecDigit (c : Char) : Bool := '0' ≤ c && c ≤ '9'
def isDecOrUnderscore (c : Char) : Bool := isDecDigit c || c == '_'
def isBinOrUnderscore (c : Char) : Bool := c == '0' || c == '1' || c == '_'
def isOctOrUnderscore (c : Char) : Bool := ('0' ≤ c && c ≤ '7') || c == '_'
def isHexOrUnderscore (c : Char) : Bool :=
  isDecDigit c || ('a' ≤ c && c ≤ 'f') || ('A' ≤ c && c ≤ 'F') || c == '_'
def isLetter (c : Char) : Bool := ('a' ≤ c && c ≤ 'z') || ('A' ≤ c && c ≤ 'Z')

/-- `scanFixedPointRemainder` after the `.`: (consumed, rest, missing) -/
def scanFixedRemainder (cs : List Char) : List Char × List Char × Bool :=
  match cs with
  | c :: _ => if isDecOrUnderscore c then (cs.takeWhile isDecOrUnderscore, cs.dropWhile isDecOrUnderscore, false)
              else ([], cs, true)
  | [] => ([], [], true)

/-- `scanDecimalOrFixedPointRemainder`: (consumed, rest, token kind) -/
def scanDecOrFixed (cs : List Char) : List Char × List Char × TokKind :=
  let ds := cs.takeWhile isDecOrUnderscore
  let rest := cs.dropWhile isDecOrUnderscore
  match rest with
  | '.' :: rest' =>
    let (fs, rest'', missing) := scanFixedRemainder rest'
    (ds ++ '.' :: fs, rest'', if missing then .fixedMissing else .fixed)
  | _ => (ds, rest, .int .decimal)

/-- `numberState`; the input starts with a decimal digit.  Returns (token text, rest, kind). -/
def lexNumber (cs : List Char) : List Char × List Char × TokKind :=
  match cs with
  | '0' :: r :: rest =>
    if r == 'b' then ('0' :: 'b' :: rest.takeWhile isBinOrUnderscore, rest.dropWhile isBinOrUnderscore, .int .binary)
    else if r == 'o' then ('0' :: 'o' :: rest.takeWhile isOctOrUnderscore, rest.dropWhile isOctOrUnderscore, .int .octal)
    else if r == 'x' then ('0' :: 'x' :: rest.takeWhile isHexOrUnderscore, rest.dropWhile isHexOrUnderscore, .int .hex)
    else if isDecOrUnderscore r then
      let (t, rest', k) := scanDecOrFixed rest
      ('0' :: r :: t, rest', k)
    else if r == '.' then
      let (fs, rest', missing) := scanFixedRemainder rest
      ('0' :: '.' :: fs, rest', if missing then .fixedMissing else .fixed)
    else if isLetter r then
      let (t, rest', k) := scanDecOrFixed rest
      ('0' :: r :: t, rest', if k == .int .decimal then .int .unknown else k)
    else (['0'], r :: rest, .int .decimal)
  | ['0'] => (['0'], [], .int .decimal)
  | c :: rest =>
    let (t, rest', k) := scanDecOrFixed rest
    (c :: t, rest', k)
  | [] => ([], [], .int .decimal)

/-- value of a digit character as `big.Int.SetString` reads it -/
def digitVal (c : Char) : Option Nat :=
  if '0' ≤ c && c ≤ '9' then some (c.toNat - '0'.toNat)
  else if 'a' ≤ c && c ≤ 'z' then some (c.toNat - 'a'.toNat + 10)
  else if 'A' ≤ c && c ≤ 'Z' then some (c.toNat - 'A'.toNat + 10)
  else none

/-- Horner step of `SetString` -/
def hornerStep (base : Nat) (acc : Option Nat) (c : Char) : Option Nat :=
  match acc, digitVal c with
  | some a, some d => if d < base then some (a * base + d) else none
  | _, _ => none

/-- `new(big.Int).SetString(s, base)` on a string without sign and underscores (`none` = `!ok`) -/
def setString (s : List Char) (base : Nat) : Option Nat :=
  if s.isEmpty then none else s.foldl (hornerStep base) (some 0)

def removeUnderscores (s : List Char) : List Char := s.filter (· != '_')

inductive LitErr where
  | lead | trail | prefix_ | missing | unknown
  deriving DecidableEq, Repr

/-- `parseIntegerLiteral(p, literal, text, kind)`: reported errors and (value, base) -/
def parseIntegerLiteral (text : List Char) (kind : Kind) : List LitErr × Nat :=
  let e1 := if text.head? == some '_' then [LitErr.lead] else []
  let e2 := if text.getLast? == some '_' then [LitErr.trail] else []
  let s := removeUnderscores text
  if kind == .unknown then (e1 ++ e2 ++ [.prefix_], 0)
  else if s.isEmpty then (e1 ++ e2 ++ [.missing], 0)
  else match setString s kind.base with
    | some v => (e1 ++ e2, v)
    | none => (e1 ++ e2 ++ [.unknown], 0)

/-- the `text` argument the token's null denotation passes: the literal without its two-character
    prefix, except for decimal literals -/
def literalText (tok : List Char) (kind : Kind) : List Char :=
  if kind == .decimal then tok else tok.drop 2

structure IntTy where
  signed : Bool
  bits : Option Nat   -- none: Int / UInt
  deriving DecidableEq, Repr

/-- `IntegerRangedType.MinInt()` (none = nil = unbounded) -/
def IntTy.minInt (t : IntTy) : Option Int :=
  match t.signed, t.bits with
  | true, none => none
  | false, _ => some 0
  | true, some b => some (-(2 ^ (b - 1) : Int))

def IntTy.maxInt (t : IntTy) : Option Int :=
  match t.signed, t.bits with
  | _, none => none
  | true, some b => some (2 ^ (b - 1) - 1)
  | false, some b => some (2 ^ b - 1)

/-- `checkIntegerRange(value, min, max)` -/
def checkIntegerRange (v : Int) (min max : Option Int) : Bool :=
  (match min with | none => true | some m => decide (v ≥ m)) &&
  (match max with | none => true | some m => decide (v ≤ m))

inductive Res (α : Type) where
  | ok (a : α)
  | parseErr (es : List LitErr) (syntaxErr : Bool)
  | rangeErr
  | scaleErr
  deriving Repr, DecidableEq

/-- The whole pipeline for `[-]<integer literal>` in a position of expected type `ty`:
    lexer, parser (minus folded into the literal), `CheckIntegerLiteral`, evaluation. -/
def integerLiteral (neg : Bool) (src : List Char) (ty : IntTy) : Res Int :=
  match lexNumber src with
  | (tok, rest, .int kind) =>
    let (errs, v) := parseIntegerLiteral (literalText tok kind) kind
    if !errs.isEmpty || !rest.isEmpty then .parseErr errs (!rest.isEmpty) else
    -- `-` : `right.Value.Neg(right.Value)` when `Sign() >= 0`
    let value : Int := if neg then -(v : Int) else v
    if checkIntegerRange value ty.minInt ty.maxInt then .ok value else .rangeErr
  | (_, _, _) => .parseErr [] true

/-! ## Fixed-point literals -/

/-- `parseFixedPointPart`: (integer, scale) -/
def parseFixedPointPart (part : List Char) : Nat × Nat :=
  let s := removeUnderscores part
  let integer := (setString s 10).getD 0
  let scale := if s.length == 0 then 1 else s.length
  (integer, scale)

structure FixLit where
  negative : Bool
  unsignedInteger : Nat
  fractional : Nat
  scale : Nat
  deriving Repr, DecidableEq

/-- `parseFixedPointLiteral`: split at the `.` -/
def parseFixedPointLiteral (tok : List Char) : FixLit :=
  let ip := tok.takeWhile (· != '.')
  let fp := (tok.dropWhile (· != '.')).drop 1
  let (i, _) := parseFixedPointPart ip
  let (f, sc) := parseFixedPointPart fp
  { negative := false, unsignedInteger := i, fractional := f, scale := sc }

inductive FixTy where
  | fix64 | ufix64 | fix128 | ufix128
  deriving DecidableEq, Repr

def FixTy.scale : FixTy → Nat
  | .fix64 | .ufix64 => 8 | .fix128 | .ufix128 => 24
def FixTy.minRaw : FixTy → Int
  | .fix64 => -(2 ^ 63) | .fix128 => -(2 ^ 127) | _ => 0
def FixTy.maxRaw : FixTy → Int
  | .fix64 => 2 ^ 63 - 1 | .ufix64 => 2 ^ 64 - 1 | .fix128 => 2 ^ 127 - 1 | .ufix128 => 2 ^ 128 - 1
def FixTy.factor (t : FixTy) : Int := 10 ^ t.scale
/-- `MinInt()`, `MinFractional()` (absolute value), `MaxInt()`, `MaxFractional()`:
    truncated quotient and remainder of the raw bounds -/
def FixTy.minInt (t : FixTy) : Int := t.minRaw.tdiv t.factor
def FixTy.minFractional (t : FixTy) : Int := (t.minRaw.tmod t.factor).natAbs
def FixTy.maxInt (t : FixTy) : Int := t.maxRaw.tdiv t.factor
def FixTy.maxFractional (t : FixTy) : Int := (t.maxRaw.tmod t.factor).natAbs

/-- `fixedpoint.ScaleFractional` -/
def scaleFractional (fractional : Nat) (scale targetScale : Nat) : Nat :=
  if scale ≥ targetScale then fractional else 10 ^ (targetScale - scale) * fractional

/-- `fixedpoint.CheckRange` -/
def checkRange (negative : Bool) (unsignedInteger fractional : Int)
    (minInt minFractional maxInt maxFractional : Int) : Bool :=
  if negative && minInt == 0 && (unsignedInteger != 0 || fractional != 0) then false else
  let integerValue := if negative then -unsignedInteger else unsignedInteger
  let lowOk :=
    if integerValue < minInt then false
    else if integerValue == minInt then
      (if minInt < 0 then !(fractional > minFractional) else !(fractional < minFractional))
    else true
  if !lowOk then false else
  if integerValue < maxInt then true
  else if integerValue == maxInt then
    (if maxInt ≥ 0 then !(fractional > maxFractional) else !(fractional < maxFractional))
  else false

/-- `fixedpoint.ConvertToFixedPointBigInt` -/
def convertToFixedPoint (l : FixLit) (targetScale : Nat) : Int :=
  let integer : Int := l.unsignedInteger * 10 ^ targetScale
  let fractional : Int :=
    if l.scale < targetScale then l.fractional * 10 ^ (targetScale - l.scale)
    else if l.scale > targetScale then l.fractional / 10 ^ (l.scale - targetScale)
    else l.fractional
  let r := integer + fractional
  if l.negative then -r else r

/-- the interpreter's / VM's value construction: `value.Int64()` / `value.Uint64()` wrap for the
    64-bit types; the 128-bit types are built from the big integer -/
def wrapToType (t : FixTy) (v : Int) : Int :=
  match t with
  | .fix64 => (v + 2 ^ 63) % 2 ^ 64 - 2 ^ 63
  | .ufix64 => v % 2 ^ 64
  | _ => v

/-- `CheckFixedPointLiteral` for a fixed-point target type -/
def checkFixedPointLiteral (l : FixLit) (t : FixTy) : Res Unit :=
  if l.scale > t.scale then .scaleErr else
  if !checkRange l.negative l.unsignedInteger (scaleFractional l.fractional l.scale t.scale)
      t.minInt t.minFractional t.maxInt t.maxFractional then .rangeErr
  else .ok ()

/-- pipeline for `[-]<fixed-point literal>` with expected type `t`; result = raw scaled value -/
def fixedLiteral (neg : Bool) (src : List Char) (t : FixTy) : Res Int :=
  match lexNumber src with
  | (tok, rest, .fixed) =>
    if !rest.isEmpty then .parseErr [] true else
    let l := { parseFixedPointLiteral tok with negative := neg }
    match checkFixedPointLiteral l t with
    | .ok () => .ok (wrapToType t (convertToFixedPoint l t.scale))
    | .scaleErr => .scaleErr
    | .rangeErr => .rangeErr
    | .parseErr es s => .parseErr es s
  | (_, _, _) => .parseErr [] true

/-! ## String literal content -/

/-- `parseHex` -/
def parseHexDigit (r : Nat) : Option Nat :=
  if '0'.toNat ≤ r ∧ r ≤ '9'.toNat then some (r - '0'.toNat)
  else if 'a'.toNat ≤ r ∧ r ≤ 'f'.toNat then some (r - 'a'.toNat + 10)
  else if 'A'.toNat ≤ r ∧ r ≤ 'F'.toNat then some (r - 'A'.toNat + 10)
  else none

/-- `utf8.ValidRune` on an `int32` rune value: a Unicode scalar value -/
def validRune (r : Int) : Bool :=
  (0 ≤ r && r < 0xD800) || (0xE000 ≤ r && r ≤ 0x10FFFF)

/-- `r2 = r2<<4 | parsed` on `rune` = `int32` -/
def shiftInRune (r2 : Int) (d : Nat) : Int :=
  let u := ((r2 % 2 ^ 32) * 16 + d) % 2 ^ 32
  if u ≥ 2 ^ 31 then u - 2 ^ 32 else u

/-- the digit loop of a `\u{…}` escape: reads up to 8 characters, stopping at `}`.
    Returns (r2, valid, digitIndex, last rune read or none, rest). -/
def unicodeDigits : Nat → List Nat → Int → Bool → Nat → Option Nat → Int × Bool × Nat × Option Nat × List Nat
  | 0, cs, r2, valid, idx, last => (r2, valid, idx, last, cs)
  | _ + 1, [], r2, valid, idx, last => (r2, valid, idx, last, [])
  | fuel + 1, c :: cs, r2, valid, idx, _ =>
    if c == '}'.toNat then (r2, valid, idx, some c, cs)
    else match parseHexDigit c with
      | some d => unicodeDigits fuel cs (shiftInRune r2 d) valid (idx + 1) (some c)
      | none => unicodeDigits fuel cs r2 false (idx + 1) (some c)

/-- `parseStringLiteralContent` over the decoded runes of the source between the quotes:
    (result runes, number of reported syntax errors > 0).  `fuel` = input length + 1. -/
def parseStringContent : Nat → List Nat → List Nat → Bool → List Nat × Bool
  | 0, _, acc, err => (acc.reverse, err)
  | _ + 1, [], acc, err => (acc.reverse, err)
  | fuel + 1, r :: cs, acc, err =>
    if r != '\\'.toNat then parseStringContent fuel cs (r :: acc) err else
    match cs with
    | [] => (acc.reverse, true)       -- incomplete escape sequence: return
    | e :: cs' =>
      if e == '0'.toNat then parseStringContent fuel cs' (0 :: acc) err
      else if e == 'n'.toNat then parseStringContent fuel cs' (10 :: acc) err
      else if e == 'r'.toNat then parseStringContent fuel cs' (13 :: acc) err
      else if e == 't'.toNat then parseStringContent fuel cs' (9 :: acc) err
      else if e == '"'.toNat then parseStringContent fuel cs' (34 :: acc) err
      else if e == '\''.toNat then parseStringContent fuel cs' (39 :: acc) err
      else if e == '\\'.toNat then parseStringContent fuel cs' (92 :: acc) err
      else if e == 'u'.toNat then
        match cs' with
        | [] => (acc.reverse, true)   -- missing `{`: return
        | b :: cs'' =>
          if b != '{'.toNat then parseStringContent fuel cs'' acc true   -- expected `{`: continue
          else
            let (r2, valid, idx, last, rest) := unicodeDigits 8 cs'' 0 true 0 (some b)
            -- `utf8.ValidRune(r2)`: an escape that is not a scalar value is a syntax error
            let scalar := validRune r2
            let acc' := if idx > 0 && valid && scalar then r2.toNat :: acc else acc
            let err' := err || !valid || (idx > 0 && valid && !scalar)
            -- `if r != '}' { advance() }` then the final switch on r
            if last == some '}'.toNat then parseStringContent fuel rest acc' err'
            else match rest with
              | [] => (acc'.reverse, true)          -- EOF: missing `}` (loop ends: index == length)
              | c :: rest' =>
                if c == '}'.toNat then parseStringContent fuel rest' acc' err'
                else parseStringContent fuel rest' acc' true
      else parseStringContent fuel cs' acc true     -- invalid escape character, skipped

def stringLiteralContent (cs : List Nat) : List Nat × Bool :=
  parseStringContent (cs.length + 1) cs [] false

end Verif.Model.Front.Literals
