/-!
C39 — model of the comment attachment `attachLevel` / `Attach` of `/repo/formatter/trivia/attach.go`:
the sequence of slot assignments the algorithm performs, over abstract elements (identity, start
position, reported and true end position, children as returned by `getChildren`) and comment groups
(offsets and lines).

Modelled: the four loops of `attachLevel` (groups before the first sibling with the header rule of the top
level; per sibling: the groups inside the element → recursion on its children, left-overs → trailing of the
last child / leading of the childless element; the same-line group; the groups between two siblings with the
blank-line rule; the groups after the last sibling), `Attach`'s footer rule.
NOT modelled: the three `hoist…` post-passes of `Attach` (they move groups between slots), the Go maps
(`cm.SameLine[node] = g` overwrites when the same element is visited twice — the model records the
assignment sequence; the known finding `comment-next-to-else-dropped` lives there), rendering.
Tied to /repo by stream `attach` (`harness/cmd/vharness/stream_attach.go`, `Drv/Attach.lean`): same slot
assignments as the real `attachLevel` (through the verif hook `trivia.VerifAttachLevel`) on generated programs.
The recursion on children is bounded by `fuel` (depth of the element tree + 1 suffices; with less fuel the
model leaves the groups unassigned, which does not affect the conservation theorem).
-/
namespace Verif.Model.Front.Attach

/-- a comment group: identity, start / end offset, start / end line -/
structure G where
  id : Nat
  start : Nat
  stop : Nat
  sline : Nat
  eline : Nat
  deriving DecidableEq, Repr

/-- an AST element: identity, `StartPosition()` (offset, line), `EndPosition()` offset, `trueEndPosition`
    (offset, line), `getChildren` -/
inductive N where
  | mk (id start sline endRaw tend tline : Nat) (children : List N)
  deriving Repr

def N.id : N → Nat | .mk i _ _ _ _ _ _ => i
def N.start : N → Nat | .mk _ s _ _ _ _ _ => s
def N.sline : N → Nat | .mk _ _ l _ _ _ _ => l
def N.endRaw : N → Nat | .mk _ _ _ e _ _ _ => e
def N.tend : N → Nat | .mk _ _ _ _ t _ _ => t
def N.tline : N → Nat | .mk _ _ _ _ _ l _ => l
def N.children : N → List N | .mk _ _ _ _ _ _ c => c

inductive Slot where
  | header | leading | trailing | sameLine | footer
  deriving DecidableEq, Repr

/-- one assignment `cm.<slot>[node] = / append … group` (`node` is 0 for header / footer) -/
structure Asg where
  slot : Slot
  node : Nat
  g : G
  deriving Repr

/-- `blankLineBetween(a, b)`: `b.Line - a.Line > 1` -/
def blank (aLine bLine : Nat) : Bool := bLine - aLine > 1

/-- "Groups before first sibling" -/
def beforeFirst (isTop : Bool) (firstId firstStart firstLine : Nat) : List G → List Asg × List G
  | [] => ([], [])
  | g :: gs =>
    if g.stop < firstStart then
      let isLastBefore := match gs with
        | [] => true
        | g2 :: _ => g2.stop ≥ firstStart
      let a : Asg :=
        if isTop then
          if !isLastBefore || blank g.eline firstLine then ⟨.header, 0, g⟩ else ⟨.leading, firstId, g⟩
        else ⟨.leading, firstId, g⟩
      let r := beforeFirst isTop firstId firstStart firstLine gs
      (a :: r.1, r.2)
    else ([], g :: gs)

/-- "Collect groups that fall inside this node" -/
def takeInside (nstart nendRaw : Nat) : List G → List G × List G
  | [] => ([], [])
  | g :: gs =>
    if g.start > nstart ∧ g.stop ≤ nendRaw then
      let r := takeInside nstart nendRaw gs
      (g :: r.1, r.2)
    else ([], g :: gs)

/-- "Groups between this sibling and the next" -/
def between (nodeId tline nextId nextStart : Nat) : List G → List Asg × List G
  | [] => ([], [])
  | g :: gs =>
    if g.stop < nextStart then
      let a : Asg := if blank tline g.sline then ⟨.leading, nextId, g⟩ else ⟨.trailing, nodeId, g⟩
      let r := between nodeId tline nextId nextStart gs
      (a :: r.1, r.2)
    else ([], g :: gs)

/-- "Groups after the last sibling" -/
def afterLast (lastId : Nat) : Nat → List G → List Asg × List G
  | _, [] => ([], [])
  | lastEndLine, g :: gs =>
    if blank lastEndLine g.sline then ([], g :: gs)
    else
      let r := afterLast lastId g.eline gs
      (⟨.trailing, lastId, g⟩ :: r.1, r.2)

def lastId : List N → Nat
  | [] => 0
  | [n] => n.id
  | _ :: ns => lastId ns

/-- "Recursively handle inside groups": recursion on the children; left-overs are trailing of the last
    child, or leading of the childless element -/
def insideAsg (lv : List N → List G → List Asg × List G) (n : N) (ins : List G) : List Asg :=
  match ins with
  | [] => []
  | _ =>
    let r := lv n.children ins
    r.1 ++ r.2.map (fun g =>
      match n.children with
      | [] => (⟨.leading, n.id, g⟩ : Asg)
      | cs => ⟨.trailing, lastId cs, g⟩)

/-- "Same-line comment": assignments, remaining groups, the end line to continue from -/
def sameLineStep (n : N) (rest : List N) : List G → List Asg × List G × Nat
  | [] => ([], [], n.tline)
  | g :: gs' =>
    let isBeforeNext : Bool := match rest with
      | [] => true
      | nx :: _ => decide (g.stop < nx.start)
    if g.sline = n.tline ∧ g.start > n.tend ∧ isBeforeNext = true then ([⟨.sameLine, n.id, g⟩], gs', g.eline)
    else ([], g :: gs', n.tline)

def betweenStep (n : N) (rest : List N) (gs : List G) : List Asg × List G :=
  match rest with
  | [] => ([], gs)
  | nx :: _ => between n.id n.tline nx.id nx.start gs

/-- "Process each sibling"; `lv` = `attachLevel` on the children (smaller fuel).  Returns the assignments,
    the unconsumed groups and the end line after the last sibling (its same-line group's, if any). -/
def sibLoop (lv : List N → List G → List Asg × List G) : List N → List G → List Asg × List G × Nat
  | [], gs => ([], gs, 0)
  | n :: rest, gs =>
    let ins := takeInside n.start n.endRaw gs
    let aIn := insideAsg lv n ins.1
    let sl := sameLineStep n rest ins.2
    let bt := betweenStep n rest sl.2.1
    let r := sibLoop lv rest bt.2
    (aIn ++ sl.1 ++ bt.1 ++ r.1, r.2.1, match rest with | [] => sl.2.2 | _ => r.2.2)

/-- `attachLevel(cm, siblings, groups, isTopLevel, source)`: assignments and unconsumed groups -/
def level : Nat → Bool → List N → List G → List Asg × List G
  | 0, _, _, gs => ([], gs)
  | fuel + 1, isTop, siblings, gs =>
    match gs with
    | [] => ([], [])
    | _ =>
      match siblings with
      | [] => if isTop then (gs.map (fun g => ⟨.header, 0, g⟩), []) else ([], gs)
      | s0 :: _ =>
        let b := beforeFirst isTop s0.id s0.start s0.sline gs
        let s := sibLoop (level fuel false) siblings b.2
        let a := afterLast (lastId siblings) s.2.2 s.2.1
        (b.1 ++ s.1 ++ a.1, a.2)

/-- `Attach`: what is left over is footer -/
def attach (fuel : Nat) (decls : List N) (gs : List G) : List Asg :=
  let r := level fuel true decls gs
  r.1 ++ r.2.map (fun g => ⟨.footer, 0, g⟩)

def groupsOf (as : List Asg) : List G := as.map (·.g)

end Verif.Model.Front.Attach
