import Verif.Model.Front.Utf8
/-!
Line-by-line port of `/repo/parser/lexer/lexer.go` + `state.go` (token kinds of `tokentype.go`).
Core Lean only.

Conventions of the port
* `input` is a byte array; Go `int` offsets are `Nat` (they are only ever assigned non-negative values);
  a token's offsets are `Int` because the code computes `endOffset - 1`.
* A rune is an `Int`; `EOF = -1`.
* Go panics (`"second backup"`, `TokenLimitReachedError`, slice expressions out of bounds) are a sticky
  `err` field: once it is set `emit` appends nothing and `run` stops before the next state function, so the
  token list is the one the Go lexer holds when the panic unwinds to `run`'s `recover`.
  A slice expression `input[a:]` with `a > len(input)` and `input[a:b]` with `b > len(input)` is treated as a
  panic (Go allows `b ≤ cap(input)`; the model does not look at capacities).
* Every state function of `state.go` is one case of `step`; `rootState`'s `for` loop is unrolled into one
  iteration per `step` (returning `.root` again), which is the same sequence of effects.
* The memory gauge is not modelled (the streams pass `nil`).
-/
namespace Verif.Model.Front.Lexer
open Verif.Model.Front

abbrev Rune := Int
abbrev EOF : Rune := -1

/-- token type numbers: the `iota` order of `tokentype.go` (pinned against the source by `Gen.LexerFacts`) -/
def tokenTypeNames : List String :=
  ["TokenError", "TokenEOF", "TokenSpace", "TokenBinaryIntegerLiteral", "TokenOctalIntegerLiteral",
   "TokenDecimalIntegerLiteral", "TokenHexadecimalIntegerLiteral", "TokenUnknownBaseIntegerLiteral",
   "TokenFixedPointNumberLiteral", "TokenIdentifier", "TokenString", "TokenPlus", "TokenMinus", "TokenStar",
   "TokenSlash", "TokenPercent", "TokenDoubleQuestionMark", "TokenParenOpen", "TokenParenClose",
   "TokenBraceOpen", "TokenBraceClose", "TokenBracketOpen", "TokenBracketClose", "TokenQuestionMark",
   "TokenQuestionMarkDot", "TokenComma", "TokenColon", "TokenDot", "TokenSemicolon", "TokenLeftArrow",
   "TokenLeftArrowExclamation", "TokenRightArrow", "TokenSwap", "TokenLess", "TokenLessEqual", "TokenLessLess",
   "TokenGreater", "TokenGreaterEqual", "TokenEqual", "TokenEqualEqual", "TokenExclamationMark", "TokenNotEqual",
   "TokenBlockCommentStart", "TokenBlockCommentEnd", "TokenBlockCommentContent", "TokenLineComment",
   "TokenAmpersand", "TokenAmpersandAmpersand", "TokenCaret", "TokenVerticalBar", "TokenVerticalBarVerticalBar",
   "TokenAt", "TokenAsExclamationMark", "TokenAsQuestionMark", "TokenPragma", "TokenStringTemplate", "TokenMax"]

namespace T
def error := 0
def eof := 1
def space := 2
def binary := 3
def octal := 4
def decimal := 5
def hexadecimal := 6
def unknownBase := 7
def fixedPoint := 8
def identifier := 9
def string := 10
def plus := 11
def minus := 12
def star := 13
def slash := 14
def percent := 15
def doubleQuestionMark := 16
def parenOpen := 17
def parenClose := 18
def braceOpen := 19
def braceClose := 20
def bracketOpen := 21
def bracketClose := 22
def questionMark := 23
def questionMarkDot := 24
def comma := 25
def colon := 26
def dot := 27
def semicolon := 28
def leftArrow := 29
def leftArrowExclamation := 30
def rightArrow := 31
def swap := 32
def less := 33
def lessEqual := 34
def lessLess := 35
def greater := 36
def greaterEqual := 37
def equal := 38
def equalEqual := 39
def exclamationMark := 40
def notEqual := 41
def blockCommentStart := 42
def blockCommentEnd := 43
def blockCommentContent := 44
def lineComment := 45
def ampersand := 46
def ampersandAmpersand := 47
def caret := 48
def verticalBar := 49
def verticalBarVerticalBar := 50
def atSign := 51
def asExclamationMark := 52
def asQuestionMark := 53
def pragma := 54
def stringTemplate := 55
end T

structure Pos where
  line : Nat
  column : Nat
  deriving DecidableEq, Repr, Inhabited

structure Token where
  ty : Nat
  startOff : Int
  startPos : Pos
  endOff : Int
  endPos : Pos
  /-- `Space.ContainsNewline` (false for all other tokens) -/
  nl : Bool
  deriving DecidableEq, Repr, Inhabited

inductive LexErr where
  | tokenLimit      -- panic(TokenLimitReachedError{})
  | secondBackup    -- panic("second backup")
  | sliceBounds     -- a slice expression out of range (Go runtime panic)
  | loopFuel        -- (model only) a loop of the port ran out of its fuel: shown impossible by `lex_no_panic`
  deriving DecidableEq, Repr

inductive Mode where
  | normal | interpolation
  deriving DecidableEq, Repr

/-- the fields of the Go `lexer` struct that lexing reads or writes (`cursor`, `tokenCount` belong to the
    consumer side `Next`/`Revert`; `memoryGauge` is not modelled), plus the sticky panic and the token limit -/
structure L where
  input : Bytes
  /-- `tokens`, newest first -/
  toks : List Token
  /-- `len(l.tokens)` -/
  ntok : Nat
  startPos : Pos
  startOffset : Nat
  endOffset : Nat
  prevEndOffset : Nat
  current : Rune
  prev : Rune
  canBackup : Bool
  mode : Mode
  openBrackets : Int
  err : Option LexErr
  /-- `tokenLimit` (a constant of the source; a parameter here, the theorems hold for every value) -/
  limit : Nat

/-- the state after `clear()` + the assignments in `Lex` -/
def L.init (input : Bytes) (limit : Nat) : L :=
  { input, toks := [], ntok := 0, startPos := ⟨1, 0⟩, startOffset := 0, endOffset := 0, prevEndOffset := 0,
    current := EOF, prev := EOF, canBackup := false, mode := .normal, openBrackets := 0, err := none, limit }

def L.fail (l : L) (e : LexErr) : L := if l.err.isSome then l else { l with err := some e }

/-- `func (l *lexer) next() rune` -/
def next (l : L) : L × Rune :=
  let endOffset := l.endOffset
  let rw : Rune × Nat :=
    if endOffset < l.input.size then
      let d := decodeRune l.input endOffset
      (Int.ofNat d.1, d.2)
    else (EOF, 1)
  ({ l with canBackup := true, prevEndOffset := endOffset, prev := l.current,
            endOffset := l.endOffset + rw.2, current := rw.1 }, rw.1)

/-- `func (l *lexer) backupOne()` -/
def backupOne (l : L) : L :=
  if !l.canBackup then l.fail .secondBackup
  else { l with canBackup := false, endOffset := l.prevEndOffset, current := l.prev }

/-- `func (l *lexer) acceptOne(r rune) bool` -/
def acceptOne (r : Rune) (l : L) : L × Bool :=
  let p := next l
  if p.2 = r then (p.1, true) else (backupOne p.1, false)

def advance (p : Pos) (r : Nat) : Pos :=
  if r = 10 then ⟨p.line + 1, 0⟩ else ⟨p.line, p.column + 1⟩

/-- the loop of `endPos()`: `for offset := startOffset; offset < endOffset-1; offset += w`.
    `none` = the slice expression `l.input[offset:]` panics.  Structural in `fuel`; with
    `fuel ≥ endOffset - off` the `0` case is only reached when the loop condition is false
    (every iteration advances `off` by at least 1). -/
def endPosWalk : (fuel : Nat) → (inp : Bytes) → (endOffset off : Nat) → (p : Pos) → Option Pos
  | 0, _, _, _, p => some p
  | fuel + 1, inp, endOffset, off, p =>
    if off + 1 < endOffset then
      if inp.size < off then none
      else
        let d := decodeRune inp off
        endPosWalk fuel inp endOffset (off + fallbackWidth d.2) (advance p d.1)
    else some p

/-- `func (l *lexer) endPos() position` -/
def endPos (l : L) : Option Pos :=
  endPosWalk (l.endOffset - l.startOffset) l.input l.endOffset l.startOffset l.startPos

/-- `func (l *lexer) emit(ty, spaceOrError, rangeStart, consume)` -/
def emit (ty : Nat) (nl : Bool) (rangeStart : Int × Pos) (consume : Bool) (l : L) : L :=
  if l.err.isSome then l
  else if l.limit ≤ l.ntok then l.fail .tokenLimit
  else
    match endPos l with
    | none => l.fail .sliceBounds
    | some ep =>
      let tok : Token := { ty, startOff := rangeStart.1, startPos := rangeStart.2,
                           endOff := (l.endOffset : Int) - 1, endPos := ep, nl }
      let l1 := { l with toks := tok :: l.toks, ntok := l.ntok + 1 }
      if consume then
        -- r, _ := utf8.DecodeRune(l.input[l.endOffset-1:])
        if l1.endOffset = 0 ∨ l1.input.size < l1.endOffset - 1 then l1.fail .sliceBounds
        else
          let r := (decodeRune l1.input (l1.endOffset - 1)).1
          { l1 with startOffset := l1.endOffset, startPos := advance ep r }
      else l1

/-- `emitType` -/
def emitType (ty : Nat) (l : L) : L := emit ty false (Int.ofNat l.startOffset, l.startPos) true l

/-- `emitError` -/
def emitError (l : L) : L :=
  match endPos l with
  | none => l.fail .sliceBounds
  | some ep => emit T.error false ((l.endOffset : Int) - 1, ep) false l

/-- the loop of `acceptWhile(f)`, structural in `fuel` (remaining input + 1 suffices: every accepted rune
    advances `endOffset`; running out of fuel is recorded as the model-only error `loopFuel`). -/
def acceptWhileN : (fuel : Nat) → (f : Rune → Bool) → L → L
  | 0, _, l => l.fail .loopFuel
  | fuel + 1, f, l =>
    let p := next l
    if f p.2 then acceptWhileN fuel f p.1 else backupOne p.1

/-- `func (l *lexer) acceptWhile(f func(rune) bool)` -/
def acceptWhile (f : Rune → Bool) (l : L) : L := acceptWhileN (l.input.size + 1 - l.endOffset) f l

def isSpaceNoNl (r : Rune) : Bool := r = 32 ∨ r = 9 ∨ r = 13
def isIdentifierRune (r : Rune) : Bool :=
  (97 ≤ r ∧ r ≤ 122) ∨ (65 ≤ r ∧ r ≤ 90) ∨ (48 ≤ r ∧ r ≤ 57) ∨ r = 95
def isLetter (r : Rune) : Bool := (97 ≤ r ∧ r ≤ 122) ∨ (65 ≤ r ∧ r ≤ 90)
def notLineEnd (r : Rune) : Bool := !(r = 10 ∨ r = EOF)
def isBinary (r : Rune) : Bool := r = 48 ∨ r = 49 ∨ r = 95
def isOctal (r : Rune) : Bool := (48 ≤ r ∧ r ≤ 55) ∨ r = 95
def isHex (r : Rune) : Bool := (48 ≤ r ∧ r ≤ 57) ∨ (97 ≤ r ∧ r ≤ 102) ∨ (65 ≤ r ∧ r ≤ 70) ∨ r = 95
def isDecimalDigitOrUnderscore (r : Rune) : Bool := (48 ≤ r ∧ r ≤ 57) ∨ r = 95
def isSpaceRune (r : Rune) : Bool := r = 32 ∨ r = 9 ∨ r = 13 ∨ r = 10

/-- `scanSpace`: `acceptWhile` of the space runes; the closure's `containsNewline` is whether a `'\n'`
    lies in the accepted range. -/
def bytesContainNl (inp : Bytes) (a : Nat) : (n : Nat) → Bool
  | 0 => false
  | n + 1 => (byteAt inp a = 10) || bytesContainNl inp (a + 1) n

def scanSpace (l : L) : L × Bool :=
  let l1 := acceptWhile isSpaceRune l
  (l1, bytesContainNl l.input l.endOffset (l1.endOffset - l.endOffset))

/-- the loop of `scanString('"')`: `r := l.next(); for r != quote { ...; r = l.next() }`, one rune read at the
    top of each round; structural in `fuel` (remaining input + 1 suffices). -/
def scanStringN : (fuel : Nat) → L → L
  | 0, l => l.fail .loopFuel
  | fuel + 1, l =>
    let p := next l
    let l1 := p.1
    let r := p.2
    if r = 34 then l1                                   -- r == quote: loop ends
    else if r = 10 ∨ r = EOF then backupOne l1           -- invalid end of string handled by parser
    else if r = 92 then                                  -- '\\'
      -- might have to backup twice due to string template
      let tmpBackupOffset := l1.prevEndOffset
      let tmpBackup := l1.prev
      let p2 := next l1
      let l2 := p2.1
      let r2 := p2.2
      if r2 = 40 then                                    -- '(' : string template, stop and set mode
        { l2 with mode := .interpolation, endOffset := tmpBackupOffset, current := tmpBackup, canBackup := false }
      else if r2 = 10 ∨ r2 = EOF then backupOne l2
      else scanStringN fuel l2                           -- regular escape: `r = l.next(); continue`
    else scanStringN fuel l1

/-- `func (l *lexer) scanString(quote rune)` with `quote = '"'` -/
def scanString (l : L) : L := scanStringN (l.input.size + 1 - l.endOffset) l

/-- `scanFixedPointRemainder` -/
def scanFixedPointRemainder (l : L) : L :=
  let p := next l
  if !isDecimalDigitOrUnderscore p.2 then emitError (backupOne p.1)
  else acceptWhile isDecimalDigitOrUnderscore p.1

/-- `scanDecimalOrFixedPointRemainder` -/
def scanDecimalOrFixedPointRemainder (l : L) : L × Nat :=
  let l1 := acceptWhile isDecimalDigitOrUnderscore l
  let p := next l1
  if p.2 = 46 then (scanFixedPointRemainder p.1, T.fixedPoint)
  else (backupOne p.1, T.decimal)

/-- the state functions of `state.go` -/
inductive St where
  | root
  | number
  | space (startIsNewline : Bool)
  | identifier
  | string
  | lineComment
  | blockComment (nesting : Nat)
  deriving DecidableEq, Repr

/-- `l.error(err)`: `emitError`, then stop -/
def lexError (l : L) : Option St × L := (none, emitError l)

/-- what `rootState` does with the rune it just read -/
inductive RootAct where
  | eof | single (ty : Nat) (nonError : ty ≠ T.error) | minus | parenOpen | parenClose | eq | amp | bar | gt | ident
  | space (nl : Bool) | number | quote | backslash | slash | question | bang | lt | other

def classify (r : Rune) : RootAct :=
  if r = EOF then .eof
  else if r = 43 then .single T.plus (by decide)
  else if r = 45 then .minus
  else if r = 42 then .single T.star (by decide)
  else if r = 37 then .single T.percent (by decide)
  else if r = 40 then .parenOpen
  else if r = 41 then .parenClose
  else if r = 123 then .single T.braceOpen (by decide)
  else if r = 125 then .single T.braceClose (by decide)
  else if r = 91 then .single T.bracketOpen (by decide)
  else if r = 93 then .single T.bracketClose (by decide)
  else if r = 44 then .single T.comma (by decide)
  else if r = 59 then .single T.semicolon (by decide)
  else if r = 58 then .single T.colon (by decide)
  else if r = 46 then .single T.dot (by decide)
  else if r = 61 then .eq
  else if r = 64 then .single T.atSign (by decide)
  else if r = 35 then .single T.pragma (by decide)
  else if r = 38 then .amp
  else if r = 94 then .single T.caret (by decide)
  else if r = 124 then .bar
  else if r = 62 then .gt
  else if r = 95 then .ident
  else if r = 32 ∨ r = 9 ∨ r = 13 then .space false
  else if r = 10 then .space true
  else if 48 ≤ r ∧ r ≤ 57 then .number
  else if r = 34 then .quote
  else if r = 92 then .backslash
  else if r = 47 then .slash
  else if r = 63 then .question
  else if r = 33 then .bang
  else if r = 60 then .lt
  else if isLetter r then .ident
  else .other

/-- one iteration of the `for` loop of `rootState` -/
def rootStep (l : L) : Option St × L :=
  let p := next l
  let l := p.1
  match classify p.2 with
  | .eof => (none, l)
  | .single ty _ => (some .root, emitType ty l)
  | .minus =>
    let q := next l
    if q.2 = 62 then (some .root, emitType T.rightArrow q.1)
    else (some .root, emitType T.minus (backupOne q.1))
  | .parenOpen =>
    let l := if l.mode = .interpolation then { l with openBrackets := l.openBrackets + 1 } else l
    (some .root, emitType T.parenOpen l)
  | .parenClose =>
    let l := emitType T.parenClose l
    if l.mode = .interpolation then
      let l := { l with openBrackets := l.openBrackets - 1 }
      if l.openBrackets = 0 then (some .string, { l with mode := .normal })
      else (some .root, l)
    else (some .root, l)
  | .eq =>
    let q := acceptOne 61 l
    if q.2 then (some .root, emitType T.equalEqual q.1) else (some .root, emitType T.equal q.1)
  | .amp =>
    let q := acceptOne 38 l
    if q.2 then (some .root, emitType T.ampersandAmpersand q.1) else (some .root, emitType T.ampersand q.1)
  | .bar =>
    let q := acceptOne 124 l
    if q.2 then (some .root, emitType T.verticalBarVerticalBar q.1) else (some .root, emitType T.verticalBar q.1)
  | .gt =>
    let q := next l
    if q.2 = 61 then (some .root, emitType T.greaterEqual q.1)
    else (some .root, emitType T.greater (backupOne q.1))
  | .ident => (some .identifier, l)
  | .space nl => (some (.space nl), l)
  | .number => (some .number, l)
  | .quote => (some .string, l)
  | .backslash =>
    if l.mode = .interpolation then
      let q := next l
      if q.2 = 40 then
        let l := emitType T.stringTemplate q.1
        (some .root, { l with openBrackets := l.openBrackets + 1 })
      else lexError (backupOne q.1)
    else lexError l
  | .slash =>
    let q := next l
    if q.2 = 47 then (some .lineComment, q.1)
    else if q.2 = 42 then (some (.blockComment 0), emitType T.blockCommentStart q.1)
    else (some .root, emitType T.slash (backupOne q.1))
  | .question =>
    let q := next l
    if q.2 = 63 then (some .root, emitType T.doubleQuestionMark q.1)
    else if q.2 = 46 then (some .root, emitType T.questionMarkDot q.1)
    else (some .root, emitType T.questionMark (backupOne q.1))
  | .bang =>
    let q := acceptOne 61 l
    if q.2 then (some .root, emitType T.notEqual q.1) else (some .root, emitType T.exclamationMark q.1)
  | .lt =>
    let q := next l
    if q.2 = 45 then
      let q2 := next q.1
      if q2.2 = 33 then (some .root, emitType T.leftArrowExclamation q2.1)
      else if q2.2 = 62 then (some .root, emitType T.swap q2.1)
      else (some .root, emitType T.leftArrow (backupOne q2.1))
    else if q.2 = 60 then (some .root, emitType T.lessLess q.1)
    else if q.2 = 61 then (some .root, emitType T.lessEqual q.1)
    else (some .root, emitType T.less (backupOne q.1))
  | .other => lexError l

/-- `numberState` -/
def numberStep (l : L) : L :=
  if l.current = 48 then
    let p := next l
    let r := p.2
    let l := p.1
    if r = 98 then emitType T.binary (acceptWhile isBinary l)
    else if r = 111 then emitType T.octal (acceptWhile isOctal l)
    else if r = 120 then emitType T.hexadecimal (acceptWhile isHex l)
    else if isDecimalDigitOrUnderscore r then
      let q := scanDecimalOrFixedPointRemainder l
      emitType q.2 q.1
    else if r = 46 then emitType T.fixedPoint (scanFixedPointRemainder l)
    else if r = EOF then emitType T.decimal (backupOne l)
    else if isLetter r then
      let q := scanDecimalOrFixedPointRemainder l
      emitType (if q.2 = T.decimal then T.unknownBase else q.2) q.1
    else emitType T.decimal (backupOne l)
  else
    let q := scanDecimalOrFixedPointRemainder l
    emitType q.2 q.1

/-- `string(l.word()) == "as"` (`none`: the slice expression panics) -/
def wordIsAs (l : L) : Option Bool :=
  if l.input.size < l.endOffset ∨ l.endOffset < l.startOffset then none
  else some (l.endOffset = l.startOffset + 2 ∧ byteAt l.input l.startOffset = 97 ∧ byteAt l.input (l.startOffset + 1) = 115)

/-- `identifierState` -/
def identifierStep (l : L) : L :=
  let l := acceptWhile isIdentifierRune l
  match wordIsAs l with
  | none => l.fail .sliceBounds
  | some true =>
    let p := next l
    if p.2 = 63 then emitType T.asQuestionMark p.1
    else if p.2 = 33 then emitType T.asExclamationMark p.1
    else emitType T.identifier (backupOne p.1)
  | some false => emitType T.identifier l

/-- the function returned by `blockCommentState(nesting)` for `nesting ≥ 0` -/
def blockCommentStep (nesting : Nat) (l : L) : Option St × L :=
  let p := next l
  let l := p.1
  let r := p.2
  if r = EOF then (none, l)
  else if r = 47 then
    let beforeSlashOffset := l.prevEndOffset
    let q := acceptOne 42 l
    if q.2 then
      let l := q.1
      let l :=
        if l.startOffset < beforeSlashOffset then
          let starOffset := l.endOffset
          let l := emitType T.blockCommentContent { l with endOffset := beforeSlashOffset }
          { l with endOffset := starOffset }
        else l
      (some (.blockComment (nesting + 1)), emitType T.blockCommentStart l)
    else (some (.blockComment nesting), q.1)
  else if r = 42 then
    let beforeStarOffset := l.prevEndOffset
    let q := acceptOne 47 l
    if q.2 then
      let l := q.1
      let l :=
        if l.startOffset < beforeStarOffset then
          let slashOffset := l.endOffset
          let l := emitType T.blockCommentContent { l with endOffset := beforeStarOffset }
          { l with endOffset := slashOffset }
        else l
      -- blockCommentState(nesting - 1) is rootState when nesting - 1 < 0
      (some (if nesting = 0 then .root else .blockComment (nesting - 1)), emitType T.blockCommentEnd l)
    else (some (.blockComment nesting), q.1)
  else (some (.blockComment nesting), l)

/-- one call `state(l)` of the loop in `run` -/
def step : St → L → Option St × L
  | .root, l => rootStep l
  | .number, l => (some .root, numberStep l)
  | .space startIsNewline, l =>
    let q := scanSpace l
    (some .root, emit T.space (q.2 || startIsNewline) (Int.ofNat q.1.startOffset, q.1.startPos) true q.1)
  | .identifier, l => (some .root, identifierStep l)
  | .string, l => (some .root, emitType T.string (scanString l))
  | .lineComment, l => (some .root, emitType T.lineComment (acceptWhile notLineEnd l))
  | .blockComment n, l => blockCommentStep n l

/-- how `run` left its loop -/
inductive Stop where
  | done (last : St)     -- a state function returned nil; `last` is the state function that did
  | panicked             -- a panic unwound to `run`'s recover
  | outOfFuel            -- (the model's fuel ran out: shown impossible by `lex_total`)
  deriving DecidableEq, Repr

/-- `for state != nil { state = state(l) }` -/
def run : Nat → St → L → Stop × L
  | 0, _, l => (.outOfFuel, l)
  | fuel + 1, st, l =>
    let r := step st l
    if r.2.err.isSome then (.panicked, r.2)
    else match r.1 with
      | none => (.done st, r.2)
      | some st' => run fuel st' r.2

/-- fuel that always suffices (`Properties.C37.lex_total`) -/
def fuelFor (input : Bytes) : Nat := 2 * input.size + 4

structure Result where
  stop : Stop
  final : L

/-- `Lex(input, nil)` on a cleared lexer -/
def lexWith (limit : Nat) (input : Bytes) : Result :=
  let r := run (fuelFor input) .root (L.init input limit)
  ⟨r.1, r.2⟩

/-- `tokenLimit = 1 << 19` -/
def tokenLimit : Nat := 524288

def lex (input : Bytes) : Result := lexWith tokenLimit input

/-- the tokens in emission order -/
def Result.tokens (r : Result) : List Token := r.final.toks.reverse

/-- the synthetic EOF token of `Next()` at the end of the stream: `(offset, position)`; `none` = slice panic -/
def Result.eofToken (r : Result) : Option (Int × Pos) :=
  match endPos r.final with
  | none => none
  | some p => some ((r.final.endOffset : Int) - 1, p)

end Verif.Model.Front.Lexer
