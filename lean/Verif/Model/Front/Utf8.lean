/-!
Port of Go's `unicode/utf8.DecodeRune` over a byte array at an offset (`DecodeRune(input[off:])`).
Returns the rune (as a natural number; `RuneError = 0xFFFD` for invalid or short encodings) and the
width: 0 only for the empty slice, 1 for an invalid byte, otherwise the length of the encoding.
Core Lean only.
-/
namespace Verif.Model.Front

abbrev Bytes := Array UInt8

def runeError : Nat := 0xFFFD

/-- byte at `i` as a number (0 beyond the end; callers check the bound first) -/
@[inline] def byteAt (inp : Bytes) (i : Nat) : Nat := (inp.getD i 0).toNat

/-- `utf8.DecodeRune(inp[off:])` for `off ≤ inp.size` (`off > inp.size` is a slice panic in Go; callers guard). -/
def decodeRune (inp : Bytes) (off : Nat) : Nat × Nat :=
  if off < inp.size then
    let b0 := byteAt inp off
    if b0 < 0x80 then (b0, 1)
    else if b0 < 0xC2 ∨ 0xF4 < b0 then (runeError, 1)
    else
      let sz := if b0 < 0xE0 then 2 else if b0 < 0xF0 then 3 else 4
      if inp.size < off + sz then (runeError, 1) else
      let lo := if b0 = 0xE0 then 0xA0 else if b0 = 0xF0 then 0x90 else 0x80
      let hi := if b0 = 0xED then 0x9F else if b0 = 0xF4 then 0x8F else 0xBF
      let b1 := byteAt inp (off + 1)
      if b1 < lo ∨ hi < b1 then (runeError, 1)
      else if sz = 2 then ((b0 % 32) * 64 + b1 % 64, 2)
      else
        let b2 := byteAt inp (off + 2)
        if b2 < 0x80 ∨ 0xBF < b2 then (runeError, 1)
        else if sz = 3 then ((b0 % 16) * 4096 + (b1 % 64) * 64 + b2 % 64, 3)
        else
          let b3 := byteAt inp (off + 3)
          if b3 < 0x80 ∨ 0xBF < b3 then (runeError, 1)
          else ((b0 % 8) * 262144 + (b1 % 64) * 4096 + (b2 % 64) * 64 + b3 % 64, 4)
  else (runeError, 0)

/-- `if w <= 0 { w = 1 }`: "fallback to 1 byte width if decoding fails" -/
def fallbackWidth (w : Nat) : Nat := if w = 0 then 1 else w

theorem fallbackWidth_pos (w : Nat) : 1 ≤ fallbackWidth w := by
  unfold fallbackWidth; split <;> omega

end Verif.Model.Front
