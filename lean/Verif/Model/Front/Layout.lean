/-!
C39 — Wadler-style documents and the layout function of `github.com/turbolent/prettier`
(external library, modelled): `doc.go` (`Flatten`), `render.go` (`fits`, `best`), `layout.go`.

`best` works on a stack of (indent level, document); a `Group` is first tried flattened and kept if it
fits into the rest of the line.  The Go code is lazy (`simpleDocCache`); the model is strict.  `fuel`
bounds the number of steps; `render` supplies the size of the document, which always suffices
(`Verif.Proofs.Layout.best_tokens`).
-/
namespace Verif.Model.Front.Layout

inductive Doc where
  | nil
  | text (s : List Char)
  | line
  | softline
  | hardline
  | cat (a b : Doc)
  | indent (d : Doc)
  | dedent (d : Doc)
  | group (d : Doc)
  deriving Repr, Inhabited

/-- `Doc.Flatten` -/
def flatten : Doc → Doc
  | .nil => .nil
  | .text s => .text s
  | .line => .text [' ']
  | .softline => .nil
  | .hardline => .hardline
  | .cat a b => .cat (flatten a) (flatten b)
  | .indent d => .indent (flatten d)
  | .dedent d => .dedent (flatten d)
  | .group d => flatten d

def size : Doc → Nat
  | .cat a b => 1 + size a + size b
  | .indent d | .dedent d | .group d => 1 + size d
  | _ => 1

/-- `simpleDoc` as a list -/
inductive Item where
  | text (s : List Char)
  | line (indent : Nat)
  deriving Repr, Inhabited

/-- `fits`: the texts up to the next line break fit into the remaining width -/
def fits : Int → List Item → Bool
  | rem, [] => decide (0 ≤ rem)
  | rem, .line _ :: _ => decide (0 ≤ rem)
  | rem, .text s :: rest => if rem < 0 then false else fits (rem - s.length) rest

def stackSize : List (Nat × Doc) → Nat
  | [] => 0
  | (_, d) :: rest => size d + stackSize rest

/-- `best(maxLineWidth, lineWidth, indentWidth, docs)` -/
def best (w iw : Nat) : Nat → Nat → List (Nat × Doc) → List Item
  | 0, _, _ => []
  | _ + 1, _, [] => []
  | f + 1, lw, (i, d) :: rest =>
    match d with
    | .nil => best w iw f lw rest
    | .cat a b => best w iw f lw ((i, a) :: (i, b) :: rest)
    | .indent d => best w iw f lw ((i + 1, d) :: rest)
    | .dedent d => best w iw f lw ((i - 1, d) :: rest)
    | .group d =>
      let flat := best w iw f lw ((i, flatten d) :: rest)
      if fits ((w : Int) - lw) flat then flat else best w iw f lw ((i, d) :: rest)
    | .line | .softline | .hardline => .line i :: best w iw f (i * iw) rest
    | .text s => .text s :: best w iw f (lw + s.length) rest

/-- `layout`: a line break is a newline followed by the indent string repeated -/
def layout (indent : List Char) : List Item → List Char
  | [] => []
  | .text s :: rest => s ++ layout indent rest
  | .line i :: rest => '\n' :: (List.replicate i indent).flatten ++ layout indent rest

/-- `prettier.Prettier(writer, doc, maxLineWidth, indent)` -/
def render (w : Nat) (indent : List Char) (d : Doc) : List Char :=
  layout indent (best w indent.length (size d + 1) 0 [(0, d)])

/-- the text pieces of a document, in order -/
def texts : Doc → List Char
  | .text s => s
  | .cat a b => texts a ++ texts b
  | .indent d | .dedent d | .group d => texts d
  | _ => []

def isWs (c : Char) : Bool := c == ' ' || c == '\t' || c == '\n'
/-- the non-white-space characters, in order (token sequences are functions of this) -/
def nonWs (cs : List Char) : List Char := cs.filter (fun c => !isWs c)

end Verif.Model.Front.Layout
