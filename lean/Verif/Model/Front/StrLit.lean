/-!
C38 — string literals: port of `ast.QuoteString` / `QuoteStringInner` (`/repo/ast/string.go`) and of
`parseStringLiteralContent` (`/repo/parser/expression.go`) over Unicode scalar values (`Char`).
UTF-8 encoding / decoding is outside the port (Go strings produced by the parser are valid UTF-8: it
writes runes).  The parser port answers `none` whenever the Go function reports a syntax error.
-/
namespace Verif.Model.Front.StrLit

def hexChar (n : Nat) : Char :=
  if n < 10 then Char.ofNat (n + 48) else Char.ofNat (n - 10 + 97)

/-- `strconv.FormatInt(n, 16)` -/
def hexDigitsAux : Nat → Nat → List Char → List Char
  | 0, _, acc => acc
  | fuel + 1, n, acc =>
    let acc' := hexChar (n % 16) :: acc
    if n < 16 then acc' else hexDigitsAux fuel (n / 16) acc'

def hexDigits (n : Nat) : List Char := hexDigitsAux 16 n []

/-- `QuoteStringInner` for one rune -/
def quoteChar (c : Char) : List Char :=
  if c = Char.ofNat 0 then ['\\', '0']
  else if c = '\n' then ['\\', 'n']
  else if c = '\r' then ['\\', 'r']
  else if c = '\t' then ['\\', 't']
  else if c = '\\' then ['\\', '\\']
  else if c = '"' then ['\\', '"']
  else if 0x20 ≤ c.toNat ∧ c.toNat ≤ 0x7E then [c]
  else ['\\', 'u', '{'] ++ hexDigits c.toNat ++ ['}']

def quoteInner : List Char → List Char
  | [] => []
  | c :: cs => quoteChar c ++ quoteInner cs

/-- `QuoteString` -/
def quoteString (cs : List Char) : List Char := '"' :: quoteInner cs ++ ['"']

/-- `parseHex` -/
def hexVal (c : Char) : Option Nat :=
  if '0' ≤ c ∧ c ≤ '9' then some (c.toNat - 48)
  else if 'a' ≤ c ∧ c ≤ 'f' then some (c.toNat - 97 + 10)
  else if 'A' ≤ c ∧ c ≤ 'F' then some (c.toNat - 65 + 10)
  else none

/-- state of `parseStringLiteralContent` between two runes -/
inductive St where
  | normal
  | esc                       -- after `\`
  | u                         -- after `\u`
  | hex (acc cnt : Nat)       -- inside `\u{…`
  deriving DecidableEq, Repr

/-- one rune; `none` = a syntax error is reported -/
def step (st : St) (c : Char) (out : List Char) : Option (St × List Char) :=
  match st with
  | .normal => if c = '\\' then some (.esc, out) else some (.normal, c :: out)
  | .esc =>
    if c = '0' then some (.normal, Char.ofNat 0 :: out)
    else if c = 'n' then some (.normal, '\n' :: out)
    else if c = 'r' then some (.normal, '\r' :: out)
    else if c = 't' then some (.normal, '\t' :: out)
    else if c = '"' then some (.normal, '"' :: out)
    else if c = '\'' then some (.normal, '\'' :: out)
    else if c = '\\' then some (.normal, '\\' :: out)
    else if c = 'u' then some (.u, out)
    else none
  | .u => if c = '{' then some (.hex 0 0, out) else none
  | .hex acc cnt =>
    if c = '}' then
      if cnt = 0 then some (.normal, out)
      else if h : Nat.isValidChar acc then some (.normal, Char.ofNatAux acc h :: out) else none
    else match hexVal c with
      | some d => if cnt < 8 then some (.hex (acc * 16 + d) (cnt + 1), out) else none
      | none => none

/-- `out` is the reversed result so far -/
def run : St → List Char → List Char → Option (List Char)
  | st, out, [] => if st = .normal then some out.reverse else none
  | st, out, c :: cs =>
    match step st c out with
    | some (st', out') => run st' out' cs
    | none => none

/-- `parseStringLiteralContent` (error-free runs only) -/
def unescape (cs : List Char) : Option (List Char) := run .normal [] cs

/-- a whole literal `"…"`: strip the quotes, unescape the content -/
def parseStringLiteral (cs : List Char) : Option (List Char) :=
  match cs with
  | '"' :: rest =>
    match rest.reverse with
    | '"' :: content => unescape content.reverse
    | _ => none
  | _ => none

def utf8Encode (cs : List Char) : List UInt8 := (String.ofList cs).toUTF8.toList
def utf8Decode (bs : List UInt8) : Option (List Char) := (String.fromUTF8? ⟨bs.toArray⟩).map (·.toList)

end Verif.Model.Front.StrLit
