import Verif.Gen.PrecTables
/-!
C38 — expression and type syntax of the printer / parser ports.

* `SX`: the S-expression form in which the harness (`cmd/vharness/stream_pp.go`, `c38SxExpr`,
  `c38SxType`) writes the *real* parser's AST.
* `Expr`, `Ty`: the fragment covered by the ports `Print.lean` / `Pratt.lean`.
* precedences and binding powers are looked up in the tables regenerated from /repo
  (`Verif.Gen.PrecTables`).
-/
namespace Verif.Model.Front.Syn
open Verif.Gen.PrecTables

/-! ## S-expressions -/

inductive SX where
  | atom (s : String)
  | list (xs : List SX)
  deriving Repr, Inhabited, BEq

namespace SX

/-- tokens: `(`, `)`, atoms (maximal runs without space / parentheses) -/
def tokenize : List Char → List Char → List String → List String
  | [], cur, acc => (if cur.isEmpty then acc else String.ofList cur.reverse :: acc).reverse
  | c :: cs, cur, acc =>
    let flush := if cur.isEmpty then acc else String.ofList cur.reverse :: acc
    if c == '(' then tokenize cs [] ("(" :: flush)
    else if c == ')' then tokenize cs [] (")" :: flush)
    else if c == ' ' then tokenize cs [] flush
    else tokenize cs (c :: cur) acc

def build : List String → List (List SX) → Option SX
  | [], [[x]] => some x
  | [], _ => none
  | "(" :: ts, st => build ts ([] :: st)
  | ")" :: ts, top :: next :: st => build ts ((SX.list top.reverse :: next) :: st)
  | ")" :: _, _ => none
  | a :: ts, top :: st => build ts ((SX.atom a :: top) :: st)
  | _ :: _, [] => none

def parse (s : String) : Option SX := build (tokenize s.toList [] []) [[]]

partial def render : SX → String
  | .atom s => s
  | .list xs => "(" ++ " ".intercalate (xs.map render) ++ ")"

/-- head symbol of a list -/
def head : SX → String
  | .list (.atom h :: _) => h
  | _ => ""

def args : SX → List SX
  | .list (_ :: xs) => xs
  | _ => []

/-- does some node (at any depth) satisfy `p`? -/
partial def any (p : SX → Bool) (t : SX) : Bool :=
  p t || (match t with | .list xs => xs.any (any p) | _ => false)

end SX

/-! ## Operators -/

inductive BinOp where
  | or | and | eq | ne | lt | le | gt | ge | coalesce | bitOr | bitXor | bitAnd | shl | shr | add | sub | mul | div | mod
  deriving DecidableEq, Repr, Inhabited

def BinOp.all : List BinOp :=
  [.or, .and, .eq, .ne, .lt, .le, .gt, .ge, .coalesce, .bitOr, .bitXor, .bitAnd, .shl, .shr, .add, .sub, .mul, .div, .mod]

def BinOp.idx : BinOp → Nat
  | .or => 0 | .and => 1 | .eq => 2 | .ne => 3 | .lt => 4 | .le => 5 | .gt => 6 | .ge => 7 | .coalesce => 8
  | .bitOr => 9 | .bitXor => 10 | .bitAnd => 11 | .shl => 12 | .shr => 13 | .add => 14 | .sub => 15 | .mul => 16
  | .div => 17 | .mod => 18

def binRow (op : BinOp) : String × Nat × Bool × Nat × Bool := binTable.getD op.idx ("?", 0, true, 0, false)
/-- operator symbol (`ast.Operation.Symbol`) -/
def BinOp.sym (op : BinOp) : String := (binRow op).1
/-- rank of `BinaryExpression.precedence()` in `ast/precedence.go` -/
def BinOp.prec (op : BinOp) : Nat := (binRow op).2.1
/-- `BinaryExpression.IsLeftAssociative()` -/
def BinOp.leftAssoc (op : BinOp) : Bool := (binRow op).2.2.1
/-- the parser's left binding power -/
def BinOp.lbp (op : BinOp) : Nat := (binRow op).2.2.2.1
/-- the parser's `rightAssociative` flag -/
def BinOp.rightAssoc (op : BinOp) : Bool := (binRow op).2.2.2.2
/-- the right binding power with which the right operand is parsed (`defineExpr(infixExpr)`) -/
def BinOp.rbp (op : BinOp) : Nat := if op.rightAssoc then op.lbp - 1 else op.lbp

inductive UnOp where
  | minus | not | move | deref
  deriving DecidableEq, Repr, Inhabited

def UnOp.all : List UnOp := [.minus, .not, .move, .deref]
def UnOp.idx : UnOp → Nat
  | .minus => 0 | .not => 1 | .move => 2 | .deref => 3
def unRow (op : UnOp) : String × Nat × Nat := unTable.getD op.idx ("?", 0, 0)
def UnOp.sym (op : UnOp) : String := (unRow op).1
/-- rank of `UnaryExpression.precedence()` -/
def UnOp.prec (op : UnOp) : Nat := (unRow op).2.1
/-- binding power with which the parser parses the operand -/
def UnOp.bp (op : UnOp) : Nat := (unRow op).2.2

inductive CastOp where
  | cast | failable | force
  deriving DecidableEq, Repr, Inhabited

def CastOp.sym : CastOp → String
  | .cast => "as" | .failable => "as?" | .force => "as!"

/-- rank of a precedence constant of `ast/precedence.go` -/
def rank (name : String) : Nat := astPrecedences.idxOf name
/-- value of a binding power constant of `parser/expression.go`: `10 * (iota + 2)` -/
def power (name : String) : Nat := 10 * (parserPowers.idxOf name + 2)

def precTernary : Nat := rank "Ternary"
def precCasting : Nat := rank "Casting"
def precUnaryPrefix : Nat := rank "UnaryPrefix"
def precUnaryPostfix : Nat := rank "UnaryPostfix"
def precAccess : Nat := rank "Access"
def precLiteral : Nat := rank "Literal"

def bpTernary : Nat := power "Ternary"
def bpCasting : Nat := power "Casting"
def bpUnaryPrefix : Nat := power "UnaryPrefix"
def bpUnaryPostfix : Nat := power "UnaryPostfix"
def bpAccess : Nat := power "Access"

/-! ## Types and expressions of the fragment -/

inductive Ty where
  | nominal (path : List String)      -- `A.B.C`
  | optional (t : Ty)                 -- `T?`
  | reference (t : Ty)                -- `&T` (unauthorized)
  deriving DecidableEq, Repr, Inhabited

/-- `TypePrecedence` ranks -/
def Ty.prec : Ty → Nat
  | .nominal _ => typePrecedences.idxOf "Primary"
  | .optional _ => typePrecedences.idxOf "Optional"
  | .reference _ => typePrecedences.idxOf "Reference"

inductive Expr where
  | ident (name : String)
  | int (neg : Bool) (lit : String)        -- `PositiveLiteral`, sign of `Value`
  | fix (neg : Bool) (lit : String)
  | bool (b : Bool)
  | nil
  | void
  | unary (op : UnOp) (e : Expr)
  | ref (e : Expr)
  | force (e : Expr)
  | binary (op : BinOp) (l r : Expr)
  | cast (op : CastOp) (e : Expr) (resource : Bool) (t : Ty)
  | cond (c t e : Expr)
  | member (optional : Bool) (e : Expr) (name : String)
  | index (e i : Expr)
  /-- `InvocationExpression` without type arguments; `args` is an argument list (`argsNil` / `argsCons`) -/
  | invoke (f args : Expr)
  /-- the argument list `ast.Arguments`, kept inside the same inductive type so that it stays a plain
      (non-mutual, non-nested) one: `argsNil` / `argsCons label argument rest` (label `""` = none).
      They are not expressions: `Expr.wf` accepts them only as the `args` of an `invoke`. -/
  | argsNil
  | argsCons (label : String) (a rest : Expr)
  deriving DecidableEq, Repr, Inhabited

/-- `precedence()` of each expression kind (ast/expression.go, after fix 3c33138: negative literals
    have unary-prefix precedence, the move operator its own level below casting) -/
def Expr.prec : Expr → Nat
  | .ident _ | .bool _ | .nil | .void => precLiteral
  | .int neg _ | .fix neg _ => if neg then precUnaryPrefix else precLiteral
  | .unary op _ => op.prec
  | .ref _ => precUnaryPrefix
  | .force _ => precUnaryPostfix
  | .binary op _ _ => op.prec
  | .cast .. => precCasting
  | .cond .. => precTernary
  | .member .. | .index .. | .invoke .. => precAccess
  | .argsNil | .argsCons .. => precLiteral

/-! ## Reading the harness's S-expressions -/

def binOfSym (s : String) : Option BinOp := BinOp.all.find? (fun op => op.sym == s)
def unOfSym (s : String) : Option UnOp := UnOp.all.find? (fun op => op.sym == s)
def castOfSym (s : String) : Option CastOp :=
  if s == "as" then some .cast else if s == "as?" then some .failable else if s == "as!" then some .force else none

def atoms : List SX → Option (List String)
  | [] => some []
  | .atom a :: rest => (atoms rest).map (a :: ·)
  | _ => none

partial def readTy : SX → Option Ty
  | .list (.atom "nom" :: ids) => (atoms ids).map .nominal
  | .list [.atom "opt", t] => (readTy t).map .optional
  | .list [.atom "ref", .list [.atom "noauth"], t] => (readTy t).map .reference
  | _ => none

mutual
partial def readExpr : SX → Option Expr
  | .list [.atom "id", .atom n] => some (.ident n)
  | .list [.atom "int", .atom s, .atom l] => some (.int (s == "-") l)
  | .list [.atom "fix", .atom s, .atom l] => some (.fix (s == "-") l)
  | .list [.atom "bool", .atom b] => some (.bool (b == "true"))
  | .list [.atom "nil"] => some .nil
  | .list [.atom "void"] => some .void
  | .list [.atom "un", .atom o, e] => do some (.unary (← unOfSym o) (← readExpr e))
  | .list [.atom "ref", e] => (readExpr e).map .ref
  | .list [.atom "force", e] => (readExpr e).map .force
  | .list [.atom "bin", .atom o, l, r] => do some (.binary (← binOfSym o) (← readExpr l) (← readExpr r))
  | .list [.atom "cast", .atom o, e, .list [.atom "ann", .atom res, t]] => do
      some (.cast (← castOfSym o) (← readExpr e) (res == "R") (← readTy t))
  | .list [.atom "cond", a, b, c] => do some (.cond (← readExpr a) (← readExpr b) (← readExpr c))
  | .list [.atom "mem", e, .atom n] => do some (.member false (← readExpr e) n)
  | .list [.atom "omem", e, .atom n] => do some (.member true (← readExpr e) n)
  | .list [.atom "idx", e, i] => do some (.index (← readExpr e) (← readExpr i))
  | .list [.atom "inv", f, .list [], .list as] => do some (.invoke (← readExpr f) (← readArgs as))
  | _ => none

/-- `((arg e) (larg label e) …)` -/
partial def readArgs : List SX → Option Expr
  | [] => some .argsNil
  | .list [.atom "arg", e] :: rest => do some (.argsCons "" (← readExpr e) (← readArgs rest))
  | .list [.atom "larg", .atom l, e] :: rest => do some (.argsCons l (← readExpr e) (← readArgs rest))
  | _ => none
end

def showTy : Ty → String
  | .nominal p => "(nom " ++ " ".intercalate p ++ ")"
  | .optional t => "(opt " ++ showTy t ++ ")"
  | .reference t => "(ref (noauth) " ++ showTy t ++ ")"

def showExpr : Expr → String
  | .ident n => "(id " ++ n ++ ")"
  | .int neg l => "(int " ++ (if neg then "-" else "+") ++ " " ++ l ++ ")"
  | .fix neg l => "(fix " ++ (if neg then "-" else "+") ++ " " ++ l ++ ")"
  | .bool b => "(bool " ++ (if b then "true" else "false") ++ ")"
  | .nil => "(nil)"
  | .void => "(void)"
  | .unary op e => "(un " ++ op.sym ++ " " ++ showExpr e ++ ")"
  | .ref e => "(ref " ++ showExpr e ++ ")"
  | .force e => "(force " ++ showExpr e ++ ")"
  | .binary op l r => "(bin " ++ op.sym ++ " " ++ showExpr l ++ " " ++ showExpr r ++ ")"
  | .cast op e res t => "(cast " ++ op.sym ++ " " ++ showExpr e ++ " (ann " ++ (if res then "R" else "N") ++ " " ++ showTy t ++ "))"
  | .cond a b c => "(cond " ++ showExpr a ++ " " ++ showExpr b ++ " " ++ showExpr c ++ ")"
  | .member o e n => "(" ++ (if o then "omem " else "mem ") ++ showExpr e ++ " " ++ n ++ ")"
  | .index e i => "(idx " ++ showExpr e ++ " " ++ showExpr i ++ ")"
  | .invoke f as => "(inv " ++ showExpr f ++ " () (" ++ showExpr as ++ "))"
  | .argsNil => ""
  | .argsCons l a rest =>
    (if l == "" then "(arg " ++ showExpr a ++ ")" else "(larg " ++ l ++ " " ++ showExpr a ++ ")") ++
      (match rest with | .argsNil => "" | _ => " " ++ showExpr rest)

end Verif.Model.Front.Syn
