import Verif.Model.Front.Pratt
/-!
C38 — the domain of the round trip theorems: expressions / types the parser can produce
(canonical literals, identifiers that are not keywords) minus the shapes of the recorded findings
(`known_findings.d/C38.json`).  Executable, so that the driver of stream `pp` can tag every operation
as inside / outside the theorem's domain.
-/
namespace Verif.Model.Front.Syn

/-- identifiers that the parser reads as identifier expressions -/
def plainIdent (n : String) : Bool :=
  !(n == "true") && !(n == "false") && !(n == "nil") && !reservedIdent n

/-- types the parser can produce: a nominal type has a non-empty path whose head is not a keyword -/
def Ty.wf : Ty → Bool
  | .nominal [] => false
  | .nominal (n :: _) => !(reservedIdent n || n == "auth")
  | .optional t => t.wf
  | .reference t => t.wf

def Expr.isRef : Expr → Bool
  | .ref _ => true
  | _ => false

def Expr.isNonNegLit : Expr → Bool
  | .int false _ | .fix false _ => true
  | _ => false

def Expr.isBin (op : BinOp) : Expr → Bool
  | .binary o _ _ => o == op
  | _ => false

/-- first-operand chain (the driver's `leftEdgeHas`): what the printed form starts with -/
def Expr.leftEdgeHas (p : Expr → Bool) : Expr → Bool
  | .binary o l r => p (.binary o l r) || l.leftEdgeHas p
  | .cast o e res t => p (.cast o e res t) || e.leftEdgeHas p
  | .cond c t e => p (.cond c t e) || c.leftEdgeHas p
  | .force e => p (.force e) || e.leftEdgeHas p
  | .member o e n => p (.member o e n) || e.leftEdgeHas p
  | .index e i => p (.index e i) || e.leftEdgeHas p
  | .invoke f as => p (.invoke f as) || f.leftEdgeHas p
  | e => p e

/-- last-operand chain (the driver's `rightEdgeHas`): what the printed form ends with -/
def Expr.rightEdgeHas (p : Expr → Bool) : Expr → Bool
  | .binary o l r => p (.binary o l r) || r.rightEdgeHas p
  | .unary o e => p (.unary o e) || e.rightEdgeHas p
  | .ref e => p (.ref e) || e.rightEdgeHas p
  | .cond c t e => p (.cond c t e) || e.rightEdgeHas p
  | e => p e

/-- the node is not of the shape of KNOWN FINDING `comparison-chain-reparsed-as-type-arguments`
    (`a < b > (…)`: the real parser's `<` meta left denotation speculates on type arguments; that
    speculation is outside the port) -/
def chainFree (op : BinOp) (l r : Expr) : Bool :=
  !(op == .lt && r.leftEdgeHas (Expr.isBin .gt)) && !(op == .gt && l.rightEdgeHas (Expr.isBin .lt))

mutual
/-- **well-formedness**: the domain of `expr_roundtrip`.
    * canonical (what the parser produces): identifiers are not keywords / `true` / `false` / `nil`;
      a negative integer literal is not zero; `-` is not applied to a non-negative literal (the parser
      folds the sign into the literal); types are well-formed;
    * not `&(&x)` (KNOWN FINDING `ref-of-ref-prints-logical-and`);
    * no comparison chain (KNOWN FINDING `comparison-chain-reparsed-as-type-arguments`).
    The findings `less-than-before-function-expression` and
    `less-than-before-parenthesised-destroy-dictionary` need function / destroy expressions, which are
    outside the fragment `Expr`. -/
def Expr.wf : Expr → Bool
  | .ident n => plainIdent n
  | .int neg l => !neg || !isZeroLit l
  | .fix _ _ => true
  | .bool _ | .nil | .void => true
  | .unary op e => e.wf && !(op == .minus && e.isNonNegLit)
  | .ref e => e.wf && !e.isRef
  | .force e => e.wf
  | .binary op l r => l.wf && r.wf && chainFree op l r
  | .cast _ e _ t => e.wf && t.wf
  | .cond c t e => c.wf && t.wf && e.wf
  | .member _ e _ => e.wf
  | .index e i => e.wf && i.wf
  | .invoke f args => f.wf && args.wfArgs
  | .argsNil => false
  | .argsCons .. => false
/-- a well-formed argument list: well-formed arguments, labels are identifiers -/
def Expr.wfArgs : Expr → Bool
  | .argsNil => true
  | .argsCons label a rest => (label == "" || plainIdent label) && a.wf && rest.wfArgs
  | _ => false
end

end Verif.Model.Front.Syn
