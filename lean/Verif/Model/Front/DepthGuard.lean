/-!
The parser's two recursion guards (`parser/expression.go: parseExpression`, `parser/type.go: parseType`)
as counters: `if p.depth == limit { return nil, DepthLimitReachedError }; p.depth++; defer p.depth--`.
Only the counter discipline is modelled (not the grammar): a request to parse something nested `n` levels.
Core Lean only.
-/
namespace Verif.Model.Front.DepthGuard

def expressionDepthLimit : Nat := 16
def typeDepthLimit : Nat := 16

structure Outcome where
  /-- the guard returned the depth-limit error -/
  limitError : Bool
  /-- the largest value the counter reached = the number of nested activations -/
  maxDepth : Nat
  deriving DecidableEq, Repr

/-- `descend limit depth n`: the parse function is entered with counter `depth` and has to recurse `n`
    more levels (one recursive call per level) -/
def descend (limit : Nat) : (depth : Nat) → (n : Nat) → Outcome
  | depth, 0 => ⟨false, depth⟩
  | depth, n + 1 =>
    if depth = limit then ⟨true, depth⟩
    else descend limit (depth + 1) n

end Verif.Model.Front.DepthGuard
