/-
C29 — import and validation of entry-point arguments (core Lean only).

Code-shaped port of
  * `runtime/validation.go`   `importValidatedArguments` (count check, decode, `ImportValue` with the
    expected type, `IsImportable`, `IsSubTypeOfSemaType`, `ConformsToStaticType`),
  * `runtime/convertValues.go` `valueImporter.importValue` and its per-kind helpers
    (`importOptionalValue`, `importArrayValue`, `importDictionaryValue`, `importCompositeValue`,
    `importTypeValue`, `importCapability`),
  * `interpreter/value_*.go`  `StaticType`, `IsImportable`, `ConformsToStaticType` of the value kinds
    below, `NewDictionaryValue` (container-mutation check + overwrite of equal keys),
    `NewCompositeValue` (fields stored by name: a repeated name overwrites).

External values (`cadence.Value` *after decoding*: arrays / dictionaries carry no type, a composite
carries its kind, its type ID and `(field name, value)` pairs — that is all `importCompositeValue`
reads) and internal values (`interpreter.Value`: arrays and dictionaries carry their static type) are
two separate algebras.  Types are M-TY's `Ty` (sema type = static type on this fragment; the
conversions between the two are identities, which the `types` stream of C08 checks on every pair).

What the port does not contain is passed in as a context `Ctx`: the declarations reachable through
`GetCompositeType` (kind, declared fields with their types, type-level importability), the two
subtype relations (`interpreter.IsSubType` on static types, `interpreter.IsSubTypeOfSemaType`),
`sema.IsSubType` (for the hashable-key test) and `sema.LeastCommonSuperType`.  The theorems of
`Properties/C29.lean` hold for every context; the driver instantiates it with the interpretation of
the regenerated `rules.yaml` data (C08's model) and the declarations of the deployed test contract.

The port follows the code after the three `fix:` commits of this property in /repo (40ca3c1: an
un-inferable array element type is a user error; 0b5d6d2: a value of an enum type must be an enum with
a raw value of the raw type; a09fb75: an array imported with an expected array type checks its
element types and reports a malformed value).

Static-type presence (`hasValidStaticType`, the `InspectValue` walk at the end of
`importValidatedArguments`) holds by construction here: both branches of `importArrayValue` /
`importDictionaryValue` build the value with a static type, and `IV.arr` / `IV.dict` cannot be
built without one.
-/
import Verif.Model.Types.Ty
namespace Verif.Model.Import
open Verif.Model.Types

/-- which check of `importValidatedArguments` rejected the argument (all are *user* errors) -/
inductive Stage where
  | count          -- InvalidEntryPointParameterCountError
  | decode         -- InvalidEntryPointArgumentError{decoder error}
  | import_        -- InvalidEntryPointArgumentError{error / user panic of ImportValue}
  | notImportable  -- ArgumentNotImportableError
  | type_          -- InvalidEntryPointArgumentError{InvalidValueTypeError}
  | malformed      -- InvalidEntryPointArgumentError{MalformedValueError}
  deriving DecidableEq, Repr, Inhabited

def Stage.name : Stage → String
  | .count => "count" | .decode => "decode" | .import_ => "import" | .notImportable => "notimportable"
  | .type_ => "type" | .malformed => "malformed"

/-- outcome of the import: a value, a user error (by stage) or an internal error -/
inductive Outcome (α : Type) where
  | ok (a : α)
  | user (s : Stage)
  | internal (what : String)
  deriving Repr, Inhabited

def Outcome.bind {α β} : Outcome α → (α → Outcome β) → Outcome β
  | .ok a, f => f a
  | .user s, _ => .user s
  | .internal w, _ => .internal w

def Outcome.map {α β} (f : α → β) : Outcome α → Outcome β
  | .ok a => .ok (f a)
  | .user s => .user s
  | .internal w => .internal w

mutual
/-- `cadence.Value` as produced by the argument decoder -/
inductive XV where
  | void
  | none
  | some (v : XV)
  | bool (b : Bool)
  | str (hex : String)
  | char (hex : String)
  | addr (hex : String)
  | num (kind : String) (n : Int)             -- all integer and fixed-point kinds (raw value)
  | path (domain : String) (id : String)
  | arr (vs : XVs)
  | dict (kvs : XPairs)
  | comp (kind : Kind) (id : String) (fs : XFields)   -- Struct / Resource / Event / Enum
  | typeV (t : Option Ty)                     -- `none`: a static type that does not convert to a sema type
  | cap (id : Nat) (addr : String) (borrow : Ty)
  | func
  | contract
inductive XVs where
  | nil | cons (v : XV) (r : XVs)
inductive XPairs where
  | nil | cons (k v : XV) (r : XPairs)
inductive XFields where
  | nil | cons (name : String) (v : XV) (r : XFields)
end

mutual
/-- `interpreter.Value` (the kinds the importer can build) -/
inductive IV where
  | void
  | nil
  | some (v : IV)
  | bool (b : Bool)
  | str (hex : String)
  | char (hex : String)
  | addr (hex : String)
  | num (kind : String) (n : Int)
  | path (domain : String) (id : String)
  | arr (ty : Ty) (vs : IVs)                  -- `ArrayValue.Type`
  | dict (k v : Ty) (kvs : IPairs)            -- `DictionaryValue.Type`
  | comp (kind : Kind) (id : String) (fs : IFields)
  | typeV (t : Ty)
  | cap (id : Nat) (addr : String) (borrow : Ty)
inductive IVs where
  | nil | cons (v : IV) (r : IVs)
inductive IPairs where
  | nil | cons (k v : IV) (r : IPairs)
inductive IFields where
  | nil | cons (name : String) (v : IV) (r : IFields)
end

instance : Inhabited XV := ⟨.void⟩
instance : Inhabited IV := ⟨.void⟩

def XVs.ofList : List XV → XVs
  | [] => .nil | v :: r => .cons v (XVs.ofList r)
def XPairs.ofList : List (XV × XV) → XPairs
  | [] => .nil | (k, v) :: r => .cons k v (XPairs.ofList r)
def XFields.ofList : List (String × XV) → XFields
  | [] => .nil | (n, v) :: r => .cons n v (XFields.ofList r)
def IVs.toList : IVs → List IV
  | .nil => [] | .cons v r => v :: r.toList
def IVs.ofList : List IV → IVs
  | [] => .nil | v :: r => .cons v (IVs.ofList r)
def IVs.length : IVs → Nat
  | .nil => 0 | .cons _ r => r.length + 1
def IPairs.toList : IPairs → List (IV × IV)
  | .nil => [] | .cons k v r => (k, v) :: r.toList
def IPairs.ofList : List (IV × IV) → IPairs
  | [] => .nil | (k, v) :: r => .cons k v (IPairs.ofList r)
def IFields.toList : IFields → List (String × IV)
  | .nil => [] | .cons n v r => (n, v) :: r.toList
def IFields.ofList : List (String × IV) → IFields
  | [] => .nil | (n, v) :: r => .cons n v (IFields.ofList r)
def IFields.length : IFields → Nat
  | .nil => 0 | .cons _ _ r => r.length + 1
def IFields.find (name : String) : IFields → Option IV
  | .nil => none
  | .cons n v r => if n == name then some v else r.find name
/-- `CompositeValue.SetField` on the field dictionary: a repeated name overwrites -/
def IFields.set (name : String) (v : IV) : IFields → IFields
  | .nil => .cons name v .nil
  | .cons n w r => if n == name then .cons n v r else .cons n w (r.set name v)

/-- a composite declaration as seen through `GetCompositeType` -/
structure Decl where
  kind : Kind
  ty : Ty                          -- the declaration's type (`Ty.comp …`, carries the conformances)
  fields : List (String × Ty)      -- `compositeType.Fields` with `Members.Get(name).TypeAnnotation.Type`
  importable : Bool                -- `sema.CompositeType.IsImportable`: struct / enum and all members importable

structure Ctx where
  decls : String → Option Decl     -- by type ID; `none`: `GetCompositeType` fails (TypeLoadingError)
  sub : Ty → Ty → Bool             -- `interpreter.IsSubType(static, static)`
  subSema : Ty → Ty → Bool         -- `interpreter.IsSubTypeOfSemaType(static, sema)`
  semaSub : Ty → Ty → Bool         -- `sema.IsSubType`
  lcs : List Ty → Option Ty        -- `sema.LeastCommonSuperType`; `none` = `InvalidType`

def pathTy : String → Ty
  | "storage" => .prim "StoragePath"
  | "public" => .prim "PublicPath"
  | "private" => .prim "PrivatePath"
  | _ => .prim "Path"

/-- `Value.StaticType` -/
def dynType (c : Ctx) : IV → Ty
  | .void => .prim "Void"
  | .nil => .opt never
  | .some v => .opt (dynType c v)
  | .bool _ => .prim "Bool"
  | .str _ => .prim "String"
  | .char _ => .prim "Character"
  | .addr _ => .prim "Address"
  | .num k _ => .prim k
  | .path d _ => pathTy d
  | .arr ty _ => ty
  | .dict k v _ => .dict k v
  | .comp _ id _ => match c.decls id with | some d => d.ty | none => .prim "<unknown>"
  | .typeV _ => .prim "MetaType"
  | .cap _ _ b => .cap b

mutual
/-- `Value.IsImportable` -/
def importable (c : Ctx) : IV → Bool
  | .some v => importable c v
  | .arr _ vs => importableList c vs
  | .dict _ _ kvs => importablePairs c kvs
  | .comp _ id fs =>
    (match c.decls id with | some d => d.importable | none => false) && importableFields c fs
  | .cap .. => false                          -- `IDCapabilityValue.IsImportable`
  | _ => true
def importableList (c : Ctx) : IVs → Bool
  | .nil => true
  | .cons v r => importable c v && importableList c r
def importablePairs (c : Ctx) : IPairs → Bool
  | .nil => true
  | .cons k v r => importable c k && importable c v && importablePairs c r
def importableFields (c : Ctx) : IFields → Bool
  | .nil => true
  | .cons _ v r => importable c v && importableFields c r
end

/-- every declared field has a value whose run-time type is a subtype of the declared type
    (`CompositeStaticTypeConformsToStaticType`, the loop over `compositeType.Fields`) -/
def declaredFieldsOk (c : Ctx) (fs : IFields) : List (String × Ty) → Bool
  | [] => true
  | (n, t) :: r =>
    (match fs.find n with | some v => c.subSema (dynType c v) t | none => false) && declaredFieldsOk c fs r

mutual
/-- `Value.ConformsToStaticType`.  For a composite the code walks the *declared* fields and checks
    the conformance of each one's value; here all stored field values are checked — the same set,
    because the number of stored fields equals the number of declared ones and every declared name is
    found (field names are distinct on both sides). -/
def conforms (c : Ctx) : IV → Bool
  | .some v => conforms c v
  | .arr ty vs =>
    match ty with
    | .varArr e => conformsElems c e vs
    | .constArr e n => vs.length == n && conformsElems c e vs
    | _ => false
  | .dict k v kvs => conformsPairs c k v kvs
  | .comp kind id fs =>
    match c.decls id with
    | some d => kind == d.kind && fs.length == d.fields.length && declaredFieldsOk c fs d.fields
                && conformsFields c fs
    | none => false
  | _ => true
def conformsElems (c : Ctx) (e : Ty) : IVs → Bool
  | .nil => true
  | .cons v r => c.sub (dynType c v) e && conforms c v && conformsElems c e r
def conformsPairs (c : Ctx) (kt vt : Ty) : IPairs → Bool
  | .nil => true
  | .cons k v r =>
    c.sub (dynType c k) kt && conforms c k && c.sub (dynType c v) vt && conforms c v && conformsPairs c kt vt r
def conformsFields (c : Ctx) : IFields → Bool
  | .nil => true
  | .cons _ v r => conforms c v && conformsFields c r
end

/-! ### Rendering (the structural dump compared with the exported argument, and key equality) -/

def kindName : Kind → String
  | .struct => "struct" | .resource => "resource" | .contract => "contract" | .enum => "enum"
  | .attachment => "attachment" | .event => "event"

def authStr : Verif.Model.Auth.Access String → String
  | .set .conj l => "c:" ++ ",".intercalate l
  | .set .disj l => "d:" ++ ",".intercalate l
  | _ => "u"

def namesStr (l : List String) : String := if l.isEmpty then "-" else ",".intercalate l

/-- the Polish notation of `stream_types.go` (subset) -/
def tyStr : Ty → String
  | .prim n => "p " ++ n
  | .opt t => "o " ++ tyStr t
  | .varArr t => "va " ++ tyStr t
  | .constArr t n => "ca " ++ toString n ++ " " ++ tyStr t
  | .dict k v => "d " ++ tyStr k ++ " " ++ tyStr v
  | .ref a t => "r " ++ authStr a ++ " " ++ tyStr t
  | .comp n k cs b => "comp " ++ n ++ " " ++ kindName k ++ " " ++ namesStr cs ++ " " ++ (if b then "1" else "0")
  | .iface i => "if " ++ i.name ++ " " ++ kindName i.kind ++ " " ++ namesStr i.confs
  | .inter is => "in " ++ toString is.length ++ String.join (is.map (fun i => " if " ++ i.name ++ " " ++ kindName i.kind ++ " " ++ namesStr i.confs))
  | .capAny => "capany"
  | .cap t => "cap " ++ tyStr t
  | .range t => "rng " ++ tyStr t
  | _ => "?"

def insertSorted (x : String) : List String → List String
  | [] => [x]
  | y :: r => if x ≤ y then x :: y :: r else y :: insertSorted x r
def sortStrings (l : List String) : List String := l.foldr insertSorted []

mutual
def render : IV → String
  | .void => "void"
  | .nil => "nil"
  | .some v => "(some " ++ render v ++ ")"
  | .bool b => "(bool " ++ (if b then "1" else "0") ++ ")"
  | .str h => "(str " ++ h ++ ")"
  | .char h => "(char " ++ h ++ ")"
  | .addr h => "(addr " ++ h ++ ")"
  | .num k n => "(num " ++ k ++ " " ++ toString n ++ ")"
  | .path d i => "(path " ++ d ++ " " ++ i ++ ")"
  | .arr t vs => "(arr " ++ tyStr t ++ renderList vs ++ ")"
  | .dict k v kvs => "(dict " ++ tyStr (.dict k v) ++ String.join ((sortStrings (renderPairs kvs)).map (" " ++ ·)) ++ ")"
  | .comp k id fs => "(comp " ++ kindName k ++ " " ++ id ++ String.join ((sortStrings (renderFields fs)).map (" " ++ ·)) ++ ")"
  | .typeV t => "(type " ++ tyStr t ++ ")"
  | .cap id a b => "(cap " ++ toString id ++ " " ++ a ++ " " ++ tyStr b ++ ")"
def renderList : IVs → String
  | .nil => ""
  | .cons v r => " " ++ render v ++ renderList r
def renderPairs : IPairs → List String
  | .nil => []
  | .cons k v r => ("(" ++ render k ++ " " ++ render v ++ ")") :: renderPairs r
def renderFields : IFields → List String
  | .nil => []
  | .cons n v r => ("(" ++ n ++ " " ++ render v ++ ")") :: renderFields r
end

/-- equality of dictionary keys (`Equal` on hashable values: same kind and same value) -/
def keyEq (a b : IV) : Bool := render a == render b

/-- `DictionaryValue.InsertWithoutTransfer`: an equal key is overwritten -/
def IPairs.insert (k v : IV) : IPairs → IPairs
  | .nil => .cons k v .nil
  | .cons k' v' r => if keyEq k' k then .cons k' v r else .cons k' v' (r.insert k v)

/-- `NewDictionaryValue`: insert the pairs in order; each insert runs `checkContainerMutation` for
    the key and the value (a `ContainerMutationError` user panic, turned into an error by
    `UserPanicToError`) -/
def buildDict (c : Ctx) (kt vt : Ty) : IPairs → IPairs → Outcome IPairs
  | acc, .nil => .ok acc
  | acc, .cons k v r =>
    if !c.sub (dynType c k) kt then .user .import_
    else if !c.sub (dynType c v) vt then .user .import_
    else buildDict c kt vt (acc.insert k v) r

/-- `Value.IsResourceKinded` -/
def resourceKinded : IV → Bool
  | .some v => resourceKinded v
  | .comp k _ _ => k == .resource
  | .arr t _ => t.isResource
  | .dict k v _ => (Ty.dict k v).isResource
  | _ => false

/-- `CompositeValue.SetMember`: a repeated name overwrites; overwriting a resource-kinded value is a
    `ResourceLossError` (user panic) -/
def IFields.setChecked (name : String) (v : IV) : IFields → Outcome IFields
  | .nil => .ok (.cons name v .nil)
  | .cons n w r =>
    if n == name then (if resourceKinded w then .user .import_ else .ok (.cons n v r))
    else (r.setChecked name v).map (.cons n w)

/-- `NewCompositeValue`: fields are set in order, by name -/
def buildFields : IFields → IFields → Outcome IFields
  | acc, .nil => .ok acc
  | acc, .cons n v r => (acc.setChecked n v).bind fun acc' => buildFields acc' r

def keysOf : IPairs → IVs
  | .nil => .nil | .cons k _ r => .cons k (keysOf r)
def valuesOf : IPairs → IVs
  | .nil => .nil | .cons _ v r => .cons v (valuesOf r)

def typesOf (c : Ctx) (vs : IVs) : List Ty := vs.toList.map (dynType c)

def hashableStruct : Ty := .prim "HashableStruct"

/-- every element's run-time type is a subtype of the element type (`interpreter.IsSubType`) -/
def elemsSub (c : Ctx) (e : Ty) : IVs → Bool
  | .nil => true
  | .cons v r => c.sub (dynType c v) e && elemsSub c e r

mutual
/-- `valueImporter.importValue(value, expectedType)`; `none` is Go's nil expected type -/
def importValue (c : Ctx) : XV → Option Ty → Outcome IV
  | .void, _ => .ok .void
  | .none, _ => .ok .nil                               -- importOptionalValue, v.Value == nil
  | .some v, exp =>
    let inner := match exp with | some (.opt t) => some t | _ => none
    (importValue c v inner).map .some
  | .bool b, _ => .ok (.bool b)
  | .str h, _ => .ok (.str h)
  | .char h, _ => .ok (.char h)
  | .addr h, _ => .ok (.addr h)
  | .num k n, _ => .ok (.num k n)
  | .path d i, _ => .ok (.path d i)
  | .arr vs, exp =>
    -- importArrayValue: the element type comes from the expected type when that is an array type
    let elemTy := match exp with | some (.varArr e) => some e | some (.constArr e _) => some e | _ => none
    (importList c vs elemTy).bind fun ivs =>
      match exp with
      -- the array takes the expected type as its static type; the elements must belong to it
      -- (the transfer of the array into a parent container relies on the element type)
      | some (.varArr e) => if elemsSub c e ivs then .ok (.arr (.varArr e) ivs) else .user .malformed
      | some (.constArr e n) => if elemsSub c e ivs then .ok (.arr (.constArr e n) ivs) else .user .malformed
      | _ =>
        match c.lcs (typesOf c ivs) with
        | some e => .ok (.arr (.varArr e) ivs)
        | none => .user .import_                       -- "elements do not belong to the same type"
  | .dict kvs, exp =>
    let kt := match exp with | some (.dict k _) => some k | _ => none
    let vt := match exp with | some (.dict _ v) => some v | _ => none
    (importPairs c kvs kt vt).bind fun ps =>
      match exp with
      | some (.dict k v) => (buildDict c k v .nil ps).map (.dict k v)
      | _ =>
        match c.lcs (typesOf c (keysOf ps)), c.lcs (typesOf c (valuesOf ps)) with
        | some k, some v =>
          if !c.semaSub k hashableStruct then .user .import_    -- "keys does not belong to the same type"
          else (buildDict c k v .nil ps).map (.dict k v)
        | _, _ => .user .import_                       -- InvalidType is not a subtype of HashableStruct / "values …"
  | .comp kind id fs, _ =>
    -- importCompositeValue: the type is loaded by its ID, each field is imported with the declared
    -- type of the member of that name (nil expected type when there is none)
    match c.decls id with
    | none => .user .import_                           -- TypeLoadingError
    | some d =>
      (importFields c fs d.fields).bind fun ifs => (buildFields .nil ifs).bind fun built =>
        -- a value of an enum type must be an enum with a raw value of the declared raw type (it is
        -- hashed by it when used as a dictionary key, before the conformance check)
        if kind == .enum || d.kind == .enum then
          if kind != d.kind then .user .import_
          else
            match built.find "rawValue", d.fields.lookup "rawValue" with
            | some rv, some rt => if c.subSema (dynType c rv) rt then .ok (.comp kind id built) else .user .import_
            | _, _ => .user .import_
        else .ok (.comp kind id built)
  | .typeV (some t), _ => .ok (.typeV t)
  | .typeV none, _ => .user .import_                   -- ConvertStaticToSemaType fails
  | .cap id a b, _ =>
    match b with
    | .ref _ _ => .ok (.cap id a b)
    | _ => .user .import_                              -- "expected reference"
  | .func, _ => .user .import_                         -- "cannot import function"
  | .contract, _ => .user .import_                     -- "cannot import contract"
def importList (c : Ctx) : XVs → Option Ty → Outcome IVs
  | .nil, _ => .ok .nil
  | .cons v r, e => (importValue c v e).bind fun iv => (importList c r e).map (.cons iv)
def importPairs (c : Ctx) : XPairs → Option Ty → Option Ty → Outcome IPairs
  | .nil, _, _ => .ok .nil
  | .cons k v r, kt, vt =>
    (importValue c k kt).bind fun ik => (importValue c v vt).bind fun iv =>
      (importPairs c r kt vt).map (.cons ik iv)
def importFields (c : Ctx) : XFields → List (String × Ty) → Outcome IFields
  | .nil, _ => .ok .nil
  | .cons n v r, decl =>
    (importValue c v (decl.lookup n)).bind fun iv => (importFields c r decl).map (.cons n iv)
end

/-- one argument: the body of the loop of `importValidatedArguments`; `none` = the decoder failed -/
def importArg (c : Ctx) (a : Option XV) (t : Ty) : Outcome IV :=
  match a with
  | none => .user .decode
  | some x =>
    (importValue c x (some t)).bind fun v =>
      if !importable c v then .user .notImportable
      else if !c.subSema (dynType c v) t then .user .type_
      else if !conforms c v then .user .malformed
      else .ok v

/-- `interpreter.BoxOptional(value, parameterType)`: what the invocation of the entry point does to an
    accepted argument before the script sees it (not part of the validation; the stream observes the
    argument from inside the script).  NOTE (code): a nested `nil` is unboxed. -/
def boxLoop (value inner : IV) : Ty → IV
  | .opt t =>
    match inner with
    | .some i => boxLoop value i t
    | .nil => .nil
    | _ => boxLoop (.some value) inner t
  | _ => value

def boxOptional (v : IV) (t : Ty) : IV := boxLoop v v t

/-- `importValidatedArguments` -/
def importArgsLoop (c : Ctx) : List (Option XV) → List Ty → Outcome (List IV)
  | a :: as, t :: ts => (importArg c a t).bind fun v => (importArgsLoop c as ts).map (v :: ·)
  | _, _ => .ok []

def importArgs (c : Ctx) (args : List (Option XV)) (params : List Ty) : Outcome (List IV) :=
  if args.length != params.length then .user .count else importArgsLoop c args params

end Verif.Model.Import
