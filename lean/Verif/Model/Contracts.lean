/-
C26 — spec machine for the contract lifecycle (`account.contracts.add / update / tryUpdate / remove /
get / borrow / names`), following `/repo/stdlib/account.go` (`changeAccountContracts`,
`updateAccountContractCode`, `nativeAccountContractsTryUpdateFunction`, `removeContract`,
`AccountContractsGet`, `AccountContractsBorrow`) and `/repo/runtime/storage.go`
(`recordContractUpdate`, `contractUpdateRecorded`, `commitContractUpdates`).  Core Lean only.

State: per (account, name) the deployed source and whether a contract value is stored.  A transaction
works on its own view (the host's code view changes immediately, contract values are written at commit);
the view replaces the committed state when the transaction succeeds and is dropped when it aborts.
What the real parser / checker / update validator say about the sources used by the stream
(`Facts`) is an input, computed on the Go side.
-/
namespace Verif.Model.Contracts

/-- facts about sources (by source id), computed by the real front end on the Go side -/
structure Facts where
  valid : Nat → Bool          -- parses and type-checks, declares exactly one contract / contract interface
  nameOk : Nat → Bool         -- the declared name is the name passed to add/update
  hasEnum : Nat → Bool        -- `containsEnumsInProgram`
  isIface : Nat → Bool        -- declares a contract interface (no contract value)
  initFails : Nat → Bool      -- the initializer aborts
  compat : Nat → Nat → Bool   -- `ContractUpdateValidator.Validate` accepts old → new

abbrev Key := Nat × Nat       -- account, name

structure Entry where
  code : Nat
  hasValue : Bool
  deriving DecidableEq, Repr

abbrev Store := List (Key × Entry)

def Store.find (s : Store) (k : Key) : Option Entry :=
  match s with
  | [] => none
  | (k', e) :: rest => if k' = k then some e else Store.find rest k

def Store.erase (s : Store) (k : Key) : Store := s.filter (fun p => p.1 ≠ k)

def Store.set (s : Store) (k : Key) (e : Entry) : Store := (k, e) :: Store.erase s k

/-- the names deployed in an account, in store order (the host returns them in its own order) -/
def Store.names (s : Store) (a : Nat) : List Nat := (s.filter (fun p => p.1.1 = a)).map (fun p => p.1.2)

structure TxState where
  store : Store
  recorded : List Key     -- `Storage.contractUpdates`: locations with a recorded update in this transaction
  replaced : List Key := []
    -- `Storage.replacedContractValues`: a contract value created in this transaction whose recorded update
    -- was overwritten by a recorded removal; never written to the contract storage map, removed from
    -- storage at commit (so that no slab stays unreferenced)

inductive Op where
  | add (a n s : Nat) | update (a n s : Nat) | tryUpdate (a n s : Nat) | remove (a n : Nat)
  | get (a n : Nat) | borrow (a n : Nat) | names (a : Nat) | panic
  deriving Repr

inductive Abort where
  | default   -- errors.NewDefaultUserError (existing / missing contract, name mismatch)
  | invalid   -- InvalidContractDeploymentError (parser, checker, update validator)
  | panic     -- stdlib.PanicError
  | removal   -- ContractRemovalError
  deriving DecidableEq, Repr

inductive Obs where
  | done | bool (b : Bool) | code (c : Option Nat) | value (c : Option Nat) | names (ns : List Nat)
  deriving DecidableEq, Repr

inductive Res (α : Type) where
  | ok (x : α) | abort (e : Abort)

/-- `changeAccountContracts` with `isUpdate = true` (shared by `update` and `tryUpdate`) -/
def doUpdate (F : Facts) (t : TxState) (a n s : Nat) : Res TxState :=
  match t.store.find (a, n) with
  | none => .abort .default
  | some e =>
    if !F.valid s then .abort .invalid
    else if !F.nameOk s then .abort .default
    else if !F.compat e.code s then .abort .invalid
    else .ok { t with store := t.store.set (a, n) { e with code := s } }

def step (F : Facts) (t : TxState) : Op → Res (TxState × Obs)
  | .add a n s =>
    if (t.store.find (a, n)).isSome || t.recorded.contains (a, n) then .abort .default
    else if !F.valid s then .abort .invalid
    else if !F.nameOk s then .abort .default
    else if !F.isIface s && F.initFails s then .abort .panic
    else .ok ({ t with store := t.store.set (a, n) { code := s, hasValue := !F.isIface s },
                       recorded := if F.isIface s then t.recorded else (a, n) :: t.recorded }, .done)
  | .update a n s =>
    match doUpdate F t a n s with
    | .ok t' => .ok (t', .done)
    | .abort e => .abort e
  | .tryUpdate a n s =>
    match doUpdate F t a n s with
    | .ok t' => .ok (t', .bool true)
    | .abort _ => .ok (t, .bool false)
  | .remove a n =>
    match t.store.find (a, n) with
    | none => .ok (t, .bool false)
    | some e =>
      if F.hasEnum e.code then .abort .removal
      else .ok ({ store := t.store.erase (a, n), recorded := (a, n) :: t.recorded,
                  replaced := if e.hasValue && t.recorded.contains (a, n) then (a, n) :: t.replaced else t.replaced },
                .bool true)
  | .get a n => .ok (t, .code ((t.store.find (a, n)).map (·.code)))
  | .borrow a n =>
    .ok (t, .value (match t.store.find (a, n) with
      | some e => if e.hasValue then some e.code else none
      | none => none))
  | .names a => .ok (t, .names (t.store.names a))
  | .panic => .abort .panic

structure TxObs where
  logs : List Obs
  outcome : Option Abort
  deriving DecidableEq, Repr

/-- run the operations of one transaction on its view -/
def runOps (F : Facts) : TxState → List Op → List Obs → TxState × TxObs
  | t, [], acc => (t, ⟨acc.reverse, none⟩)
  | t, op :: ops, acc =>
    match step F t op with
    | .ok (t', o) => runOps F t' ops (o :: acc)
    | .abort e => (t, ⟨acc.reverse, some e⟩)

/-- one transaction on the committed state: commit on success, no change on abort -/
def runTx (F : Facts) (s : Store) (tx : List Op) : Store × TxObs :=
  let (t, o) := runOps F { store := s, recorded := [] } tx []
  match o.outcome with
  | none => (t.store, o)
  | some _ => (s, o)

def runHist (F : Facts) : Store → List (List Op) → Store × List TxObs
  | s, [] => (s, [])
  | s, tx :: rest =>
    let (s', o) := runTx F s tx
    let (s'', os) := runHist F s' rest
    (s'', o :: os)

end Verif.Model.Contracts
