/-
C51 — vocabulary shared by the models and the specs of the internal collections (core Lean only):
operation and observation datatypes of the op-sequence machines, and two loop helpers.
-/
namespace Verif.DS

/-- `for x in xs { visit x; if stop x { return true } }; return false`, with the visited prefix. -/
def visitUntil {α : Type} (stop : α → Bool) : List α → Bool × List α
  | [] => (false, [])
  | x :: xs => if stop x then (true, [x]) else ((visitUntil stop xs).1, x :: (visitUntil stop xs).2)

/-- `index := i; for x in xs { f(index, x); index++ }` -/
def withIndex {α : Type} (i : Nat) : List α → List (Nat × α)
  | [] => []
  | x :: xs => (i, x) :: withIndex (i + 1) xs

/-- registers of an op-sequence machine -/
def Regs (α : Type) := Nat → α
def Regs.put {α : Type} (rs : Regs α) (r : Nat) (x : α) : Regs α := fun i => if i = r then x else rs i

/-! ### ordered map -/

inductive OMOp (K V : Type) where
  | set (r : Nat) (k : K) (v : V)
  | get (r : Nat) (k : K)
  | has (r : Nat) (k : K)
  | pair (r : Nat) (k : K)
  | del (r : Nat) (k : K)
  | len (r : Nat)
  | oldest (r : Nat)
  | newest (r : Nat)
  | next (r : Nat) (k : K)
  | prev (r : Nat) (k : K)
  | each (r : Nat)
  | eachIdx (r : Nat)
  | eachErr (r : Nat) (stop : K → Bool)
  | all (r : Nat) (p : K → Bool)
  | any (r : Nat) (p : K → Bool)
  | disj (r s : Nat)
  | inter (r s t : Nat)
  | union (r s t : Nat)
  | setAll (r : Nat) (s : Option Nat)
  | clear (r : Nat)

inductive OMObs (K V : Type) where
  | done
  | val (o : Option V)                       -- Go `(value, present)`
  | bool (b : Bool)
  | nat (n : Nat)
  | pair (o : Option (K × V))                -- `*Pair` or nil
  | noPair                                   -- `GetPair` gave nil, so `Next`/`Prev` was not called
  | pairs (l : List (K × V))                 -- callback invocations, in order
  | idxPairs (l : List (Nat × K × V))
  | pairsErr (l : List (K × V)) (stopped : Bool)
  | boolKeys (b : Bool) (visited : List K)   -- result and the keys the predicate was called on
  deriving DecidableEq

/-- An implementation of the ordered-map interface (the code-shaped model and the spec are the two
    instances; the op-sequence machine below is written once against this record). -/
structure OMImpl (K V : Type) where
  M : Type
  new : M
  zero : M
  set : M → K → V → M × Option V
  get : M → K → Option V
  contains : M → K → Bool
  getPair : M → K → Option (K × V)
  delete : M → K → M × Option V
  len : M → Nat
  oldest : M → Option (K × V)
  newest : M → Option (K × V)
  next : M → K → Option (Option (K × V))
  prev : M → K → Option (Option (K × V))
  foreach : M → List (K × V)
  foreachWithIndex : M → List (Nat × K × V)
  foreachWithError : M → (K → Bool) → List (K × V) × Bool
  forAllKeys : M → (K → Bool) → Bool × List K
  forAnyKey : M → (K → Bool) → Bool × List K
  keySetIsDisjointFrom : M → M → Bool
  keySetIntersection : M → M → M
  keySetUnion : M → M → M
  setAll : M → Option M → M
  clear : M → M

namespace OMImpl
variable {K V : Type} (I : OMImpl K V)

def step (rs : Regs I.M) : OMOp K V → Regs I.M × OMObs K V
  | .set r k v => let x := I.set (rs r) k v; (rs.put r x.1, .val x.2)
  | .get r k => (rs, .val (I.get (rs r) k))
  | .has r k => (rs, .bool (I.contains (rs r) k))
  | .pair r k => (rs, .pair (I.getPair (rs r) k))
  | .del r k => let x := I.delete (rs r) k; (rs.put r x.1, .val x.2)
  | .len r => (rs, .nat (I.len (rs r)))
  | .oldest r => (rs, .pair (I.oldest (rs r)))
  | .newest r => (rs, .pair (I.newest (rs r)))
  | .next r k => (rs, match I.next (rs r) k with | none => .noPair | some p => .pair p)
  | .prev r k => (rs, match I.prev (rs r) k with | none => .noPair | some p => .pair p)
  | .each r => (rs, .pairs (I.foreach (rs r)))
  | .eachIdx r => (rs, .idxPairs (I.foreachWithIndex (rs r)))
  | .eachErr r stop => let x := I.foreachWithError (rs r) stop; (rs, .pairsErr x.1 x.2)
  | .all r p => let x := I.forAllKeys (rs r) p; (rs, .boolKeys x.1 x.2)
  | .any r p => let x := I.forAnyKey (rs r) p; (rs, .boolKeys x.1 x.2)
  | .disj r s => (rs, .bool (I.keySetIsDisjointFrom (rs r) (rs s)))
  | .inter r s t => (rs.put t (I.keySetIntersection (rs r) (rs s)), .done)
  | .union r s t => (rs.put t (I.keySetUnion (rs r) (rs s)), .done)
  | .setAll r s => (rs.put r (I.setAll (rs r) (s.map rs)), .done)
  | .clear r => (rs.put r (I.clear (rs r)), .done)

/-- all observations of an operation sequence -/
def run (rs : Regs I.M) : List (OMOp K V) → List (OMObs K V)
  | [] => []
  | op :: ops => (I.step rs op).2 :: run (I.step rs op).1 ops

/-- initial registers: `zeroValue r` says register `r` starts as `&OrderedMap{}` instead of `New(…)` -/
def init (zeroValue : Nat → Bool) : Regs I.M := fun r => if zeroValue r then I.zero else I.new

end OMImpl

/-! ### bidirectional map -/

inductive BMOp (K V : Type) where
  | insert (k : K) (v : V)
  | exists_ (k : K)
  | existsInverse (v : V)
  | get (k : K)
  | getInverse (v : V)
  | delete (k : K)
  | deleteInverse (v : V)
  | size

inductive BMObs (K V : Type) where
  | done
  | goPanic                  -- assignment to an entry of a nil map (zero-value BiMap)
  | bool (b : Bool)
  | val (o : Option V)
  | key (o : Option K)
  | nat (n : Nat)
  deriving DecidableEq

/-! ### persistent ordered set (registers hold pointers; `none` = nil pointer) -/

inductive PSOp (T : Type) where
  | mk (t : Nat) (parent : Option Nat)     -- regs[t] = NewOrderedSet(regs[parent] or nil)
  | clone (t r : Nat)                      -- regs[t] = regs[r].Clone()
  | add (r : Nat) (x : T)
  | has (r : Nat) (x : T)
  | each (r : Nat)
  | eachErr (r : Nat) (stop : T → Bool)
  | addInter (r : Nat) (a b : Option Nat)
  | isEmpty (r : Nat)

inductive PSObs (T : Type) where
  | done
  | goPanic                  -- nil pointer dereference (method needing `s.items` on a nil receiver)
  | bool (b : Bool)
  | items (l : List T)
  | itemsErr (l : List T) (stopped : Bool)
  deriving DecidableEq


/-- What `persistent.OrderedSet` needs from its `items` field (the code-shaped model instantiates it
    with `*orderedmap.OrderedMap[T, struct{}]`, the spec with a plain list). -/
structure PSItems (T : Type) where
  I : Type
  nil : I                       -- `s.items == nil`
  contains : I → T → Bool       -- `s.items != nil && s.items.Contains(x)`
  add : I → T → I               -- `if s.items == nil { s.items = &OrderedMap{} }; s.items.Set(x, struct{}{})`
  list : I → List T             -- the keys met by `for pair := items.Oldest(); pair != nil; pair = pair.Next()`
  nonEmpty : I → Bool           -- `s.items != nil && s.items.Oldest() != nil`

namespace PSItems
variable {T : Type} (I : PSItems T)

/-- one `OrderedSet` object on the heap: `Parent` pointer (an address, `none` = nil) and `items` -/
structure Obj where
  parent : Option Nat
  items : I.I

/-- the heap: address = index -/
abbrev Heap := List I.Obj

/-- the chain `s, s.Parent, s.Parent.Parent, …` of objects (`fuel` bounds the walk; parents are
    always allocated before their children, so `heap.length` steps suffice) -/
def chain (h : I.Heap) : Nat → Option Nat → List I.Obj
  | 0, _ => []
  | _, none => []
  | fuel + 1, some a =>
    match h[a]? with
    | none => []
    | some o => o :: chain h fuel o.parent

def chainOf (h : I.Heap) (s : Option Nat) : List I.Obj := chain I h (h.length + 1) s

/-- `Contains` -/
def setContains (h : I.Heap) (s : Option Nat) (x : T) : Bool := (chainOf I h s).any (fun o => I.contains o.items x)

/-- the callback invocations of `ForEach` with a callback that never fails -/
def forEach (h : I.Heap) (s : Option Nat) : List T := (chainOf I h s).flatMap (fun o => I.list o.items)

/-- `IsEmpty` -/
def isEmpty (h : I.Heap) (s : Option Nat) : Bool := !(chainOf I h s).any (fun o => I.nonEmpty o.items)

/-- `NewOrderedSet(parent)`: the new heap and the address of the new object -/
def newSet (h : I.Heap) (parent : Option Nat) : I.Heap × Nat := (h ++ [⟨parent, I.nil⟩], h.length)

/-- `Add`; `none` = nil-pointer dereference (nil receiver and the item is not yet contained) -/
def setAdd (h : I.Heap) (s : Option Nat) (x : T) : Option I.Heap :=
  if setContains I h s x then some h else
  match s with
  | none => none
  | some a =>
    match h[a]? with
    | none => none
    | some o => some (h.set a ⟨o.parent, I.add o.items x⟩)

/-- `AddIntersection(a, b)`: `a.ForEach(item => if b.Contains(item) { s.Add(item) })` -/
def addIntersection (h : I.Heap) (s a b : Option Nat) : Option I.Heap :=
  (forEach I h a).foldl (fun acc x => acc.bind (fun h' => if setContains I h' b x then setAdd I h' s x else some h')) (some h)

structure State where
  heap : I.Heap
  regs : Regs (Option Nat)

def step (st : I.State) : PSOp T → I.State × PSObs T
  | .mk t parent =>
    let x := newSet I st.heap (parent.bind st.regs)
    (⟨x.1, st.regs.put t (some x.2)⟩, .done)
  | .clone t r =>
    let x := newSet I st.heap (st.regs r)
    (⟨x.1, st.regs.put t (some x.2)⟩, .done)
  | .add r x =>
    match setAdd I st.heap (st.regs r) x with
    | some h => (⟨h, st.regs⟩, .done)
    | none => (st, .goPanic)
  | .has r x => (st, .bool (setContains I st.heap (st.regs r) x))
  | .each r => (st, .items (forEach I st.heap (st.regs r)))
  | .eachErr r stop => let v := visitUntil stop (forEach I st.heap (st.regs r)); (st, .itemsErr v.2 v.1)
  | .addInter r a b =>
    match addIntersection I st.heap (st.regs r) (a.bind st.regs) (b.bind st.regs) with
    | some h => (⟨h, st.regs⟩, .done)
    | none => (st, .goPanic)
  | .isEmpty r => (st, .bool (isEmpty I st.heap (st.regs r)))

def run (st : I.State) : List (PSOp T) → List (PSObs T)
  | [] => []
  | op :: ops => (I.step st op).2 :: run (I.step st op).1 ops

/-- all registers nil, empty heap -/
def init : I.State := ⟨[], fun _ => none⟩

end PSItems

end Verif.DS
