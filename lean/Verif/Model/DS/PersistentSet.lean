/-
C51 — code-shaped model of `common/persistent/orderedset.go`.  Core Lean only.

An `OrderedSet` is a heap object `{Parent *OrderedSet, items *orderedmap.OrderedMap[T, struct{}]}`;
sets share their ancestors, so the model keeps a heap (`PSItems.Heap` in `Ops.lean`: the methods
`Contains ForEach IsEmpty Add AddIntersection NewOrderedSet Clone` are written there once, against
the `items` interface).  This file instantiates `items` with the ordered-map model: `nil` or a map
that starts as the zero value `&OrderedMap{}` on the first `Add`.
-/
import Verif.Model.DS.OrderedMap
namespace Verif.Model.DS.PersistentSet
open Verif.DS Verif.Model.DS

def items (T : Type) [DecidableEq T] : PSItems T where
  I := Option (OrderedMap.OM T Unit)
  nil := none
  contains := fun i x => match i with | none => false | some om => OrderedMap.contains om x
  add := fun i x => match i with
    | none => some (OrderedMap.set (OrderedMap.zero : OrderedMap.OM T Unit) x ()).1
    | some om => some (OrderedMap.set om x ()).1
  list := fun i => match i with | none => [] | some om => (OrderedMap.foreach om).map Prod.fst
  nonEmpty := fun i => match i with | none => false | some om => (OrderedMap.oldest om).isSome

end Verif.Model.DS.PersistentSet
