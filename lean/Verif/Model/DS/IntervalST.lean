/-
C51 — code-shaped model of `common/intervalst` (interval.go, node.go, intervalst.go), function by
function.  Core Lean only.

Positions are integers; `MinPosition` (returned by `Max()` of a nil node, smaller than every
position) is `none` in `Option Int`.  A node caches `max : Position` (so `Option Int`) and the
subtree size `n`.  The random choice `rand.Float32()*float32(x.size()) < 1.0` of `randomizedInsert`
is an explicit oracle: a list of booleans consumed along the search path (`true` = do the root
insertion here; an exhausted list counts as `true`).  The theorems quantify over every oracle.
-/
namespace Verif.Model.DS.IntervalST

/-- `a.Compare(b)` on positions, `none` = `MinPosition`: the result is `< 0`, `= 0`, `> 0` -/
def pcmp : Option Int → Option Int → Ordering
  | none, none => .eq
  | none, some _ => .lt
  | some _, none => .gt
  | some a, some b => if a < b then .lt else if a > b then .gt else .eq

structure Interval where
  min : Int
  max : Int
  deriving DecidableEq, Repr

/-- `NewInterval`: `none` = `panic("illegal interval: min > max")` -/
def newInterval (min max : Int) : Option Interval := if min > max then none else some ⟨min, max⟩

/-- `i.Intersects(other)` -/
def Interval.intersects (i other : Interval) : Bool := !(other.max < i.min || i.max < other.min)
/-- `i.Contains(x)` -/
def Interval.contains (i : Interval) (x : Int) : Bool := i.min ≤ x && x ≤ i.max
/-- `i.Compare(other)`: lexicographic on `(Min, Max)` -/
def Interval.compare (i other : Interval) : Ordering :=
  if i.min < other.min then .lt else if i.min > other.min then .gt
  else if i.max < other.max then .lt else if i.max > other.max then .gt else .eq

inductive Tree (T : Type) where
  | nil
  | node (interval : Interval) (value : T) (max : Option Int) (left right : Tree T) (n : Nat)
  deriving Repr, DecidableEq

variable {T : Type}

/-- `newNode` -/
def newNode (i : Interval) (v : T) : Tree T := .node i v (some i.max) .nil .nil 1

/-- `n.size()` -/
def Tree.size : Tree T → Nat
  | .nil => 0
  | .node _ _ _ _ _ n => n

/-- `n.Max()` -/
def Tree.maxPos : Tree T → Option Int
  | .nil => none
  | .node _ _ m _ _ _ => m

/-- `max3` -/
def max3 (a b c : Option Int) : Option Int :=
  if pcmp b a ≠ .lt ∧ pcmp b c ≠ .lt then b
  else if pcmp c a ≠ .lt ∧ pcmp c b ≠ .lt then c
  else a

/-- `n.fix()` -/
def Tree.fix : Tree T → Tree T
  | .nil => .nil
  | .node i v _ l r _ => .node i v (max3 (some i.max) l.maxPos r.maxPos) l r (1 + l.size + r.size)

/-- `n.rotR()`; on a node without left child Go dereferences nil (never happens: `rootInsert` rotates
    right only after inserting into the left subtree) — the model then returns the node unchanged -/
def Tree.rotR : Tree T → Tree T
  | .node i v m (.node xi xv xm xl xr xn) r n =>
    -- x := n.left; n.left = x.right; x.right = n; n.fix(); x.fix()
    (Tree.node xi xv xm xl (Tree.node i v m xr r n).fix xn).fix
  | t => t

def Tree.rotL : Tree T → Tree T
  | .node i v m l (.node xi xv xm xl xr xn) n =>
    (Tree.node xi xv xm (Tree.node i v m l xl n).fix xr xn).fix
  | t => t

/-- `rootInsert` -/
def rootInsert : Tree T → Interval → T → Tree T
  | .nil, i, v => newNode i v
  | .node xi xv xm l r n, i, v =>
    if i.compare xi = .lt then (Tree.node xi xv xm (rootInsert l i v) r n).rotR
    else (Tree.node xi xv xm l (rootInsert r i v) n).rotL

/-- `randomizedInsert`, the coin flips given by `oracle` -/
def randomizedInsert : Tree T → Interval → T → List Bool → Tree T
  | .nil, i, v, _ => newNode i v
  | .node xi xv xm l r n, i, v, oracle =>
    if oracle.headD true then rootInsert (.node xi xv xm l r n) i v
    else if i.compare xi = .lt then (Tree.node xi xv xm (randomizedInsert l i v oracle.tail) r n).fix
    else (Tree.node xi xv xm l (randomizedInsert r i v oracle.tail) n).fix

/-- `Put` -/
def put (t : Tree T) (i : Interval) (v : T) (oracle : List Bool) : Tree T := randomizedInsert t i v oracle

/-- `get` -/
def get : Tree T → Interval → Option T
  | .nil, _ => none
  | .node xi xv _ l r _, i =>
    match i.compare xi with
    | .lt => get l i
    | .gt => get r i
    | .eq => some xv

def contains (t : Tree T) (i : Interval) : Bool := (get t i).isSome

/-- the loop condition `x.left == nil || x.left.max.Compare(p) < 0` -/
def leftBelow (l : Tree T) (p : Int) : Bool :=
  match l with
  | .nil => true
  | .node _ _ m _ _ _ => pcmp m (some p) = .lt

/-- `search` (the loop, by recursion on the tree) -/
def search : Tree T → Int → Option (Interval × T)
  | .nil, _ => none
  | .node xi xv _ l r _, p =>
    if xi.contains p then some (xi, xv)
    else if leftBelow l p then search r p
    else search l p

/-- `searchInterval` -/
def searchInterval : Tree T → Interval → Option (Interval × T)
  | .nil, _ => none
  | .node xi xv _ l r _, i =>
    if xi.intersects i then some (xi, xv)
    else if leftBelow l i.min then searchInterval r i
    else searchInterval l i

/-- `searchAll` with its accumulator: `(found, entries)` -/
def searchAll : Tree T → Int → List (Interval × T) → Bool × List (Interval × T)
  | .nil, _, acc => (false, acc)
  | .node xi xv _ l r _, p, acc =>
    let found1 := xi.contains p
    let acc1 := if found1 then acc ++ [(xi, xv)] else acc
    let x2 := if !leftBelow l p then searchAll l p acc1 else (false, acc1)
    let x3 := if x2.1 || leftBelow l p then searchAll r p x2.2 else (false, x2.2)
    (found1 || x2.1 || x3.1, x3.2)

/-- `SearchAll` -/
def searchAllTop (t : Tree T) (p : Int) : List (Interval × T) := (searchAll t p []).2

/-- `Values`: `append(append(left.Values(), right.Values()...), value)` -/
def values : Tree T → List T
  | .nil => []
  | .node _ xv _ l r _ => values l ++ values r ++ [xv]

def checkCount : Tree T → Bool
  | .nil => true
  | .node _ _ _ l r n => checkCount l && checkCount r && n == 1 + l.size + r.size

/-- `checkMax` (not recursive in the Go code either) -/
def checkMax : Tree T → Bool
  | .nil => true
  | .node i _ m l r _ => pcmp m (max3 (some i.max) l.maxPos r.maxPos) == .eq

def check (t : Tree T) : Bool := checkCount t && checkMax t

/-- the entries in in-order -/
def entries : Tree T → List (Interval × T)
  | .nil => []
  | .node xi xv _ l r _ => entries l ++ (xi, xv) :: entries r

end Verif.Model.DS.IntervalST
