/-
C51 — code-shaped model of `common/orderedmap/orderedmap.go` (with the part of `common/list` it
uses), method by method.  Core Lean only.

Go state: `pairs map[K]*Pair[K,V]` (index) and `list *list.List[*Pair[K,V]]` (insertion order).  A
`Pair` is a heap object `{Key, Value, element}`; the map and the list both point to it.

Model state:
* `uninit` — the zero value `OrderedMap{}`: `pairs == nil` and `list == nil` (the two fields are only
  ever set together, by `New` and `ensureInitialized`);
* `init pairs list` — `pairs : GoMap K V` is the index map composed with the `Value` field of the pair
  it points to (an *unordered* Go map: modelled as an association list to which new keys are consed,
  so its order is unrelated to insertion order); `list : List K` is the linked list of pair pointers,
  each pair identified by its (immutable, unique) `Key`.

Every method below follows the Go method of the same name statement by statement; loops over
`Oldest()/Next()` become a traversal of `list`, reading `pair.Value` becomes a lookup in `pairs`.
-/
import Verif.Model.DS.Ops
namespace Verif.Model.DS
open Verif.DS

/-! ### Go's built-in map, as far as these packages use it -/
abbrev GoMap (K V : Type) := List (K × V)
namespace GoMap
variable {K V : Type} [DecidableEq K]

/-- `v, ok := m[k]` -/
def get (m : GoMap K V) (k : K) : Option V :=
  match m with
  | [] => none
  | p :: t => if p.1 = k then some p.2 else get t k

/-- `delete(m, k)` -/
def delete (m : GoMap K V) (k : K) : GoMap K V := m.filter (fun p => p.1 ≠ k)

/-- `m[k] = v` -/
def put (m : GoMap K V) (k : K) (v : V) : GoMap K V := (k, v) :: delete m k

/-- `len(m)` -/
def len (m : GoMap K V) : Nat := m.length

end GoMap

namespace OrderedMap
variable {K V : Type} [DecidableEq K]

inductive OM (K V : Type) where
  | uninit
  | init (pairs : GoMap K V) (list : List K)

/-- `&OrderedMap[K,V]{}` -/
def zero : OM K V := .uninit
/-- `New(size)` -/
def new : OM K V := .init [] []

/-- `ensureInitialized`, returning the two fields -/
def ensureInitialized : OM K V → GoMap K V × List K
  | .uninit => ([], [])
  | .init ps l => (ps, l)

/-- `pair.Value = value` for the pair of key `k` (a write to the heap object, not to the map) -/
def setPairValue (ps : GoMap K V) (k : K) (v : V) : GoMap K V :=
  ps.map (fun p => if p.1 = k then (p.1, v) else p)

/-- `om.pairs[key]` as a `*Pair` (rendered as the pair's key and current value) -/
def pairOf (ps : GoMap K V) (k : K) : Option (K × V) := (GoMap.get ps k).map (fun v => (k, v))

def clear : OM K V → OM K V
  | .uninit => .uninit                 -- `if om.list == nil { return }`
  | .init _ _ => .init [] []           -- `om.list.Init(); clear(om.pairs)`

def get : OM K V → K → Option V
  | .uninit, _ => none
  | .init ps _, k => GoMap.get ps k

def contains : OM K V → K → Bool
  | .uninit, _ => false
  | .init ps _, k => (GoMap.get ps k).isSome

def getPair : OM K V → K → Option (K × V)
  | .uninit, _ => none
  | .init ps _, k => pairOf ps k

def set (om : OM K V) (k : K) (v : V) : OM K V × Option V :=
  let (ps, l) := ensureInitialized om
  match GoMap.get ps k with
  | some old => (.init (setPairValue ps k v) l, some old)
  | none => (.init (GoMap.put ps k v) (l ++ [k]), none)      -- `PushBack`, `om.pairs[key] = pair`

def delete : OM K V → K → OM K V × Option V
  | .uninit, _ => (.uninit, none)
  | .init ps l, k =>
    match GoMap.get ps k with
    | none => (.init ps l, none)
    | some old => (.init (GoMap.delete ps k) (l.erase k), some old)   -- `list.Remove(pair.element)`

def len : OM K V → Nat
  | .uninit => 0
  | .init ps _ => GoMap.len ps

/-- `elementToPair(om.list.Front())` -/
def oldest : OM K V → Option (K × V)
  | .uninit => none
  | .init ps l => match l.head? with | none => none | some k => pairOf ps k

def newest : OM K V → Option (K × V)
  | .uninit => none
  | .init ps l => match l.getLast? with | none => none | some k => pairOf ps k

/-- the list element after the element holding key `k` -/
def elementAfter (l : List K) (k : K) : Option K :=
  match l.dropWhile (fun x => x ≠ k) with
  | _ :: k' :: _ => some k'
  | _ => none

/-- `p := om.GetPair(k); if p != nil { p.Next() }` -/
def next : OM K V → K → Option (Option (K × V))
  | .uninit, _ => none
  | .init ps l, k =>
    match pairOf ps k with
    | none => none
    | some _ => some (match elementAfter l k with | none => none | some k' => pairOf ps k')

def prev : OM K V → K → Option (Option (K × V))
  | .uninit, _ => none
  | .init ps l, k =>
    match pairOf ps k with
    | none => none
    | some _ => some (match elementAfter l.reverse k with | none => none | some k' => pairOf ps k')

/-- the callback invocations of `for pair := om.Oldest(); pair != nil; pair = pair.Next() { f(pair.Key, pair.Value) }` -/
def foreach : OM K V → List (K × V)
  | .uninit => []
  | .init ps l => l.filterMap (pairOf ps)

def foreachWithIndex (om : OM K V) : List (Nat × K × V) :=
  match om with
  | .uninit => []
  | .init _ _ => withIndex 0 (foreach om)

def foreachWithError (om : OM K V) (stop : K → Bool) : List (K × V) × Bool :=
  match om with
  | .uninit => ([], false)
  | .init _ _ => let x := visitUntil (fun p => stop p.1) (foreach om); (x.2, x.1)

def forAllKeys (om : OM K V) (p : K → Bool) : Bool × List K :=
  match om with
  | .uninit => (true, [])
  | .init _ _ => let x := visitUntil (fun k => !p k) ((foreach om).map Prod.fst); (!x.1, x.2)

def forAnyKey (om : OM K V) (p : K → Bool) : Bool × List K :=
  match om with
  | .uninit => (false, [])       -- after `fix:` 2fef6c8 (was `true`)
  | .init _ _ => visitUntil p ((foreach om).map Prod.fst)

/-- `om.Foreach(func(key, _) { isDisjoint = isDisjoint && !other.Contains(key) })` -/
def keySetIsDisjointFrom (om other : OM K V) : Bool :=
  (foreach om).foldl (fun acc p => acc && !contains other p.1) true

def setAll (om : OM K V) (other : Option (OM K V)) : OM K V :=
  match other with
  | none => om
  | some o => (foreach o).foldl (fun m p => (set m p.1 p.2).1) om

def keySetIntersection (om other : OM K V) : OM K V :=
  (foreach om).foldl (fun m p => if contains other p.1 then (set m p.1 p.2).1 else m) new

def keySetUnion (om other : OM K V) : OM K V := setAll (setAll new (some om)) (some other)

def impl (K V : Type) [DecidableEq K] : OMImpl K V where
  M := OM K V
  new := new
  zero := zero
  set := set
  get := get
  contains := contains
  getPair := getPair
  delete := delete
  len := len
  oldest := oldest
  newest := newest
  next := next
  prev := prev
  foreach := foreach
  foreachWithIndex := foreachWithIndex
  foreachWithError := foreachWithError
  forAllKeys := forAllKeys
  forAnyKey := forAnyKey
  keySetIsDisjointFrom := keySetIsDisjointFrom
  keySetIntersection := keySetIntersection
  keySetUnion := keySetUnion
  setAll := setAll
  clear := clear

end OrderedMap
end Verif.Model.DS
