/-
C51 — code-shaped model of `common/bimap/bimap.go`, method by method.  Core Lean only.
State: the two Go maps `forward map[K]V`, `backward map[V]K`; `zero` is the zero value `BiMap{}`
(both maps nil: reads and `delete` work, assignment panics).
-/
import Verif.Model.DS.OrderedMap
namespace Verif.Model.DS.BiMap
open Verif.DS Verif.Model.DS
variable {K V : Type} [DecidableEq K] [DecidableEq V]

inductive BM (K V : Type) where
  | zero
  | mk (forward : GoMap K V) (backward : GoMap V K)

/-- `NewBiMap()` -/
def new : BM K V := .mk [] []

def forward : BM K V → GoMap K V
  | .zero => []
  | .mk f _ => f
def backward : BM K V → GoMap V K
  | .zero => []
  | .mk _ b => b

/-- `Insert`; `none` = Go panic (assignment to entry in nil map), the receiver is unchanged -/
def insert : BM K V → K → V → Option (BM K V)
  | .zero, _, _ => none
  | .mk f b, k, v =>
    -- if existing, ok := b.forward[k]; ok { delete(b.backward, existing) }
    let b1 := match GoMap.get f k with | some existing => GoMap.delete b existing | none => b
    -- if existing, ok := b.backward[v]; ok { delete(b.forward, existing) }
    let f1 := match GoMap.get b1 v with | some existing => GoMap.delete f existing | none => f
    -- b.forward[k] = v; b.backward[v] = k
    some (.mk (GoMap.put f1 k v) (GoMap.put b1 v k))

def exists_ (m : BM K V) (k : K) : Bool := (GoMap.get (forward m) k).isSome
def existsInverse (m : BM K V) (v : V) : Bool := (GoMap.get (backward m) v).isSome

def get (m : BM K V) (k : K) : Option V :=
  if !exists_ m k then none else GoMap.get (forward m) k
def getInverse (m : BM K V) (v : V) : Option K :=
  if !existsInverse m v then none else GoMap.get (backward m) v

def delete (m : BM K V) (k : K) : BM K V :=
  if !exists_ m k then m else
  match m, get m k with
  | .mk f b, some val => .mk (GoMap.delete f k) (GoMap.delete b val)
  | m, _ => m          -- unreachable: `exists_` is false on the zero value

def deleteInverse (m : BM K V) (v : V) : BM K V :=
  if !existsInverse m v then m else
  match m, getInverse m v with
  | .mk f b, some key => .mk (GoMap.delete f key) (GoMap.delete b v)
  | m, _ => m

def size (m : BM K V) : Nat := GoMap.len (forward m)

def step (m : BM K V) : BMOp K V → BM K V × BMObs K V
  | .insert k v => match insert m k v with | some m' => (m', .done) | none => (m, .goPanic)
  | .exists_ k => (m, .bool (exists_ m k))
  | .existsInverse v => (m, .bool (existsInverse m v))
  | .get k => (m, .val (get m k))
  | .getInverse v => (m, .key (getInverse m v))
  | .delete k => (delete m k, .done)
  | .deleteInverse v => (deleteInverse m v, .done)
  | .size => (m, .nat (size m))

def run (m : BM K V) : List (BMOp K V) → List (BMObs K V)
  | [] => []
  | op :: ops => (step m op).2 :: run (step m op).1 ops

/-- the state after an operation sequence -/
def after (m : BM K V) : List (BMOp K V) → BM K V
  | [] => m
  | op :: ops => after (step m op).1 ops

end Verif.Model.DS.BiMap
