import Verif.Util.Proto
import Verif.Model.Import
import Verif.Spec.Import
import Verif.Model.Types.Subtype
import Verif.Gen.SubtypeRules
/-! Driver for stream `args` (C29): ops `arg engine T json sx`, `count engine np na`, `decl id`
    (formats: see `harness/cmd/vharness/stream_args.go`).  The context of the model is instantiated
    with the interpretation of the regenerated subtype rules (C08's model) and the declarations of the
    contract the harness deploys. -/
open Verif.Proto Verif.Model.Types Verif.Model.Auth Verif.Model.Import

def rules := Verif.Gen.SubtypeRules.rules

/-! ### parsing -/

def parseKind : String → Option Kind
  | "struct" => some .struct | "resource" => some .resource | "contract" => some .contract
  | "enum" => some .enum | "attachment" => some .attachment | "event" => some .event | _ => none

def parseNames (s : String) : List String := if s == "-" then [] else s.splitOn ","

mutual
partial def parseTy : List String → Option (Ty × List String)
  | "p" :: n :: rest => some (.prim n, rest)
  | "o" :: rest => (parseTy rest).map (fun (t, r) => (.opt t, r))
  | "va" :: rest => (parseTy rest).map (fun (t, r) => (.varArr t, r))
  | "ca" :: n :: rest => match n.toNat? with
    | some n => (parseTy rest).map (fun (t, r) => (.constArr t n, r))
    | none => none
  | "d" :: rest => match parseTy rest with
    | some (k, r) => (parseTy r).map (fun (v, r') => (.dict k v, r'))
    | none => none
  | "r" :: "u" :: rest => (parseTy rest).map (fun (t, r) => (.ref unauthorized t, r))
  | "comp" :: name :: kind :: confs :: base :: rest =>
    (parseKind kind).map (fun k => (.comp name k (parseNames confs) (base == "1"), rest))
  | "if" :: name :: kind :: confs :: rest =>
    (parseKind kind).map (fun k => (.iface { name := name, kind := k, confs := parseNames confs }, rest))
  | "in" :: n :: rest => match n.toNat? with
    | some n => (parseIfaces n rest).map (fun (is, r) => (.inter is, r))
    | none => none
  | "f" :: _ :: "0" :: rest => (parseTy rest).map (fun (ret, r) => (.fn false .nilT ret, r))
  | "capany" :: rest => some (.capAny, rest)
  | "cap" :: rest => (parseTy rest).map (fun (t, r) => (.cap t, r))
  | _ => none
partial def parseIfaces : Nat → List String → Option (List Iface × List String)
  | 0, rest => some ([], rest)
  | n + 1, toks => match parseTy toks with
    | some (.iface i, r) => (parseIfaces n r).map (fun (is, r') => (i :: is, r'))
    | _ => none
end

def tokens (s : String) : List String :=
  (((s.replace "(" " ( ").replace ")" " ) ").splitOn " ").filter (· != "")

def parseType (s : String) : Option Ty :=
  match parseTy (tokens s) with
  | some (t, []) => some t
  | _ => none

/-- a parsed value: the external reading (types dropped) and, when every array / dictionary carries
    a type, the internal reading -/
abbrev PV := XV × Option IV

def pvLeaf (x : XV) (i : IV) : PV := (x, some i)

def allSome {α} : List (Option α) → Option (List α)
  | [] => some []
  | none :: _ => none
  | some a :: r => (allSome r).map (a :: ·)

mutual
partial def parseV : List String → Option (PV × List String)
  | "void" :: r => some (pvLeaf .void .void, r)
  | "nil" :: r => some (pvLeaf .none .nil, r)
  | "fn" :: r => some ((.func, none), r)
  | "contract" :: r => some ((.contract, none), r)
  | "(" :: "some" :: r =>
    match parseV r with
    | some ((x, i), ")" :: r') => some ((.some x, i.map .some), r')
    | _ => none
  | "(" :: "bool" :: b :: ")" :: r => some (pvLeaf (.bool (b == "1")) (.bool (b == "1")), r)
  | "(" :: "str" :: h :: ")" :: r => some (pvLeaf (.str h) (.str h), r)
  | "(" :: "char" :: h :: ")" :: r => some (pvLeaf (.char h) (.char h), r)
  | "(" :: "addr" :: h :: ")" :: r => some (pvLeaf (.addr h) (.addr h), r)
  | "(" :: "num" :: k :: n :: ")" :: r => n.toInt?.map fun n => (pvLeaf (.num k n) (.num k n), r)
  | "(" :: "path" :: d :: i :: ")" :: r => some (pvLeaf (.path d i) (.path d i), r)
  | "(" :: "type" :: "!" :: ")" :: r => some ((.typeV none, none), r)
  | "(" :: "type" :: r =>
    match parseTy r with
    | some (t, ")" :: r') => some (pvLeaf (.typeV (some t)) (.typeV t), r')
    | _ => none
  | "(" :: "cap" :: id :: a :: r =>
    match id.toNat?, parseTy r with
    | some id, some (t, ")" :: r') => some (pvLeaf (.cap id a t) (.cap id a t), r')
    | _, _ => none
  | "(" :: "arr" :: r =>
    let tr : Option (Option Ty × List String) :=
      match r with
      | "_" :: r' => some (none, r')
      | _ => (parseTy r).map fun (t, r') => (some t, r')
    match tr with
    | some (t, r') =>
      match parseVs r' with
      | some (vs, r'') =>
        let iv : Option IV := match t, allSome (vs.map (·.2)) with
          | some t, some ivs => some (.arr t (IVs.ofList ivs))
          | _, _ => none
        some ((.arr (XVs.ofList (vs.map (·.1))), iv), r'')
      | none => none
    | none => none
  | "(" :: "dict" :: r =>
    let tr : Option (Option Ty × List String) :=
      match r with
      | "_" :: r' => some (none, r')
      | _ => (parseTy r).map fun (t, r') => (some t, r')
    match tr with
    | some (t, r') =>
      match parsePairs r' with
      | some (ps, r'') =>
        let iv : Option IV := match t, allSome (ps.map fun (k, v) => match k.2, v.2 with | some a, some b => some (a, b) | _, _ => none) with
          | some (.dict kt vt), some ips => some (.dict kt vt (IPairs.ofList ips))
          | _, _ => none
        some ((.dict (XPairs.ofList (ps.map fun (k, v) => (k.1, v.1))), iv), r'')
      | none => none
    | none => none
  | "(" :: "comp" :: kind :: id :: r =>
    match parseKind kind, parseFields r with
    | some k, some (fs, r') =>
      let iv : Option IV := (allSome (fs.map fun (n, v) => v.2.map fun i => (n, i))).map fun ifs => .comp k id (IFields.ofList ifs)
      some ((.comp k id (XFields.ofList (fs.map fun (n, v) => (n, v.1))), iv), r')
    | _, _ => none
  | _ => none
partial def parseVs : List String → Option (List PV × List String)
  | ")" :: r => some ([], r)
  | toks => match parseV toks with
    | some (v, r) => (parseVs r).map fun (vs, r') => (v :: vs, r')
    | none => none
partial def parsePairs : List String → Option (List (PV × PV) × List String)
  | ")" :: r => some ([], r)
  | "(" :: toks => match parseV toks with
    | some (k, r) => match parseV r with
      | some (v, ")" :: r') => (parsePairs r').map fun (ps, r'') => ((k, v) :: ps, r'')
      | _ => none
    | none => none
  | _ => none
partial def parseFields : List String → Option (List (String × PV) × List String)
  | ")" :: r => some ([], r)
  | "(" :: n :: toks => match parseV toks with
    | some (v, ")" :: r) => (parseFields r).map fun (fs, r') => ((n, v) :: fs, r')
    | _ => none
  | _ => none
end

def parseValue (s : String) : Option PV :=
  match parseV (tokens s) with
  | some (v, []) => some v
  | _ => none

/-! ### the declarations of the deployed contract (checked against the running checker by the `decl` ops) -/

def pfx := "A.0000000000000001.C."
def tyI : Iface := { name := pfx ++ "I", kind := .struct, confs := [] }
def tyS : Ty := .comp (pfx ++ "S") .struct [pfx ++ "I"] false
def tyE : Ty := .comp (pfx ++ "E") .enum [] false
def plain (n : String) (k : Kind) : Ty := .comp (pfx ++ n) k [] false

def declTable : List (String × Decl) := [
  (pfx ++ "S", { kind := .struct, ty := tyS, fields := [("x", .prim "Int"), ("y", .prim "String")], importable := true }),
  (pfx ++ "Empty", { kind := .struct, ty := plain "Empty" .struct, fields := [], importable := true }),
  (pfx ++ "E", { kind := .enum, ty := tyE, fields := [("rawValue", .prim "UInt8")], importable := true }),
  (pfx ++ "F", { kind := .enum, ty := plain "F" .enum, fields := [("rawValue", .prim "Int")], importable := true }),
  (pfx ++ "R", { kind := .resource, ty := plain "R" .resource, fields := [("uuid", .prim "UInt64"), ("id", .prim "Int")], importable := false }),
  (pfx ++ "Ev", { kind := .event, ty := plain "Ev" .event, fields := [("x", .prim "Int")], importable := false }),
  (pfx ++ "U", { kind := .struct, ty := plain "U" .struct, fields := [("any", .prim "AnyStruct")], importable := true }),
  (pfx ++ "Fn", { kind := .struct, ty := plain "Fn" .struct, fields := [("f", .opt (.fn false .nilT (.prim "Void")))], importable := false }),
  (pfx ++ "T", { kind := .struct, ty := plain "T" .struct,
                 fields := [("s", tyS), ("o", .opt (.prim "Int")), ("a", .varArr (.prim "UInt8")), ("d", .dict (.prim "String") (.prim "Int"))], importable := true }),
  (pfx ++ "W", { kind := .struct, ty := plain "W" .struct,
                 fields := [("e", tyE), ("i", .inter [tyI]), ("p", .prim "StoragePath"), ("t", .prim "MetaType"), ("os", .opt tyS)], importable := true })
]

def fnStr : Ty → String
  | .opt (.fn _ _ r) => "o f impure 0 " ++ tyStr r
  | t => tyStr t

def declLine (d : Decl) : String :=
  "decl " ++ kindName d.kind ++ " " ++ ";".intercalate (d.fields.map fun (n, t) => n ++ "=" ++ fnStr t)

/-! ### `sema.LeastCommonSuperType` on the run-time types the importer infers from.
    Ported: no types / only `Never`, one distinct type, the numeric and path joins of
    `findCommonSuperType`.  Everything else (optionals, containers, composites of different types)
    is reported as `?lcs`; an argument whose import depends on it is compared with the spec only. -/

def signedInts := ["Int", "Int8", "Int16", "Int32", "Int64", "Int128", "Int256"]
def fixedUnsigned := ["UInt8", "UInt16", "UInt32", "UInt64", "UInt128", "UInt256", "Word8", "Word16", "Word32", "Word64", "Word128", "Word256"]
def allInts := signedInts ++ ["UInt"] ++ fixedUnsigned
def signedFix := ["Fix64", "Fix128"]
def allFix := signedFix ++ ["UFix64", "UFix128"]

def lcsUnknown : Ty := .prim "?lcs"

def primNames : List Ty → Option (List String)
  | [] => some []
  | .prim n :: r => (primNames r).map (n :: ·)
  | _ => none

def lcsDrv (ts : List Ty) : Option Ty :=
  let ts' := ts.filter (· != never)
  match ts' with
  | [] => if ts.isEmpty then none else some never
  | t :: r =>
    if ts'.any (fun t => match t with | .opt _ => true | _ => false) then some lcsUnknown else
    if r.all (· == t) then some t else
    match primNames ts' with
    | some ns =>
      let within (s : List String) := ns.all s.contains
      if within signedInts then some (.prim "SignedInteger")
      else if within fixedUnsigned then some (.prim "FixedSizeUnsignedInteger")
      else if within allInts then some (.prim "Integer")
      else if within signedFix then some (.prim "SignedFixedPoint")
      else if within allFix then some (.prim "FixedPoint")
      else if within (signedInts ++ signedFix) then some (.prim "SignedNumber")
      else if within (allInts ++ allFix) then some (.prim "Number")
      else if within ["PublicPath", "PrivatePath"] then some (.prim "CapabilityPath")
      else if within ["PublicPath", "PrivatePath", "StoragePath"] then some (.prim "Path")
      else some lcsUnknown
    | none => some lcsUnknown

def fuel : Nat := 4000

/-- `?lcs` stands for a join that is not ported; in the first reading it is related to every type
    in both directions, in the second reading it is `InvalidType`.  When the two readings of an
    argument give the same rendered outcome, the outcome does not depend on the unknown join. -/
def wild (f : Ty → Ty → Bool) (a b : Ty) : Bool := a == lcsUnknown || b == lcsUnknown || f a b

def mkCtx (lcs : List Ty → Option Ty) : Ctx := {
  decls := fun id => declTable.lookup id
  sub := wild fun a b => isSubRuntime rules fuel a b
  subSema := wild fun a b => isSubOfSema rules fuel a b
  semaSub := wild fun a b => isSub rules fuel a b
  lcs := lcs }

def ctx : Ctx := mkCtx lcsDrv
/-- a second reading of the unknown joins, to detect whether the outcome depends on them -/
def ctx' : Ctx := mkCtx fun ts => match lcsDrv ts with | some t => if t == lcsUnknown then none else some t | none => none

def under (s : String) : String := s.replace " " "_"

def renderOutcome (c : Ctx) : Outcome IV → String
  | .ok v => "accept " ++ under (tyStr (dynType c v)) ++ " 1 " ++ render v
  | .user s => "reject user " ++ s.name
  | .internal _ => "reject internal other"

def headTag : Ty → String
  | .prim n => if ["AnyStruct", "HashableStruct", "Number", "Integer", "SignedInteger", "Path"].contains n then "t-abstract" else "t-prim"
  | .opt _ => "t-opt" | .varArr _ => "t-varArr" | .constArr .. => "t-constArr" | .dict .. => "t-dict"
  | .comp _ k _ _ => "t-" ++ kindName k | .inter _ => "t-inter" | .capAny => "t-cap" | .cap _ => "t-cap" | _ => "t-other"

def xvTag : XV → String
  | .void => "v-void" | .none => "v-nil" | .some _ => "v-some" | .bool _ => "v-bool" | .str _ => "v-str" | .char _ => "v-char"
  | .addr _ => "v-addr" | .num .. => "v-num" | .path .. => "v-path" | .arr _ => "v-arr" | .dict _ => "v-dict"
  | .comp k _ _ => "v-" ++ kindName k | .typeV _ => "v-type" | .cap .. => "v-cap" | .func => "v-fn" | .contract => "v-contract"

/-- what the property requires of Go's answer, judged on Go's own output (no use of the model's
    import): an accepted argument reports a run-time type that is a subtype of the parameter type
    (Go's own `isSubtype` and the Lean relation), and the exported value is importable, conforms to
    its static types at every depth and has the reported run-time type; a rejection is a user error. -/
def specJudge (t : Ty) (go : String) : Option (String × String) :=
  let fs := go.splitOn " "
  match fs with
  | "accept" :: rt :: sub :: rest =>
    if sub != "1" then some ("accepted-not-subtype-go", "run-time type is a subtype of the parameter type") else
    match parseType (rt.replace "_" " ") with
    | none => none
    | some rty =>
      if !ctx.subSema rty t then some ("accepted-not-subtype", "run-time type is a subtype of the parameter type") else
      match parseValue (" ".intercalate rest) with
      | some (_, some v) =>
        if dynType ctx v != rty then some ("accepted-type-mismatch", "dump has the reported run-time type")
        else if !importable ctx v then some ("accepted-not-importable", "accepted value is importable")
        else if !conforms ctx v then some ("accepted-malformed", "accepted value conforms to its static type at every depth")
        else none
      | _ => none
  | "reject" :: cls :: _ =>
    if cls == "user" then none else some ("reject-" ++ cls, "invalid-argument user error")
  | ["static-reject"] => none
  | ["skip-non-address-location"] => none
  | _ => some ("go-panic-or-unexpected", "accept or user error")

def judgeArg (tS sx go : String) : Verdict :=
  match parseType tS with
  | none => .skip "bad-type"
  | some t =>
    if go == "sx-mismatch" then .skip "sx-mismatch" else
    match specJudge t go with
    | some (cls, says) => .violation cls says [headTag t]
    | none =>
      -- spec on the encoded argument: a surviving composite with a foreign kind tag is never accepted
      if go.startsWith "accept" && (match parseValue sx with | some p => Verif.Spec.Import.kindClash ctx p.1 | none => false) then
        .violation "accepted-composite-kind-mismatch" "a composite whose kind tag differs from its declaration's kind is rejected (user error)" [headTag t]
      else
      if go == "static-reject" then .skip "static-reject" else
      if go == "skip-non-address-location" then .skip "non-address-location" else
      if sx == "!oof" then .skip "oof" else
      let arg : Option (Option XV) :=
        if sx == "!decode" then some none else (parseValue sx).map fun p => some p.1
      match arg with
      | none => .skip "bad-sx"
      | some a =>
        let m := renderOutcome ctx ((importArg ctx a t).map (boxOptional · t))
        let m' := renderOutcome ctx' ((importArg ctx' a t).map (boxOptional · t))
        let tags := [headTag t, (match a with | some x => xvTag x | none => "v-undecodable"),
                     (match importArg ctx a t with | .ok _ => "m-accept" | .user s => "m-" ++ s.name | .internal _ => "m-internal")]
        if m != m' then .skip "lcs-not-ported"
        else if go == m then .ok ("!nt" :: tags)
        else .modelDiff m tags

def judge (op : List String) (go : String) : Verdict :=
  match op with
  | ["args", "arg", _eng, tS, _json, sx] => judgeArg tS sx go
  | ["args", "count", _eng, np, na] =>
    match np.toNat?, na.toNat? with
    | some np, some na =>
      let params := List.replicate np (Ty.prim "Int")
      let args := (List.range na).map fun (i : Nat) => some (XV.num "Int" (Int.ofNat i))
      let m := match importArgs ctx args params with
        | .ok _ => "accept" | .user s => "reject user " ++ s.name | .internal _ => "reject internal other"
      if go != "accept" && !go.startsWith "reject user" then .violation "reject-non-user" "accept or user error" ["count"]
      else if go == m then .ok ["!nt", "count", if np == na then "m-accept" else "m-count"] else .modelDiff m ["count"]
    | _, _ => .skip "bad-op"
  | ["args", "decl", id] =>
    match declTable.lookup id with
    | some d => if go == declLine d then .ok ["!nt", "decl"] else .modelDiff (declLine d) ["decl"]
    | none => .skip "unknown-decl"
  | _ => .skip "unknown-op"

def main : IO Unit := runDriver judge
