import Verif.Util.Proto
import Verif.Model.Lang3.AttachRead
/-!
Driver for the stream `attach` (C49).

  attach prog <label> forms=<..> <sx> <src> => <obs interp> @@ <obs vm> @@ <obs vm+peephole> | reject:<..>

Direct oracles on the Go observations (independent of the model):
  * `double-attach-succeeded`  — the program attaches an attachment type to a value that (syntactically
    tracked) already carries it, yet the run completed normally;
  * `attachment-outlives-base` — in a run that completed normally, a base's `R.ResourceDestroyed(id=i)`
    payload is followed by an attachment payload `A/B.ResourceDestroyed(id=i)` of the same base.
Then model = each engine; engines must agree.
-/
open Verif.Proto Verif.Model.Lang3.Attach

def renderObs (r : Except Err Unit × St) : String :=
  let out := match r.1 with
    | .ok _ => "ok:void"
    | .error .duplicateAttachment => "user:go:DuplicateAttachmentError"
    | .error (.internal w) => "model-internal:" ++ w
  let logs := r.2.tr.filterMap fun | .log s => some s | _ => none
  let evs := r.2.tr.filterMap fun
    | .event n fs => some (n ++ "(" ++ ",".intercalate (fs.map fun (k, v) => k ++ "=Int:" ++ toString v) ++ ")")
    | _ => none
  out ++ "|" ++ ";".intercalate logs ++ "|" ++ ";".intercalate evs

/-- syntactic tracking: variable ↦ set of attachment types, stash queue; returns whether some attach hits
an existing type -/
def hasDoubleAttach (ss : List Stmt) : Bool :=
  let rec go (ss : List Stmt) (vars : List (Nat × List Nat)) (stash : List (List Nat)) : Bool :=
    let get := fun (x : Nat) => ((vars.find? (·.1 == x)).map (·.2)).getD []
    match ss with
    | [] => false
    | .create x _ _ _ :: r => go r ((x, []) :: vars) stash
    | .attach x' a _ x :: r => (get x).contains a || go r ((x', a :: get x) :: vars) stash
    | .remove a x :: r => go r ((x, (get x).filter (· != a)) :: vars) stash
    | .move x' x :: r => go r ((x', get x) :: vars) stash
    | .push x :: r => go r vars (stash ++ [get x])
    | .pop x' :: r => (match stash with | t :: ts => go r ((x', t) :: vars) ts | [] => go r vars stash)
    | _ :: r => go r vars stash
  go ss [] []

/-- `R.ResourceDestroyed(id=Int:i,…)` followed later by `A|B.ResourceDestroyed(id=Int:i,…)` -/
def attAfterBase (o : String) : Bool :=
  match o.splitOn "|" with
  | [_, _, evs] =>
    let es := if evs.isEmpty then [] else evs.splitOn ";"
    let idOf := fun (e : String) => ((e.splitOn "(id=Int:").getD 1 "").takeWhile (fun c => c.isDigit || c == '-') |>.toString
    let rec go : List String → Bool
      | [] => false
      | e :: rest =>
        (e.startsWith "R.ResourceDestroyed" && rest.any fun f => !f.startsWith "R." && idOf f == idOf e) || go rest
    go es
  | _ => false

def evId (e : String) : String :=
  ((e.splitOn "(id=Int:").getD 1 "").takeWhile (fun c => c.isDigit || c == '-') |>.toString

def insertSorted (e : String) : List String → List String
  | [] => [e]
  | f :: fs => if e ≤ f then e :: f :: fs else f :: insertSorted e fs

/-- The attachments of one base are destroyed in the iteration order of the base's hidden fields (an
atree map, hash order): the order among the attachment payloads of one base is not part of the
observation.  Maximal runs of consecutive attachment payloads with the same base id are sorted. -/
def normEvents (es : List String) : List String :=
  let rec go (es : List String) (run : List String) (runId : String) (acc : List String) : List String :=
    match es with
    | [] => acc ++ run
    | e :: rest =>
      if !e.startsWith "R." && (run.isEmpty || evId e == runId) then go rest (insertSorted e run) (evId e) acc
      else if !e.startsWith "R." then go rest [e] (evId e) (acc ++ run)
      else go rest [] "" (acc ++ run ++ [e])
  go es [] "" []

def normObs (o : String) : String :=
  match o.splitOn "|" with
  | [a, b, evs] => a ++ "|" ++ b ++ "|" ++ ";".intercalate (normEvents (if evs.isEmpty then [] else evs.splitOn ";"))
  | _ => o

def judge (op : List String) (go0 : String) : Verdict :=
  let go := " @@ ".intercalate ((go0.splitOn " @@ ").map normObs)
  match op with
  | _ :: "prog" :: _ =>
    let sx := op.getD 4 ""
    let forms := ((op.getD 3 "").drop 6).toString.splitOn "," |>.filter (· ≠ "")
    if go0.startsWith "reject:" then .skip "rejected-by-checker" else
    match readProgram sx, go.splitOn " @@ " with
    | some p, [oi, ov, oo] =>
      let m := normObs (renderObs (run St.init p))
      let outTag := (m.splitOn "|").headD ""
      let tags := forms ++ [outTag] ++ (if forms.isEmpty then [] else ["!nt"])
      if hasDoubleAttach p && (oi.startsWith "ok:" || ov.startsWith "ok:" || oo.startsWith "ok:") then
        .violation "double-attach-succeeded" "a second attach of the same attachment type must fail" tags
      else if attAfterBase oi || attAfterBase ov || attAfterBase oo then
        .violation "attachment-outlives-base" "attachments are destroyed before their base" tags
      else if oi ≠ ov then .violation "engines-differ" ("vm = interpreter = " ++ oi) tags
      else if ov ≠ oo then .violation "peephole-differs" ("vm+peephole = vm = " ++ ov) tags
      else if m.startsWith "model-internal" then .skip m
      else if m ≠ oi then .modelDiff m tags
      else .ok tags
    | none, _ => .skip "sx-unreadable"
    | _, _ => .skip "bad-go-result"
  | _ => .skip "unknown-op"

def main : IO Unit := runDriver judge
