import Verif.Util.Proto
import Verif.Model.Lang.VM.Peephole
/-! Driver for stream `peep` (C34, peephole part).

ops `peep src <name> <fn index> <hex source> <unoptimised list>` and
    `peep synth <name> <tokens> <unoptimised list>`; Go result `ok:<optimised list>` | `panic` | …

Two judgements per line:
* the port `Verif.Model.Lang.VM.Peephole.optimize` on the unoptimised list must equal Go's list
  (else `MODELDIFF`);
* independently of the port, the spec (`specCheck`): Go's list must be an order-preserving
  translation of the unoptimised list — a greedy alignment that may only (a) copy an instruction,
  (b) drop a `TransferAndConvert` directly after `GetConstant` / `NewPath` / `Nil`, (c) fuse
  `GetLocal; GetField` into `GetFieldLocal` — in which no jump target lies inside a dropped / fused
  window and every jump's new target is the image of its old target (else `VIOLATION
  peephole-jump-target`).
-/
open Verif.Proto Verif.Model.Lang.VM.Peephole

def parseItem (s : String) : Option PInstr :=
  match s.splitOn ":" with
  | [op, tgt, kind, path, payload] =>
    if tgt == "" then
      if jumpOps.contains op then none else some { op, kind, path, payload }
    else
      match tgt.toNat? with
      | some t => if jumpOps.contains op then some { op, target := t, kind, path, payload } else none
      | none => none
  | _ => none

def parseList (s : String) : Option (List PInstr) :=
  if s == "-" then some [] else (s.splitOn ";").mapM parseItem

def renderItem (i : PInstr) : String :=
  i.op ++ ":" ++ (if isJump i then toString i.target else "") ++ ":" ++ i.kind ++ ":" ++ i.path ++ ":" ++ i.payload

def renderList (l : List PInstr) : String :=
  if l.isEmpty then "-" else ";".intercalate (l.map renderItem)

def renderRes : Except Panic (List PInstr) → String
  | .ok l => "ok:" ++ renderList l
  | .error _ => "panic"

/-! ### the independent spec check -/

/-- Greedy alignment of `src` (from offset `i`) with `out` (from offset `p`).  Returns the boundary
map (source offset ↦ output offset, for every offset at which a translated unit starts, plus the
end), the source offsets strictly inside a rewritten window, and the aligned pairs of copied
instructions; `none` when `out` is not an order-preserving translation. -/
def align : Nat → Nat → Nat → List PInstr → List PInstr →
    List (Nat × Nat) → List Nat → List (PInstr × PInstr) →
    Option (List (Nat × Nat) × List Nat × List (PInstr × PInstr))
  | _, i, p, [], [], img, inner, pairs => some ((i, p) :: img, inner, pairs)
  | _, _, _, [], _ :: _, _, _, _ => none
  | 0, _, _, _ :: _, _, _, _, _ => none
  | fuel + 1, i, p, a :: src, out, img, inner, pairs =>
    let copy : Option _ :=
      match out with
      | b :: out' =>
        if a.op == b.op && a.kind == b.kind && a.path == b.path && a.payload == b.payload then
          align fuel (i + 1) (p + 1) src out' ((i, p) :: img) inner ((a, b) :: pairs)
        else none
      | [] => none
    -- copy first; when the rest cannot be aligned that way, try a rewritten window (backtracking)
    match copy with
    | some r => some r
    | none =>
      match src, out with
      | a2 :: src', b :: out' =>
        if a.op == "GetLocal" && a2.op == "GetField" && b.op == "GetFieldLocal"
            && b.payload == a2.payload ++ " " ++ a.payload then
          align fuel (i + 2) (p + 1) src' out' ((i, p) :: img) ((i + 1) :: inner) pairs
        else if (a.op == "GetConstant" || a.op == "NewPath" || a.op == "Nil") && a2.op == "TransferAndConvert"
            && a.op == b.op && a.kind == b.kind && a.path == b.path && a.payload == b.payload then
          align fuel (i + 2) (p + 1) src' out' ((i, p) :: img) ((i + 1) :: inner) pairs
        else none
      | _, _ => none

def lookup (img : List (Nat × Nat)) (t : Nat) : Option Nat :=
  (img.find? (fun x => x.1 == t)).map (·.2)

/-- `none` = spec satisfied; `some msg` = what is wrong -/
def specCheck (src out : List PInstr) : Option String :=
  match align (src.length + 1) 0 0 src out [] [] [] with
  | none => some "not-an-order-preserving-translation"
  | some (img, inner, pairs) =>
    let srcTargets := collectJumpTargets src
    if srcTargets.any (fun t => inner.contains t) then some "jump-target-inside-rewritten-window"
    else
      let bad := pairs.filter (fun (a, b) =>
        -- (targets beyond the end of the code have no image; only the port comparison covers them)
        isJump a && a.target ≤ src.length && lookup img a.target != some b.target)
      match bad with
      | [] => none
      | (a, b) :: _ => some s!"jump-{a.target}-retargeted-to-{b.target}-image-{(lookup img a.target).getD 0}"

/-- offsets (in the unoptimised list) of the windows a pattern matches but declines (replacement as
long as the window): the code is not shortened there, so the jump targets behind them must not move. -/
def keptLoop (jumpTargets : List Nat) : Nat → Nat → List PInstr → List Nat
  | _, _, [] => []
  | 0, _, _ :: _ => []
  | fuel + 1, i, cur :: tl =>
    match firstMatch jumpTargets i (cur :: tl) (patternsByOpcode allPatterns cur.op) with
    | some (candidate, window) =>
      let n := candidate.opcodes.length
      let rest := keptLoop jumpTargets fuel (i + n) ((cur :: tl).drop n)
      match candidate.replace window with
      | .ok r => if r.length == n then i :: rest else rest
      | .error _ => rest
    | none => keptLoop jumpTargets fuel (i + 1) tl

def judgeList (unopt go : String) (extra : List String) : Verdict :=
  match parseList unopt with
  | none => .skip "bad-op"
  | some src =>
    let model := optimize src
    let m := renderRes model
    let firedTags := (fired src).eraseDups
    let jumpsIn := (src.filter isJump).length
    let shifted := match model with
      | .ok o => (collectJumpTargets o) != (collectJumpTargets src)
      | .error _ => false
    let rewritten := firedTags.any (fun t => t.endsWith "-rewritten")
    let srcTargets := collectJumpTargets src
    let kept := keptLoop srcTargets src.length 0 src
    -- a declined window in front of a jump target: a pass that records a shift for it moves the target
    let keptBeforeTarget := kept.any fun off => srcTargets.any fun t => off < t
    let tags := extra ++ firedTags ++ (if jumpsIn > 0 then ["jumps"] else ["no-jumps"])
      ++ (if shifted then ["jump-shifted"] else [])
      ++ (if keptBeforeTarget then ["kept-before-target"] else [])
      ++ (if (rewritten && shifted) || keptBeforeTarget then ["!nt"] else [])
    if go == "panic" then
      -- the only panics of the pass: uint16 overflow (needs a positive shift: none of the real
      -- patterns grows the code) and an unknown path domain (never emitted by the compiler)
      if m == "panic" then .ok ("m-panic" :: "!nt" :: tags)
      else .violation "go-panic-or-internal" m tags
    else if go.startsWith "ok:" then
      match parseList (go.drop 3).toString with
      | none => .skip "bad-go-list"
      | some out =>
        match specCheck src out with
        | some msg => .violation "peephole-jump-target" msg tags
        | none => if go == m then .ok tags else .modelDiff m tags
    else .skip go

def judge (op : List String) (go : String) : Verdict :=
  match op with
  | ["peep", "src", _name, _fi, _src, unopt] =>
    if go == "compile-error" || go == "stale" then .skip go else judgeList unopt go ["src"]
  | ["peep", "synth", _name, _toks, unopt] =>
    if go == "compile-error" || go == "stale" then .skip go else judgeList unopt go ["synth"]
  | _ => .skip "unknown-op"

def main : IO Unit := runDriver judge
