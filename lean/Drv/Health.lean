import Verif.Util.Proto
import Verif.Model.Slabs
/-! Driver for stream `health` (C23): replays a history on the abstract slab heap (the protocol model),
    predicts which transactions commit, and requires the Go ledger to be healthy after every one.
    See harness/cmd/vharness/stream_health.go for the history language. -/
open Verif.Proto Verif.Model.Slabs

structure Sh where
  heap : Heap := Heap.empty
  /-- (account, path) ↦ resource stored at /storage/r<path> -/
  rpaths : List ((Nat × Nat) × SlabID) := []
  /-- (account, path) ↦ outer array stored at /storage/d<path> -/
  dpaths : List ((Nat × Nat) × SlabID) := []
  /-- (resource, key) ↦ dictionary entry -/
  dicts : List ((SlabID × String) × SlabID) := []

def lookupP (l : List ((Nat × Nat) × SlabID)) (k : Nat × Nat) : Option SlabID := (l.find? (·.1 == k)).map (·.2)
def eraseP (l : List ((Nat × Nat) × SlabID)) (k : Nat × Nat) := l.filter (·.1 != k)

/-- a resource tree of the given depth and width: `C.make` -/
def mk : Nat → Nat → Heap → Heap × SlabID
  | 0, _, h => (create h, h.next)
  | d + 1, w, h =>
    let id := h.next
    let h := create h
    let h := (List.range w).foldl (fun h _ => let (h', k) := mk d w h; insertChild h' id k) h
    (h, id)

def rootId (h : Heap) (a : Nat) : SlabID := (rootOf h a).getD 0

def kidsOf (s : Sh) (r : SlabID) : List SlabID :=
  let dv := (s.dicts.filter (·.1.1 == r)).map (·.2)
  ((s.heap.children r).getD []).filter (fun c => !dv.contains c)

/-- one transaction; `none` = the transaction fails (no effect) -/
def applyTx (s : Sh) (tok : List String) : Option Sh :=
  let n (i : Nat) : Nat := (tok.getD i "0").toNat!
  match tok.head? with
  | some "save" =>
    let k := (n 1, n 2)
    if (lookupP s.rpaths k).isSome then none else
    let h := newRoot s.heap k.1
    let (h, id) := mk (n 3) (n 4) h
    some { s with heap := insertChild h (rootId h k.1) id, rpaths := (k, id) :: s.rpaths }
  | some "destroy" =>
    let k := (n 1, n 2)
    (lookupP s.rpaths k).map fun id =>
      { s with heap := destroy (removeChild s.heap (rootId s.heap k.1) id) id, rpaths := eraseP s.rpaths k }
  | some "move" =>
    let k := (n 1, n 2); let k2 := (n 3, n 4)
    (lookupP s.rpaths k).bind fun id =>
      if k2 != k && (lookupP s.rpaths k2).isSome then none else
      let h := removeChild s.heap (rootId s.heap k.1) id
      let h := newRoot h k2.1
      some { s with heap := insertChild h (rootId h k2.1) id, rpaths := (k2, id) :: eraseP s.rpaths k }
  | some "addkid" =>
    (lookupP s.rpaths (n 1, n 2)).map fun id =>
      let (h, kid) := mk (n 3) (n 4) s.heap
      { s with heap := insertChild h id kid }
  | some "takekid" =>
    (lookupP s.rpaths (n 1, n 2)).bind fun id =>
      (kidsOf s id).head?.map fun kid => { s with heap := destroy (removeChild s.heap id kid) kid }
  | some "movekid" =>
    (lookupP s.rpaths (n 1, n 2)).bind fun src =>
      (lookupP s.rpaths (n 3, n 4)).bind fun dst =>
        (kidsOf s src).head?.map fun kid => { s with heap := step s.heap (.move src dst kid) }
  | some "kidtopath" =>
    let a := n 1
    (lookupP s.rpaths (a, n 2)).bind fun src =>
      (kidsOf s src).head?.bind fun kid =>
        if (lookupP s.rpaths (a, n 3)).isSome then none else
        some { s with heap := step s.heap (.move src (rootId s.heap a) kid), rpaths := ((a, n 3), kid) :: s.rpaths }
  | some "putdict" =>
    (lookupP s.rpaths (n 1, n 2)).map fun id =>
      let key := tok.getD 3 ""
      let (h, new) := mk (n 4) (n 5) s.heap
      match (s.dicts.find? (·.1 == (id, key))).map (·.2) with
      | some old =>
        { s with heap := step h (.overwrite id old new),
                 dicts := ((id, key), new) :: s.dicts.filter (·.1 != (id, key)) }
      | none => { s with heap := insertChild h id new, dicts := ((id, key), new) :: s.dicts }
  | some "takedict" =>
    (lookupP s.rpaths (n 1, n 2)).bind fun id =>
      let key := tok.getD 3 ""
      ((s.dicts.find? (·.1 == (id, key))).map (·.2)).map fun e =>
        { s with heap := destroy (removeChild s.heap id e) e, dicts := s.dicts.filter (·.1 != (id, key)) }
  | some "grow" => (lookupP s.rpaths (n 1, n 2)).map fun _ => s
  | some "shrink" => (lookupP s.rpaths (n 1, n 2)).map fun _ => s
  | some "savedata" =>
    let k := (n 1, n 2)
    if (lookupP s.dpaths k).isSome then none else
    let h := newRoot s.heap k.1
    let outer := h.next
    let h := create h
    let h := (List.range (n 3)).foldl (fun h _ => let i := h.next; insertChild (create h) outer i) h
    some { s with heap := insertChild h (rootId h k.1) outer, dpaths := (k, outer) :: s.dpaths }
  | some "copydata" =>
    let k := (n 1, n 2); let k2 := (n 3, n 4)
    (lookupP s.dpaths k).bind fun src =>
      if (lookupP s.dpaths k2).isSome then none else
      let h := newRoot s.heap k2.1
      let outer := h.next
      let h := create h
      let h := ((h.children src).getD []).foldl (fun h _ => let i := h.next; insertChild (create h) outer i) h
      some { s with heap := insertChild h (rootId h k2.1) outer, dpaths := (k2, outer) :: s.dpaths }
  | some "dropdata" =>
    let k := (n 1, n 2)
    (lookupP s.dpaths k).map fun outer =>
      { s with heap := destroy (removeChild s.heap (rootId s.heap k.1) outer) outer, dpaths := eraseP s.dpaths k }
  | some "setdata" =>
    let k := (n 1, n 2)
    (lookupP s.dpaths k).bind fun outer =>
      let cs := (s.heap.children outer).getD []
      if n 3 ≥ cs.length then none else
      let old := cs.getD (cs.length - 1 - n 3) 0
      let root := rootId s.heap k.1
      -- load (remove from the storage map), overwrite one element, save back
      let h := removeChild s.heap root outer
      let new := h.next
      let h := step (create h) (.overwrite outer old new)
      some { s with heap := insertChild h root outer }
  | some k =>
    -- Optional elements / fields holding immutable values (strings, integers) and the Int-array values of
    -- `sd`: immutable values are not containers of the protocol model (whether atree keeps one inline or
    -- in a storable slab of its own is atree's bookkeeping, like the inlining of `data`), so the pointer
    -- structure is unchanged; the model predicts which transactions commit (the resources exist; absent
    -- elements / keys / paths are tolerated by the transaction text) and the health oracle judges the rest.
    if ["addopt", "addbig", "copyopt", "copybig", "optone", "oneopt", "optod", "odopt", "optpath", "pathopt",
        "setsd", "rmsd", "clrsd", "readall"].contains k then
      (lookupP s.rpaths (n 1, n 2)).map fun _ => s
    else if k == "optto" then
      (lookupP s.rpaths (n 1, n 2)).bind fun _ => (lookupP s.rpaths (n 4, n 5)).map fun _ => s
    else none
  | none => none

def judge (op : List String) (go : String) : Verdict :=
  match op with
  | ["health", _engine, hist] =>
    let txs := (hist.splitOn "|").map fun t => (t.splitOn " ").filter (· != "")
    let rec go' (s : Sh) (txs : List (List String)) (obs : List String) (tags : List String) (bad : Bool) :
        List String × List String × Bool :=
      match txs with
      | [] => (obs.reverse, tags, bad)
      | tx :: rest =>
        let abort := tx.getLast? == some "!"
        let kind := tx.headD "?"
        match (if abort then none else applyTx s tx) with
        | some s' => go' s' rest ("c" :: obs) (("c-" ++ kind) :: tags) (bad || !s'.heap.healthy)
        | none => go' s rest ("f" :: obs) (("f-" ++ kind) :: tags) bad
    let (obs, tags, bad) := go' {} txs [] [] false
    let model := ",".intercalate obs
    let tags := "!nt" :: tags.eraseDups
    match (go.splitOn ",").find? (·.startsWith "unhealthy:") with
    | some u => .violation ("unhealthy-" ++ (u.drop 10).toString) "healthy after every transaction" tags
    | none =>
      if go == "panic" || go == "hang" then .violation "go-panic-or-hang" "healthy after every transaction" tags
      else if bad then .modelDiff "model-heap-unhealthy" tags
      else if go == model then .ok tags else .modelDiff model tags
  | _ => .skip "unknown-op"

def main : IO Unit := runDriver judge
