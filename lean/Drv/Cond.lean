import Verif.Util.Proto
import Verif.Model.Lang3.CondRead
/-!
Driver for the stream `cond` (C10).

  cond conf <graph>                       => EffectiveInterfaceConformances() of every declared type
  cond prog <label> forms=<..> <sx> <src> => <obs interp> @@ <obs vm> @@ <obs vm+peephole> | reject:<..>
       obs = <outcome>|<log;…>|<event;…>

`conf`: the port `distinctConformances` must reproduce the checker's list (order, chain roots); the
*spec* judged independently: the list has no duplicates and is exactly the set of types reachable
through explicit conformances (computed here by a naive fixpoint, not by the port).

`mprog`: the same calculus program rendered as two contracts (interfaces in CA, the composite in CB at the
same or at another address) and a script; judged exactly like `prog` (where a declaration lives is not
part of the calculus, so both models are unchanged).

`prog`, direct oracle (independent of the evaluator): `false-condition-ignored` — the run completed
normally although `main` calls a function that has a test condition in scope that is false in every state
(`mustFalse`: `false`, `e < e`, `e + k == e`, closed under `&&`, `||`, `!` — so also the reading
`(c && p) || (!c && q)` of a source conditional `c ? p : q` whose taken branch is false) (own, or
of any interface reachable from the composite; pre or post).
Go-vs-Go: the engines must agree (`engines-differ`) unless the two models say they differ and each engine
matches its model — class `vm-before-hoisted-over-pre` (known finding: the VM evaluates every inherited
`before` statement before the first inherited pre-condition).  Then each engine against its model:
interpreter vs the wrapper model (`runInterp`), VM vs the desugared model (`runVM`).
-/
open Verif.Proto Verif.Model.Lang3 Verif.Model.Lang3.Cond

def parseGraph (s : String) : Option (List (String × List Nat)) :=
  (s.splitOn "|").mapM fun part =>
    match part.splitOn ":" with
    | [n, cs] => do
      let xs ← (if cs.isEmpty then some [] else (cs.splitOn ",").mapM (·.toNat?))
      some (n, xs)
    | _ => none

/-- naive reachability (spec side): iterate `n` times -/
def reachFrom (g : Nat → List Nat) (n : Nat) (cs : List Nat) : List Nat :=
  let rec go : Nat → List Nat → List Nat
    | 0, acc => acc
    | k + 1, acc => go k ((acc ++ acc.flatMap g).eraseDups)
  go n cs.eraseDups

def sameSet (a b : List Nat) : Bool := a.all (b.contains ·) && b.all (a.contains ·)

def hasDupNat : List Nat → Bool
  | [] => false
  | a :: rest => rest.contains a || hasDupNat rest

def renderConfs (cs : List Conformance) : String :=
  ",".intercalate (cs.map fun c => toString c.iface ++ "/" ++ toString c.root)

def judgeConf (graph go : String) : Verdict :=
  match parseGraph graph with
  | none => .skip "bad-graph"
  | some nodes =>
    if go.startsWith "reject:" then .skip "rejected-by-checker" else
    let ifs := nodes.filter (·.1 != "S")
    let g : Nat → List Nat := fun i => match ifs[i]? with | some (_, cs) => cs | none => []
    let fuel := ifs.length + 1
    let model := "|".intercalate (nodes.map fun (n, cs) => n ++ "=" ++ renderConfs (distinctConformances g fuel cs))
    -- spec oracle on the Go answer
    let goParts := go.splitOn "|"
    let specOk := (nodes.zip goParts).all fun ((n, cs), gp) =>
      match gp.splitOn "=" with
      | [n', lst] =>
        let ids := (if lst.isEmpty then [] else lst.splitOn ",").filterMap fun pr => (pr.splitOn "/").head?.bind (·.toNat?)
        n == n' && !hasDupNat ids && sameSet ids (reachFrom g fuel cs)
      | _ => false
    let diamond := nodes.any fun (_, cs) => (distinctConformances g fuel cs).length < (cs ++ cs.flatMap g).length
    let tags := (if diamond then ["!nt", "shared-ancestor"] else ["tree"]) ++ ["n=" ++ toString ifs.length]
    if goParts.length != nodes.length || !specOk then
      .violation "conformance-closure" "no duplicates, exactly the reachable interfaces" tags
    else if model != go then .modelDiff model tags
    else .ok tags

mutual
/-- the test never evaluates to `true` (it is false, or it faults), recognised syntactically -/
def mustFalse : BExp → Bool
  | .ff => true
  | .lt l r => l == r                                   -- `e < e`, e.g. `before(e) < before(e)`
  | .eq (.add l (.lit k)) r => l == r && k != 0         -- `e + k == e`
  | .and l r => mustFalse l || mustFalse r
  | .or l r => mustFalse l && mustFalse r
  | .not e => mustTrue e
  | _ => false
/-- the test never evaluates to `false` -/
def mustTrue : BExp → Bool
  | .tt => true
  | .le l r => l == r
  | .eq l r => l == r
  | .and l r => mustTrue l && mustTrue r
  | .or l r => mustTrue l || mustTrue r
  | .not e => mustFalse e
  | _ => false
end

/-- a test that is false in every state in which it evaluates, recognised syntactically: `false`, `e < e`,
    `e + k == e`, closed under `&&`, `||`, `!` (a conditional expression `c ? p : q` of the source reaches
    the calculus as `(c && p) || (!c && q)`) -/
def condConstFalse : Cond → Bool
  | .test t => mustFalse t
  | .emit _ => false

def constFalseInScope (p : Program) (name : String) : Bool :=
  let reach := reachFrom p.graph (p.ifaces.length + 1) p.conforms
  let own := match p.funs.find? (·.name == name) with
    | some f => (f.conds.pre ++ f.conds.post).any condConstFalse | none => false
  own || reach.any fun i => match p.ifun i name with
    | some f => (f.conds.pre ++ f.conds.post).any condConstFalse | none => false

def renderInt (n : Int) : String := toString n

def renderErr : Err → String
  | .divZero => "user:div-zero"
  | .condFailed false => "user:cond-pre"
  | .condFailed true => "user:cond-post"
  | .missingReturn => "internal:missing-return"
  | .internal w => "model-internal:" ++ w
  | .outOfFuel => "model-out-of-fuel"

def renderRun (r : Except Err Unit × St) : String :=
  let out := match r.1 with | .ok _ => "ok:void" | .error e => renderErr e
  let logs := r.2.tr.filterMap fun | .log n => some (renderInt n) | _ => none
  let evs := r.2.tr.filterMap fun | .emit n => some ("E(id=Int:" ++ renderInt n ++ ")") | _ => none
  out ++ "|" ++ ";".intercalate logs ++ "|" ++ ";".intercalate evs

def progTags (p : Program) (r : Except Err Unit × St) : List String :=
  let nconf := p.confs.length
  let inh := p.main.map fun c => (p.inherited c.fn).length
  let maxInh := inh.foldl max 0
  let usesDefault := p.main.any fun c => (p.funs.find? (·.name == c.fn)).isNone
  let outTag := match r.1 with | .ok _ => "ok" | .error e => "e-" ++ ((renderErr e).splitOn ":").getLast!
  [outTag, "confs=" ++ toString nconf, "layers=" ++ toString maxInh] ++
    (if usesDefault then ["default-fn"] else []) ++ (if maxInh ≥ 1 then ["!nt"] else [])

def judgeProg (op : List String) (go : String) : Verdict :=
  let sx := op.getD 4 ""
  let forms := ((op.getD 3 "").drop 6).toString.splitOn "," |>.filter (· ≠ "")
  if go.startsWith "reject:" then .skip "rejected-by-checker" else
  match readProgram sx, go.splitOn " @@ " with
  | some p, [oi, ov, oo] =>
    let mi := p.runInterp 64
    let mv := p.runVM 64
    let si := renderRun mi
    let sv := renderRun mv
    let tags := progTags p mi ++ forms
    let falseCall := p.main.any fun c => constFalseInScope p c.fn
    if falseCall && (oi.startsWith "ok:" || ov.startsWith "ok:" || oo.startsWith "ok:") then
      .violation "false-condition-ignored" "a call with a constant-false condition in scope must fail" tags
    else if ov ≠ oo then .violation "peephole-differs" ("vm+peephole = vm = " ++ ov) tags
    else if (si.startsWith "model-" || sv.startsWith "model-") then .skip "model-fuel-or-internal"
    -- Go-vs-Go: the engines must agree, except where the two models (wrappers / desugared) say they
    -- differ, which is exactly the known finding (before statements hoisted over pre-conditions)
    else if oi ≠ ov && si == sv then
      .violation "engines-differ" ("vm observation = interpreter observation; model of both = " ++ si) tags
    else if oi ≠ ov && oi == si && ov == sv then
      .violation "vm-before-hoisted-over-pre" ("engines agree; interpreter = " ++ oi) tags
    else if oi ≠ si then .modelDiff ("interp-model:" ++ si) tags
    else if ov ≠ sv then .modelDiff ("vm-model:" ++ sv) tags
    else .ok tags
  | none, _ => .skip "sx-unreadable"
  | _, _ => .skip "bad-go-result"

def judge (op : List String) (go : String) : Verdict :=
  match op with
  | _ :: "conf" :: graph :: _ => judgeConf graph go
  | _ :: "prog" :: _ => judgeProg op go
  | _ :: "mprog" :: _ => judgeProg op go   -- same program, rendered as two contracts and a script
  | _ => .skip "unknown-op"

def main : IO Unit := runDriver judge
