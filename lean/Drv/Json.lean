import Verif.Util.Proto
import Verif.Model.Codec.CValueSx
import Verif.Model.Codec.JsonText
/-! Driver for stream `json` (C41): ops `rt <value sx>`, `dec <json text>`, `mutb <hex>`. -/
open Verif.Proto Verif.Model.Codec

namespace DrvJson

mutual
def tyAny (p : CType → Bool) : CType → Bool
  | .opt t => p (.opt t) || tyAny p t
  | .varr t => p (.varr t) || tyAny p t
  | .carr n t => p (.carr n t) || tyAny p t
  | .dict k v => p (.dict k v) || tyAny p k || tyAny p v
  | .range t => p (.range t) || tyAny p t
  | .cap t => p (.cap t) || tyAny p t
  | .ref a t => p (.ref a t) || tyAny p t
  | .inter ts => p (.inter ts) || tysAny p ts
  | .func v tps ps r => p (.func v tps ps r) || tpsAny p tps || psAny p ps || tyAny p r
  | .comp k id e fs is => p (.comp k id e fs is) || tyAny p e || fsAny p fs || isAny p is
  | t => p t
def tysAny (p : CType → Bool) : Types → Bool
  | .nil => false | .cons t r => tyAny p t || tysAny p r
def fsAny (p : CType → Bool) : Fields → Bool
  | .nil => false | .cons _ t r => tyAny p t || fsAny p r
def psAny (p : CType → Bool) : Params → Bool
  | .nil => false | .cons _ _ t r => tyAny p t || psAny p r
def isAny (p : CType → Bool) : Inits → Bool
  | .nil => false | .cons ps r => psAny p ps || isAny p r
def tpsAny (p : CType → Bool) : TParams → Bool
  | .nil => false | .cons _ b r => tyAny p b || tpsAny p r
end

mutual
/-- does some value node satisfy `pv`, or some type embedded in a type value / capability / function satisfy `pt` -/
def valAny (pv : CValue → Bool) (pt : CType → Bool) : CValue → Bool
  | .some v => pv (.some v) || valAny pv pt v
  | .arr t vs => pv (.arr t vs) || valsAny pv pt vs
  | .dict t kvs => pv (.dict t kvs) || pairsAny pv pt kvs
  | .comp t vs => pv (.comp t vs) || valsAny pv pt vs
  | .range t s e q => pv (.range t s e q) || valAny pv pt s || valAny pv pt e || valAny pv pt q
  | .type t => pv (.type t) || tyAny pt t
  | .cap i a t => pv (.cap i a t) || tyAny pt t
  | .func t => pv (.func t) || tyAny pt t
  | v => pv v
def valsAny (pv : CValue → Bool) (pt : CType → Bool) : Values → Bool
  | .nil => false | .cons v r => valAny pv pt v || valsAny pv pt r
def pairsAny (pv : CValue → Bool) (pt : CType → Bool) : Pairs → Bool
  | .nil => false | .cons k v r => valAny pv pt k || valAny pv pt v || pairsAny pv pt r
end

def hasNilBound : TParams → Bool
  | .nil => false
  | .cons _ .nil _ => true
  | .cons _ _ r => hasNilBound r

/-- a function type with a type parameter that has no bound -/
def isUnboundTParamFunc : CType → Bool
  | .func _ tps _ _ => hasNilBound tps
  | _ => false

def isAttachmentValue : CValue → Bool
  | .comp (.comp .attachment _ _ _ _) _ => true
  | _ => false

def kindTag : CValue → String
  | .nilv => "v-nil" | .void => "v-void" | .none => "v-none" | .some _ => "v-some" | .bool _ => "v-bool"
  | .str _ => "v-str" | .char _ => "v-char" | .addr _ => "v-addr" | .int k _ => "v-" ++ k | .fix k _ => "v-" ++ k
  | .arr _ _ => "v-array" | .dict _ _ => "v-dict"
  | .comp (.comp k _ _ _ _) _ => "v-" ++ k.jsonKind
  | .comp _ _ => "v-comp?" | .path _ _ => "v-path" | .cap _ _ _ => "v-cap" | .type _ => "v-type"
  | .range _ _ _ _ => "v-range" | .func _ => "v-func"

def hexToString (h : String) : Option String := do
  let bs ← parseHex h
  String.fromUTF8? (ByteArray.mk bs.toArray)

/-- split `a:b:rest` at the first two colons -/
def split3 (s : String) : Option (String × String × String) :=
  match s.splitOn ":" with
  | a :: b :: rest => some (a, b, ":".intercalate rest)
  | _ => none

/-- a composite type one of whose initializer parameters mentions a composite type that is also
mentioned in its fields: the encoder visits fields before initializers (and writes the bare type ID
in the initializer), the decoder initializers before fields -/
def hasSeenInInits : CType → Bool
  | .comp _ _ _ fs is =>
    isAny (fun t => match t with
      | .comp _ id _ _ _ => fsAny (fun u => match u with | .comp _ id' _ _ _ => id == id' | _ => false) fs
      | _ => false) is
  | _ => false

def classifyDecErr (v : CValue) : String :=
  if valAny isAttachmentValue (fun _ => false) v then "json-attachment-not-decodable"
  else if valAny (fun _ => false) hasSeenInInits v then "json-initializer-repeats-field-type-not-decodable"
  else if valAny (fun _ => false) isUnboundTParamFunc v then "json-typeparam-without-bound-not-decodable"
  else "json-decoder-rejects-own-encoding"

def judgeRt (sx : String) (go : String) : Verdict :=
  match parseValue sx with
  | none => .skip "bad-op"
  | some v =>
    let tags := [kindTag v]
    let spec := showValue (erase v)
    if go == "panic" || go == "hang" then .violation "json-encode-or-decode-panic" "value-or-error" tags
    else if go == "encerr" then .modelDiff "ok" ("enc-err" :: tags)
    else if go.startsWith "decerr:" then
      .violation (classifyDecErr v) ("ok:" ++ spec) ("go-decerr" :: tags)
    else if go.startsWith "ok:" then
      match split3 ((go.drop 3).toString) with
      | none => .skip "bad-result"
      | some (same, hex, sx2) =>
        match hexToString hex >>= JsonText.parse with
        | none => .skip "go-json-unparsable"
        | some tree =>
          let m := prepare v
          if JsonText.render tree != JsonText.render m then .modelDiff ("enc:" ++ JsonText.pretty m) ("enc-diff" :: tags)
          else
            -- spec: decoded = erase v, and it re-encodes to the same bytes
            if sx2 != spec then .violation "json-roundtrip-not-erase" ("ok:" ++ spec) tags
            else if same != "same" then .violation "json-reencode-differs" "same" tags
            else
              match decode tree with
              | .ok d =>
                if showValue d == sx2 then .ok ("!nt" :: "dec-ok" :: tags)
                else .modelDiff ("dec:" ++ showValue d) ("dec-diff" :: tags)
              | .error (.ood why) => .ok ("!nt" :: ("dec-ood-" ++ why) :: tags)
              | .error .err => .modelDiff "dec:err" ("dec-diff" :: tags)
    else .skip "bad-result"

def judgeDec (text : String) (go : String) : Verdict :=
  if go == "panic" || go == "hang" then
    let cls := if (text.splitOn "\"Restriction\"").length > 1 then "json-restriction-kind-panic" else "json-decode-panic"
    .violation cls "value-or-error" ["mut"]
  else
  match JsonText.parse text with
  | none => if go == "err" then .ok ["mut", "unparsable"] else .skip "json-text-outside-parser"
  | some tree =>
    match decode tree with
    | .ok d =>
      let m := "ok:" ++ showValue d
      if go == m then .ok ["!nt", "mut", "mut-ok", kindTag d] else .modelDiff m ["mut", "mut-ok"]
    | .error .err => if go == "err" then .ok ["!nt", "mut", "mut-err"] else .modelDiff "err" ["mut", "mut-err"]
    | .error (.ood why) => .skip ("ood-" ++ why)

def judge (op : List String) (go : String) : Verdict :=
  match op with
  | ["json", "rt", sx] => judgeRt sx go
  | ["json", "dec", text] => judgeDec text go
  | ["json", "mutb", _] =>
    if go == "ok" || go == "err" then .ok ["mutb", if go == "ok" then "mutb-ok" else "mutb-err"]
    else .violation "json-decode-panic" "value-or-error" ["mutb"]
  | _ => .skip "unknown-op"

end DrvJson

def main : IO Unit := runDriver DrvJson.judge
