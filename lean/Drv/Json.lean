import Verif.Util.Proto
import Verif.Model.Codec.CValueSx
import Verif.Model.Codec.JsonText
import Verif.Util.CodecDrv
/-! Driver for stream `json` (C41): ops `rt <value sx>`, `dec <json text>`, `mutb <hex>`. -/
open Verif.Proto Verif.Model.Codec Verif.Util.CodecDrv

namespace DrvJson

def judgeRt (sx : String) (go : String) : Verdict :=
  match parseValue sx with
  | none => .skip "bad-op"
  | some v =>
    let tags := [kindTagJ v]
    let spec := showValue (erase v)
    if go == "panic" || go == "hang" then .violation "json-encode-or-decode-panic" "value-or-error" tags
    else if go == "encerr" then .modelDiff "ok" ("enc-err" :: tags)
    else if go.startsWith "decerr:" then
      .violation (classifyDecErr v) ("ok:" ++ spec) ("go-decerr" :: tags)
    else if go.startsWith "ok:" then
      match split3 ((go.drop 3).toString) with
      | none => .skip "bad-result"
      | some (same, hex, sx2) =>
        match hexToString hex >>= JsonText.parse with
        | none => .skip "go-json-unparsable"
        | some tree =>
          let m := prepare v
          if JsonText.render tree != JsonText.render m then .modelDiff ("enc:" ++ JsonText.pretty m) ("enc-diff" :: tags)
          else
            -- spec: decoded = erase v, and it re-encodes to the same bytes
            if sx2 != spec then .violation "json-roundtrip-not-erase" ("ok:" ++ spec) tags
            else if same != "same" then .violation "json-reencode-differs" "same" tags
            else
              match decode tree with
              | .ok d =>
                if showValue d == sx2 then .ok ("!nt" :: "dec-ok" :: tags)
                else .modelDiff ("dec:" ++ showValue d) ("dec-diff" :: tags)
              | .error (.ood why) => .ok ("!nt" :: ("dec-ood-" ++ why) :: tags)
              | .error .err => .modelDiff "dec:err" ("dec-diff" :: tags)
    else .skip "bad-result"

def judgeDec (text : String) (go : String) : Verdict :=
  if go == "panic" || go == "hang" then
    let cls := if (text.splitOn "\"Restriction\"").length > 1 then "json-restriction-kind-panic" else "json-decode-panic"
    .violation cls "value-or-error" ["mut"]
  else
  match JsonText.parse text with
  | none => if go == "err" then .ok ["mut", "unparsable"] else .skip "json-text-outside-parser"
  | some tree =>
    match decode tree with
    | .ok d =>
      let m := "ok:" ++ showValue d
      if go == m then .ok ["!nt", "mut", "mut-ok", kindTagJ d] else .modelDiff m ["mut", "mut-ok"]
    | .error .err => if go == "err" then .ok ["!nt", "mut", "mut-err"] else .modelDiff "err" ["mut", "mut-err"]
    | .error (.ood why) => .skip ("ood-" ++ why)

def judge (op : List String) (go : String) : Verdict :=
  match op with
  | ["json", "rt", sx] => judgeRt sx go
  | ["json", "dec", text] => judgeDec text go
  | ["json", "mutb", _] =>
    if go == "ok" || go == "err" then .ok ["mutb", if go == "ok" then "mutb-ok" else "mutb-err"]
    else .violation "json-decode-panic" "value-or-error" ["mutb"]
  | _ => .skip "unknown-op"

end DrvJson

def main : IO Unit := runDriver DrvJson.judge
