import Verif.Util.Proto
import Verif.Model.Caches
/-! Driver for stream `meterhist` (C31).

* `smallint <type> <v>`: the real `interpreter.GetSmallIntegerValue`, read twice, against the pure
  initialiser `smallIntInit` of the cache model (value, static type, second read = first read).
* `meterhist <engine> <target> <history…>`: obs `same|diff:<which>@<i> ;; n=… ;; comp=… mem=… ;; outcome ;; …`.
  The spec (history independence of the charge sequence and of the outcome) is judged directly:
  anything but `same` is a violation. -/
open Verif.Proto Verif.Model.Caches

def field (s : String) (key : String) : String :=
  match (s.splitOn " ").filter (fun w => w.startsWith key) with
  | w :: _ => (w.drop key.length).toString
  | [] => ""

def judge (op : List String) (go : String) : Verdict :=
  match op with
  | ["smallint", ty, v] =>
    match IntTy.ofName ty, v.toInt? with
    | some t, some n =>
      let m := smallIntInit (t, n)
      let want := s!"{m} {m} {ty} true"
      let tags := [if t.convWidth.isSome then "unsigned-conv" else "signed", if n < 0 then "neg" else "nonneg"] ++
        (if n < 0 && t.convWidth.isSome then ["!nt"] else [])
      if go == want then .ok tags
      else if go == "panic" || go == "hang" then .violation "go-panic-or-hang" "no crash" tags
      else .violation "smallint-cache-value" s!"cached value = pure initialiser of the key, same on every read: {want}" tags
    | _, _ => .skip "bad-smallint-op"
  | ["sharedprog", engine, _kind, _signers, src] =>
    let has (w : String) : Bool := (src.splitOn w).length > 1
    let tags := [engine, "host-program-cache"] ++ (if has "import " then ["shared-contracts"] else [])
    if go.startsWith "same ;; " then .ok (if has "import " then "!nt" :: tags else tags)
    else if go.startsWith "meterdiff " then
      if engine == "vm" && (go.splitOn "only=comp(GraphemesIteration) ").length > 1 then
        .violation "vm-shared-string-constant-length-memo"
          "the same metering call sequence on the first and on a later execution sharing the host's program cache (here: the grapheme-length memo of a string constant of the shared compiled program is filled, and metered, by the first user only)" tags
      else .violation "metering-depends-on-history" "the same metering call sequence on the first and on a later execution sharing the host's program cache" tags
    else if go.startsWith "diff:outcome" then
      .violation "outcome-depends-on-history" "the same outcome on the first and on a later execution" tags
    else if go == "panic" || go == "hang" then .violation "go-panic-or-hang" "no crash" tags
    else .modelDiff ("unexpected observation: " ++ (go.take 80).toString) tags
  | "meterhist" :: engine :: _kind :: _signers :: src :: hist =>
    match go.splitOn " ;; " with
    | verdict :: n :: _totals :: outcome :: counts :: _ =>
      let nh := hist.length / 3
      let has (w : String) : Bool := (src.splitOn w).length > 1
      let tags := [engine, if outcome == "ok" then "ok" else "fails", s!"hist={nh}"] ++
        (if has "InclusiveRange" then ["smallint-cache"] else []) ++
        (if has "import " then ["shared-contracts"] else []) ++
        (if has "auth(" then ["entitlements"] else []) ++
        (if field counts "loops=" != "0" then ["loops"] else [])
      if verdict == "same" then
        if n == "n=0" then .modelDiff "no gauge call recorded" tags else .ok ("!nt" :: tags)
      else if verdict.startsWith "diff:outcome" then
        .violation "outcome-depends-on-history" "the same outcome in a fresh and in a reused process" tags
      else if verdict.startsWith "diff:" then
        .violation "metering-depends-on-history" "identical MeterComputation/MeterMemory call sequences in a fresh process, after other programs, and after itself" tags
      else .skip "bad-observation"
    | _ =>
      if go == "panic" || go == "hang" then .violation "go-panic-or-hang" "no crash" [engine]
      else if go.startsWith "child-failed" then .modelDiff "fresh-process run failed" [engine]
      else .skip "bad-observation"
  | _ => .skip "unknown-op"

def main : IO Unit := runDriver judge
