import Std.Data.HashMap
import Verif.Util.Proto
import Verif.Model.Num.Basic
import Verif.Gen.NumGo
import Verif.Spec.Arith
import Verif.Spec.ArithBits
/-!
Driver for the streams `bits` (C14) and `sat` (C13).

  bits|sat <Type> <Method> <a> <b|*> [engine]  =>  ok:<n> | err:<kind> | nil | panic   (comma list for `*`)

Every answer of the real Go method is judged (1) against the **spec** — `Verif.Spec.ArithBits`
(`specBitop`, `specShlExec`, `specShrExec`; the two executable shift forms are proved equal to
`specShl` / `specShr` in `Properties/C14`) and `Verif.Spec.Arith.specSaturating` — a disagreement is a
VIOLATION; and (2) against the **generated model** (`Verif.Gen.NumGo`, by name) — a disagreement
there, with the spec satisfied, is a MODELDIFF.

Saturating members exist in Cadence only for the (type, operation) pairs of `satDeclared` (sema's
`SaturatingArithmeticSupport` table): for the other pairs a *script* must be rejected by the checker
(anything else is a VIOLATION: the method would become reachable, and e.g. `UInt8.SaturatingDiv x 0`
returns a nil value instead of the division-by-zero error); *direct* calls of those unreachable Go
methods are compared with the model only.
-/
open Verif.Proto Verif.Model.Num Verif.Spec.Arith Verif.Spec.ArithBits

def renderRes : Except NumErr Int → String
  | .ok n => "ok:" ++ toString n
  | .error e => if e == .goPanic then "panic" else if e == .nilValue then "nil" else "err:" ++ e.name

def parseTy (s : String) : Option Ty :=
  match s with
  | "Int" => some .bigInt
  | "UInt" => some .bigUInt
  | _ =>
    if s.startsWith "Int" then (s.drop 3).toNat?.map .int
    else if s.startsWith "UInt" then (s.drop 4).toNat?.map .uint
    else if s.startsWith "Word" then (s.drop 4).toNat?.map .word
    else none

def satOpOf : String → Option Op
  | "SaturatingPlus" => some .add | "SaturatingMinus" => some .sub | "SaturatingMul" => some .mul
  | "SaturatingDiv" => some .div | _ => none

def bitOpOf : String → Option BitOp
  | "BitwiseAnd" => some .and | "BitwiseOr" => some .or | "BitwiseXor" => some .xor | _ => none

/-- sema's table: which saturating members a type declares -/
def satDeclared : Ty → Op → Bool
  | .int _, _ => true
  | .uint _, .add | .uint _, .sub | .uint _, .mul => true
  | .bigUInt, .sub => true
  | _, _ => false

/-- shift amounts for which `a * 2^k` can be written down -/
def evaluable (T : Ty) (k : Int) : Bool :=
  match bitsOf? T with
  | some _ => true
  | none => k < 8192 || k ≥ (2 : Int) ^ 64

inductive Req where
  | res (r : Except NumErr Int)     -- the property requires exactly this result
  | rejected                        -- the program must not pass the checker
  | none                            -- no requirement (unreachable method / outside the evaluable range)

def specOf (T : Ty) (method : String) (a b : Int) (script : Bool) : Req :=
  match bitOpOf method, satOpOf method with
  | some op, _ => .res (specBitop T op a b)
  | _, some op =>
    if satDeclared T op then .res (specSaturating T op a b) else if script then .rejected else .none
  | none, none =>
    if method == "BitwiseLeftShift" then (if evaluable T b then .res (specShlExec T a b) else .none)
    else if method == "BitwiseRightShift" then (if evaluable T b then .res (specShrExec T a b) else .none)
    else .none

def binMap : Std.HashMap String (Int → Int → Except NumErr Int) := Std.HashMap.ofList Verif.Gen.NumGo.binTable

def modelOf (tyName method : String) (T : Ty) (a b : Int) : Option (Except NumErr Int) :=
  if (method == "BitwiseLeftShift" || method == "BitwiseRightShift") && !evaluable T b then none else
  (binMap.get? (tyName ++ "Value." ++ method)).map (fun f => f a b)

def famTag : Ty → String
  | .int _ => "signed" | .uint _ => "unsigned" | .word _ => "word" | .bigInt => "Int" | .bigUInt => "UInt"

def resTag : Except NumErr Int → String
  | .ok _ => "r-ok" | .error e => "r-" ++ e.name

inductive J where
  | ok (tags : List String)
  | diff (model : String) (tags : List String)
  | viol (cls spec : String) (tags : List String)
  | skip (why : String)

/-- byte length of the minimal big-endian encoding of a natural number -/
def byteLen (x : Nat) : Nat := if x = 0 then 0 else x.log2 / 8 + 1

/-- narrow classes of the two defects fixed by f845962 (so that a revert is recognised by name) -/
def knownClass (T : Ty) (method : String) (a b : Int) (go : String) : Option String :=
  match T with
  | .int n =>
    if n < 128 then none else
    if method == "BitwiseLeftShift" ∧ 0 ≤ b ∧ b < n then
      let t := toTC n (a * (2 : Int) ^ b.toNat)
      let wrong : Int := if t ≥ 2 ^ (8 * byteLen t - 1) then (t : Int) - (2 : Int) ^ (8 * byteLen t) else t
      if go == "ok:" ++ toString wrong then some "int128-256-shl-sign-from-minimal-bytes" else none
    else if method == "BitwiseRightShift" ∧ b ≥ (2 : Int) ^ 64 ∧ a < 0 ∧ go == "ok:0" then
      some "int128-256-shr-huge-shift-ignores-sign"
    else none
  | _ => none

/-- judge one (a, b) -/
def judge1 (tyName method : String) (T : Ty) (a b : Int) (script : Bool) (go : String) : J :=
  if ¬ (inRange T a ∧ inRange T b) then .skip "operand-out-of-range" else
  let model := modelOf tyName method T a b
  let base := [famTag T, "m-" ++ method]
  let shiftTags : List String :=
    if method == "BitwiseLeftShift" || method == "BitwiseRightShift" then
      (match bitsOf? T with
       | some n => if b < 0 then ["k-neg"] else if b < n then ["k-lt-n"] else if b < (2 : Int) ^ 64 then ["k-ge-n"] else ["k-ge-2^64"]
       | none => if b < 0 then ["k-neg"] else if b < (2 : Int) ^ 64 then ["k-small"] else ["k-ge-2^64"])
      ++ (if a < 0 then ["a-neg"] else [])
    else if (bitOpOf method).isSome then
      [if a < 0 ∧ b < 0 then "neg-neg" else if a < 0 ∨ b < 0 then "neg-pos" else "pos-pos"]
    else []
  match specOf T method a b script with
  | .res s =>
    let sat : Bool := match satOpOf method with
      | some op => decide (.ok (exact op a b) ≠ s) && (match s with | .ok _ => true | _ => false)
      | none => false
    let tags := resTag s :: (shiftTags ++ base)
    let tags := if sat then "clamped" :: tags else tags
    let nt := (match s with | .error _ => true | .ok _ => sat || (a.natAbs > 1 && b.natAbs > 0))
    let tags := if nt then "!nt" :: tags else tags
    if go != renderRes s then
      let cls := match knownClass T method a b go with
        | some c => c
        | none =>
          if go == "panic" || go == "hang" || go == "nil" || go.startsWith "err-" then "go-panic-or-internal"
          else if go.startsWith "ok:" then (match s with | .ok _ => "wrong-value" | .error _ => "missing-error")
          else (match s with | .ok _ => "spurious-error" | .error _ => "wrong-error-kind")
      .viol cls (renderRes s) tags
    else if script then .ok tags
    else match model with
      | none => .ok ("untranslated" :: tags)
      | some m => if go == renderRes m then .ok tags else .diff (renderRes m) tags
  | .rejected =>
    if go.startsWith "err:user-sema." then .ok ("!nt" :: "undeclared-member-rejected" :: base)
    else .viol "undeclared-saturating-member-reachable" "rejected-by-checker" ("undeclared" :: base)
  | .none =>
    match model with
    | none => .skip "no-spec-no-model"
    | some m =>
      let tags := "unreachable-method" :: resTag m :: base
      if go == renderRes m then .ok tags else .diff (renderRes m) tags

def rangeOf8 : Ty → Option (Int × Int)
  | .int 8 => some (-128, 127)
  | .uint 8 => some (0, 255)
  | .word 8 => some (0, 255)
  | _ => none

def judge (op : List String) (go : String) : Verdict :=
  match op with
  | _stream :: tyName :: method :: sa :: sb :: rest =>
    match parseTy tyName, sa.toInt? with
    | some T, some a =>
      let via := match rest with | e :: _ => ["via-script-" ++ e] | [] => []
      if sb == "*" then
        match rangeOf8 T with
        | none => .skip "row-on-wide-type"
        | some (lo, hi) =>
          let gos := go.splitOn ","
          let n := (hi - lo + 1).toNat
          if gos.length != n then .modelDiff ("row of " ++ toString gos.length ++ " results, expected " ++ toString n) ["row"]
          else
            let step := fun (acc : (Option Verdict) × List String × Int) (g : String) =>
              let (bad, tags, b) := acc
              match bad with
              | some (.violation ..) => (bad, tags, b + 1)
              | _ =>
                match judge1 tyName method T a b false g with
                | .ok ts => (bad, ts.foldl (fun t x => if t.contains x then t else x :: t) tags, b + 1)
                | .skip _ => (bad, tags, b + 1)
                | .diff m ts =>
                  (match bad with
                   | some _ => bad
                   | none => some (.modelDiff ("b=" ++ toString b ++ " go=" ++ g ++ " model=" ++ m) ts), tags, b + 1)
                | .viol c s ts => (some (.violation c ("b=" ++ toString b ++ " go=" ++ g ++ " spec=" ++ s) ts), tags, b + 1)
            let (bad, tags, _) := gos.foldl step (none, [], lo)
            match bad with
            | some v => v
            | none => .ok ("row" :: tags)
      else
        match sb.toInt? with
        | none => .skip "bad-op"
        | some b =>
          match judge1 tyName method T a b (!rest.isEmpty) go with
          | .ok ts => .ok (via ++ ts)
          | .diff m ts => .modelDiff m (via ++ ts)
          | .viol c s ts => .violation c s (via ++ ts)
          | .skip w => .skip w
    | _, _ => .skip "bad-op"
  | _ => .skip "unknown-op"

def main : IO Unit := runDriver judge
