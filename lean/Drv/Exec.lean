import Verif.Util.Proto
import Verif.Model.Exec
import Verif.Model.ExecStore
/-! Driver for stream `exec` (C24): op `exec <engine> {<kind> <nsigners> <limit> <src>}*`,
observation = traces of the steps separated by ` | `.  Each trace is judged by the direct reading of
the property (spec oracle: `hasWrite`, `writesAfterRun`, `endsErr`, `hasTempCommit`) and by the
acceptor of the executor protocol (model).

`stale-read-after-commit` (theorem `commit_complete`): the state probes `l:@b<channel>:<digest>` /
`l:@e<channel>:<digest>` that the generated programs log are folded over the history with the register
map of the reference semantics (`Verif.Model.ExecStore.Probe`): what a step reads of a channel at its
start must be what the last committed step had in memory at its end (or what the previous step read, if
nothing was committed since).

op `memsweep …`: the traces of one transaction under memory limits crossed at each metering point; each
trace is judged like a transaction step (a failed run with a register write is `write-in-failed-tx`). -/
open Verif.Proto Verif.Model.Exec Verif.Model.ExecStore

def hexNat (s : String) : Option Nat :=
  s.toList.foldlM (fun acc c => (hexDigit c).map (fun d => acc * 16 + d)) 0

def parseWrite (body : String) : Option Ev :=
  -- body = "<owner>/<key>:<digest>"
  match body.splitOn "/" with
  | [o, rest] =>
    match hexNat o with
    | none => if o == "-" then some (.write 0 false 0) else none
    | some ow =>
      let key := (rest.splitOn ":").headD ""
      if key.startsWith "$" then
        match (key.drop 1).toNat? with
        | some i => some (.write ow true i)
        | none => none
      else some (.write ow false 0)
  | _ => none

def parseEv (t : String) : Option Ev :=
  if t == "s" then some .step else
  if t == "pp" then some .pp else
  if t == "pi" then some .host else
  if t == "end:ok" then some .endOk else
  if t == "end:err" then some .endErr else
  if t.startsWith "r:" || t.startsWith "x:" then some .read else
  if t.startsWith "a:" then some .alloc else
  if t.startsWith "e:" then some .emit else
  if t.startsWith "l:" then some .log else
  if t.startsWith "w:" then parseWrite (t.drop 2).toString else
  if t.startsWith "c:" then
    let name := ((t.drop 2).toString.splitOn ":").headD ""
    if name == "GetStorageUsed" || name == "GetStorageCapacity" || name == "CreateAccount" then some .flushQuery
    else some .host
  else none

def parseKind : String → Option Kind
  | "script" => some .script | "tx" => some .tx | "call" => some .call | _ => none

def rejTag : Rej → String
  | .inPre => "rej-inPre" | .writeInScript => "rej-writeInScript" | .progAfterWrite => "rej-progAfterWrite"
  | .errAfterWrite => "rej-errAfterWrite" | .afterEnd => "rej-afterEnd"
  | .noEnd => "rej-noEnd" | .endInPre => "rej-endInPre"

inductive StepV where
  | ok (tags : List String)
  | diff (what : String)
  | viol (cls : String) (spec : String)
  | skip (why : String)

/-- Judge one step.  The spec oracle comes first and does not depend on the acceptor. -/
def judgeStep (kind : Kind) (trace : String) : StepV :=
  let toks := (trace.splitOn " ").filter (· ≠ "")
  if toks.any (fun t => t == "end:escaped") then .viol "go-panic-escaped" "no panic may escape the runtime" else
  match toks.mapM parseEv with
  | none => .skip "unparsable-event"
  | some tr =>
    let kindTag := match kind with | .script => "k-script" | .tx => "k-tx" | .call => "k-call"
    let resTag := if endsErr tr then "r-err" else "r-ok"
    let temp := hasTempCommit tr
    -- spec oracle
    if temp then
      .viol "write-via-temp-commit" "no register write before the program has finished (CommitStorageTemporarily flushed the cache mid-run)"
    else if kind == .script && hasWrite tr then .viol "write-in-script" "a script issues no register write"
    else if endsErr tr && hasWrite tr then .viol "write-in-failed-tx" "a failed transaction issues no register write"
    else if !writesAfterRun tr then .viol "write-before-end" "register writes only after the program has finished running"
    else if !writesCanonical tr then .diff "commit-order-not-canonical"
    else
      match accept kind tr with
      | .ok _ =>
        let ranTag := if tr.any (· == .step) then "ran" else "no-run"
        let wTag := if hasWrite tr then "commit" else "no-commit"
        .ok [kindTag, resTag, ranTag, wTag]
      | .error r => .diff (rejTag r)

/-- the probes and the written owners of one step's trace -/
def stepObs (kind : Kind) (trace : String) : StepObs :=
  let toks := (trace.splitOn " ").filter (· ≠ "")
  let probes (phase : String) : List (String × String) := toks.filterMap (fun t =>
    if t.startsWith ("l:@" ++ phase) then
      match (t.drop 4).toString.splitOn ":" with
      | [ch, d] => some (ch, d)
      | _ => none
    else none)
  let wrote := toks.filterMap (fun t =>
    if t.startsWith "w:" then some (((t.drop 2).toString.splitOn "/").headD "") else none)
  { commits := kind != .script && toks.getLast? == some "end:ok",
    begins := probes "b", ends := probes "e", wrote := wrote.eraseDups }

/-- the owner whose registers hold a channel: `01` / `02` = the account's storage paths, `r01` / `r02` =
the resources stored there, `c01` = the fields of the contract deployed to 0x1 -/
def channelOwners (ch : String) : List String :=
  [if ch.startsWith "c" || ch.startsWith "r" then (ch.drop 1).toString else ch]

/-- fold the probes over the history: (stale channels found, number of comparisons made) -/
def probeHistory (obs : List StepObs) : List String × Nat :=
  (obs.foldl (fun (acc : Probe × List String × Nat) o =>
    let (p, stale, n) := acc
    let compared := (o.begins.filter (fun (ch, _) => (p.get ch).isSome)).length
    (p.next channelOwners o, stale ++ staleChannels p o, n + compared)) ([], [], 0)).2

def judge (op : List String) (go : String) : Verdict :=
  match op with
  | "exec" :: _engine :: rest =>
    let rec kinds : List String → List (Option Kind)
      | k :: _ :: _ :: _ :: more => parseKind k :: kinds more
      | _ => []
    let ks := kinds rest
    let traces := go.splitOn " | "
    if go == "panic" || go == "hang" then .violation "go-panic-or-hang" "the harness must not crash" [] else
    if ks.length ≠ traces.length || ks.any Option.isNone then .skip "bad-op" else
    let vs := (ks.zip traces).map (fun (k, t) => judgeStep (k.getD .tx) t)
    let (stale, compared) := probeHistory ((ks.zip traces).map (fun (k, t) => stepObs (k.getD .tx) t))
    if !stale.isEmpty then
      .violation "stale-read-after-commit"
        s!"a step reads, of channel {stale.headD ""}, the state the last committed transaction had in memory at its end (commit_complete)" []
    else
    match vs.findSome? (fun v => match v with | .viol c s => some (c, s) | _ => none) with
    | some (c, s) => .violation c s []
    | none =>
      match vs.findSome? (fun v => match v with | .diff w => some w | _ => none) with
      | some w => .modelDiff w []
      | none =>
        match vs.findSome? (fun v => match v with | .skip w => some w | _ => none) with
        | some w => .skip w
        | none =>
          let tags := vs.foldl (fun acc v => match v with
            | .ok ts => let t := "-".intercalate ts; if acc.contains t then acc else t :: acc
            | _ => acc) []
          .ok ("!nt" :: (if compared > 0 then ["reads-compared"] else []) ++ tags.reverse)
  | ["memsweep", engine, _ns, _setup, _src] =>
    -- memory-limit sweep: every trace is one run of the same transaction under a memory limit crossed at
    -- one metering call of the run (the commit's own metering included); each is judged as a transaction
    if go == "panic" || go == "hang" then .violation "go-panic-or-hang" "the harness must not crash" [] else
    if go == "setup-failed" || go == "clean-failed" || go == "no-metering" then .skip go else
    let vs := (go.splitOn " | ").map (judgeStep .tx)
    match vs.findSome? (fun v => match v with | .viol c s => some (c, s) | _ => none) with
    | some (c, s) => .violation c s ["memsweep", engine]
    | none =>
      match vs.findSome? (fun v => match v with | .diff w => some w | _ => none) with
      | some w => .modelDiff w ["memsweep", engine]
      | none =>
        match vs.findSome? (fun v => match v with | .skip w => some w | _ => none) with
        | some w => .skip w
        | none =>
          let failed := (vs.filter (fun v => match v with | .ok ts => ts.contains "r-err" | _ => false)).length
          .ok ["!nt", "memsweep", engine, s!"limits={vs.length}", if failed > 0 then "memory-limit-failures" else "no-failure"]
  | _ => .skip "unknown-op"

def main : IO Unit := runDriver judge
