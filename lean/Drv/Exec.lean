import Verif.Util.Proto
import Verif.Model.Exec
/-! Driver for stream `exec` (C24): op `exec <engine> {<kind> <nsigners> <limit> <src>}*`,
observation = traces of the steps separated by ` | `.  Each trace is judged by the direct reading of
the property (spec oracle: `hasWrite`, `writesAfterRun`, `endsErr`, `hasTempCommit`) and by the
acceptor of the executor protocol (model). -/
open Verif.Proto Verif.Model.Exec

def hexNat (s : String) : Option Nat :=
  s.toList.foldlM (fun acc c => (hexDigit c).map (fun d => acc * 16 + d)) 0

def parseWrite (body : String) : Option Ev :=
  -- body = "<owner>/<key>:<digest>"
  match body.splitOn "/" with
  | [o, rest] =>
    match hexNat o with
    | none => if o == "-" then some (.write 0 false 0) else none
    | some ow =>
      let key := (rest.splitOn ":").headD ""
      if key.startsWith "$" then
        match (key.drop 1).toNat? with
        | some i => some (.write ow true i)
        | none => none
      else some (.write ow false 0)
  | _ => none

def parseEv (t : String) : Option Ev :=
  if t == "s" then some .step else
  if t == "pp" then some .pp else
  if t == "pi" then some .host else
  if t == "end:ok" then some .endOk else
  if t == "end:err" then some .endErr else
  if t.startsWith "r:" || t.startsWith "x:" then some .read else
  if t.startsWith "a:" then some .alloc else
  if t.startsWith "e:" then some .emit else
  if t.startsWith "l:" then some .log else
  if t.startsWith "w:" then parseWrite (t.drop 2).toString else
  if t.startsWith "c:" then
    let name := ((t.drop 2).toString.splitOn ":").headD ""
    if name == "GetStorageUsed" || name == "GetStorageCapacity" || name == "CreateAccount" then some .flushQuery
    else some .host
  else none

def parseKind : String → Option Kind
  | "script" => some .script | "tx" => some .tx | "call" => some .call | _ => none

def rejTag : Rej → String
  | .inPre => "rej-inPre" | .writeInScript => "rej-writeInScript" | .progAfterWrite => "rej-progAfterWrite"
  | .errAfterWrite => "rej-errAfterWrite" | .afterEnd => "rej-afterEnd"
  | .noEnd => "rej-noEnd" | .endInPre => "rej-endInPre"

inductive StepV where
  | ok (tags : List String)
  | diff (what : String)
  | viol (cls : String) (spec : String)
  | skip (why : String)

/-- Judge one step.  The spec oracle comes first and does not depend on the acceptor. -/
def judgeStep (kind : Kind) (trace : String) : StepV :=
  let toks := (trace.splitOn " ").filter (· ≠ "")
  if toks.any (fun t => t == "end:escaped") then .viol "go-panic-escaped" "no panic may escape the runtime" else
  match toks.mapM parseEv with
  | none => .skip "unparsable-event"
  | some tr =>
    let kindTag := match kind with | .script => "k-script" | .tx => "k-tx" | .call => "k-call"
    let resTag := if endsErr tr then "r-err" else "r-ok"
    let temp := hasTempCommit tr
    -- spec oracle
    if temp then
      .viol "write-via-temp-commit" "no register write before the program has finished (CommitStorageTemporarily flushed the cache mid-run)"
    else if kind == .script && hasWrite tr then .viol "write-in-script" "a script issues no register write"
    else if endsErr tr && hasWrite tr then .viol "write-in-failed-tx" "a failed transaction issues no register write"
    else if !writesAfterRun tr then .viol "write-before-end" "register writes only after the program has finished running"
    else if !writesCanonical tr then .diff "commit-order-not-canonical"
    else
      match accept kind tr with
      | .ok _ =>
        let ranTag := if tr.any (· == .step) then "ran" else "no-run"
        let wTag := if hasWrite tr then "commit" else "no-commit"
        .ok [kindTag, resTag, ranTag, wTag]
      | .error r => .diff (rejTag r)

def judge (op : List String) (go : String) : Verdict :=
  match op with
  | "exec" :: _engine :: rest =>
    let rec kinds : List String → List (Option Kind)
      | k :: _ :: _ :: _ :: more => parseKind k :: kinds more
      | _ => []
    let ks := kinds rest
    let traces := go.splitOn " | "
    if go == "panic" || go == "hang" then .violation "go-panic-or-hang" "the harness must not crash" [] else
    if ks.length ≠ traces.length || ks.any Option.isNone then .skip "bad-op" else
    let vs := (ks.zip traces).map (fun (k, t) => judgeStep (k.getD .tx) t)
    match vs.findSome? (fun v => match v with | .viol c s => some (c, s) | _ => none) with
    | some (c, s) => .violation c s []
    | none =>
      match vs.findSome? (fun v => match v with | .diff w => some w | _ => none) with
      | some w => .modelDiff w []
      | none =>
        match vs.findSome? (fun v => match v with | .skip w => some w | _ => none) with
        | some w => .skip w
        | none =>
          let tags := vs.foldl (fun acc v => match v with
            | .ok ts => let t := "-".intercalate ts; if acc.contains t then acc else t :: acc
            | _ => acc) []
          .ok ("!nt" :: tags.reverse)
  | _ => .skip "unknown-op"

def main : IO Unit := runDriver judge
