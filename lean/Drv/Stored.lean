import Verif.Util.Proto
import Verif.Model.Codec.Stored
/-! Driver for stream `stored` (C44).  Ops: `val sx`, `type sx`, `dec hex`, `dectype hex`,
    `golden hex sx`, `goldentype hex sx` (see harness/cmd/vharness/stream_stored.go). -/
open Verif.Proto Verif.Model.Codec.StoredCbor Verif.Model.Codec.Stored

/-! ### S-expressions -/

inductive SX where
  | atom (s : String)
  | list (xs : List SX)
  deriving Inhabited

partial def sxParseAux : List Char → Option (SX × List Char)
  | ' ' :: cs => sxParseAux cs
  | '(' :: cs =>
    let rec items (cs : List Char) (acc : List SX) : Option (SX × List Char) :=
      match cs with
      | ' ' :: cs => items cs acc
      | ')' :: cs => some (.list acc.reverse, cs)
      | [] => none
      | cs => match sxParseAux cs with
        | some (x, rest) => items rest (x :: acc)
        | none => none
    items cs []
  | ')' :: _ => none
  | [] => none
  | cs =>
    let tok := cs.takeWhile (fun c => c != ' ' && c != '(' && c != ')')
    some (.atom (String.ofList tok), cs.drop tok.length)

def sxParse (s : String) : Option SX :=
  match sxParseAux s.toList with
  | some (x, rest) => if rest.all (· == ' ') then some x else none
  | none => none

def hexOf (bs : Bytes) : String :=
  String.ofList (bs.foldr (fun b acc => hexChar (b.toNat / 16) :: hexChar (b.toNat % 16) :: acc) [])

def plainByte (b : UInt8) : Bool :=
  let c := b.toNat
  c == 95 || c == 46 || (48 ≤ c && c ≤ 57) || (97 ≤ c && c ≤ 122) || (65 ≤ c && c ≤ 90)

/-- byte strings: `'abc` for `[A-Za-z0-9_.]+`, otherwise `x<hex>` -/
def rStr (s : Bytes) : String :=
  if !s.isEmpty && s.all plainByte then "'" ++ String.ofList (s.map fun b => Char.ofNat b.toNat) else "x" ++ hexOf s

def pStr : SX → Option Bytes
  | .atom a =>
    match a.toList with
    | '\'' :: cs => some (cs.map fun c => UInt8.ofNat c.toNat)
    | 'x' :: cs => if cs.isEmpty then some [] else parseHexAux cs []
    | _ => none
  | _ => none

def pNat : SX → Option Nat
  | .atom a => a.toNat?
  | _ => none
def pInt : SX → Option Int
  | .atom a => a.toInt?
  | _ => none

/-! ### S-expression → model values -/

def pLoc : SX → Option Loc
  | .atom "noloc" => some .none
  | .list [.atom "addressloc", a, n] => do some (.address (← pNat a) (← pStr n))
  | .list [.atom "stringloc", s] => do some (.string (← pStr s))
  | .list [.atom "idloc", s] => do some (.identifier (← pStr s))
  | .list [.atom "txloc", s] => do some (.transaction (← pStr s))
  | .list [.atom "scriptloc", s] => do some (.script (← pStr s))
  | _ => none

def pAuth : SX → Option Auth
  | .atom "unauthorized" => some .unauthorized
  | .atom "inaccessible" => some .inaccessible
  | .list [.atom "entmap", s] => do some (.entMap (← pStr s))
  | .list (.atom "entset" :: k :: es) => do some (.entSet (← pNat k) (← es.mapM pStr))
  | _ => none

def pIface : SX → Option (Loc × Bytes)
  | .list [l, q] => do some (← pLoc l, ← pStr q)
  | _ => none

partial def pType : SX → Option SType
  | .atom "capabilitynil" => some .capabilityNil
  | .list [.atom "prim", c] => do some (.primitive (← pNat c))
  | .list [.atom "opt", t] => do some (.optional (← pType t))
  | .list [.atom "composite", l, q] => do some (.composite (← pLoc l) (← pStr q))
  | .list [.atom "interface", l, q] => do some (.interface (← pLoc l) (← pStr q))
  | .list [.atom "varsized", t] => do some (.variableSized (← pType t))
  | .list [.atom "constsized", n, t] => do some (.constantSized (← pInt n) (← pType t))
  | .list [.atom "dict", k, v] => do some (.dictionary (← pType k) (← pType v))
  | .list [.atom "ref", a, t, .atom l] => do
    let legacy ← match l with
      | "nolegacy" => some none | "legacytrue" => some (some true) | "legacyfalse" => some (some false) | _ => none
    some (.reference (← pAuth a) (← pType t) legacy)
  | .list (.atom "intersection" :: is) => do some (.intersection (← is.mapM pIface))
  | .list (.atom "intersectionlegacy" :: l :: is) => do some (.intersectionLegacy (← pType l) (← is.mapM pIface))
  | .list [.atom "capability", t] => do some (.capability (← pType t))
  | .list [.atom "range", t] => do some (.inclusiveRange (← pType t))
  | _ => none

def pOptType : SX → Option (Option SType)
  | .atom "none" => some none
  | t => (pType t).map some

def pNumKind : String → Option NumKind
  | "int" => some .int | "int8" => some .int8 | "int16" => some .int16 | "int32" => some .int32
  | "int64" => some .int64 | "int128" => some .int128 | "int256" => some .int256
  | "uint" => some .uint | "uint8" => some .uint8 | "uint16" => some .uint16 | "uint32" => some .uint32
  | "uint64" => some .uint64 | "uint128" => some .uint128 | "uint256" => some .uint256
  | "word8" => some .word8 | "word16" => some .word16 | "word32" => some .word32 | "word64" => some .word64
  | "word128" => some .word128 | "word256" => some .word256 | "fix64" => some .fix64 | "ufix64" => some .ufix64
  | _ => none

def pCap : SX → Option Cap
  | .list [.atom "cap", a, i, t] => do some (.id (← pNat a) (← pNat i) (← pType t))
  | .list [.atom "pathcap", a, d, i, t] => do some (.path (← pNat a) (← pNat d) (← pStr i) (← pOptType t))
  | _ => none

partial def pVal : SX → Option Stored
  | .atom "nil" => some .nil
  | .atom "void" => some .void
  | .atom "accountlink" => some .accountLink
  | .list [.atom "bool", .atom "true"] => some (.bool true)
  | .list [.atom "bool", .atom "false"] => some (.bool false)
  | .list [.atom "rawtext", s] => do some (.rawText (← pStr s))
  | .list [.atom "rawuint", n] => do some (.rawUint (← pNat n))
  | .list [.atom "string", s] => do some (.string (← pStr s))
  | .list [.atom "char", s] => do some (.character (← pStr s))
  | .list [.atom "some", l, v] => do some (.some (← pNat l) (← pVal v))
  | .list [.atom "address", a] => do some (.address (← pNat a))
  | .list [.atom "num", .atom k, v] => do some (.num (← pNumKind k) (← pInt v))
  | .list [.atom "fix128", h, l] => do some (.fix128 (← pNat h) (← pNat l))
  | .list [.atom "ufix128", h, l] => do some (.ufix128 (← pNat h) (← pNat l))
  | .list [.atom "path", d, i] => do some (.path (← pNat d) (← pStr i))
  | .list [.atom "published", r, c] => do some (.published (← pNat r) (← pCap c))
  | .list [.atom "type", t] => do some (.typeValue (← pOptType t))
  | .list [.atom "storagecc", b, i, d, p] => do some (.storageCapCon (← pType b) (← pNat i) (← pNat d) (← pStr p))
  | .list [.atom "accountcc", b, i] => do some (.accountCapCon (← pType b) (← pNat i))
  | .list [.atom "pathlink", d, i, t] => do some (.pathLink (← pNat d) (← pStr i) (← pType t))
  | c => (pCap c).map .cap

/-! ### model values → canonical S-expression text (the same text as `storedRender*` in the harness) -/

def rLoc : Loc → String
  | .none => "noloc"
  | .address a n => s!"(addressloc {a} {rStr n})"
  | .string s => s!"(stringloc {rStr s})"
  | .identifier s => s!"(idloc {rStr s})"
  | .transaction b => s!"(txloc {rStr b})"
  | .script b => s!"(scriptloc {rStr b})"

def rAuth : Auth → String
  | .unauthorized => "unauthorized"
  | .inaccessible => "inaccessible"
  | .entMap s => s!"(entmap {rStr s})"
  | .entSet k es => s!"(entset {k}" ++ String.join (es.map fun e => " " ++ rStr e) ++ ")"

def rIfaces (is : List (Loc × Bytes)) : String :=
  String.join (is.map fun p => s!" ({rLoc p.1} {rStr p.2})")

def rType : SType → String
  | .primitive c => s!"(prim {c})"
  | .optional t => s!"(opt {rType t})"
  | .composite l q => s!"(composite {rLoc l} {rStr q})"
  | .interface l q => s!"(interface {rLoc l} {rStr q})"
  | .variableSized t => s!"(varsized {rType t})"
  | .constantSized n t => s!"(constsized {n} {rType t})"
  | .dictionary k v => s!"(dict {rType k} {rType v})"
  | .reference a t l =>
    let lg := match l with | none => "nolegacy" | some true => "legacytrue" | some false => "legacyfalse"
    s!"(ref {rAuth a} {rType t} {lg})"
  | .intersection is => "(intersection" ++ rIfaces is ++ ")"
  | .intersectionLegacy l is => s!"(intersectionlegacy {rType l}" ++ rIfaces is ++ ")"
  | .capability t => s!"(capability {rType t})"
  | .capabilityNil => "capabilitynil"
  | .inclusiveRange t => s!"(range {rType t})"

def rOptType : Option SType → String
  | none => "none"
  | some t => rType t

def rNumKind : NumKind → String
  | .int => "int" | .int8 => "int8" | .int16 => "int16" | .int32 => "int32" | .int64 => "int64"
  | .int128 => "int128" | .int256 => "int256" | .uint => "uint" | .uint8 => "uint8" | .uint16 => "uint16"
  | .uint32 => "uint32" | .uint64 => "uint64" | .uint128 => "uint128" | .uint256 => "uint256"
  | .word8 => "word8" | .word16 => "word16" | .word32 => "word32" | .word64 => "word64"
  | .word128 => "word128" | .word256 => "word256" | .fix64 => "fix64" | .ufix64 => "ufix64"

def rCap : Cap → String
  | .id a i t => s!"(cap {a} {i} {rType t})"
  | .path a d i t => s!"(pathcap {a} {d} {rStr i} {rOptType t})"

def rVal : Stored → String
  | .bool true => "(bool true)"
  | .bool false => "(bool false)"
  | .nil => "nil"
  | .rawText s => s!"(rawtext {rStr s})"
  | .rawUint n => s!"(rawuint {n})"
  | .void => "void"
  | .string s => s!"(string {rStr s})"
  | .character s => s!"(char {rStr s})"
  | .some l v => s!"(some {l} {rVal v})"
  | .address a => s!"(address {a})"
  | .num k v => s!"(num {rNumKind k} {v})"
  | .fix128 h l => s!"(fix128 {h} {l})"
  | .ufix128 h l => s!"(ufix128 {h} {l})"
  | .path d i => s!"(path {d} {rStr i})"
  | .cap c => rCap c
  | .published r c => s!"(published {r} {rCap c})"
  | .typeValue t => s!"(type {rOptType t})"
  | .storageCapCon b i d p => s!"(storagecc {rType b} {i} {d} {rStr p})"
  | .accountCapCon b i => s!"(accountcc {rType b} {i})"
  | .pathLink d i t => s!"(pathlink {d} {rStr i} {rType t})"
  | .accountLink => "accountlink"

/-! ### the driver's Unicode environment

The driver has no Unicode tables.  `nfc` is the identity (exact for ASCII; the generators only emit
NFC-normalised non-ASCII strings, as the Go constructors produce them) and `isChar` knows the ASCII
grapheme clusters (one byte, or CR LF); decoding *mutated* bytes that contain a non-ASCII string or
character value is counted as outside the driver's domain. -/

def ascii (s : Bytes) : Bool := s.all (·.toNat < 128)

def drvEnv : Env where
  nfc := id
  isChar s := if ascii s then s.length == 1 || s == [13, 10] else !s.isEmpty

def hasUnicode : Stored → Bool
  | .string s => !ascii s
  | .character s => !ascii s
  | .some _ v => hasUnicode v
  | _ => false

def T := genTags

def kindTag : Stored → String
  | .bool _ => "k-bool" | .nil => "k-nil" | .rawText _ => "k-rawtext" | .rawUint _ => "k-rawuint" | .void => "k-void"
  | .string _ => "k-string" | .character _ => "k-char" | .some l _ => if l == 1 then "k-some" else "k-some-nested"
  | .address _ => "k-address" | .num k _ => "k-" ++ rNumKind k | .fix128 _ _ => "k-fix128" | .ufix128 _ _ => "k-ufix128"
  | .path _ _ => "k-path" | .cap (.id ..) => "k-cap" | .cap (.path ..) => "k-pathcap" | .published _ _ => "k-published"
  | .typeValue _ => "k-type" | .storageCapCon .. => "k-storagecc" | .accountCapCon .. => "k-accountcc"
  | .pathLink .. => "k-pathlink" | .accountLink => "k-accountlink"

def typeTag : SType → String
  | .primitive _ => "t-prim" | .optional _ => "t-opt" | .composite .. => "t-composite" | .interface .. => "t-interface"
  | .variableSized _ => "t-varsized" | .constantSized .. => "t-constsized" | .dictionary .. => "t-dict"
  | .reference _ _ none => "t-ref" | .reference _ _ (some _) => "t-ref-legacy" | .intersection _ => "t-intersection"
  | .intersectionLegacy .. => "t-intersection-legacy" | .capability _ => "t-capability" | .capabilityNil => "t-capability-nil"
  | .inclusiveRange _ => "t-range"

def sameOr (orig re : Bytes) : String := if orig == re then "same" else toHex re

/-- outcome of a model decode, rendered like the harness renders Go's; `none` = outside the model -/
def decObs {α} (bs : Bytes) (r : Except DErr (α × Bytes)) (render : α → String) (reenc : α → Bytes)
    (uni : α → Bool) : Option (String × List String) :=
  match r with
  | .ok (v, rest) =>
    if uni v then none else
    let n := bs.length - rest.length
    some (s!"ok:{render v}:{sameOr (bs.take n) (reenc v)}:{n}", ["dec-ok"])
  | .error (.cbor .truncated) => some ("err", ["e-truncated"])
  | .error (.cbor .malformed) => some ("err", ["e-malformed"])
  | .error (.cbor _) => none
  | .error .invalid => some ("err", ["e-invalid"])
  | .error .unsupported => none
  | .error .goPanic => some ("panic", ["e-go-panic"])

def skipReason {α} (r : Except DErr (α × Bytes)) : String :=
  match r with
  | .error (.cbor .nonCanonical) => "non-canonical-cbor-head"
  | .error (.cbor .indefinite) => "indefinite-length"
  | .error (.cbor .unsupported) => "cbor-map-or-float"
  | .error (.cbor .fuel) => "fuel"
  | .error .unsupported => "atree-tag"
  | _ => "non-ascii-unicode-in-undecoded-bytes"

/-- `ok:B:R:S:N` → (B, R, S, N) -/
def splitOk (go : String) : Option (List String) :=
  match go.splitOn ":" with
  | "ok" :: rest => some rest
  | _ => none

/-- round-trip oracle on the Go observation of a `val` / `type` op for a well-formed input -/
def roundtripOracle (go canon : String) (tags : List String) : Option Verdict :=
  if go == "panic" || go == "hang" then some (.violation "go-panic-or-hang" "round trip" tags)
  else if go == "encerr" then some (.violation "encode-failed" "well-formed value encodes" tags)
  else if go.startsWith "decerr" then some (.violation "decode-own-encoding-failed" ("decodes to " ++ canon) tags)
  else match splitOk go with
    | some [b, r, s, n] =>
      if r != canon then some (.violation "roundtrip-value-changed" ("decodes to " ++ canon) tags)
      else if s != "same" then some (.violation "reencode-differs" "re-encoding the decoded value gives the same bytes" tags)
      else if (parseHex b).map (·.length) != n.toNat? then
        some (.violation "decode-consumed-wrong-length" "the decoder reads exactly its own encoding" tags)
      else none
    | _ => some (.violation "unparsable-observation" "ok:B:R:S:N" tags)

def goldenOracle (go expected reenc : String) (tags : List String) : Option Verdict :=
  if go == "err" || go == "panic" || go == "hang" then
    some (.violation "golden-no-longer-decodes" ("decodes to " ++ expected) tags)
  else match splitOk go with
    | some [r, s, _] =>
      if r != expected then some (.violation "golden-meaning-changed" ("decodes to " ++ expected) tags)
      else if s != reenc then some (.violation "golden-reencode-differs" ("re-encoding gives " ++ reenc) tags)
      else none
    | _ => some (.violation "unparsable-observation" "ok:R:S:N" tags)

def judge (op : List String) (go : String) : Verdict :=
  match op with
  | ["stored", "val", sx] =>
    match (sxParse sx).bind pVal with
    | none => .skip "bad-op"
    | some v =>
      let bs := encodeStored T v
      let wf := v.wf T drvEnv
      let tags := [kindTag v, if wf then "wf" else "not-wf", "!nt"]
      let model :=
        match decObs bs (decodeStored T drvEnv bs) rVal (encodeStored T) (fun _ => false) with
        | some (o, _) => if o.startsWith "ok:" then "ok:" ++ toHex bs ++ ":" ++ (o.drop 3).toString else
                         if o == "err" then "decerr:" ++ toHex bs else o
        | none => "outside-model"
      if go == "unbuildable" then (if wf then .modelDiff "buildable" tags else .skip "not-a-go-value") else
      match (if wf then roundtripOracle go (rVal v) tags else none) with
      | some viol => viol
      | none => if go == model then .ok tags else .modelDiff model tags
  | ["stored", "type", sx] =>
    match (sxParse sx).bind pType with
    | none => .skip "bad-op"
    | some t =>
      let bs := encodeType T t
      let wf := t.wf T
      let tags := [typeTag t, if wf then "wf" else "not-wf", "!nt"]
      let model :=
        match decObs bs (decodeType T bs) rType (encodeType T) (fun _ => false) with
        | some (o, _) => if o.startsWith "ok:" then "ok:" ++ toHex bs ++ ":" ++ (o.drop 3).toString else
                         if o == "err" then "decerr:" ++ toHex bs else o
        | none => "outside-model"
      if go == "unbuildable" then (if wf then .modelDiff "buildable" tags else .skip "not-a-go-value") else
      match (if wf then roundtripOracle go (rType t) tags else none) with
      | some viol => viol
      | none => if go == model then .ok tags else .modelDiff model tags
  | ["stored", "dec", hex] =>
    if go == "skipped-huge-some-levels" then .skip "some-levels-beyond-harness-budget" else
    match parseHex hex with
    | none => .skip "bad-op"
    | some bs =>
      let r := decodeStored T drvEnv bs
      match decObs bs r rVal (encodeStored T) hasUnicode with
      | none => .skip (skipReason r)
      | some (m, tags) =>
        let tags := (match r with | .ok (v, _) => [kindTag v] | _ => []) ++ tags
        if go == m then .ok ("!nt" :: tags) else .modelDiff m tags
  | ["stored", "dectype", hex] =>
    match parseHex hex with
    | none => .skip "bad-op"
    | some bs =>
      let r := decodeType T bs
      match decObs bs r rType (encodeType T) (fun _ => false) with
      | none => .skip (skipReason r)
      | some (m, tags) =>
        let tags := (match r with | .ok (t, _) => [typeTag t] | _ => []) ++ tags
        if go == m then .ok ("!nt" :: tags) else .modelDiff m tags
  | "stored" :: "golden" :: hex :: expected :: more =>
    match parseHex hex with
    | none => .skip "bad-op"
    | some bs =>
      let tags := ["golden", "!nt"]
      match goldenOracle go expected (more.headD "same") tags with
      | some viol => viol
      | none =>
        match decodeStored T drvEnv bs with
        | .ok (v, _) => if rVal v == expected then .ok (kindTag v :: tags) else .modelDiff ("ok:" ++ rVal v) tags
        | .error _ => .modelDiff "err" tags
  | "stored" :: "goldentype" :: hex :: expected :: more =>
    match parseHex hex with
    | none => .skip "bad-op"
    | some bs =>
      let tags := ["golden", "!nt"]
      match goldenOracle go expected (more.headD "same") tags with
      | some viol => viol
      | none =>
        match decodeType T bs with
        | .ok (t, _) => if rType t == expected then .ok (typeTag t :: tags) else .modelDiff ("ok:" ++ rType t) tags
        | .error _ => .modelDiff "err" tags
  | _ => .skip "unknown-op"

def main : IO Unit := runDriver judge
