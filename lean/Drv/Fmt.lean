import Verif.Util.Proto
import Verif.Model.Front.Trivia
/-!
Driver for stream `fmt` (C39).
`fmt pass strip|collapse:<n> <hex>`: the Lean ports must produce Go's bytes (`rejoin`: not ported, SKIP).
`fmt prog <options> <source>`: direct oracle on the Go side; anything but `ok` / `fmt-error` / `reject` is a
VIOLATION, classified by predicates on the source and the comment that was not preserved.
-/
open Verif.Proto Verif.Model.Front.Trivia

def decodeSrc (s : String) : String := (s.replace "⏎" "\n").replace "⇥" "\t"

def hasSub (s sub : String) : Bool := (s.splitOn sub).length > 1

/-- a line that has text before a `/*` on it -/
def hasInlineBlockComment (src : String) : Bool :=
  (src.splitOn "\n").any fun l =>
    let t := l.trimAsciiStart.toString
    hasSub t "/*" && !t.startsWith "/*"

/-- the comment is next to an `else` keyword -/
def commentNextToElse (src comment : String) : Bool :=
  match src.splitOn comment with
  | before :: after :: _ =>
    before.trimAsciiEnd.toString.endsWith "else" || after.trimAsciiStart.toString.startsWith "else"
  | _ => false

/-- the comment sits inside the interpolation `\( … )` of a string template: after the last `\(` before
    it there is no `"` -/
def commentInsideStringTemplate (src comment : String) : Bool :=
  match src.splitOn comment with
  | before :: _ :: _ =>
    let parts := before.splitOn "\\("
    parts.length > 1 && !hasSub (parts.getLastD "") "\""
  | _ => false

def judge (op : List String) (go : String) : Verdict :=
  match op with
  | ["fmt", "pass", pass, hex] =>
    match parseHex hex with
    | none => .skip "bad-hex"
    | some inp =>
      if pass == "strip" then
        let m := "ok:" ++ toHex (strip inp)
        if go == m then .ok (["strip"] ++ (if strip inp != inp then ["!nt", "strip-changed"] else [])) else .modelDiff m ["strip"]
      else if pass.startsWith "collapse:" then
        match (pass.drop 9).toString.toNat? with
        | some n =>
          let m := "ok:" ++ toHex (collapse n inp)
          if go == m then .ok (["collapse"] ++ (if collapse n inp != inp then ["!nt", "collapse-changed"] else [])) else .modelDiff m ["collapse"]
        | none => .skip "bad-op"
      else .skip "pass-not-ported"
  | ["fmt", "prog", _opts, srcE] =>
    let src := decodeSrc srcE
    if go == "reject" then .skip "reject"
    else if go == "fmt-error" then .ok ["fmt-error"]
    else if go == "ok" then .ok (["ok"] ++ (if hasSub src "/*" || hasSub src "//" then ["!nt", "with-comments"] else []))
    else if go == "not-idempotent" then
      .violation (if hasInlineBlockComment src then "not-idempotent-with-inline-block-comment"
                  else if hasSub src "//" || hasSub src "/*" then "not-idempotent-with-comment"
                  else "not-idempotent") "fixed-point" [go]
    else match go.splitOn " " with
      | ["comment", hex, keep] =>
        (match parseHex hex, keep.toNat? with
         | some bs, some k =>
           let c := (String.fromUTF8? ⟨bs.toArray⟩).getD ""
           let cls :=
             if c.startsWith "/*" && collapse k bs != bs then "block-comment-blank-lines-collapsed"
             else if c.startsWith "//" && (c.endsWith " " || c.endsWith "\t") then "line-comment-trailing-whitespace-stripped"
             else if c.startsWith "/*" && commentNextToElse src c then "comment-next-to-else-dropped"
             else if commentInsideStringTemplate src c then "comment-inside-string-template-dropped"
             else "comment-not-preserved"
           .violation cls "every-comment-exactly-once-verbatim" ["comment"]
         | _, _ => .violation "comment-not-preserved" "every-comment-exactly-once-verbatim" ["comment"])
      | _ => .violation (if go == "ast-diff" || go == "out-reject" then "ast-changed" else "go-panic-or-hang")
               "same-ast-comments-fixed-point" [go]
  | _ => .skip "unknown-op"

def main : IO Unit := runDriver judge
