import Std.Data.HashMap
import Verif.Util.Proto
import Verif.Model.Num.Basic
import Verif.Gen.NumFix
import Verif.Spec.FixArith
/-!
Driver for stream `fix` (C15; fixed-point part of C13).

  fix <Type> <Method> <rawA> <rawB> [engine]  =>  ok:<raw> | err:<kind> | nil | panic
  fix <Type> MulDiv <rule> <rawA> <rawB> <rawC> [engine]  =>  same   (`multiplyDivide`, judged by `specMulDiv`)

The real Go method's answer is judged (1) against the **spec** `Verif.Spec.FixArith` (exact rational
arithmetic on the raw scaled integers: `specFix` for `+ − * /`, `specFixSat` for the saturating members;
for `%` the value must be `a − trunc(a/b)·b` and a failure is accepted only when the quotient is out of
range, with that error) — a disagreement is a VIOLATION; and (2), for Fix64 / UFix64, against the
**generated model** `Verif.Gen.NumFix` — a disagreement there, with the spec satisfied, is a MODELDIFF.
Fix128 / UFix128 (external library onflow/fixed-point) have no model: spec only.
Saturating members outside sema's declaration table (UFix64 / UFix128 saturatingDivide): a script must
be rejected by the checker; direct calls are not judged against a spec.
-/
open Verif.Proto Verif.Model.Num Verif.Spec.Arith Verif.Spec.FixArith

def renderRes : Except NumErr Int → String
  | .ok n => "ok:" ++ toString n
  | .error e => if e == .goPanic then "panic" else if e == .nilValue then "nil" else "err:" ++ e.name

def parseFTy : String → Option FTy
  | "Fix64" => some .fix64 | "UFix64" => some .ufix64 | "Fix128" => some .fix128 | "UFix128" => some .ufix128
  | _ => none

def opOf : String → Option (Op × Bool)
  | "Plus" => some (.add, false) | "Minus" => some (.sub, false) | "Mul" => some (.mul, false)
  | "Div" => some (.div, false) | "Mod" => some (.mod, false)
  | "SaturatingPlus" => some (.add, true) | "SaturatingMinus" => some (.sub, true)
  | "SaturatingMul" => some (.mul, true) | "SaturatingDiv" => some (.div, true)
  | _ => none

def satDeclared : FTy → Op → Bool
  | .fix64, _ | .fix128, _ => true
  | _, .div => false
  | _, _ => true

def binMap : Std.HashMap String (Int → Int → Except NumErr Int) := Std.HashMap.ofList Verif.Gen.NumFix.binTable

def modelOf (tyName method : String) (a b : Int) : Option (Except NumErr Int) :=
  (binMap.get? (tyName ++ "Value." ++ method)).map (fun f => f a b)

def vclass (go : String) (s : Except NumErr Int) : String :=
  if go == "panic" || go == "hang" || go == "nil" || go.startsWith "err-" then "go-panic-or-internal"
  else if go.startsWith "ok:" then (match s with | .ok _ => "wrong-value" | .error _ => "missing-error")
  else (match s with | .ok _ => "spurious-error" | .error _ => "wrong-error-kind")

def is128 : FTy → Bool
  | .fix128 | .ufix128 => true
  | _ => false

/-- does the Go answer have the shape of the known defect of the library's 128-bit division, for the
    exact quotient `n / d`?  Second quotient word `2^64 − 2`: anything (garbage value, panic, internal
    error).  Low word `2^64 − 2`: a magnitude one or two units above the true truncated quotient, or a
    range error when that leaves the range. -/
def div128Known (T : FTy) (n d : Int) (go : String) : Bool :=
  is128 T && d != 0 &&
  (div128SuspectHigh n.natAbs d.natAbs ||
   (div128SuspectLow n.natAbs d.natAbs &&
     (let q : Int := (n.natAbs / d.natAbs : Nat)
      match (if go.startsWith "ok:" then (go.drop 3).toString.toInt? else none) with
      | some v => decide (v.natAbs = q + 1 ∨ v.natAbs = q + 2)
      | none => (go == "err:overflow" || go == "err:underflow") &&
                decide ((340282366920938463463374607431768211455 : Int) < 2 * (q + 2)))))

def div128Class := "fixlib-div128-quotient-word-assumed-all-ones"

def parseRule : String → Option Rounding
  | "towardZero" | "default" => some .towardZero   -- the rule when the argument is omitted
  | "awayFromZero" => some .awayFromZero
  | "nearestHalfAway" => some .nearestHalfAway | "nearestHalfEven" => some .nearestHalfEven
  | _ => none

/-- `multiplyDivide`: spec only (the computation is the external library's) -/
def judgeMulDiv (tyName rule sa sb sc : String) (rest : List String) (go : String) : Verdict :=
  match parseFTy tyName, parseRule rule, sa.toInt?, sb.toInt?, sc.toInt? with
  | some T, some r, some a, some b, some c =>
    if ¬ (inRange T.raw a ∧ inRange T.raw b ∧ inRange T.raw c) then .skip "operand-out-of-range" else
    let via := match rest with | e :: _ => ["via-script-" ++ e] | [] => []
    let s := specMulDiv T r a b c
    let rem := Int.tmod (a * b) c
    let shape := if c = 0 then "c-zero" else if rem = 0 then "exact"
      else if 2 * rem.natAbs = c.natAbs then "tie" else if 2 * rem.natAbs < c.natAbs then "below-half" else "above-half"
    let tags := via ++ [tyName, "m-MulDiv", "rule-" ++ rule, shape,
      (match s with | .ok _ => "r-ok" | .error e => "r-" ++ e.name)] ++
      (if c.natAbs = T.scale.natAbs then ["c-one"] else []) ++
      (if c ≠ 0 ∧ roundDiv r (a * b) c ≠ Int.tdiv (a * b) c then ["rounded-away"] else []) ++
      (if c ≠ 0 ∧ rem ≠ 0 then ["!nt"] else [])
    if go != renderRes s then
      .violation (if div128Known T (a * b) c go then div128Class else vclass go s) (renderRes s) tags
    else .ok tags
  | _, _, _, _, _ => .skip "bad-op"

def judge (op : List String) (go : String) : Verdict :=
  match op with
  | "fix" :: tyName :: "MulDiv" :: rule :: sa :: sb :: sc :: rest => judgeMulDiv tyName rule sa sb sc rest go
  | "fix" :: tyName :: method :: sa :: sb :: rest =>
    match parseFTy tyName, opOf method, sa.toInt?, sb.toInt? with
    | some T, some (o, sat), some a, some b =>
      if ¬ (inRange T.raw a ∧ inRange T.raw b) then .skip "operand-out-of-range" else
      let script := !rest.isEmpty
      let via := match rest with | e :: _ => ["via-script-" ++ e] | [] => []
      let base := via ++ [tyName, "m-" ++ method]
      let model := if script then none else modelOf tyName method a b
      let cmpModel (tags : List String) : Verdict :=
        match model with
        | none => .ok tags
        | some m => if go == renderRes m then .ok tags else .modelDiff (renderRes m) tags
      if sat ∧ ¬ satDeclared T o then
        if script then
          (if go.startsWith "err:user-sema." then .ok ("!nt" :: "undeclared-member-rejected" :: base)
           else .violation "undeclared-saturating-member-reachable" "rejected-by-checker" base)
        else match model with
          | none => .skip "unreachable-method-no-model"
          | some _ => cmpModel ("unreachable-method" :: base)
      else if o == .mod then
        -- value must be exact; failure only when the quotient is out of range
        let s := specFixMod T a b
        let exactV : Except NumErr Int := if b = 0 then .error .divZero else .ok (exactRaw T.scale .mod a b)
        let tags := (match s with | .ok _ => "r-ok" | .error e => "q-" ++ e.name) :: base
        let tags := if a.natAbs > 1 ∧ b.natAbs > 1 then "!nt" :: tags else tags
        if go == renderRes exactV ∨ go == renderRes s then cmpModel tags
        else .violation (vclass go exactV) (renderRes exactV) tags
      else
        let s := if sat then specFixSat T o a b else specFix T o a b
        let ex := exactRaw T.scale o a b
        let tags := (match s with | .ok _ => "r-ok" | .error e => "r-" ++ e.name) :: base
        let isOk : Bool := match s with | .ok _ => true | _ => false
        let tags := if sat && isOk && decide (s ≠ .ok ex) then "clamped" :: tags else tags
        let truncated : Bool := match o with
          | .mul => decide (ex * T.scale ≠ a * b)
          | .div => decide (b ≠ 0 ∧ ex * b ≠ a * T.scale)
          | _ => false
        let tags := if truncated then "truncated" :: tags else tags
        let tags := if a.natAbs > 1 ∧ b.natAbs > 1 then "!nt" :: tags else tags
        if go != renderRes s then
          .violation (if o == .div && div128Known T (a * T.scale) b go then div128Class else vclass go s) (renderRes s) tags
        else cmpModel tags
    | _, _, _, _ => .skip "bad-op"
  | _ => .skip "unknown-op"

def main : IO Unit := runDriver judge
