import Std.Data.HashMap
import Verif.Util.Proto
import Verif.Model.Num.Basic
import Verif.Gen.NumFix
import Verif.Spec.FixArith
/-!
Driver for stream `fix` (C15; fixed-point part of C13).

  fix <Type> <Method> <rawA> <rawB> [engine]  =>  ok:<raw> | err:<kind> | nil | panic

The real Go method's answer is judged (1) against the **spec** `Verif.Spec.FixArith` (exact rational
arithmetic on the raw scaled integers: `specFix` for `+ − * /`, `specFixSat` for the saturating members;
for `%` the value must be `a − trunc(a/b)·b` and a failure is accepted only when the quotient is out of
range, with that error) — a disagreement is a VIOLATION; and (2), for Fix64 / UFix64, against the
**generated model** `Verif.Gen.NumFix` — a disagreement there, with the spec satisfied, is a MODELDIFF.
Fix128 / UFix128 (external library onflow/fixed-point) have no model: spec only.
Saturating members outside sema's declaration table (UFix64 / UFix128 saturatingDivide): a script must
be rejected by the checker; direct calls are not judged against a spec.
-/
open Verif.Proto Verif.Model.Num Verif.Spec.Arith Verif.Spec.FixArith

def renderRes : Except NumErr Int → String
  | .ok n => "ok:" ++ toString n
  | .error e => if e == .goPanic then "panic" else if e == .nilValue then "nil" else "err:" ++ e.name

def parseFTy : String → Option FTy
  | "Fix64" => some .fix64 | "UFix64" => some .ufix64 | "Fix128" => some .fix128 | "UFix128" => some .ufix128
  | _ => none

def opOf : String → Option (Op × Bool)
  | "Plus" => some (.add, false) | "Minus" => some (.sub, false) | "Mul" => some (.mul, false)
  | "Div" => some (.div, false) | "Mod" => some (.mod, false)
  | "SaturatingPlus" => some (.add, true) | "SaturatingMinus" => some (.sub, true)
  | "SaturatingMul" => some (.mul, true) | "SaturatingDiv" => some (.div, true)
  | _ => none

def satDeclared : FTy → Op → Bool
  | .fix64, _ | .fix128, _ => true
  | _, .div => false
  | _, _ => true

def binMap : Std.HashMap String (Int → Int → Except NumErr Int) := Std.HashMap.ofList Verif.Gen.NumFix.binTable

def modelOf (tyName method : String) (a b : Int) : Option (Except NumErr Int) :=
  (binMap.get? (tyName ++ "Value." ++ method)).map (fun f => f a b)

def vclass (go : String) (s : Except NumErr Int) : String :=
  if go == "panic" || go == "hang" || go == "nil" || go.startsWith "err-" then "go-panic-or-internal"
  else if go.startsWith "ok:" then (match s with | .ok _ => "wrong-value" | .error _ => "missing-error")
  else (match s with | .ok _ => "spurious-error" | .error _ => "wrong-error-kind")

def judge (op : List String) (go : String) : Verdict :=
  match op with
  | "fix" :: tyName :: method :: sa :: sb :: rest =>
    match parseFTy tyName, opOf method, sa.toInt?, sb.toInt? with
    | some T, some (o, sat), some a, some b =>
      if ¬ (inRange T.raw a ∧ inRange T.raw b) then .skip "operand-out-of-range" else
      let script := !rest.isEmpty
      let via := match rest with | e :: _ => ["via-script-" ++ e] | [] => []
      let base := via ++ [tyName, "m-" ++ method]
      let model := if script then none else modelOf tyName method a b
      let cmpModel (tags : List String) : Verdict :=
        match model with
        | none => .ok tags
        | some m => if go == renderRes m then .ok tags else .modelDiff (renderRes m) tags
      if sat ∧ ¬ satDeclared T o then
        if script then
          (if go.startsWith "err:user-sema." then .ok ("!nt" :: "undeclared-member-rejected" :: base)
           else .violation "undeclared-saturating-member-reachable" "rejected-by-checker" base)
        else match model with
          | none => .skip "unreachable-method-no-model"
          | some _ => cmpModel ("unreachable-method" :: base)
      else if o == .mod then
        -- value must be exact; failure only when the quotient is out of range
        let s := specFixMod T a b
        let exactV : Except NumErr Int := if b = 0 then .error .divZero else .ok (exactRaw T.scale .mod a b)
        let tags := (match s with | .ok _ => "r-ok" | .error e => "q-" ++ e.name) :: base
        let tags := if a.natAbs > 1 ∧ b.natAbs > 1 then "!nt" :: tags else tags
        if go == renderRes exactV ∨ go == renderRes s then cmpModel tags
        else .violation (vclass go exactV) (renderRes exactV) tags
      else
        let s := if sat then specFixSat T o a b else specFix T o a b
        let ex := exactRaw T.scale o a b
        let tags := (match s with | .ok _ => "r-ok" | .error e => "r-" ++ e.name) :: base
        let isOk : Bool := match s with | .ok _ => true | _ => false
        let tags := if sat && isOk && decide (s ≠ .ok ex) then "clamped" :: tags else tags
        let truncated : Bool := match o with
          | .mul => decide (ex * T.scale ≠ a * b)
          | .div => decide (b ≠ 0 ∧ ex * b ≠ a * T.scale)
          | _ => false
        let tags := if truncated then "truncated" :: tags else tags
        let tags := if a.natAbs > 1 ∧ b.natAbs > 1 then "!nt" :: tags else tags
        if go != renderRes s then .violation (vclass go s) (renderRes s) tags
        else cmpModel tags
    | _, _, _, _ => .skip "bad-op"
  | _ => .skip "unknown-op"

def main : IO Unit := runDriver judge
