import Verif.Util.Proto
import Verif.Model.Contracts
/-! Driver for stream `contracts` (C26): `contracts <engine> <bits> <history>  =>  <obs tx1>|…`.
The machine `Verif.Model.Contracts` is the spec: every difference is a VIOLATION, classified by the
kind of the first operation whose observation differs. -/
open Verif.Proto Verif.Model.Contracts

def bitAt (s : String) (i : Nat) : Bool := s.toList.getD i '0' == '1'

def parseFacts (s : String) : Option Facts :=
  let parts := (s.splitOn ";").filterMap fun p =>
    match p.splitOn ":" with
    | [k, v] => some (k, v)
    | _ => none
  let get := fun k => (parts.find? (·.1 == k)).map (·.2)
  match get "valid", get "name", get "enum", get "iface", get "initfail", get "compat" with
  | some v, some n, some e, some i, some f, some c =>
    let rows := c.splitOn "/"
    some { valid := bitAt v, nameOk := bitAt n, hasEnum := bitAt e, isIface := bitAt i, initFails := bitAt f,
           compat := fun a b => bitAt (rows.getD a "") b }
  | _, _, _, _, _, _ => none

def parseName : String → Option Nat
  | "A" => some 0 | "B" => some 1 | "C" => some 2 | _ => none

def parseOp (s : String) : Option Op :=
  match s.splitOn "," with
  | ["ad", a, n, c] => do some (.add (← a.toNat?) (← parseName n) (← c.toNat?))
  | ["up", a, n, c] => do some (.update (← a.toNat?) (← parseName n) (← c.toNat?))
  | ["tu", a, n, c] => do some (.tryUpdate (← a.toNat?) (← parseName n) (← c.toNat?))
  | ["rm", a, n] => do some (.remove (← a.toNat?) (← parseName n))
  | ["gt", a, n] => do some (.get (← a.toNat?) (← parseName n))
  | ["bw", a, n] => do some (.borrow (← a.toNat?) (← parseName n))
  | ["nm", a] => do some (.names (← a.toNat?))
  | ["pn"] => some .panic
  | _ => none

def parseHist (s : String) : Option (List (List Op)) :=
  (s.splitOn "|").mapM fun tx => (tx.splitOn ";").mapM parseOp

def nameStr : Nat → String
  | 0 => "A" | 1 => "B" | 2 => "C" | n => s!"N{n}"

def insertSortedNat (x : Nat) : List Nat → List Nat
  | [] => [x]
  | y :: ys => if x ≤ y then x :: y :: ys else y :: insertSortedNat x ys

def showObs (op : Op) : Obs → String
  | .done => (match op with | .add .. => "ad" | _ => "up")
  | .bool b => toString b
  | .code none => "none"
  | .code (some c) => if c < 10 then s!"/*s{c}*/" else "/*s" ++ (Char.ofNat (87 + c)).toString ++ "*/"  -- ids from 10: a, b, …
  | .value none => "nil"
  | .value (some c) => toString (10 + c)
  | .names ns => "[" ++ ", ".intercalate ((ns.foldr insertSortedNat []).map nameStr) ++ "]"

def showAbort : Abort → String
  | .default => "default" | .invalid => "invalid" | .panic => "panic" | .removal => "removal"

def zipShow : List Op → List Obs → List String
  | op :: ops, o :: os => showObs op o :: zipShow ops os
  | _, _ => []

def showTx (tx : List Op) (o : TxObs) : String :=
  (match o.outcome with | none => "ok" | some e => "err:" ++ showAbort e)
    ++ "[" ++ ";".intercalate (zipShow tx o.logs) ++ "]"

def opKind : Op → String
  | .add .. => "add" | .update .. => "update" | .tryUpdate .. => "tryUpdate" | .remove .. => "remove"
  | .get .. => "get" | .borrow .. => "borrow" | .names .. => "names" | .panic => "panic"

def obsTag (op : Op) (o : Obs) : String :=
  opKind op ++ (match o with
    | .bool true => "-true" | .bool false => "-false" | .code none | .value none => "-nil"
    | .names [] => "-empty" | _ => "-ok")

def txTags (tx : List Op) (o : TxObs) : List String :=
  let ts := (tx.zip o.logs).map fun (op, ob) => obsTag op ob
  match o.outcome with
  | none => "commit" :: ts
  | some e => (match tx.drop o.logs.length with
      | op :: _ => [opKind op ++ "-abort-" ++ showAbort e] | [] => []) ++ ts

def dedup (xs : List String) : List String := xs.foldl (fun acc x => if acc.contains x then acc else acc ++ [x]) []

def splitTxObs (s : String) : String × List String :=
  match s.splitOn "[" with
  | head :: rest =>
    let body := "[".intercalate rest
    let body := if body.endsWith "]" then (body.dropEnd 1).toString else body
    (head, if body.isEmpty then [] else body.splitOn ";")
  | [] => (s, [])

/-- the kind of the first operation at which Go and the machine differ -/
def firstDiff (hist : List (List Op)) (model go : List String) : String :=
  let rec goTx : List (List Op) → List String → List String → Nat → String
    | tx :: txs, m :: ms, g :: gs, i =>
      if m == g then goTx txs ms gs (i + 1) else
        let (mh, ml) := splitTxObs m
        let (gh, gl) := splitTxObs g
        let rec goOp : List Op → List String → List String → String
          | op :: ops, a :: as, b :: bs => if a == b then goOp ops as bs else opKind op ++ "-wrong-result"
          | op :: _, _, _ => opKind op ++ "-wrong-outcome"
          | [], _, _ => "tx-wrong-outcome"
        let c := goOp tx ml gl
        if gh.startsWith "err:internal" || gh.startsWith "err:crash" then s!"go-panic-or-internal tx{i} {c}"
        else if mh != gh && ml == gl then
          (match tx.drop ml.length with | op :: _ => opKind op | [] => "tx") ++ s!"-wrong-outcome tx{i}"
        else s!"{c} tx{i}"
    | _, _, _, _ => "tx-count"
  goTx hist model go 0

def judge (op : List String) (go : String) : Verdict :=
  match op with
  | ["contracts", _engine, bits, h] =>
    if go.startsWith "bits-mismatch" then .skip "bits-mismatch" else
    match parseFacts bits, parseHist h with
    | some F, some hist =>
      let (_, obs) := runHist F [] hist
      let rendered := (hist.zip obs).map fun (tx, o) => showTx tx o
      let model := "|".intercalate rendered
      let tags := dedup ((hist.zip obs).flatMap fun (tx, o) => txTags tx o)
      if go == model then .ok ("!nt" :: tags)
      else if (go.splitOn "internal:runtime.UnreferencedRootSlabsError").length > 1 then
        -- fixed by 2936d79 in /repo: a contract added and removed in one transaction left its value's slabs
        -- unreferenced; the specification (add then remove = nothing deployed) wants `ok`
        .violation "add-remove-same-tx-unreferenced-slabs"
          ("a transaction that adds and then removes the same contract must succeed and leave nothing deployed; machine: " ++ model) tags
      else
        let d := firstDiff hist rendered (go.splitOn "|")
        match d.splitOn " " with
        | cls :: rest => .violation cls ("machine: " ++ model ++ " (" ++ " ".intercalate rest ++ ")") tags
        | [] => .violation "wrong-observation" model tags
    | _, _ => .skip "bad-op"
  | _ => .skip "unknown-op"

def main : IO Unit := runDriver judge
