import Verif.Util.Proto
import Verif.Model.AccessCheck
import Verif.Spec.AccessSpec
/-!
Driver for stream `access` (property C50).  Ops (see stream_access.go):
  access read|write <modifier> <container C|S|R> <field-var|field-let|fun> <site> <via>
  access winit <let|var> <first|second|method>
MODELDIFF: the real checker's errors differ from the port (`readable`, `assignErrs`).
VIOLATION: they differ from the executable reading of the declarative rule (`specB`, written
independently of the port: suffix test, explicit search of the enclosing contract, entitlement
satisfaction by enumeration of holder sets).
-/
open Verif.Proto Verif.Model.AccessCheck Verif.Model.Auth

def tyC : CType := ⟨.address 1 "C", [("C", .contract)]⟩
def tyS : CType := ⟨.address 1 "C", [("S", .struct), ("C", .contract)]⟩
def tyR : CType := ⟨.address 1 "C", [("R", .resource), ("C", .contract)]⟩

def readMod : String → Option (Access Nat)
  | "self" => some (.prim .self) | "contract" => some (.prim .contract)
  | "account" => some (.prim .account) | "all" => some (.prim .all)
  | "E1" => some (.set .conj [1]) | "E1|E2" => some (.set .disj [1, 2]) | "E1,E2" => some (.set .conj [1, 2])
  | _ => none

def readCont : String → Option CType
  | "C" => some tyC | "S" => some tyS | "R" => some tyR | _ => none

def readVia : String → Option (Option (Access Nat))
  | "owned" => some none
  | "ref" => some (some (.prim .all))
  | "ref:E1" => some (some (.set .conj [1])) | "ref:E2" => some (some (.set .conj [2]))
  | "ref:E1,E2" => some (some (.set .conj [1, 2])) | "ref:E1|E2" => some (some (.set .disj [1, 2]))
  | _ => none

def readSite (via : Option (Access Nat)) : String → Option Site
  | "inC" => some ⟨.address 1 "C", tyC.path, via⟩
  | "inS" => some ⟨.address 1 "C", tyS.path, via⟩
  | "inR" => some ⟨.address 1 "C", tyR.path, via⟩
  | "D1" => some ⟨.address 1 "D", [("D", .contract)], via⟩
  | "DT1" => some ⟨.address 1 "D", [("T", .struct), ("D", .contract)], via⟩
  | "F2" => some ⟨.address 2 "F", [("F", .contract)], via⟩
  | "script" => some ⟨.script 7, [], via⟩
  | "tx" => some ⟨.transaction 9, [], via⟩
  | _ => none

/-! executable reading of `Verif.Spec.AccessSpec` -/

def insideB (s : Site) (t : CType) : Bool := t.loc == s.loc && !t.path.isEmpty && t.path.isSuffixOf s.path

def enclosingContracts (t : CType) : List CType :=
  (List.range (t.path.length + 1)).filterMap fun i =>
    match t.path.drop i with
    | (n, .contract) :: ps =>
      if (t.path.take i).all (fun q => q.2 != .contract) then some ⟨t.loc, (n, .contract) :: ps⟩ else none
    | _ => none

def sameAccountB : Location → Location → Bool
  | .address a _, .address b _ => a == b
  | l, r => l == r

def specB (s : Site) (m : Member) : Bool :=
  match m.access with
  | .prim .all => true
  | .prim .pubSettableLegacy => true
  | .prim .contract => insideB s m.container || (enclosingContracts m.container).any (insideB s)
  | .prim .account => insideB s m.container || sameAccountB s.loc m.container.loc
  | .prim _ => insideB s m.container
  | .set k es =>
    match s.viaRef with
    | none => true
    | some held => Verif.Spec.Auth.permitsSpec [1, 2] (.set k es) held
  | .map _ => true

def specAssignB (s : Site) (m : Member) (c : AssignCtx) : Bool :=
  insideB s m.container && (!m.isLet || (c.selfAccess && c.inInit && !c.initialized)) &&
  (!(m.isResource && c.selfAccess && c.inInit) || !c.initialized)

def render (errs : List String) : String :=
  if errs.isEmpty then "ok" else
  let ks := ["AssignmentToConstantMemberError", "FieldReinitializationError", "InvalidAccessError", "InvalidAssignmentAccessError"]
  ";".intercalate (ks.filterMap fun k => let n := errs.count k; if n == 0 then none else some (k ++ "*" ++ toString n))

def assignName : AssignErr → String
  | .invalidAssignmentAccess => "InvalidAssignmentAccessError"
  | .assignmentToConstantMember => "AssignmentToConstantMemberError"
  | .fieldReinitialization => "FieldReinitializationError"

def accTag : Access Nat → String
  | .prim .self => "self" | .prim .contract => "contract" | .prim .account => "account" | .prim .all => "all"
  | .set .conj _ => "ent-conj" | .set .disj _ => "ent-disj" | _ => "other"

def judge (op : List String) (go : String) : Verdict :=
  match op with
  | ["access", kind, mod, cont, mk, site, via] =>
    match readMod mod, readCont cont, readVia via with
    | some acc, some ct, some v =>
      match readSite v site with
      | none => .skip "bad-site"
      | some s =>
        let m : Member := ⟨acc, ct, mk == "field-let", false⟩
        let ctx : AssignCtx := ⟨false, false, false⟩
        let r := readable .strict s m
        let modelErrs := (if r then [] else ["InvalidAccessError"]) ++
          (if kind == "write" then (assignErrs .strict s m ctx).map assignName else [])
        let model := render modelErrs
        let sr := specB s m
        let accepted := go == "ok"
        let specAccepts := sr && (kind != "write" || specAssignB s m ctx)
        let goReadOk := !((go.splitOn "InvalidAccessError").length > 1)
        let tags := ["!nt", kind, "acc:" ++ accTag acc, "cont:" ++ cont, "site:" ++ site,
          (if v.isSome then "via-ref" else "owned"), (if r then "readable" else "unreadable"), "go:" ++ (if accepted then "ok" else "rejected")]
        if accepted != specAccepts then
          .violation (if accepted then "accepts-forbidden-access" else "rejects-permitted-access")
            (if specAccepts then "accepted" else "rejected") tags
        else if goReadOk != sr then
          .violation (if goReadOk then "accepts-forbidden-read" else "rejects-permitted-read")
            (if sr then "readable" else "unreadable") tags
        else if go == model then .ok tags else .modelDiff model tags
    | _, _, _ => .skip "bad-op"
  | ["access", "winit", lv, which] =>
    let m : Member := ⟨.prim .all, tyS, lv == "let", false⟩
    let s : Site := ⟨.address 1 "C", tyS.path, none⟩
    let ctxs : List AssignCtx := match which with
      | "first" => [⟨true, true, false⟩]
      | "second" => [⟨true, true, false⟩, ⟨true, true, true⟩]
      | _ => [⟨true, true, false⟩, ⟨true, false, true⟩]
    let model := render ((ctxs.flatMap fun c => assignErrs .strict s m c).map assignName)
    let specAccepts := ctxs.all fun c => specAssignB s m c
    let tags := ["!nt", "winit", lv, which]
    if (go == "ok") != specAccepts then
      .violation (if go == "ok" then "accepts-forbidden-assignment" else "rejects-permitted-assignment")
        (if specAccepts then "accepted" else "rejected") tags
    else if go == model then .ok tags else .modelDiff model tags
  | _ => .skip "unknown-op"

def main : IO Unit := runDriver judge
