import Verif.Util.Proto
import Verif.Model.Front.Literals
/-! Driver for stream `lit` (C40).
  `lit int <T> <text> <engine>`  => `ok:<value>` | `perr:<kinds>` | `cerr:<kinds>`
  `lit fix <T> <text> <engine>`  => `ok:<raw scaled value>` | …
  `lit str <hex of UTF-8 source between quotes> <engine>` => `ok:<hex of UTF-8 result>` | `perr:…` -/
open Verif.Proto Verif.Model.Front.Literals

def parseIntTy (s : String) : Option IntTy :=
  if s == "Int" then some ⟨true, none⟩ else if s == "UInt" then some ⟨false, none⟩ else
  let go (pre : String) (signed : Bool) : Option IntTy :=
    if s.startsWith pre then ((s.drop pre.length).toString.toNat?).map fun b => ⟨signed, some b⟩ else none
  (go "Int" true).orElse fun _ => (go "UInt" false).orElse fun _ => go "Word" false

def parseFixTy : String → Option FixTy
  | "Fix64" => some .fix64 | "UFix64" => some .ufix64 | "Fix128" => some .fix128 | "UFix128" => some .ufix128
  | _ => none

def errName : LitErr → String
  | .lead => "lead" | .trail => "trail" | .prefix_ => "prefix" | .missing => "missing" | .unknown => "unknown"

/-- kinds in the harness's (alphabetical) order -/
def renderKinds (es : List LitErr) (syn : Bool) : String :=
  let names := (es.map errName) ++ (if syn then ["syntax"] else [])
  let order := ["lead", "missing", "prefix", "syntax", "trail", "unknown"]
  ",".intercalate (order.filter names.contains)

def renderRes (r : Res Int) : String :=
  match r with
  | .ok v => s!"ok:{v}"
  | .parseErr es syn => "perr:" ++ renderKinds es syn
  | .rangeErr => "cerr:range"
  | .scaleErr => "cerr:scale"

def resTag : Res Int → String
  | .ok _ => "accepted" | .parseErr _ _ => "parse-error" | .rangeErr => "range-error" | .scaleErr => "scale-error"

/-! ### independent spec: positional value, grammar -/

def specDigit (c : Char) : Nat :=
  if '0' ≤ c && c ≤ '9' then c.toNat - 48 else if 'a' ≤ c && c ≤ 'f' then c.toNat - 87 else c.toNat - 55

/-- Σ dᵢ·baseⁱ (least significant digit last in the text) -/
def positional (base : Nat) (ds : List Char) : Nat :=
  (ds.reverse.zipIdx.map fun (c, i) => specDigit c * base ^ i).foldl (· + ·) 0

def validDigit (base : Nat) (c : Char) : Bool :=
  (('0' ≤ c && c ≤ '9') || ('a' ≤ c && c ≤ 'f') || ('A' ≤ c && c ≤ 'F')) && specDigit c < base

/-- grammar of integer literals: optional prefix, digits of the base with single or repeated inner underscores -/
def specInt (cs : List Char) : Option Nat :=
  let (base, body) := match cs with
    | '0' :: 'b' :: r => (2, r) | '0' :: 'o' :: r => (8, r) | '0' :: 'x' :: r => (16, r) | _ => (10, cs)
  let ds := body.filter (· != '_')
  if body.head? == some '_' || body.getLast? == some '_' || ds.isEmpty || !ds.all (validDigit base) then none
  else some (positional base ds)

def inRange (v : Int) (t : IntTy) : Bool :=
  match t.signed, t.bits with
  | true, none => true
  | false, none => v ≥ 0
  | true, some b => -(2 : Int) ^ (b - 1) ≤ v && v < (2 : Int) ^ (b - 1)
  | false, some b => 0 ≤ v && v < (2 : Int) ^ b

/-- spec for fixed-point text `ip.fp` (both parts with at least one digit): raw value at the type's scale -/
def specFix (neg : Bool) (cs : List Char) (t : FixTy) : Option String :=
  let ip := (cs.takeWhile (· != '.')).filter (· != '_')
  let fp := ((cs.dropWhile (· != '.')).drop 1).filter (· != '_')
  if ip.isEmpty || fp.isEmpty || !(ip ++ fp).all (validDigit 10) || (cs.filter (· == '.')).length != 1 then none else
  let nd := fp.length
  if nd > t.scale then some "cerr:scale" else
  let mag : Int := (positional 10 ip : Int) * 10 ^ t.scale + (positional 10 fp : Int) * 10 ^ (t.scale - nd)
  let v := if neg then -mag else mag
  if t.minRaw ≤ v && v ≤ t.maxRaw then some s!"ok:{v}" else some "cerr:range"

def hexToRunes (hex : String) : Option (List Nat) :=
  match parseHex hex with
  | none => none
  | some bs => (String.fromUTF8? (ByteArray.mk bs.toArray)).map fun s => s.toList.map Char.toNat

def runesToHex (rs : List Nat) : String :=
  toHex (String.ofList (rs.map Char.ofNat)).toUTF8.toList

/-- does the source contain a `\u{…}` escape with hex digits whose value is not a Unicode scalar value,
    or an empty `\u{}`?  (scan; escapes `\\` skipped) -/
partial def oddUnicodeEscape : List Nat → Option String
  | 92 :: 92 :: rest => oddUnicodeEscape rest
  | 92 :: 117 :: 123 :: rest =>
    let ds := rest.takeWhile (fun c => (parseHexDigit c).isSome)
    let after := rest.drop ds.length
    if after.head? == some 125 && ds.length ≤ 8 then
      if ds.isEmpty then oddUnicodeEscape after else
      let v := ds.foldl (fun a c => a * 16 + (parseHexDigit c).getD 0) 0
      if v > 0x10FFFF || (0xD800 ≤ v && v ≤ 0xDFFF) then some "unicode-escape-not-a-scalar-value-accepted"
      else oddUnicodeEscape after
    else oddUnicodeEscape rest
  | _ :: rest => oddUnicodeEscape rest
  | [] => none

def judge (op : List String) (go : String) : Verdict :=
  let bad := go == "panic" || go == "hang" || go.startsWith "err"
  match op with
  | ["lit", "int", tyS, text, _engine] =>
    match parseIntTy tyS with
    | none => .skip "bad-type"
    | some ty =>
      let neg := text.startsWith "-"
      let cs := (if neg then (text.drop 1).toString else text).toList
      let mo := integerLiteral neg cs ty
      let m := renderRes mo
      let baseTag := match cs with
        | '0' :: 'b' :: _ => "base2" | '0' :: 'o' :: _ => "base8" | '0' :: 'x' :: _ => "base16" | _ => "base10"
      let tags := ["!nt", "int", tyS, baseTag, resTag mo] ++ (if cs.contains '_' then ["underscores"] else [])
        ++ (if cs.length > 80 then ["long"] else []) ++ (if neg then ["neg"] else [])
      if bad then .violation "go-panic-or-internal" "value-or-user-error" tags else
      match specInt cs with
      | some mag =>
        let v : Int := if neg then -(mag : Int) else mag
        let spec := if inRange v ty then s!"ok:{v}" else "cerr:range"
        if go != spec then
          .violation (if go.startsWith "ok:" then "wrong-value" else if spec.startsWith "ok:" then "in-range-literal-rejected" else "out-of-range-literal-accepted") spec tags
        else if go == m then .ok tags else .modelDiff m tags
      | none =>
        if go.startsWith "ok:" then .violation "malformed-literal-accepted" "error" tags
        else if go == m then .ok ("malformed" :: tags) else .modelDiff m tags
  | ["lit", "fix", tyS, text, _engine] =>
    match parseFixTy tyS with
    | none => .skip "bad-type"
    | some ty =>
      let neg := text.startsWith "-"
      let cs := (if neg then (text.drop 1).toString else text).toList
      let mo := fixedLiteral neg cs ty
      let m := renderRes mo
      let tags := ["!nt", "fix", tyS, resTag mo] ++ (if cs.contains '_' then ["underscores"] else []) ++ (if neg then ["neg"] else [])
      if bad then .violation "go-panic-or-internal" "value-or-user-error" tags else
      match specFix neg cs ty with
      | some spec =>
        if go != spec then
          .violation (if go.startsWith "ok:" && spec.startsWith "ok:" then "wrong-value"
                 else if spec.startsWith "ok:" then "in-range-literal-rejected" else "out-of-range-or-scale-literal-accepted") spec tags
        else if go == m then .ok tags else .modelDiff m tags
      | none =>
        -- a part without digits (`1._`): outside the literal grammar of the property; model only
        if go == m then .ok ("part-without-digits" :: tags) else .modelDiff m tags
  | ["lit", "str", hex, engine] =>
    match hexToRunes hex with
    | none => .skip "bad-utf8"
    | some rs =>
      let (out, err) := stringLiteralContent rs
      -- a script's String value is NFC-normalised (C19): compare evaluated results only when ASCII
      if engine != "parse" && !err && out.any (· > 127) then .skip "non-ascii-result-is-nfc-normalised" else
      let m := if err then "perr:syntax" else "ok:" ++ runesToHex out
      let tags := ["!nt", "str", if err then "parse-error" else "accepted"]
        ++ (if rs.contains 92 then ["escapes"] else []) ++ (if rs.any (· > 127) then ["non-ascii"] else [])
      if bad then .violation "go-panic-or-internal" "value-or-user-error" tags else
      match (if go.startsWith "ok:" then oddUnicodeEscape rs else none) with
      | some cls => .violation cls "syntax-error" tags
      | none => if go == m then .ok tags else .modelDiff m tags
  | _ => .skip "unknown-op"

def main : IO Unit := runDriver judge
