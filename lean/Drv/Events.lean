import Verif.Util.Proto
import Verif.Model.Lang3.EventsRead
/-!
Driver for the stream `events` (C48).

  events prog <label> forms=<..> <sx> <src> => <obs interp> @@ <obs vm> @@ <obs vm+peephole> | reject:<..>
       obs = <outcome>|<log;…>|<event;…>,  event = <short type id>(<name>=<value>,…) in payload order

Direct oracle (spec, judged on each engine's payloads without running the model): every payload's type
id is that of a declared event (a top-level `Ek` or `Rk.ResourceDestroyed`) and its field names are exactly
the declared parameter names in declaration order, and every value (parsed back from the rendered payload)
conforms to the declared field type — class `event-shape`.  Then model = each engine
(outcome, log, ordered payloads with values); engines must agree (`engines-differ`).
-/
open Verif.Proto Verif.Model.Lang3.Events

def declaredShapes (p : Program) : List (String × List String × List Ty) :=
  p.events.map (fun d => (d.id, d.params.map (·.name), d.params.map (·.ty))) ++
  (p.resources.zipIdx.filterMap fun (d, i) =>
    d.destroyEvent.map fun ps => (resEventId i, ps.map (·.name), ps.map (·.ty))) ++
  (p.ifaces.zipIdx.filterMap fun (d, i) =>
    d.destroyEvent.map fun ps => (ifaceEventId i, ps.map (·.name), ps.map (·.ty)))

/-- `Ty(n1=v1,n2=v2)` → (`Ty`, [n1, n2]); values may contain `,` `=` inside brackets/quotes: split at depth 0 -/
def payloadShape (s : String) : String × List String :=
  let ty := (s.takeWhile (· ≠ '(')).toString
  let body := ((s.drop (ty.length + 1)).dropEnd 1).toString
  let rec go (cs : List Char) (depth : Nat) (inStr : Bool) (cur : List Char) (acc : List String) : List String :=
    match cs with
    | [] => if cur.isEmpty then acc.reverse else (String.ofList cur.reverse :: acc).reverse
    | c :: rest =>
      if inStr then go rest depth (c ≠ '"') (c :: cur) acc
      else if c == '"' then go rest depth true (c :: cur) acc
      else if c == '(' || c == '[' || c == '{' then go rest (depth + 1) false (c :: cur) acc
      else if c == ')' || c == ']' || c == '}' then go rest (depth - 1) false (c :: cur) acc
      else if c == ',' && depth == 0 then go rest depth false [] (String.ofList cur.reverse :: acc)
      else go rest depth false (c :: cur) acc
  let fields := go body.toList 0 false [] []
  (ty, fields.map fun f => (f.takeWhile (· ≠ '=')).toString)

/-- parser for rendered values (`Int:5`, `"s"`, `true`, `nil`, `some(v)`, `[v,v]`, `addr:0x…`) -/
partial def parseVal : List Char → Option (Val × List Char)
  | 'n' :: 'i' :: 'l' :: rest => some (.nil, rest)
  | 't' :: 'r' :: 'u' :: 'e' :: rest => some (.bool true, rest)
  | 'f' :: 'a' :: 'l' :: 's' :: 'e' :: rest => some (.bool false, rest)
  | 's' :: 'o' :: 'm' :: 'e' :: '(' :: rest =>
    match parseVal rest with
    | some (v, ')' :: rest') => some (.some v, rest')
    | _ => none
  | '"' :: rest =>
    let str := rest.takeWhile (· ≠ '"')
    some (.str (String.ofList str), (rest.drop (str.length + 1)))
  | 'a' :: 'd' :: 'd' :: 'r' :: ':' :: '0' :: 'x' :: rest =>
    let hex := rest.takeWhile fun c => c.isDigit || ('a' ≤ c && c ≤ 'f')
    let n := hex.foldl (fun acc c => acc * 16 + (if c.isDigit then c.toNat - '0'.toNat else c.toNat - 'a'.toNat + 10)) 0
    some (.addr n, rest.drop hex.length)
  | '[' :: ']' :: rest => some (.arr [], rest)
  | '[' :: rest =>
    let rec elems (cs : List Char) (acc : List Val) : Option (List Val × List Char) :=
      match parseVal cs with
      | some (v, ',' :: rest') => elems rest' (v :: acc)
      | some (v, ']' :: rest') => some ((v :: acc).reverse, rest')
      | _ => none
    (elems rest []).map fun (vs, r) => (.arr vs, r)
  | cs =>
    let ty := cs.takeWhile (· ≠ ':')
    match cs.drop ty.length with
    | ':' :: rest =>
      let num := rest.takeWhile fun c => c.isDigit || c == '-'
      (String.ofList num).toInt?.map fun n => (.int (String.ofList ty) n, rest.drop num.length)
    | _ => none

/-- `Ty(n1=v1,n2=v2)` → the rendered values, split at depth 0 -/
def payloadValues (s : String) : List String :=
  let ty := (s.takeWhile (· ≠ '(')).toString
  let body := ((s.drop (ty.length + 1)).dropEnd 1).toString
  let rec go (cs : List Char) (depth : Nat) (inStr : Bool) (cur : List Char) (acc : List String) : List String :=
    match cs with
    | [] => if cur.isEmpty then acc.reverse else (String.ofList cur.reverse :: acc).reverse
    | c :: rest =>
      if inStr then go rest depth (c ≠ '"') (c :: cur) acc
      else if c == '"' then go rest depth true (c :: cur) acc
      else if c == '(' || c == '[' || c == '{' then go rest (depth + 1) false (c :: cur) acc
      else if c == ')' || c == ']' || c == '}' then go rest (depth - 1) false (c :: cur) acc
      else if c == ',' && depth == 0 then go rest depth false [] (String.ofList cur.reverse :: acc)
      else go rest depth false (c :: cur) acc
  (go body.toList 0 false [] []).map fun f => ((f.dropWhile (· ≠ '=')).drop 1).toString

/-- every delivered value conforms to the declared field type (judged on the Go payload alone) -/
def valuesConform (tys : List Ty) (vals : List String) : Bool :=
  tys.length == vals.length && (tys.zip vals).all fun (t, v) =>
    match parseVal v.toList with
    | some (x, []) => hasTy x t
    | _ => false

def obsEvents (o : String) : List String :=
  match o.splitOn "|" with
  | [_, _, evs] => if evs.isEmpty then [] else evs.splitOn ";"
  | _ => []

def renderRun (r : Except Err Unit × St) : String :=
  let out := match r.1 with
    | .ok _ => "ok:void"
    | .error .transferType => "internal:go:ValueTransferTypeError"
    | .error .argCount => "user:go:arg-count"
    | .error .forceNil => "user:force-nil"
    | .error (.internal w) => "model-internal:" ++ w
  let logs := r.2.tr.filterMap fun | .log s => some s | _ => none
  let evs := r.2.tr.filterMap fun | .event e => some e.render | _ => none
  out ++ "|" ++ ";".intercalate logs ++ "|" ++ ";".intercalate evs

def judge (op : List String) (go : String) : Verdict :=
  match op with
  | _ :: "prog" :: _ =>
    let sx := op.getD 4 ""
    let forms := ((op.getD 3 "").drop 6).toString.splitOn "," |>.filter (· ≠ "")
    if go.startsWith "reject:" then .skip "rejected-by-checker" else
    match readProgram sx, go.splitOn " @@ " with
    | some p, [oi, ov, oo] =>
      let shapes := declaredShapes p
      let shapeOk := fun (o : String) => (obsEvents o).all fun e =>
        let (ty, names) := payloadShape e
        match shapes.find? (·.1 == ty) with
        | some (_, declared, tys) => declared == names && valuesConform tys (payloadValues e)
        | none => false
      let m := renderRun p.run
      let nEv := (obsEvents oi).length
      let destroyEv := (obsEvents oi).any fun e => (e.splitOn ".ResourceDestroyed(").length > 1
      let tags := forms ++ ["events=" ++ toString (min nEv 8)] ++ (if destroyEv then ["destroy-payload"] else []) ++
        (if nEv > 0 then ["!nt"] else [])
      if !(shapeOk oi && shapeOk ov && shapeOk oo) then
        .violation "event-shape" "declared type id; declared fields in declaration order; values of the declared types" tags
      else if oi ≠ ov then .violation "engines-differ" ("vm = interpreter = " ++ oi) tags
      else if ov ≠ oo then .violation "peephole-differs" ("vm+peephole = vm = " ++ ov) tags
      else if m.startsWith "model-internal" then .skip m
      else if m ≠ oi then .modelDiff m tags
      else .ok tags
    | none, _ => .skip "sx-unreadable"
    | _, _ => .skip "bad-go-result"
  | _ => .skip "unknown-op"

def main : IO Unit := runDriver judge
