import Verif.Util.Proto
import Verif.Model.Cast
import Verif.Gen.SubtypeRules
/-! Driver for stream `cast` (C09): op `cast ENGINE VALUE DECLARED-TYPE TYPE`
    (ENGINE `both`: resource values, one observation per engine); values `at T | nil | sm V |
    rf AUTH V`, types in the Polish notation of stream `types`.  The subtype relation is the
    interpretation of the *regenerated* rules. -/
open Verif.Proto Verif.Model.Types Verif.Model.Auth Verif.Model.Cast

def rules := Verif.Gen.SubtypeRules.rules

def parseKind : String → Option Kind
  | "struct" => some .struct | "resource" => some .resource | "contract" => some .contract
  | "enum" => some .enum | "attachment" => some .attachment | "event" => some .event | _ => none

def parseNames (s : String) : List String := if s == "-" then [] else s.splitOn ","

def parseAuth (s : String) : Option (Access String) :=
  if s == "u" then some unauthorized
  else if s.startsWith "c:" then some (.set .conj ((s.drop 2).toString.splitOn ","))
  else if s.startsWith "d:" then some (.set .disj ((s.drop 2).toString.splitOn ","))
  else none

mutual
def parseTy : Nat → List String → Option (Ty × List String)
  | 0, _ => none
  | fuel + 1, toks =>
    match toks with
    | "p" :: n :: rest => some (.prim n, rest)
    | "o" :: rest => (parseTy fuel rest).map (fun (t, r) => (.opt t, r))
    | "va" :: rest => (parseTy fuel rest).map (fun (t, r) => (.varArr t, r))
    | "ca" :: n :: rest => match n.toNat? with
      | some n => (parseTy fuel rest).map (fun (t, r) => (.constArr t n, r))
      | none => none
    | "d" :: rest => match parseTy fuel rest with
      | some (k, r) => (parseTy fuel r).map (fun (v, r') => (.dict k v, r'))
      | none => none
    | "r" :: a :: rest => match parseAuth a with
      | some a => (parseTy fuel rest).map (fun (t, r) => (.ref a t, r))
      | none => none
    | "comp" :: name :: kind :: confs :: base :: rest =>
      (parseKind kind).map (fun k => (.comp name k (parseNames confs) (base == "1"), rest))
    | "if" :: name :: kind :: confs :: rest =>
      (parseKind kind).map (fun k => (.iface { name := name, kind := k, confs := parseNames confs }, rest))
    | "in" :: n :: rest => match n.toNat? with
      | some n => (parseIfaces fuel n rest).map (fun (is, r) => (.inter is, r))
      | none => none
    | "f" :: purity :: n :: rest => match n.toNat? with
      | some n => match parseParams fuel n rest with
        | some (ps, r) => (parseTy fuel r).map (fun (ret, r') => (.fn (purity == "view") ps ret, r'))
        | none => none
      | none => none
    | "capany" :: rest => some (.capAny, rest)
    | "cap" :: rest => (parseTy fuel rest).map (fun (t, r) => (.cap t, r))
    | "rng" :: rest => (parseTy fuel rest).map (fun (t, r) => (.range t, r))
    | _ => none
def parseIfaces : Nat → Nat → List String → Option (List Iface × List String)
  | 0, _, _ => none
  | _ + 1, 0, rest => some ([], rest)
  | fuel + 1, n + 1, toks => match parseTy fuel toks with
    | some (.iface i, r) => (parseIfaces fuel n r).map (fun (is, r') => (i :: is, r'))
    | _ => none
def parseParams : Nat → Nat → List String → Option (Ty × List String)
  | 0, _, _ => none
  | _ + 1, 0, rest => some (.nilT, rest)
  | fuel + 1, n + 1, toks => match parseTy fuel toks with
    | some (t, r) => (parseParams fuel n r).map (fun (ps, r') => (.consT t ps, r'))
    | none => none
end

def parseType (s : String) : Option Ty :=
  let toks := (s.splitOn " ").filter (· != "")
  match parseTy (toks.length + 1) toks with
  | some (t, []) => some t
  | _ => none


/-- value encodings; returns the value and the remaining tokens -/
def parseVal : Nat → List String → Option (DVal × List String)
  | 0, _ => none
  | fuel + 1, toks =>
    match toks with
    | "nil" :: rest => some (.nilV, rest)
    | "sm" :: rest => (parseVal fuel rest).map (fun (v, r) => (.some v, r))
    | "rf" :: a :: rest => match parseAuth a with
      | some a => (parseVal fuel rest).map (fun (v, r) => (.ref a v, r))
      | none => none
    | "at" :: rest => (parseTy (rest.length + 1) rest).map (fun (t, r) => (.atom t "", r))
    | _ => none

def parseValue (s : String) : Option DVal :=
  let toks := (s.splitOn " ").filter (· != "")
  match parseVal (toks.length + 1) toks with
  | some (v, []) => some v
  | _ => none

def bit (b : Bool) : String := if b then "1" else "0"

def authID : Access String → String
  | .set .conj es => "auth(" ++ ",".intercalate es ++ ")"
  | .set .disj es => "auth(" ++ "|".intercalate es ++ ")"
  | _ => ""

/-- the type identifier as the harness prints it (location prefixes removed; sets are sorted already) -/
partial def tyID : Ty → String
  | .prim "MetaType" => "Type"
  | .prim n => n
  | .opt t => "(" ++ tyID t ++ ")?"
  | .varArr t => "[" ++ tyID t ++ "]"
  | .constArr t n => "[" ++ tyID t ++ ";" ++ toString n ++ "]"
  | .dict k v => "{" ++ tyID k ++ ":" ++ tyID v ++ "}"
  | .ref a t => authID a ++ "&" ++ tyID t
  | .comp n _ _ _ => n
  | .iface i => i.name
  | .inter is => "{" ++ ",".intercalate (is.map (·.name)) ++ "}"
  | .fn v p r => (if v then "view " else "") ++ "fun(" ++ ",".intercalate (p.toList.map tyID) ++ "):" ++ tyID r
  | .capAny => "Capability"
  | .cap t => "Capability<" ++ tyID t ++ ">"
  | .range t => "InclusiveRange<" ++ tyID t ++ ">"
  | _ => "?"

def headTag : Ty → String
  | .prim _ => "prim" | .opt _ => "opt" | .varArr _ => "varArr" | .constArr .. => "constArr" | .dict .. => "dict"
  | .ref .. => "ref" | .comp .. => "comp" | .iface _ => "iface" | .inter _ => "inter" | .fn .. => "fn"
  | .capAny => "cap" | .cap _ => "cap" | .range _ => "range" | _ => "other"

def isOpt : Ty → Bool
  | .opt _ => true | _ => false

def valTag : DVal → String
  | .atom t _ => "atom-" ++ headTag t | .nilV => "nil" | .some _ => "some" | .ref .. => "ref" | .storageRef .. => "storage-ref"

def fieldOf (go : String) (key : String) : String :=
  match (go.splitOn " ").find? (fun f => f.startsWith (key ++ "=")) with
  | some f => (f.drop (key.length + 1)).toString
  | none => ""

/-- the types a resource cast's result is asked `isInstance` of (the harness' `rcastProbes`) -/
def rcastProbes : List Ty :=
  let r : Ty := .comp "R" .resource ["RI"] false
  let any : Ty := .prim "AnyResource"
  [r, .opt r, .opt (.opt r), .inter [{ name := "RI", kind := .resource, confs := [] }], any,
   .varArr r, .varArr (.opt r), .varArr any, .dict (.prim "String") r]

/-- `cast both VALUE DECL TYPE`: resource values; the observation holds both engines' answers -/
def judgeRcast (venc tenc go : String) : Verdict :=
  match parseValue venc, parseType tenc with
  | some v, some t =>
    let v' := unboxForCast t v
    let fuel := fuelFor (dynType v) t + 80
    let mi := isInstance rules fuel v t
    let mg := getTypeIsSubtype rules fuel v t
    let probes (r : DVal) : String := String.join (rcastProbes.map (fun p => bit (isInstance rules (fuelFor (dynType r) p + 80) r p)))
    let observed (res : Option DVal) : Bool := match res with | some r => !(r == .nilV && isOpt t) | none => false
    let model (res : Option DVal) (force : Except Unit DVal) : String :=
      let mc := observed res
      let (mrty, mri) := match res with
        | some r => if mc then (tyID (getType r), probes r) else ("-", "-")
        | none => ("-", "-")
      let (mf, mfrty, mfri) := match force with
        | .ok r => ("ok", tyID (getType r), probes r)
        | .error _ => ("fail", "-", "-")
      "c=" ++ bit mc ++ " i=" ++ bit mi ++ " g=" ++ bit mg ++ " vty=" ++ tyID (getType v) ++ " rty=" ++ mrty ++
        " ri=" ++ mri ++ " f=" ++ mf ++ " frty=" ++ mfrty ++ " fri=" ++ mfri
    let mc := observed (castFailable rules fuel v t)
    let m := model (castFailable rules fuel v t) (castForce rules fuel v t) ++ " || " ++
      model (castFailableVM rules fuel v t) (castForceVM rules fuel v t)
    let tags := ["rcast", "v-" ++ valTag v, "d-" ++ toString v.depth, "t-" ++ headTag (unwrapOptionalType t), "to-" ++ toString (optDepth t),
      "c-" ++ bit mc, if v' == v then "as-is" else "unboxed"] ++ (if mc then ["!nt"] else [])
    -- the direct oracles on one engine's observation
    let half (engine g : String) : Option Verdict :=
      let tags := tags.take 1 ++ [engine] ++ tags.drop 1
      let c := fieldOf g "c"; let i := fieldOf g "i"; let gs := fieldOf g "g"
      let rty := fieldOf g "rty"; let f := fieldOf g "f"; let frty := fieldOf g "frty"
      let plain := !v.isOptional
      let clean := noRef (dynType v) && unbox v != .nilV
      let unwrapRule := "a successful cast yields the original value, optionals unwrapped unless the target is AnyStruct/AnyResource or an optional of them: result type " ++ tyID (specResultType v t)
      if !(f == "ok" || f == "fail") then some (.violation "go-panic-or-internal" "as! succeeds or raises ForceCastTypeMismatchError" tags)
      else if f != (if c == "1" then "ok" else "fail") then
        some (.violation (if unbox v == .nilV && isOpt t && f == "ok" then "nil-cast-to-optional-observed-as-nil" else "force-vs-failable")
          "as! fails exactly when as? yields nil" tags)
      else if plain && !(c == i && i == gs) then
        some (.violation "cast-instance-disagree" "as? succeeds iff isInstance iff getType().isSubtype" tags)
      else if c == "1" && (frty != rty || fieldOf g "fri" != fieldOf g "ri") then
        some (.violation "force-vs-failable-result" "as! and as? yield the same value" tags)
      else if clean && c == "1" && rty != tyID (specResultType v t) then some (.violation "cast-optional-unwrap-rule" unwrapRule tags)
      else if clean && f == "ok" && frty != tyID (specResultType v t) then some (.violation "cast-optional-unwrap-rule" unwrapRule tags)
      else none
    match go.splitOn " || " with
    | [gi, gv] =>
      if gi.startsWith "err:user" && gv.startsWith "err:user" then .skip "script-rejected"
      else if gi.startsWith "err" || gv.startsWith "err" then .violation "go-panic-or-internal" "nine observations per engine" tags
      else
        match (half "interp" gi).or (half "vm" gv) with
        | some verdict => verdict
        | none =>
          if gi != gv then
            .violation (if v == .nilV && t == .prim "AnyResource" && fieldOf gi "c" == "0" && fieldOf gi "f" == "fail" &&
                            fieldOf gv "c" == "1" && fieldOf gv "f" == "ok" then "nil-cast-to-anyresource-engines-disagree"
                        else if fieldOf gi "rty" != fieldOf gv "rty" || fieldOf gi "frty" != fieldOf gv "frty" then "engines-disagree-result-type"
                        else "engines-disagree")
              ("both engines agree on the cast's outcome and on the run-time type of its result: interp " ++ gi) tags
          else if go == m then .ok tags else .modelDiff m tags
    | _ => .violation "go-panic-or-internal" "two engines' observations" tags
  | _, _ => .skip "bad-encoding"

def judge (op : List String) (go : String) : Verdict :=
  match op with
  | ["cast", "both", venc, _decl, tenc] => judgeRcast venc tenc go
  | ["cast", engine, venc, _decl, tenc] =>
    match parseValue venc, parseType tenc with
    | some v, some t =>
      let v' := unboxForCast t v
      let fuel := fuelFor (dynType v) t + 40
      let vm := engine == "vm"
      let res := if vm then castFailableVM rules fuel v t else castFailable rules fuel v t
      -- what a program observes: `Some(nil)` (a nil value cast to an optional type) is nil
      let mc : Bool := match res with | some r => !(r == .nilV && isOpt t) | none => false
      let mi := isInstance rules fuel v t
      let mg := getTypeIsSubtype rules fuel v t
      let mf := match (if vm then castForceVM rules fuel v t else castForce rules fuel v t) with | .ok _ => "ok" | .error _ => "fail"
      let mrty := match res with
        | some r => if mc then tyID (getType r) else "-"
        | none => "-"
      let m := "c=" ++ bit mc ++ " i=" ++ bit mi ++ " g=" ++ bit mg ++ " rty=" ++ mrty ++ " f=" ++ mf
      let tags := ["cast", engine, "v-" ++ valTag v, "t-" ++ headTag t, "c-" ++ bit mc,
        if v' == v then "as-is" else "unboxed"] ++ (if mc then ["!nt"] else [])
      if go.startsWith "err:user" then .skip "script-rejected"
      else if go.startsWith "err" then .violation "go-panic-or-internal" "four observations" tags
      else
        let c := fieldOf go "c"; let i := fieldOf go "i"; let g := fieldOf go "g"
        let rty := fieldOf go "rty"; let f := fieldOf go "f"
        let plain := !v.isOptional && !v.isStorageRef
        -- no conversion applies and the result's `getType` is its own (not a referent's)
        let clean := noRef (dynType v) && unbox v != .nilV
        if !(f == "ok" || f == "fail") then .violation "go-panic-or-internal" "as! succeeds or raises ForceCastTypeMismatchError" tags
        else if f != (if c == "1" then "ok" else "fail") then
          .violation (if unbox v == .nilV && isOpt t && f == "ok" then "nil-cast-to-optional-observed-as-nil" else "force-vs-failable")
            "as! fails exactly when as? yields nil" tags
        else if plain && v.isEphemeralRef && !(c == i && i == g) then
          .violation "isinstance-forwarded-through-reference" "as? succeeds iff isInstance iff getType().isSubtype" tags
        else if plain && !(c == i && i == g) then
          .violation "cast-instance-disagree" "as? succeeds iff isInstance iff getType().isSubtype" tags
        else if plain && !v.isEphemeralRef && c == "1" && !isOpt t && rty != tyID (dynType v) then
          .violation (if !noRef (dynType v) then "cast-narrows-nested-authorizations"
                      else "cast-changes-value") "a successful cast yields the original value" tags
        else if clean && c == "1" && rty != tyID (specResultType v t) then
          .violation "cast-optional-unwrap-rule"
            ("a successful cast yields the original value, optionals unwrapped unless the target is AnyStruct/AnyResource or an optional of them: result type " ++ tyID (specResultType v t)) tags
        else if go == m then .ok tags else .modelDiff m tags
    | _, _ => .skip "bad-encoding"
  | _ => .skip "unknown-op"

def main : IO Unit := runDriver judge
