import Verif.Util.Proto
import Verif.Model.HostProp
import Verif.Spec.HostFacts
/-! Driver for stream `fault` (C28).
op:  fault <engine> <prog> <kind> <nsigners> <args> <src> { <method> <index> <mode> }+
obs: fired=<m#i:mode@frame,…|-> esc= res= ext= sent=<m#i:mode|-> class= dep= value=
The spec oracle reads the Go observation alone; the model (`Verif.Model.HostProp.execute` over the tree
of fired failures, with the extracted method table) must predict the same outcome. -/
open Verif.Proto Verif.Model.HostProp Verif.Spec.HostFacts

structure Fired where
  method : String
  tag : String      -- m#i:mode
  mode : Mode
  frame : String    -- none | try | pk

def parseFired (s : String) : Option (List Fired) :=
  if s == "-" then some [] else
  (s.splitOn ",").mapM fun item =>
    match item.splitOn "@" with
    | [tag, frame] =>
      let method := (tag.splitOn "#").headD ""
      let mode := if tag.endsWith ":panic" then Mode.panic else Mode.err
      some ⟨method, tag, mode, frame⟩
    | _ => none

def kv (obs : String) (key : String) : String :=
  match (obs.splitOn " ").find? (fun f => f.startsWith (key ++ "=")) with
  | some f => (f.drop (key.length + 1)).toString
  | none => ""

def methodIndex (name : String) : Nat :=
  (Verif.Gen.HostFacts.methods.findIdx? (fun m => m.name == name)).getD 1000

def isAbsorbMethod (m : String) : Bool := m == "BLSAggregateSignatures" || m == "BLSAggregatePublicKeys"

def nodeOf (f : Fired) : Tree :=
  let m := methodIndex f.method
  if f.frame == "try" then .tryUpdate (.call m)
  else if f.frame == "pk" then .pkValidate m
  else if isAbsorbMethod f.method then .absorbErr m
  else .call m

def treeOf : List Fired → Tree
  | [] => .nop
  | f :: fs => .seq (nodeOf f) (treeOf fs)

def judge (op : List String) (go : String) : Verdict :=
  match op with
  | "fault" :: engine :: prog :: _kind :: _ns :: _args :: _src :: faults =>
    if go == "panic" || go == "hang" then .violation "panic-escaped" "the harness itself crashed" [] else
    match parseFired (kv go "fired") with
    | none => .skip "unparsable-fired"
    | some fired =>
      let esc := kv go "esc"; let res := kv go "res"; let ext := kv go "ext"; let sent := kv go "sent"
      let dep := kv go "dep"
      let nFaults := faults.length / 3
      -- model
      let modes := fired.map (·.mode)
      let plan : Nat → Option Mode := fun c => modes[c]?
      let (mres, _) := execute (sitesOf Verif.Gen.HostFacts.methods) true plan (treeOf fired)
      let mstr := match mres with
        | .ok => "res=ok"
        | .error _ c => "res=err sent=" ++ ((fired[c]?).map (·.tag)).getD "?"
        | .escaped _ => "esc=1"
      let gstr := if esc == "1" then "esc=1" else if res == "ok" then "res=ok" else "res=err sent=" ++ sent
      -- spec oracle on the Go observation alone
      let tags := [engine, "p-" ++ prog, "faults-" ++ toString nFaults] ++
        fired.map (fun f => "f-" ++ f.method ++ (if f.mode == .panic then ":panic" else ":err") ++ "@" ++ f.frame)
      if esc == "1" then .violation "panic-escaped" "no panic may escape the runtime" tags else
      match fired.find? (fun f => f.frame == "none") with
      | some f =>
        if res == "ok" then
          let c := if isAbsorbMethod f.method && f.mode == .err then "bls-aggregate-error-swallowed" else "success-after-host-failure"
          .violation c ("an error carrying " ++ f.tag) tags
        else if sent != f.tag && ext == "1" && (fired.filter (fun g => g.frame == "none")).any (fun g => g.tag == sent) then
          -- a later host failure (a metrics callback running after the failure) replaced the first one:
          -- the result still carries a host failure
          .ok ("!nt" :: "later-failure-replaced-first" :: tags)
        else if sent != f.tag || ext != "1" then
          .violation "sentinel-lost" ("an external error carrying " ++ f.tag) tags
        else if gstr == mstr then .ok ("!nt" :: "propagated" :: tags)
        else if fired.any (fun g => g.frame == "pk") then .ok ("!nt" :: "later-failure-replaced-first" :: tags)
        else .modelDiff mstr tags
      | none =>
        match fired.find? (fun f => f.frame == "pk") with
        | some f =>
          -- documented: invalid-key user error (it still wraps the host error)
          if res != "err" then .violation "success-after-host-failure" "an invalid-key user error" tags
          else if kv go "ipk" != "1" && (fired.filter (fun g => g.frame == "none")).isEmpty then
            .violation "pk-exception-not-user-error" "an invalid-key user error" tags
          else if gstr == mstr || sent == f.tag then .ok ("!nt" :: "pk-exception" :: tags) else .modelDiff mstr tags
        | none =>
          if fired.isEmpty then
            if res == "ok" then .ok (if nFaults == 1 && faults.headD "" == "none" then "clean" :: tags else "not-reached" :: tags)
            else .violation "clean-run-failed" "the corpus program succeeds without faults" tags
          else
            -- all fired failures happened under contracts.tryUpdate: failed deployment result, program continues
            if res == "ok" && dep == "nil" then
              (if gstr == mstr then .ok ("!nt" :: "tryupdate-exception" :: tags) else .modelDiff mstr tags)
            else if res == "ok" then .violation "tryupdate-reports-deployment-after-failure" "deployedContract == nil" tags
            else .modelDiff mstr tags
  | _ => .skip "unknown-op"

def main : IO Unit := runDriver judge
