import Verif.Util.Proto
import Verif.Model.Metered
/-! Driver for stream `bounded` (C30).

* `run …`: the spec is judged directly — the run must end (no `hang`), must not crash, and must end
  normally or with a *user* error (computation / memory limit, call depth, or any other user error);
  an internal error, an escaped Go panic, a crash or a hang is a violation.
* `depth <configured> <D> [<shape>]`: `f(D)` nests `D + 1` calls below the entry point (as a function,
  method, closure, mutually recursive pair, or a closure inside a transaction's prepare); the model
  (`interpNested` / `vmNested`, theorems `depth`, `depth_engines_agree`) says it succeeds in both engines
  iff `D + 1 ≤ limit`; each engine is compared with that. -/
open Verif.Proto Verif.Model.Metered

def isOk (o : String) : Bool := o == "ok"
def isDepthErr (o : String) : Bool := o == "err:user:interpreter.CallStackLimitExceededError"

def judge (op : List String) (go : String) : Verdict :=
  match op with
  | "depth" :: cfg :: d :: shape =>
    match cfg.toNat?, d.toNat?, decide (shape.length ≤ 1) with
    | some configured, some dd, true =>
      let n := dd + 1
      let eff := interpEffectiveLimit configured
      let want := (interpNested configured n).isSome          -- true = succeeds
      let wantVM := (vmNested configured n).isSome             -- (= want: depth_engines_agree)
      let tags := [s!"configured={configured}", s!"shape={shape.headD "fun"}", if want then "within-limit" else "beyond-limit",
                   if n == eff || n == eff + 1 then "!nt-boundary" else "!nt"]
      -- (`slow` / `retried` markers of the harness carry no `=`)
      match ((go.splitOn " ").filter (fun w => w.contains '=')).map (fun w => (w.splitOn "=")) with
      | [["interp", oi], ["vm", ov]] =>
        let good (o : String) : Bool := if want then isOk o else isDepthErr o
        if !(good oi) then
          .violation "interp-depth-limit-wrong" s!"recursion {n} deep under limit {eff}: {if want then "ok" else "CallStackLimitExceededError"}" tags
        else if wantVM != want then .modelDiff "the model's engines disagree" tags
        else if good ov then .ok tags
        else .violation "engines-disagree-on-depth" "the same call-depth behaviour in both engines" tags
      | _ =>
        if go == "hang" || go.startsWith "crash:" then .violation "depth-crash-or-hang" "call-depth error, never a crash" tags
        else .skip "bad-observation"
    | _, _, _ => .skip "bad-depth-op"
  | "run" :: engine :: comp :: mem :: family :: _ =>
    let tags := [engine, family, s!"comp={comp}", s!"mem={mem}"]
    if go == "hang" then
      .violation "not-stopped-by-limits" "every run ends within the wall-clock bound, normally or with a limit error" tags
    else if go.startsWith "crash:" then
      .violation "crash" "no crash of the host process (stack exhaustion, out of memory, fatal error)" tags
    else
      let outcome := (go.splitOn " ;; ").headD ""
      if outcome == "ok" then .ok ("ended-normally" :: tags)
      else if outcome.startsWith "err:user:meterx.LimitError" then .ok ("!nt" :: "limit-error" :: tags)
      else if isDepthErr outcome then .ok ("!nt" :: "call-depth-error" :: tags)
      else if outcome.startsWith "err:user:sema.CheckerError" || outcome.startsWith "err:user:ParsingCheckingError" then
        .modelDiff "generated program rejected by the checker" tags
      else if outcome.startsWith "err:user:" then .ok ("other-user-error" :: tags)
      else if outcome.startsWith "err:internal" || outcome.startsWith "escaped" then
        .violation "internal-error" "limit errors and other failures are user errors" tags
      else if outcome.startsWith "err:" then
        .violation "non-user-error" "limit errors and other failures are user errors" tags
      else .skip "bad-observation"
  | _ => .skip "unknown-op"

def main : IO Unit := runDriver judge
