import Verif.Util.Proto
import Verif.Model.Metered
/-! Driver for stream `bounded` (C30).

* `run …`: the spec is judged directly — the run must end (no `hang`), must not crash, and must end
  normally or with a *user* error (computation / memory limit, call depth, or any other user error);
  an internal error, an escaped Go panic, a crash or a hang is a violation.
* `depth <configured> <D> [<shape>]`: `f(D)` nests `D + 1` calls below the entry point (as a function,
  method, closure, mutually recursive pair, or a closure inside a transaction's prepare); the model
  (`interpNested` / `vmNested`, theorems `depth`, `depth_engines_agree`) says it succeeds in both engines
  iff `D + 1 ≤ limit`; each engine is compared with that.  The shapes `sinit`, `rinit`, `rnest`, `initm`,
  `rinitev` recurse through composite initializers (a constructor call is one invocation in both engines).
  `rinitev` destroys a resource with a `ResourceDestroyed` event at every level: at `D + 1 = limit` the VM's two
  frames for the event (`destroyEvVM`) exceed the limit — class `vm-destroy-event-counts-call-frames`.
* `seq <configured> <K> <form> <base>`: `K` sequential invocations of one form, `base` invocations below
  the entry point; the spec (theorem `sequential_calls_do_not_accumulate`): both engines succeed iff
  `base + 1 ≤ limit`, whatever `K` is (forms that invoke nothing — optional chaining on nil — iff
  `base ≤ limit`); the model (`interpSeq` / `vmSeq`) is compared as well. -/
open Verif.Proto Verif.Model.Metered

def isOk (o : String) : Bool := o == "ok"
def isDepthErr (o : String) : Bool := o == "err:user:interpreter.CallStackLimitExceededError"

/-- kind of a `seq` form (mirrors `bdSeqForms` of the harness) -/
def seqKind (form : String) : Option String :=
  if ["fun", "method", "ref", "closure", "boundptr", "funptr", "cond", "iface", "ctor", "rctor"].contains form then some "cadence"
  else if ["optsome", "optref", "optres", "optvoid"].contains form then some "opt"
  else if form == "optnil" then some "nil"
  else if ["log", "tostring", "append", "conv"].contains form then some "native"
  else if form == "rctorev" then some "destroyev"
  else none

/-- what one iteration contributes to each engine's depth trace -/
def seqIter (kind : String) (vm : Bool) : List Ev :=
  if kind == "nil" then seqUncounted
  else if kind == "native" then (if vm then seqUncounted else seqCounted)
  else if kind == "destroyev" then seqCounted ++ (if vm then destroyEvVM else destroyEvInterp)
  else seqCounted

def parseObs (go : String) : Option (String × String) :=
  -- (`slow` / `retried` markers of the harness carry no `=`)
  match ((go.splitOn " ").filter (fun w => w.contains '=')).map (fun w => (w.splitOn "=")) with
  | [["interp", oi], ["vm", ov]] => some (oi, ov)
  | _ => none

def judge (op : List String) (go : String) : Verdict :=
  match op with
  | ["seq", cfg, k, form, base] =>
    match cfg.toNat?, k.toNat?, base.toNat?, seqKind form with
    | some configured, some kk, some b, some kind =>
      let eff := interpEffectiveLimit configured
      let want : Bool := if kind == "nil" || kk == 0 then decide (b ≤ eff) else decide (b + 1 ≤ eff)   -- the spec
      let mi := (interpSeq configured b kk (seqIter kind false)).isSome
      let mv := (vmSeq configured b kk (seqIter kind true)).isSome
      let tags := [s!"configured={configured}", s!"form={form}", s!"kind={kind}",
                   if b == 0 then "base=0" else if b + 1 == eff then "base=limit-1" else if b == eff then "base=limit" else "base=other",
                   if want then "within-limit" else "beyond-limit", if kk ≥ eff then "!nt-k>=limit" else "!nt"]
      if kind == "native" && !want then .skip "native-call-beyond-limit (C34 call-depth-counts-argument-nesting)"
      else match parseObs go with
      | some (oi, ov) =>
        let good (o : String) : Bool := if want then isOk o else isDepthErr o
        let req := s!"{kk} sequential {form} invocations at depth {b} under limit {eff}: {if want then "ok" else "CallStackLimitExceededError"} in both engines"
        if !(good oi) then
          .violation (if want && isDepthErr oi then "sequential-calls-accumulate-depth" else "interp-depth-limit-wrong") req tags
        else if !(good ov) then
          if kind == "destroyev" && want && isDepthErr ov && !mv then
            .violation "vm-destroy-event-counts-call-frames" req tags
          else .violation (if want && isDepthErr ov then "sequential-calls-accumulate-depth" else "engines-disagree-on-depth") req tags
        else if mi != want || mv != want then .modelDiff s!"model: interp {mi} vm {mv}" tags
        else .ok tags
      | none =>
        if go == "hang" || go.startsWith "crash:" then .violation "depth-crash-or-hang" "sequential calls end normally or with the call-depth error, never a crash" tags
        else .skip "bad-observation"
    | _, _, _, _ => .skip "bad-seq-op"
  | "depth" :: cfg :: d :: shape =>
    match cfg.toNat?, d.toNat?, decide (shape.length ≤ 1) with
    | some configured, some dd, true =>
      let n := dd + 1
      let eff := interpEffectiveLimit configured
      let want := (interpNested configured n).isSome          -- true = succeeds
      let wantVM := (vmNested configured n).isSome             -- (= want: depth_engines_agree)
      let tags := [s!"configured={configured}", s!"shape={shape.headD "fun"}", if want then "within-limit" else "beyond-limit",
                   if n == eff || n == eff + 1 then "!nt-boundary" else "!nt"]
      -- `rinitev`: the level `dd` deep destroys a resource with a ResourceDestroyed event (when dd ≥ 1)
      let evVM : Bool := shape.headD "fun" == "rinitev" && dd ≥ 1
      let wantVM := wantVM && (!evVM || (vmSeq configured dd 1 destroyEvVM).isSome)
      match parseObs go with
      | some (oi, ov) =>
        let good (o : String) : Bool := if want then isOk o else isDepthErr o
        if !(good oi) then
          .violation "interp-depth-limit-wrong" s!"recursion {n} deep under limit {eff}: {if want then "ok" else "CallStackLimitExceededError"}" tags
        else if good ov then
          if wantVM != want then .modelDiff "the model's engines disagree" tags else .ok tags
        else if evVM && want && !wantVM && isDepthErr ov then
          .violation "vm-destroy-event-counts-call-frames" s!"recursion {n} deep under limit {eff} destroying resources with a ResourceDestroyed event: ok in both engines" tags
        else .violation "engines-disagree-on-depth" "the same call-depth behaviour in both engines" tags
      | none =>
        if go == "hang" || go.startsWith "crash:" then .violation "depth-crash-or-hang" "call-depth error, never a crash" tags
        else .skip "bad-observation"
    | _, _, _ => .skip "bad-depth-op"
  | "run" :: engine :: comp :: mem :: family :: _ =>
    let tags := [engine, family, s!"comp={comp}", s!"mem={mem}"]
    if go == "hang" then
      .violation "not-stopped-by-limits" "every run ends within the wall-clock bound, normally or with a limit error" tags
    else if go.startsWith "crash:" then
      .violation "crash" "no crash of the host process (stack exhaustion, out of memory, fatal error)" tags
    else
      let outcome := (go.splitOn " ;; ").headD ""
      if outcome == "ok" then .ok ("ended-normally" :: tags)
      else if outcome.startsWith "err:user:meterx.LimitError" then .ok ("!nt" :: "limit-error" :: tags)
      else if isDepthErr outcome then .ok ("!nt" :: "call-depth-error" :: tags)
      else if outcome.startsWith "err:user:sema.CheckerError" || outcome.startsWith "err:user:ParsingCheckingError" then
        .modelDiff "generated program rejected by the checker" tags
      else if outcome.startsWith "err:user:" then .ok ("other-user-error" :: tags)
      else if outcome.startsWith "err:internal" || outcome.startsWith "escaped" then
        .violation "internal-error" "limit errors and other failures are user errors" tags
      else if outcome.startsWith "err:" then
        .violation "non-user-error" "limit errors and other failures are user errors" tags
      else .skip "bad-observation"
  | _ => .skip "unknown-op"

def main : IO Unit := runDriver judge
