import Verif.Util.Proto
import Verif.Model.Lang.SExpr
import Verif.Model.Lang.Eval
import Verif.Model.Lang.VM.Compile
/-!
Driver for the streams `evalorder` (C52) and `vmeq` (C34).

op:  `<stream> <label> once=<ids> max=<n> forms=<f,…> <source>`
go:  `<sx> @@ <obs interp> @@ <obs vm> @@ <obs vm+peephole>`,  obs = `<outcome>|<log;log;…>`

Direct oracles (independent of the model, judged first):
  * `engines-differ`      interpreter observation ≠ VM observation
  * `call-depth-counts-argument-nesting` (known finding) see `judgeObs`
  * `peephole-differs`    VM observation ≠ VM + peephole observation
                          (an engine that does not come back within its time bound is observed as `hang|`)
  * `order`               the ids `"#k"` (k ≤ max) in the interpreter's log are not strictly increasing
                          (ids are numbered in the evaluation order the language definition prescribes)
  * `evaluated-twice`     an id k ≤ max occurs more than once
  * `not-evaluated-once`  the run completed normally and an id of `once=` does not occur exactly once
Then the model: the S-expression of the checked program is read and run; its observation must equal
the interpreter's.
-/
open Verif.Proto Verif.Model.Lang Verif.Model.Lang.VM

def splitOn2 (s sep : String) : List String := s.splitOn sep

def cleanLog (l : String) : String := (l.replace ";" ",").replace "|" "/"

def renderRes (r : Res Value) : String × String :=
  let logs := ";".intercalate (r.tr.map cleanLog)
  match r.out with
  | .ok v => ("ok:" ++ v.render ++ "|" ++ logs, "ok")
  | .userErr k => ("user:" ++ k.name ++ "|" ++ logs, "e-" ++ k.name)
  | .internalErr k => ("model-internal:" ++ k.name ++ "|" ++ logs, "model-internal")
  | .outOfFuel => ("model-out-of-fuel|" ++ logs, "model-out-of-fuel")

/-- ids `"#k"` in a log -/
def logIds (logs : List String) : List Nat :=
  logs.filterMap fun l =>
    if l.startsWith "\"#" && l.endsWith "\"" then ((l.drop 2).dropEnd 1).toNat? else none

def strictlyIncreasing : List Nat → Bool
  | a :: b :: rest => a < b && strictlyIncreasing (b :: rest)
  | _ => true

def hasDup : List Nat → Bool
  | [] => false
  | a :: rest => rest.contains a || hasDup rest

def field (op : List String) (key : String) : String :=
  match op.find? (·.startsWith (key ++ "=")) with
  | some f => (f.drop (key.length + 1)).toString
  | none => ""

def parseObs (o : String) : String × List String :=
  match o.splitOn "|" with
  | out :: logs :: _ => (out, if logs.isEmpty then [] else logs.splitOn ";")
  | [out] => (out, [])
  | [] => ("", [])

/-! Shape of the known finding `conditional-result-not-boxed`: a conditional expression is the left
operand of `??` or the target of optional chaining (`?.`).  The interpreter does not box the value of a
conditional expression into its optional type; `??` then treats a non-nil left value as nil and `?.`
fails with an internal MemberAccessTypeError, while the VM handles both. -/
mutual
partial def exprHasUnboxedCond : Expr → Bool
  | .coalesce _ (.cond ..) _ => true
  | .member true (.cond ..) _ => true
  | .mcall true (.cond ..) _ _ => true
  | .unary _ e => exprHasUnboxedCond e
  | .binary _ a b | .and a b | .or a b | .coalesce _ a b | .index a b => exprHasUnboxedCond a || exprHasUnboxedCond b
  | .cond c t e => exprHasUnboxedCond c || exprHasUnboxedCond t || exprHasUnboxedCond e
  | .call _ as | .array _ as => as.any exprHasUnboxedCond
  | .dict _ _ es => es.any fun kv => exprHasUnboxedCond kv.1 || exprHasUnboxedCond kv.2
  | .member _ e _ | .force e => exprHasUnboxedCond e
  | .mcall _ r _ as => exprHasUnboxedCond r || as.any exprHasUnboxedCond
  | _ => false
partial def stmtHasUnboxedCond : Stmt → Bool
  | .decl _ _ _ e | .expr e | .ret (some e) => exprHasUnboxedCond e
  | .assign t _ e => exprHasUnboxedCond t || exprHasUnboxedCond e
  | .swap l _ r _ => exprHasUnboxedCond l || exprHasUnboxedCond r
  | .ite c t e => exprHasUnboxedCond c || t.any stmtHasUnboxedCond || (e.getD []).any stmtHasUnboxedCond
  | .while c b => exprHasUnboxedCond c || b.any stmtHasUnboxedCond
  | _ => false
end

def programHasUnboxedCond (p : Program) : Bool :=
  p.funs.any (·.body.any stmtHasUnboxedCond) ||
  p.structs.any fun sd => sd.methods.any (·.body.any stmtHasUnboxedCond) ||
    (match sd.init with | some (_, b) => b.any stmtHasUnboxedCond | none => false)

def isPrefixOf : List String → List String → Bool
  | [], _ => true
  | _ :: _, [] => false
  | a :: as, b :: bs => a == b && isPrefixOf as bs

/-- `shapes` = the fifth part of the Go result (`shapes=<s,…>`, only for ops with `depth=<limit>`). -/
def judgeObs (op : List String) (sx oi ov oo : String) (shapes : List String) : Verdict :=
    let forms := (field op "forms").splitOn ","
    let maxId := (field op "max").toNat?.getD 0
    let once := ((field op "once").splitOn ",").filterMap (·.toNat?)
    let (outI, logsI) := parseObs oi
    let ids := (logIds logsI).filter (· ≤ maxId)
    let tags0 := forms.filter (· ≠ "")
    -- direct oracles
    -- shape of the known finding: from the S-expression, or (program out of the fragment: not
    -- serialised) from the flag the harness computed on the real AST with the same predicate
    let oofFlag := "#unboxed-cond"
    let unboxedCond :=
      if sx.startsWith "oof:" then sx.endsWith oofFlag
      else ((readProgram sx).map programHasUnboxedCond).getD false
    let sx := if sx.startsWith "oof:" && sx.endsWith oofFlag then (sx.dropEnd oofFlag.length).toString else sx
    /- Known finding `call-depth-counts-argument-nesting` (ops with a configured stack-depth limit):
    the interpreter's limiter counts every invocation expression from before its arguments are
    evaluated, native functions included; the VM counts call frames of compiled functions.  The
    interpreter therefore reaches the limit first: it reports the call-depth error, the VM (with and
    without peephole) got at least as far (the interpreter's log is a prefix of the VM's), and the
    program contains a call inside an argument of a call or a call of a native function. -/
    let depthLim := (field op "depth").toNat?.getD 0
    let (outV, logsV) := parseObs ov
    let depthCounting := depthLim > 0 && oi ≠ ov && ov == oo && outI == "user:call-depth"
      && outV != "hang" && isPrefixOf logsI logsV && !shapes.isEmpty
    if depthCounting then
      .violation "call-depth-counts-argument-nesting" ("vm observation = interpreter observation = " ++ oi) (shapes ++ tags0)
    else if oi ≠ ov && ov == oo && unboxedCond then
      .violation "conditional-result-not-boxed" ("vm observation = interpreter observation = " ++ oi) tags0
    else if oi ≠ ov then .violation "engines-differ" ("vm observation = interpreter observation = " ++ oi) tags0
    else if ov ≠ oo then .violation "peephole-differs" ("vm+peephole observation = vm observation = " ++ ov) tags0
    else if hasDup ids then .violation "evaluated-twice" "each id at most once" tags0
    else if !strictlyIncreasing ids then .violation "order" "ids in increasing order" tags0
    else if outI.startsWith "ok:" && !(once.all fun k => ids.contains k) then
      .violation "not-evaluated-once" "every unconditional id exactly once" tags0
    else if sx.startsWith "oof:" then .skip ("out-of-fragment:" ++ (sx.drop 4).toString)
    else if sx.startsWith "reject:" then .skip "rejected-by-checker"
    else if outI.startsWith "user:computation-limit" then .skip "computation-limit"
    -- the model has no stack-depth limit
    else if depthLim > 0 && outI == "user:call-depth" then .skip "configured-depth-limit-reached"
    else
      match readProgram sx with
      | none => .skip "sx-unreadable"
      | some p =>
        let r := run p 4000
        let (m, tag) := renderRes r
        if tag == "model-internal" || tag == "model-out-of-fuel" then .skip (tag ++ ":" ++ (m.takeWhile (· ≠ '|')).toString)
        else if m != oi then .modelDiff m (tag :: tags0)
        else
          -- layer L0 programs are also compiled by the model compiler and run on the model VM, which
          -- must reproduce the real VM's observation
          match compile p with
          | none => .ok ("!nt" :: tag :: tags0)
          | some tbl =>
            let (mv, vtag) := renderRes (runVM tbl 200000)
            if vtag == "model-internal" || vtag == "model-out-of-fuel" then .modelDiff ("vm-model:" ++ mv) (tag :: tags0)
            else if mv == ov then .ok ("!nt" :: "vm-model" :: tag :: tags0)
            else .modelDiff ("vm-model:" ++ mv) ("vm-model" :: tag :: tags0)

def judge (op : List String) (go : String) : Verdict :=
  match go.splitOn " @@ " with
  | [sx, oi, ov, oo] => judgeObs op sx oi ov oo []
  | [sx, oi, ov, oo, sh] =>
    if sh.startsWith "shapes=" then judgeObs op sx oi ov oo (((sh.drop 7).toString.splitOn ",").filter (· ≠ ""))
    else .skip "bad-go-result"
  | _ =>
    -- the harness reports an escaped Go panic of the whole operation as `panic`, a run that did not
    -- come back within the per-operation timeout as `hang` (every run has a computation limit)
    if go == "panic" then .violation "go-panic-or-internal" "no Go panic escapes the runtime" []
    else if go == "hang" then .violation "engine-hang" "every run ends within the computation limit" []
    else .skip "bad-go-result"

def main : IO Unit := runDriver judge
