import Verif.Util.Proto
import Verif.Model.Cont
/-! Driver for stream `cont` (C20): `cont <engine> <shape> <history>  =>  <obs tx1>|<obs tx2>|…`.
The list / finite-map spec is the oracle: every difference is a VIOLATION, classified by the kind of
the first operation whose observation differs. -/
open Verif.Proto Verif.Spec.Containers Verif.Model.Cont

def parseStrTok (s : String) : Option (Char × Nat) :=
  match s.toList with
  | c :: rest => do
    let n ← (String.ofList rest).toNat?
    some (if n = 0 then 'a' else c, n)
  | [] => none

/-- an Int token: decimal, or `p<k>x<c>` = 2^k + c -/
def parseIntTok (s : String) : Option Int :=
  if s.startsWith "p" then
    match (s.drop 1).toString.splitOn "x" with
    | [k, c] => do some ((2 : Int) ^ (← k.toNat?) + (← c.toInt?))
    | _ => none
  else s.toInt?

def parseElem (t : String) (s : String) : Option Elem :=
  match t with
  | "I" => (parseIntTok s).map .int
  | "S" => (parseStrTok s).map fun (c, n) => .str c n
  | "A" => if s == "e" then some (.arr []) else ((s.splitOn ".").mapM String.toInt?).map .arr
  | "P" =>
    match s.splitOn "_" with
    | [a, b] => do
      let a ← parseIntTok a
      let (c, n) ← parseStrTok b
      some (.p a c n)
    | _ => none
  | _ => none

def parseList (t : String) (s : String) : Option (List Elem) :=
  if s == "-" then some [] else (s.splitOn "+").mapM (parseElem t)

def parseWhen (s : String) : Option When :=
  if s == "a" then some .after
  else if s.startsWith "b" then (s.drop 1).toString.toNat?.map .breakAt
  else s.toNat?.map .at

def parseOpBase (sh : List String) (s : String) : Option Op :=
  match sh with
  | [kind, et] =>
    if kind != "arr" && kind != "fix" then none else
    match s.splitOn "," with
    | ["ap", e] => (parseElem et e).map .append
    | ["aa", l] => (parseList et l).map .appendAll
    | ["in", i, e] => do some (.insert (← i.toInt?) (← parseElem et e))
    | ["rm", i] => i.toInt?.map .remove
    | ["rf"] => some .removeFirst
    | ["rl"] => some .removeLast
    | ["gt", i] => i.toInt?.map .read
    | ["st", i, e] => do some (.write (← i.toInt?) (← parseElem et e))
    | ["sl", a, b] => do some (.slice (← a.toInt?) (← b.toInt?) false)
    | ["SL", a, b] => do some (.slice (← a.toInt?) (← b.toInt?) true)
    | ["rv"] => some (.reverse false)
    | ["RV"] => some (.reverse true)
    | ["cc", l] => (parseList et l).map (.concat · false)
    | ["CC", l] => (parseList et l).map (.concat · true)
    | ["fl", k] => k.toNat?.map (.filter · false)
    | ["FL", k] => k.toNat?.map (.filter · true)
    | ["mp", k] => k.toNat?.map .map
    | ["ct", e] => (parseElem et e).map .contains
    | ["fi", e] => (parseElem et e).map .firstIndex
    | ["ln"] => some .length
    | ["tc", n] => n.toNat?.map .toConst
    | ["tv"] => some .toVar
    | _ => none
  | ["dict", kt, vt] =>
    match s.splitOn "," with
    | ["di", k, v] => do some (.dInsert (← parseElem kt k) (← parseElem vt v))
    | ["dr", k] => (parseElem kt k).map .dRemove
    | ["dg", k] => (parseElem kt k).map .dRead
    | ["ds", k, v] => do some (.dWrite (← parseElem kt k) (some (← parseElem vt v)))
    | ["dn", k] => (parseElem kt k).map (.dWrite · none)
    | ["dk"] => some .dKeys
    | ["dv"] => some .dValues
    | ["dc", k] => (parseElem kt k).map .dHas
    | ["df"] => some .dForEach
    | ["de", j] => j.toNat?.map .dForEachStop
    | ["it"] => some .dIterate
    | ["ln"] => some .length
    | _ => none
  | _ => none

/-- `im,<outer>,<nest>,<when>,<mutation op …>`: outer f|m|k, nest 0-3, when j | a | b<j> -/
def parseOp (sh : List String) (s : String) : Option Op :=
  match s.splitOn "," with
  | "im" :: o :: n :: w :: rest => do
    let outer ← (if o == "f" then some 0 else if o == "m" || o == "k" then some 1 else none)
    let nest ← n.toNat?
    let w ← parseWhen w
    let m ← parseOpBase sh (",".intercalate rest)
    if isMutation m && nest ≤ 3 then some (.iter outer nest w m) else none
  | _ => parseOpBase sh s

/-- a transaction: mode letter and operations -/
def parseTx (sh : List String) (s : String) : Option (String × List Op) :=
  match s.splitOn ":" with
  | [m, ops] => ((ops.splitOn ";").mapM (parseOp sh)).map fun o => (m, o)
  | _ => none

def zeroElem : String → Elem
  | "I" => .int 0 | "S" => .str 'a' 0 | "A" => .arr [] | _ => .p 0 'a' 0

def initCont (sh : List String) : Option Cont :=
  match sh with
  | ["arr", _] => some (.arr [])
  | ["fix", t] => some (.arr (List.replicate 4 (zeroElem t)))
  | ["dict", _, _] => some (.dict [])
  | _ => none

def q (s : String) : String := "\"" ++ s ++ "\""

def showElem : Elem → String
  | .int n => toString n
  | .str c n => q (strBody c n)
  | .lit s => q s
  | .arr xs => "[" ++ ", ".intercalate (xs.map toString) ++ "]"
  | .p a c n => s!"K.P(a: {a}, b: {q (strBody c n)})"

def insertStr (x : String) : List String → List String
  | [] => [x]
  | y :: ys => if x ≤ y then x :: y :: ys else y :: insertStr x ys
def sortStrs (xs : List String) : List String := xs.foldr insertStr []

def showList (xs : List Elem) : String := "[" ++ ", ".intercalate (xs.map showElem) ++ "]"

def showObs : Obs → String
  | .nat n => toString n
  | .elem e => showElem e
  | .optElem none => "nil"
  | .optElem (some e) => showElem e
  | .list xs => showList xs
  | .optList none => "nil"
  | .optList (some xs) => showList xs
  | .bool b => toString b
  | .optNat none => "nil"
  | .optNat (some n) => toString n
  | .bag xs => "[" ++ ", ".intercalate (sortStrs (xs.map showElem)) ++ "]"
  | .steps n len => q s!"{n}/{len}"

def showCont : Cont → String
  | .arr xs => showList xs
  | .dict d => "{" ++ ", ".intercalate (sortStrs (d.map fun e => showElem e.1 ++ ": " ++ showElem e.2)) ++ "}"

def showTx (o : TxObs Cont Obs Err) : String :=
  match o.outcome with
  | none => "ok[" ++ ";".intercalate (o.logs.map showObs ++ [showCont o.final]) ++ "]"
  | some .index => "err:index[" ++ ";".intercalate (o.logs.map showObs) ++ "]"
  | some .mutation => "err:mutation[" ++ ";".intercalate (o.logs.map showObs) ++ "]"

def opKind : Op → String
  | .append _ => "append" | .appendAll _ => "appendAll" | .insert .. => "insert" | .remove _ => "remove"
  | .removeFirst => "removeFirst" | .removeLast => "removeLast" | .read _ => "read" | .write .. => "write"
  | .slice _ _ a => if a then "slice-assign" else "slice" | .reverse a => if a then "reverse-assign" else "reverse"
  | .concat _ a => if a then "concat-assign" else "concat" | .filter _ a => if a then "filter-assign" else "filter"
  | .map _ => "map" | .contains _ => "contains" | .firstIndex _ => "firstIndex" | .length => "length"
  | .toConst _ => "toConstantSized" | .toVar => "toVariableSized"
  | .dInsert .. => "dict-insert" | .dRemove _ => "dict-remove" | .dRead _ => "dict-read" | .dWrite _ (some _) => "dict-write"
  | .dWrite _ none => "dict-write-nil" | .dKeys => "keys" | .dValues => "values" | .dHas _ => "containsKey"
  | .dForEach => "forEachKey" | .dForEachStop _ => "forEachKey-stop" | .dIterate => "dict-iterate"
  | .iter outer nest w _ =>
    "iter-" ++ (if outer == 0 then "for" else "fn") ++ s!"-nest{nest}-" ++
      (match w with | .at _ => "mutate-inside" | .after => "mutate-after" | .breakAt _ => "mutate-after-break")

def dedup (xs : List String) : List String := xs.foldl (fun acc x => if acc.contains x then acc else acc ++ [x]) []

def sizeTag (n : Nat) : String :=
  if n ≥ 512 then "size>=512" else if n ≥ 128 then "size>=128" else if n ≥ 32 then "size>=32" else "size<32"

/-- split "head[l1;l2]" into head and logs -/
def splitTxObs (s : String) : String × List String :=
  match s.splitOn "[" with
  | head :: rest =>
    let body := "[".intercalate rest
    let body := if body.endsWith "]" then (body.dropEnd 1).toString else body
    (head, if body.isEmpty then [] else body.splitOn ";")
  | [] => (s, [])

/-- class of the first difference: `<op>-wrong-result`, `<op>-wrong-outcome`, `final-contents-wrong` -/
def firstDiff (hist : List (List Op)) (model go : List String) : String :=
  let rec goTx : List (List Op) → List String → List String → Nat → String
    | tx :: txs, m :: ms, g :: gs, i =>
      if m == g then goTx txs ms gs (i + 1) else
        let (mh, ml) := splitTxObs m
        let (gh, gl) := splitTxObs g
        let rec goOp : List Op → List String → List String → Nat → String
          | op :: ops, a :: as, b :: bs, j => if a == b then goOp ops as bs (j + 1) else s!"{opKind op}-wrong-result op{j}"
          | op :: _, _, _, j => s!"{opKind op}-wrong-outcome op{j}"
          | [], a :: _, b :: _, _ => s!"final-contents-wrong machine={(a.take 200).toString} go={(b.take 200).toString}"
          | [], _, _, _ => "tx-wrong-outcome"
        let c := goOp tx ml gl 0
        if gh.startsWith "err:internal" || gh.startsWith "err:crash" then s!"go-panic-or-internal tx{i} {c} go={gh}"
        else s!"{c} tx{i}" ++ (if mh != gh then s!" go={gh} machine={mh}" else "")
    | _, _, _, _ => "tx-count"
  goTx hist model go 0

def judge (op : List String) (go : String) : Verdict :=
  match op with
  | ["cont", _engine, shape, h] =>
    if go == "computation-limit" || go == "program-too-large" then .skip go else
    let sh := shape.splitOn ":"
    match initCont sh, (h.splitOn "|").mapM (parseTx sh) with
    | some c0, some txs =>
      let hist := txs.map (·.2)
      if !(hist.all fun tx => tx.all fun o => wellKinded c0 o) then .skip "op-of-wrong-kind" else
      let (_, obs) := runHist stepT c0 hist
      let rendered := obs.map showTx
      let model := "|".intercalate rendered
      let maxSize := obs.foldl (fun m o => max m (size o.final)) 0
      let tags := dedup (shape :: sizeTag maxSize :: (txs.map fun t => "mode-" ++ t.1)
        ++ (obs.map fun o => match o.outcome with | none => "commit" | some .index => "abort-index" | some .mutation => "abort-mutation")
        ++ (hist.zip obs).flatMap fun (tx, o) => (tx.take (o.logs.length + 1)).map opKind)
      if go == model then .ok ("!nt" :: tags)
      else
        let d := firstDiff hist rendered (go.splitOn "|")
        match d.splitOn " " with
        | cls :: rest => .violation cls ("spec: " ++ " ".intercalate rest) tags
        | [] => .violation "wrong-observation" "" tags
    | _, _ => .skip "bad-op"
  | _ => .skip "unknown-op"

def main : IO Unit := runDriver judge
