import Verif.Util.Proto
import Verif.Model.Codec.CValueSx
import Verif.Model.Codec.Json
import Verif.Model.Codec.Ccf
import Verif.Util.CodecDrv
/-! Driver for stream `xcodec` (C43): ops `json <sx>`, `ccf <sx>`, `cmp <sx>`. -/
open Verif.Proto Verif.Model.Codec Verif.Model.Codec.Ccf Verif.Util.CodecDrv

namespace DrvXcodec

/-- class of a case in which the two decoders cannot agree because one codec does not round-trip -/
def knownClass (v : CValue) : Option String :=
  if hasFunctionValue v then some "ccf-function-value-not-decodable"
  else if valAny isAttachmentValue (fun _ => false) v then some "json-attachment-not-decodable"
  else if nilAmbiguous v v.typeOf then some "ccf-optional-nil-ambiguity"
  else if valAny (fun _ => false) hasSeenInInits v then some "json-initializer-repeats-field-type-not-decodable"
  else none

def judge (op : List String) (go : String) : Verdict :=
  match op with
  | ["xcodec", kind, sx] =>
    match parseValue sx with
    | none => .skip "bad-op"
    | some v =>
      let tags := [kind, kindTag v]
      if go == "panic" || go == "hang" then .violation "xcodec-panic" "value-or-error" tags else
      let cls := (knownClass v).getD "codecs-disagree"
      if kind == "json" then
        -- what JSON-Cadence decodes: the erased value
        let spec := "ok:" ++ showValue (erase v)
        if go == spec then .ok ("!nt" :: tags) else .violation cls spec tags
      else if kind == "ccf" then
        -- what CCF decodes, erased: dictionaries in the order of the encoded keys
        let spec := "ok:" ++ showValue (erase (canon (collect v) (eraseV v)))
        if go == spec then .ok ("!nt" :: tags) else .violation cls spec tags
      else if kind == "cmp" then
        if go.startsWith "agree:" then
          -- type IDs: where CCF gives a type it is the type of the value
          match (go.drop 6).toString.splitOn ":" with
          | which :: rest =>
            let id := ":".intercalate rest
            let want := v.typeOf.id
            if which != "none" && id != want then .violation "xcodec-type-id" want tags
            else .ok ("!nt" :: ("ids-" ++ which) :: tags)
          | _ => .skip "bad-result"
        else .violation cls "agree" tags
      else .skip "unknown-op"
  | _ => .skip "unknown-op"

end DrvXcodec

def main : IO Unit := runDriver DrvXcodec.judge
