import Verif.Util.Proto
import Verif.Model.Num.Types
import Verif.Model.Num.Text
import Verif.Spec.Text
/-! Driver for stream `text` (C17).  Ops (mode `d` direct Go call, `si`/`sv` script in interpreter / VM):
    `ts T raw` toString → `s:<hex of string>`;  `fs T <hex of string>` fromString → `nil` | `ok:<raw>`;
    `tb T raw` toBigEndianBytes → `b:<hex>`;   `fb T <hex>` fromBigEndianBytes → `nil` | `ok:<raw>`;
    `rts T raw` fromString(toString x), `rtb T raw` fromBigEndianBytes(toBigEndianBytes x) → `ok:<raw>`. -/
open Verif.Proto Verif.Model.NumT Verif.Model.Text Verif.Spec.Text

def bytesToChars (bs : List UInt8) : List Char := bs.map (fun b => Char.ofNat b.toNat)
def charsToHex (cs : List Char) : String := toHex (cs.map (fun c => UInt8.ofNat c.toNat))

def renderOpt : Option Int → String
  | some v => "ok:" ++ toString v
  | none => "nil"

def classify (go : String) : String :=
  if go == "nil" then "rejected-valid-input"
  else if go.startsWith "ok:" then "wrong-value-or-accepted-invalid-input"
  else if go.startsWith "err" then "error-instead-of-nil"
  else "go-panic-or-internal"

def kindTag (t : NumTy) : String :=
  (if t.signed then "signed" else "unsigned") ++ (if t.fixed then "-fixed" else "-int") ++
  (if t.bits = 0 then "-unbounded" else if t.bits ≤ 64 then "-native" else "-big")

def judge (op : List String) (go : String) : Verdict :=
  match op with
  | ["text", what, mode, tyS, arg] =>
    match NumTy.ofName? tyS with
    | none => .skip "bad-type"
    | some t =>
      let base := [kindTag t, "op-" ++ what, "mode-" ++ mode]
      match what with
      | "ts" | "rts" | "tb" | "rtb" =>
        match arg.toInt? with
        | none => .skip "bad-op"
        | some raw =>
          if ¬ t.inRange raw then .skip "out-of-range" else
          let tags := "!nt" :: base ++ (if raw < 0 then ["neg"] else [])
          if what == "ts" then
            let m := "s:" ++ charsToHex (toString t raw)
            -- spec: the printed string must parse back to the value
            let back := match (if go.startsWith "s:" then parseHex (go.drop 2).toString else none) with
              | some bs => specFromString t (bytesToChars bs)
              | none => none
            if back != some raw then .violation "tostring-does-not-parse-back" ("parses-to:" ++ toString raw) tags
            else if go == m then .ok tags else .modelDiff m tags
          else if what == "tb" then
            let m := "b:" ++ toHex (toBigEndianBytes t raw)
            if go == m then .ok tags else .modelDiff m tags
          else
            -- round trips: the spec is the identity
            let spec := "ok:" ++ toString raw
            let m := if what == "rts" then renderOpt (fromString t (toString t raw))
                     else renderOpt (fromBigEndianBytes t (toBigEndianBytes t raw))
            if go != spec then .violation ("roundtrip-" ++ classify go) spec tags
            else if go == m then .ok tags else .modelDiff m tags
      | "fs" =>
        match parseHex arg with
        | none => .skip "bad-op"
        | some bs =>
          if bs.any (fun b => b.toNat ≥ 128) then .skip "non-ascii" else
          let s := bytesToChars bs
          let spec := specFromString t s
          let m := fromString t s
          let lexTag := match lexNumber t.signed t.fixed s with
            | some _ => (match spec with | some _ => "accepted" | none => "grammar-ok-unrepresentable")
            | none => "grammar-reject"
          let tags := lexTag :: base
          let tags := if lexTag != "grammar-reject" || s.length > 1 then "!nt" :: tags else tags
          -- recorded finding (known_findings.d/C17.json): the fixed-point parser compares the fractional digits
          -- as written with the bound's fractional part at the type's scale, so a number whose integer part
          -- equals a bound's integer part and whose fraction has fewer than `scale` digits passes the range
          -- check and comes back as a wrapped value
          let knownUnscaled : Bool := match lexNumber t.signed t.fixed s with
            | some l => t.fixed && spec.isNone && go.startsWith "ok:" && l.fracDigits.length < t.scale
                && (((ofDigits l.intDigits : Nat) : Int) == (maxInt t).natAbs || ((ofDigits l.intDigits : Nat) : Int) == (minInt t).natAbs)
            | none => false
          if go != renderOpt spec then
            .violation (if knownUnscaled then "fixed-fromstring-fraction-compared-unscaled" else "fromstring-" ++ classify go)
              (renderOpt spec) tags
          else if go == renderOpt m then .ok tags else .modelDiff (renderOpt m) tags
      | "fb" =>
        match parseHex arg with
        | none => .skip "bad-op"
        | some bs =>
          let m := fromBigEndianBytes t bs
          let tooLong := t.byteSize ≠ 0 ∧ bs.length > t.byteSize
          let tags := "!nt" :: (if tooLong then "too-long" else if bs.length = t.byteSize then "full-size" else "short") :: base
          -- spec: nil exactly when longer than the type's size
          if (go == "nil") != decide tooLong then
            .violation ("frombytes-" ++ classify go) (if tooLong then "nil" else "non-nil") tags
          else if go == renderOpt m then .ok tags else .modelDiff (renderOpt m) tags
      | _ => .skip "unknown-op"
  | _ => .skip "unknown-op"

def main : IO Unit := runDriver judge
