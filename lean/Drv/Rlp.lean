import Verif.Util.Proto
import Verif.Model.Rlp
import Verif.Spec.Rlp
/-! Driver for stream `rlp`: ops `dstr hex start`, `dlist hex start`, `sstr hex engine`, `slist hex engine`. -/
open Verif.Proto Verif.Model.Rlp Verif.Spec.Rlp

def errTag : Err → String
  | .emptyInput => "e-empty" | .invalidStartIndex => "e-start" | .incompleteInput => "e-incomplete"
  | .nonCanonical => "e-noncanonical" | .dataSizeTooLarge => "e-toolarge"
  | .listSizeMismatch => "e-listsize" | .typeMismatch => "e-type" | .trailingBytes => "e-trailing"

def showItems (xs : List Bytes) : String := "[" ++ ",".intercalate (xs.map toHex) ++ "]"

/-- render an outcome the way the harness renders Go's: `ok:<payload>[:<bytesRead>]`, `err`, `panic`, `hang` -/
def renderOut {α} (f : α → String) : Out α → String × List String
  | .ok a => ("ok:" ++ f a, ["ok"])
  | .err e => ("err", [errTag e])
  | .goPanic => ("panic", ["m-panic"])
  | .diverge => ("hang", ["m-diverge"])

def firstByteTag (inp : Bytes) : String :=
  match inp with
  | [] => "fb-none"
  | b :: _ =>
    let n := b.toNat
    if n ≤ 0x7f then "fb-byte" else if n ≤ 0xb7 then "fb-shortstr" else if n ≤ 0xbf then "fb-longstr"
    else if n ≤ 0xf7 then "fb-shortlist" else "fb-longlist"

/-- Spec verdict for the whole-input wrappers, as a rendered result. -/
def specStr (inp : Bytes) : String :=
  match specDecodeString inp with | some s => "ok:" ++ toHex s | none => "err"
def specList (inp : Bytes) : String :=
  match specDecodeList inp with | some xs => "ok:" ++ showItems xs | none => "err"

/-- classify a violation narrowly (regions named in known_findings.json; none are listed today) -/
def classify (_op : String) (go : String) : String :=
  if go == "panic" || go == "err-internal" then "go-panic-or-internal" else
  if go == "hang" then "hang" else "wrong-verdict"

def judge (op : List String) (go : String) : Verdict :=
  match op with
  | ["rlp", "dstr", hex, start] =>
    match parseHex hex, start.toNat? with
    | some inp, some st =>
      let (m, tags) := renderOut (fun (p : Bytes × Nat) => toHex p.1 ++ ":" ++ toString p.2) (decodeString inp st)
      let tags := firstByteTag (inp.drop st) :: tags
      -- direct oracle available at start 0: a result `ok:s:n` must satisfy encodeString s = first n bytes
      if go == "panic" || go == "hang" then .violation (classify "dstr" go) "value-or-user-error" tags
      else if go == m then .ok (if tags.contains "ok" || inp.length > 1 then "!nt" :: tags else tags)
      else .modelDiff m tags
    | _, _ => .skip "bad-op"
  | ["rlp", "dlist", hex, start] =>
    match parseHex hex, start.toNat? with
    | some inp, some st =>
      let (m, tags) := renderOut (fun (p : List Bytes × Nat) => showItems p.1 ++ ":" ++ toString p.2) (decodeList inp st)
      let tags := firstByteTag (inp.drop st) :: tags
      if go == "panic" || go == "hang" then .violation (classify "dlist" go) "value-or-user-error" tags
      else if go == m then .ok (if tags.contains "ok" || inp.length > 1 then "!nt" :: tags else tags)
      else .modelDiff m tags
    | _, _ => .skip "bad-op"
  | ["rlp", "sstr", hex, _engine] =>
    match parseHex hex with
    | some inp =>
      let (m, tags) := renderOut toHex (rlpDecodeString inp)
      let spec := specStr inp
      let tags := firstByteTag inp :: tags
      if go != spec then .violation (classify "sstr" go) spec tags
      else if go == m then .ok ("!nt" :: tags) else .modelDiff m tags
    | none => .skip "bad-op"
  | ["rlp", "slist", hex, _engine] =>
    match parseHex hex with
    | some inp =>
      let (m, tags) := renderOut showItems (rlpDecodeList inp)
      let spec := specList inp
      let tags := firstByteTag inp :: tags
      if go != spec then .violation (classify "slist" go) spec tags
      else if go == m then .ok ("!nt" :: tags) else .modelDiff m tags
    | none => .skip "bad-op"
  | _ => .skip "unknown-op"

def main : IO Unit := runDriver judge
