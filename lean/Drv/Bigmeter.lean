import Std.Data.HashMap
import Verif.Util.Proto
import Verif.Model.Num.Basic
import Verif.Gen.NumGo
import Verif.Spec.BigMeter
/-!
Driver for stream `bigmeter` (C32).

  bigmeter <Int|UInt> <Method> <a> <b>  =>  m:<metered bytes>,s:<result bytes> | err:<kind>

The **spec** (`Verif.Spec.BigMeter`): the amount metered by the real code must be at least the size of
the result the real code produced — `m < s` is a VIOLATION, judged on Go's own two numbers and
therefore independent of the model.  Then the tie: `s` must equal `8 · words(exact result)` (math/big
modelled as `Int`) and `m` must equal the generated formula `Verif.Gen.NumGo.Metering.*` (MODELDIFF
otherwise).  Narrow classes for the two known under-reporting formulas:
* `bigint-shr-metering-divides-bit-shift-by-word-bytes`: `>>`, operand ≥ 0, shift ≠ 0 (the branch that
  subtracts `b / 8` words instead of `b / 64`);
* `bigint-mod-metering-subtracts-divisor-length`: `%`, second branch of the formula
  (`¬(a < b ∨ |b| = 1)`, `|b| < 100`): `|a| − |b| + 5` words for a remainder of up to `|b|` words.
-/
open Verif.Proto Verif.Model.Num Verif.Spec.BigMeter

def meterMap : Std.HashMap String (Int → Int → Except NumErr Int) := Std.HashMap.ofList Verif.Gen.NumGo.meterTable

def opOf : String → Option (MOp × String)
  | "Plus" => some (.plus, "NewPlusBigIntMemoryUsage") | "Minus" => some (.minus, "NewMinusBigIntMemoryUsage")
  | "Mul" => some (.mul, "NewMulBigIntMemoryUsage") | "Div" => some (.div, "NewDivBigIntMemoryUsage")
  | "Mod" => some (.mod, "NewModBigIntMemoryUsage") | "BitwiseOr" => some (.or, "NewBitwiseOrBigIntMemoryUsage")
  | "BitwiseXor" => some (.xor, "NewBitwiseXorBigIntMemoryUsage") | "BitwiseAnd" => some (.and, "NewBitwiseAndBigIntMemoryUsage")
  | "BitwiseLeftShift" => some (.shl, "NewBitwiseLeftShiftBigIntMemoryUsage")
  | "BitwiseRightShift" => some (.shr, "NewBitwiseRightShiftBigIntMemoryUsage")
  | "Negate" => some (.neg, "NewNegateBigIntMemoryUsage")
  | _ => none

/-- the exact result (`none`: the operation fails or is too large to write down) -/
def exactOf : MOp → Int → Int → Option Int
  | .plus, a, b => some (a + b) | .minus, a, b => some (a - b) | .mul, a, b => some (a * b)
  | .div, a, b => if b = 0 then none else some (Int.tdiv a b)
  | .mod, a, b => if b = 0 then none else some (Int.tmod a b)
  | .or, a, b => some (Go.lor a b) | .xor, a, b => some (Go.xor a b) | .and, a, b => some (Go.land a b)
  | .shl, a, b => if b < 0 ∨ b > 100000 then none else some (a * (2 : Int) ^ b.toNat)
  | .shr, a, b => if b < 0 ∨ b > 100000 then none else some (a / (2 : Int) ^ b.toNat)
  | .neg, a, _ => some (-a)

def knownClass (op : MOp) (a b : Int) : Option String :=
  match op with
  | .shr => if a ≥ 0 ∧ b ≠ 0 then some "bigint-shr-metering-divides-bit-shift-by-word-bytes" else none
  | .mod => if ¬ (a < b ∨ words b = 1) ∧ words b < 100 then some "bigint-mod-metering-subtracts-divisor-length" else none
  | _ => none

def lenTag (w : Nat) : String :=
  if w = 0 then "0" else if w = 1 then "1" else if w ≤ 40 then "2-40" else if w < 100 then "41-99" else "100+"

def judge (op : List String) (go : String) : Verdict :=
  match op with
  | ["bigmeter", ty, method, sa, sb] =>
    match opOf method, sa.toInt?, sb.toInt? with
    | some (mop, fn), some a, some b =>
      if go.startsWith "err" || go == "panic" || go == "nil" then
        -- failing operations produce no result to meter: division by zero, UInt negate / underflow
        (match exactOf mop a b with
         | none => .ok ["op-fails", "m-" ++ method]
         | some r => if ty == "UInt" ∧ (r < 0 ∨ mop == .neg) then .ok ["op-fails", "m-" ++ method]
                     else .violation "spurious-error" "m:_,s:_" ["m-" ++ method])
      else
      match go.splitOn ",", exactOf mop a b with
      | [ms, ss], some r =>
        match (ms.drop 2).toNat?, (ss.drop 2).toNat? with
        | some m, some s =>
          let tags := ["m-" ++ method, ty, "wa-" ++ lenTag (words a), "wb-" ++ lenTag (words b)] ++
            (if a < 0 then ["a-neg"] else []) ++ (if b < 0 then ["b-neg"] else [])
          let tags := if words a > 0 then "!nt" :: tags else tags
          if m < s then
            .violation ((knownClass mop a b).getD "metered-less-than-result-size")
              ("metered >= " ++ toString s) ("under-reported" :: tags)
          else if (s : Int) ≠ resultBytes r then
            .modelDiff ("s:" ++ toString (resultBytes r)) ("result-size" :: tags)
          else match meterMap.get? fn with
            | none => .ok ("untranslated" :: tags)
            | some f =>
              match f a b with
              | .ok mm => if mm = (m : Int) then .ok tags else .modelDiff ("m:" ++ toString mm) tags
              | .error e => .modelDiff ("err:" ++ e.name) tags
        | _, _ => .skip "bad-observation"
      | _, _ => .skip "not-evaluated"
    | _, _, _ => .skip "bad-op"
  | _ => .skip "unknown-op"

def main : IO Unit := runDriver judge
