import Verif.Util.Proto
import Verif.Model.Types.TypeID
/-! Driver for stream `typeid` (C45): ops `ty`, `perm`, `loc`, `dec`, `ctor`, `imp`; encodings as in
    `stream_typeid.go`. -/
open Verif.Proto Verif.Model.Types.Loc Verif.Model.Types.TID

def unfield (s : String) : String := if s == "-" then "" else s
def tofield (s : String) : String := if s == "" then "-" else s
def str (l : Str) : String := String.ofList l

def parseHexBytes (s : String) : Option (List UInt8) := hexDecode s.toList

/-- LOC token -/
def parseLoc (s : String) : Option (Option Location) :=
  if s == "nil" then some none
  else if s == "REPL" then some (some .repl)
  else match s.splitOn ":" with
    | ["A", h, n] => (parseHexBytes h).map (fun b => some (.address b n.toList))
    | "S" :: rest => some (some (.string (":".intercalate rest).toList))
    | "I" :: rest => some (some (.identifier (":".intercalate rest).toList))
    | ["t", h] => (parseHexBytes h).map (fun b => some (.transaction b))
    | ["s", h] => (parseHexBytes h).map (fun b => some (.script b))
    | _ => none

def parseNom (s : String) : Option Nominal :=
  match s.splitOn "#" with
  | [l, q] => (parseLoc l).map (fun loc => { loc := loc, qid := q.toList })
  | _ => none

def parseNoms (l : List String) : Option (List Nominal) := allSome (l.map parseNom)

def parseAuth (s : String) : Option SAuth :=
  if s == "u" then some .unauth
  else if s.startsWith "c:" then (parseNoms ((s.drop 2).toString.splitOn ",")).map (.set .conj)
  else if s.startsWith "d:" then (parseNoms ((s.drop 2).toString.splitOn ",")).map (.set .disj)
  else if s.startsWith "m:" then (parseNom (s.drop 2).toString).map .map
  else none

mutual
def parseTy : Nat → List String → Option (STy × List String)
  | 0, _ => none
  | fuel + 1, toks =>
    match toks with
    | "p" :: n :: rest => some (.prim n.toList, rest)
    | "o" :: rest => (parseTy fuel rest).map (fun (t, r) => (.opt t, r))
    | "va" :: rest => (parseTy fuel rest).map (fun (t, r) => (.varArr t, r))
    | "ca" :: n :: rest => match n.toNat? with
      | some n => (parseTy fuel rest).map (fun (t, r) => (.constArr t n, r))
      | none => none
    | "d" :: rest => match parseTy fuel rest with
      | some (k, r) => (parseTy fuel r).map (fun (v, r') => (.dict k v, r'))
      | none => none
    | "r" :: a :: rest => match parseAuth a with
      | some a => (parseTy fuel rest).map (fun (t, r) => (.ref a t, r))
      | none => none
    | "comp" :: n :: rest => (parseNom n).map (fun n => (.comp n, rest))
    | "if" :: n :: rest => (parseNom n).map (fun n => (.iface n, rest))
    | "in" :: n :: rest => match n.toNat? with
      | some n => (parseNoms (rest.take n)).map (fun is => (.inter is, rest.drop n))
      | none => none
    | "f" :: purity :: n :: rest => match n.toNat? with
      | some n => match parseParams fuel n rest with
        | some (ps, r) => (parseTy fuel r).map (fun (ret, r') => (.fn (purity == "view") ps ret, r'))
        | none => none
      | none => none
    | "capany" :: rest => some (.capAny, rest)
    | "cap" :: rest => (parseTy fuel rest).map (fun (t, r) => (.cap t, r))
    | "rng" :: rest => (parseTy fuel rest).map (fun (t, r) => (.range t, r))
    | _ => none
def parseParams : Nat → Nat → List String → Option (STy × List String)
  | 0, _, _ => none
  | _ + 1, 0, rest => some (.nilT, rest)
  | fuel + 1, n + 1, toks => match parseTy fuel toks with
    | some (t, r) => (parseParams fuel n r).map (fun (ps, r') => (.consT t ps, r'))
    | none => none
end

def parseType (s : String) : Option STy :=
  let toks := (s.splitOn " ").filter (· != "")
  match parseTy (toks.length + 1) toks with
  | some (t, []) => some t
  | _ => none

def authNoms : SAuth → List Nominal
  | .unauth => [] | .set _ es => es | .map m => [m]

/-- every nominal type mentioned in the type (they are all declared: the environment of the lookups) -/
def nomsOf : STy → List Nominal
  | .opt t => nomsOf t | .varArr t => nomsOf t | .constArr t _ => nomsOf t
  | .dict k v => nomsOf k ++ nomsOf v
  | .ref a t => authNoms a ++ nomsOf t
  | .comp n => [n] | .iface n => [n] | .inter is => is
  | .fn _ p r => nomsOf p ++ nomsOf r | .consT t r => nomsOf t ++ nomsOf r
  | .cap t => nomsOf t | .range t => nomsOf t
  | _ => []

def paramList : STy → List STy
  | .consT t r => t :: paramList r
  | _ => []

def headTag : STy → String
  | .prim _ => "prim" | .opt _ => "opt" | .varArr _ => "varArr" | .constArr .. => "constArr" | .dict .. => "dict"
  | .ref .unauth _ => "ref-unauth" | .ref (.set .conj _) _ => "ref-conj" | .ref (.set .disj _) _ => "ref-disj"
  | .ref (.map _) _ => "ref-map"
  | .comp _ => "comp" | .iface _ => "iface" | .inter _ => "inter" | .fn .. => "fn"
  | .capAny => "cap" | .cap _ => "cap" | .range _ => "range" | _ => "other"

def locTag : Option Location → String
  | none => "nil" | some (.address ..) => "address" | some (.string _) => "string" | some (.identifier _) => "identifier"
  | some (.transaction _) => "transaction" | some (.script _) => "script" | some .repl => "repl"

/-- a string / identifier location whose name contains '.' (the known finding's region) -/
def dottedLoc : Option Location → Bool
  | some (.string s) => !noDot s
  | some (.identifier s) => !noDot s
  | _ => false

def fieldOf (sep : String) (go key : String) : String :=
  match (go.splitOn sep).find? (fun f => f.startsWith (key ++ "=")) with
  | some f => (f.drop (key.length + 1)).toString
  | none => ""

def bit (b : Bool) : String := if b then "1" else "0"

def locString : Option Location → String
  | none => "nil|-|-"
  | some (.address a n) => "A|" ++ str (hexEncode a) ++ "|" ++ tofield (str n)
  | some (.string s) => "S|" ++ tofield (str s) ++ "|-"
  | some (.identifier s) => "I|" ++ tofield (str s) ++ "|-"
  | some (.transaction i) => "t|" ++ str (hexEncode i) ++ "|-"
  | some (.script i) => "s|" ++ str (hexEncode i) ++ "|-"
  | some .repl => "REPL|-|-"

def decString (s : Str) : String :=
  match decodeTypeID s with
  | .ok (l, q) => "dec=" ++ locString l ++ "|" ++ tofield (str q)
  | .error _ => "dec=err"

def mkLoc (kind id name : String) : Option (Option Location) :=
  let id := unfield id; let name := unfield name
  match kind with
  | "nil" => some none
  | "A" => (parseHexBytes id).map (fun b => some (.address b name.toList))
  | "S" => some (some (.string id.toList))
  | "I" => some (some (.identifier id.toList))
  | "t" => (parseHexBytes id).map (fun b => some (.transaction b))
  | "s" => (parseHexBytes id).map (fun b => some (.script b))
  | "REPL" => some (some .repl)
  | _ => none

/-- the run-time constructor for the head of the type, applied to the converted components -/
def ctorModel (env : Env) : STy → Option DTy
  | .opt t => some (ctorOptional (toStatic t))
  | .varArr t => some (ctorVarArr (toStatic t))
  | .constArr t n => some (ctorConstArr (toStatic t) n)
  | .dict k v => ctorDict true (toStatic k) (toStatic v)      -- the generator only uses hashable keys
  | .ref a t => ctorReference env ((authNoms a).map Nominal.id) (toStatic t)
  | .comp n => ctorComposite env n.id
  | .inter is => ctorIntersection env true (is.map Nominal.id)   -- the generator never mixes kinds
  | .fn _ p r => ctorFunction env ((paramList p).map toStatic) (toStatic r)
  | .cap t => ctorCap (toStatic t)
  | .range t => ctorRange true (toStatic t)                  -- the generator only uses integer members
  | _ => none

def judge (op : List String) (go : String) : Verdict :=
  match op with
  | ["typeid", "ty", a] =>
    match parseType a with
    | some t =>
      let env := nomsOf t
      let s := fieldOf "  " go "s"; let d := fieldOf "  " go "d"; let x := fieldOf "  " go "x"
      let i := fieldOf "  " go "i"; let rt := fieldOf "  " go "rt"
      let ms := str (semaID t); let md := str (staticID (toStatic t)); let mx := str (extID (exportTy t))
      let mi := match importTy (exportTy t) with | some dt => str (staticID dt) | none => "-"
      let back := toSema env (toStatic t)
      let mrt := match back with | some t' => bit (t.equal t') | none => "E"
      let dotted := (nomsOf t).any (fun n => dottedLoc n.loc)
      let tags := ["ty", "h-" ++ headTag t, "rt-" ++ mrt] ++ (env.map (fun n => "loc-" ++ locTag n.loc)).eraseDups ++
        (if env.isEmpty then [] else ["!nt"])
      if s == "E" || d == "E" || x == "E" then .violation "go-panic-or-internal" "an ID in every representation" tags
      else if s != d || s != x || (i != "-" && i != s) then
        .violation "ids-disagree" "checker ID = static ID = exported ID = imported ID" tags
      else if rt != "1" && dotted && mrt == "E" then
        .violation "typeid-dotted-location-type-load" "checker -> run-time -> checker yields an equal type" tags
      else if rt != "1" then .violation "convert-roundtrip" "checker -> run-time -> checker yields an equal type" tags
      else
        let m := "s=" ++ ms ++ "  d=" ++ md ++ "  x=" ++ mx ++ "  i=" ++ mi ++ "  rt=" ++ mrt
        if go == m then .ok tags else .modelDiff m tags
    | none => .skip "bad-type"
  | ["typeid", "perm", a, b] =>
    match parseType a, parseType b with
    | some ta, some tb =>
      let m := "s=" ++ bit (semaID ta == semaID tb) ++ " d=" ++ bit (staticID (toStatic ta) == staticID (toStatic tb)) ++
        " x=" ++ bit (extID (exportTy ta) == extID (exportTy tb)) ++ " eq=" ++ bit (ta.equal tb) ++ bit (ta.equal tb) ++ bit (ta.equal tb)
      let tags := ["perm", "h-" ++ headTag ta] ++ (if ta != tb then ["!nt"] else [])
      if go != "s=1 d=1 x=1 eq=111" then
        .violation "order-dependent-identity" "types that differ only in the order of set members are equal and have one ID" tags
      else if go == m then .ok tags else .modelDiff m tags
    | _, _ => .skip "bad-type"
  | ["typeid", "loc", kind, id, name, qid] =>
    match mkLoc kind id name with
    | some loc =>
      let q := (unfield qid).toList
      let tid := typeID loc q
      let m := "tid=" ++ tofield (str tid) ++ "  " ++ decString tid
      let want := "dec=" ++ locString loc ++ "|" ++ tofield (str q)
      let dec := decodable loc q
      let tags := ["loc", "k-" ++ locTag loc, if dec then "decodable" else "not-decodable"] ++ (if dec then ["!nt"] else [])
      let goDec := "dec=" ++ fieldOf "  " go "dec"
      if goDec != want && dottedLoc loc then
        .violation "typeid-dotted-location-decode" "decodeTypeID (typeID loc qid) = (loc, qid)" ("dotted" :: tags)
      else if goDec != want && dec then
        .violation "decode-roundtrip" "decodeTypeID (typeID loc qid) = (loc, qid)" tags
      else if go == m then .ok tags else .modelDiff m tags
    | none => .skip "bad-location"
  | ["typeid", "dec", s] =>
    let m := decString (unfield s).toList
    let tags := ["dec", if m == "dec=err" then "err" else "ok", "!nt"]
    if go == m then .ok tags else .modelDiff m tags
  | ["typeid", "ctor", engine, a] =>
    match parseType a with
    | some t =>
      let env := nomsOf t
      let want := toStatic t
      let c := ctorModel env t
      let mc := match c with | some dt => str (staticID dt) | none => "nil"
      let m := "c=" ++ mc ++ "  t=" ++ str (staticID want) ++ "  eq=" ++ bit (c == some want)
      let tags := ["ctor", engine, "h-" ++ headTag t, if c == some want then "constructible" else "not-constructible", "!nt"]
      if go.startsWith "err:user" then .skip "script-rejected"
      else if go.startsWith "err" then .violation "go-panic-or-internal" "a type value or nil" tags
      else if c == some want && (fieldOf "  " go "c" != fieldOf "  " go "t" || fieldOf "  " go "eq" != "1") then
        .violation "constructor-differs" "the run-time constructor builds the type Type<T>() denotes" tags
      else if go == m then .ok tags else .modelDiff m tags
    | none => .skip "bad-type"
  | ["typeid", "imp", engine, name] =>
    let e : Nominal := { loc := some (.string name.toList), qid := ['E', '1'] }
    let found := (lookupEntitlement [e] e.id).isSome
    let tags := ["imp", engine, if found then "loads" else "load-fails", "!nt"]
    let goOk := go.startsWith "ok"
    if !goOk && dottedLoc e.loc then
      .violation "typeid-dotted-location-type-load" "a program the checker accepts can use its imported entitlement" tags
    else if !goOk then .violation "type-load" "a program the checker accepts can use its imported entitlement" tags
    else if found then .ok tags else .modelDiff "err" tags
  | _ => .skip "unknown-op"

def main : IO Unit := runDriver judge
